#!/usr/bin/env python3
"""AST scan of /repo/shexer for places where a result could depend on something other than the
arguments (property C19): Python set creation and iteration (order follows the per-process string
hash seed), the random / uuid / time modules, hash(), id(), directory listings, argument-less
.pop()/.popitem(), rdflib BNode() (random id).  Set algebra counts as set creation: the difference /
intersection / union of dictionary views (d.keys() - e.keys(), d.items() & ...) and of sets, and the set
methods difference / union / intersection / symmetric_difference / copy, are set-valued, so iterating them
is an iterate-set site.

Besides the pattern sites, corpus/C19/sites.json lists REVIEWED FUNCTIONS ("reviewed_functions": file +
qualified name): functions free of such patterns whose statement order nevertheless decides the insertion
order of a dictionary the output is read from (dictionary merges).  Each yields a site of kind
"reviewed-function" whose code is the SHA-256 of the function's normalised source (ast.unparse: comments and
layout do not count), so that ANY edit of the function re-opens its review.

Nothing is imported or executed.  A site is identified by (file, enclosing function, kind,
normalised source of the node) -- not by line number, so unrelated edits do not move it.

usage: scan_oracle_sites.py [repo_root]            print the sites as JSON
       scan_oracle_sites.py [repo_root] --update   rewrite corpus/C19/sites.json keeping the
                                                   dispositions already recorded
"""
import ast
import hashlib
import json
import os
import sys
import warnings

warnings.filterwarnings("ignore")

HERE = os.path.dirname(os.path.abspath(__file__))
SITES = os.path.join(HERE, "..", "corpus", "C19", "sites.json")

SET_OPS = (ast.Sub, ast.BitAnd, ast.BitOr, ast.BitXor)
SET_METHODS = {"difference", "union", "intersection", "symmetric_difference", "copy"}
VIEW_METHODS = {"keys", "items"}

NONDET_MODULES = {"random", "uuid", "secrets", "time", "datetime", "tempfile", "threading", "multiprocessing"}
LISTING_CALLS = {("os", "listdir"), ("os", "walk"), ("os", "scandir"), ("glob", "glob"), ("glob", "iglob")}
ORDER_CONSUMERS = {"list", "tuple", "iter", "next", "enumerate", "zip", "map", "filter", "reversed"}


def _src(node):
    try:
        s = ast.unparse(node)
    except Exception:  # pragma: no cover
        s = ast.dump(node)
    return " ".join(s.split())[:160]


def _is_dict_view(node):
    return (isinstance(node, ast.Call) and isinstance(node.func, ast.Attribute) and node.func.attr in VIEW_METHODS
            and not node.args and not node.keywords)


def _is_set_expr(node):
    if isinstance(node, (ast.Set, ast.SetComp)):
        return True
    if isinstance(node, ast.BinOp) and isinstance(node.op, SET_OPS) and (
            _is_dict_view(node.left) or _is_dict_view(node.right) or _is_set_expr(node.left) or _is_set_expr(node.right)):
        return True          # d.keys() - e.keys(), d.items() & e.items(), set(..) | x : a set whatever the other operand
    if isinstance(node, ast.Call) and isinstance(node.func, ast.Name) and node.func.id in ("set", "frozenset"):
        return True
    if isinstance(node, ast.IfExp):
        return _is_set_expr(node.body) or _is_set_expr(node.orelse)
    return False


class Ctx(object):
    """whole-repository facts, computed to a fixed point before the sites are collected"""
    def __init__(self):
        self.set_attrs = set()         # attribute names bound to a set somewhere (x.<attr> = set() / alias of one)
        self.returning = set()         # names of functions / methods that return a set
        self.set_params = set()        # (function name, parameter name) receiving a set at some call site
        self.reviewed = set()          # (file, qualified function name) pinned by the hash of their source


class Scanner(ast.NodeVisitor):
    def __init__(self, rel, ctx):
        self.rel = rel
        self.ctx = ctx
        self.stack = []
        self.sites = []
        self.set_names = [set()]       # per function: local names bound to a set
        self.nondet_names = set()      # names imported from nondeterministic modules
        self.defs = {}                 # function name -> list of parameter names (this file)

    def add(self, kind, node):
        self.sites.append({"file": self.rel, "function": ".".join(self.stack) or "<module>", "kind": kind,
                           "code": _src(node)})

    # ---- structure
    def visit_ClassDef(self, node):
        self.stack.append(node.name)
        self.generic_visit(node)
        self.stack.pop()

    def visit_FunctionDef(self, node):
        self.stack.append(node.name)
        self.set_names.append(set())
        if (self.rel, ".".join(self.stack)) in self.ctx.reviewed:
            src = " ".join(ast.unparse(node).split())
            self.sites.append({"file": self.rel, "function": ".".join(self.stack), "kind": "reviewed-function",
                               "code": "sha256:" + hashlib.sha256(src.encode("utf-8")).hexdigest()})
        # which local names hold a set: parameters known to receive one, then assignments (to a fixed point)
        for a in node.args.args + node.args.kwonlyargs:
            if (node.name, a.arg) in self.ctx.set_params:
                self.set_names[-1].add(a.arg)
        for _ in range(3):
            for n in ast.walk(node):
                if isinstance(n, ast.Assign) and self._is_set_valued(n.value):
                    for t in n.targets:
                        if isinstance(t, ast.Name):
                            self.set_names[-1].add(t.id)
                        elif isinstance(t, ast.Attribute):
                            self.ctx.set_attrs.add(t.attr)
        self.generic_visit(node)
        for n in ast.walk(node):
            if isinstance(n, ast.Return) and n.value is not None and self._is_set_valued(n.value):
                self.add("returns-set", n)
                self.ctx.returning.add(node.name)
            if isinstance(n, ast.Call):           # a set handed to another function: its parameter holds a set
                fname = n.func.id if isinstance(n.func, ast.Name) else (n.func.attr if isinstance(n.func, ast.Attribute) else None)
                if fname:
                    for i, a in enumerate(n.args):
                        if self._is_set_valued(a):
                            self.ctx.set_params.add((fname, ("#", i)))
                    for kw in n.keywords:
                        if kw.arg and self._is_set_valued(kw.value):
                            self.ctx.set_params.add((fname, kw.arg))
        pos = [a.arg for a in node.args.args if a.arg != "self"]
        for (fname, prm) in list(self.ctx.set_params):
            if fname == node.name and isinstance(prm, tuple) and prm[1] < len(pos):
                self.ctx.set_params.add((fname, pos[prm[1]]))
        self.set_names.pop()
        self.stack.pop()

    visit_AsyncFunctionDef = visit_FunctionDef

    def _is_set_valued(self, node):
        if _is_set_expr(node):
            return True
        if isinstance(node, ast.BinOp) and isinstance(node.op, SET_OPS) and (
                self._is_set_valued(node.left) or self._is_set_valued(node.right)):
            return True
        if (isinstance(node, ast.Call) and isinstance(node.func, ast.Attribute) and node.func.attr in SET_METHODS
                and (self._is_set_valued(node.func.value) or _is_dict_view(node.func.value))):
            return True
        if isinstance(node, ast.Name) and node.id in self.set_names[-1]:
            return True
        if isinstance(node, ast.Attribute) and node.attr in self.ctx.set_attrs:
            return True
        if isinstance(node, ast.Call):
            f = node.func
            fname = f.id if isinstance(f, ast.Name) else (f.attr if isinstance(f, ast.Attribute) else None)
            if fname in self.ctx.returning:
                return True
        if isinstance(node, ast.IfExp):
            return self._is_set_valued(node.body) or self._is_set_valued(node.orelse)
        return False

    # ---- sites
    def visit_Import(self, node):
        for a in node.names:
            if a.name.split(".")[0] in NONDET_MODULES:
                self.add("import-nondeterministic-module", node)
        self.generic_visit(node)

    def visit_ImportFrom(self, node):
        if node.module and node.module.split(".")[0] in NONDET_MODULES:
            self.add("import-nondeterministic-module", node)
            for a in node.names:
                self.nondet_names.add(a.asname or a.name)
        self.generic_visit(node)

    def visit_Set(self, node):
        self.add("set-display", node)
        self.generic_visit(node)

    def visit_SetComp(self, node):
        self.add("set-comprehension", node)
        self.generic_visit(node)

    def visit_Call(self, node):
        f = node.func
        if isinstance(f, ast.Name):
            if f.id in ("set", "frozenset"):
                self.add("set-call", node)
            elif f.id in ("hash", "id"):
                self.add("%s-call" % f.id, node)
            elif f.id == "BNode" and not node.args and not node.keywords:
                self.add("fresh-bnode", node)
            elif f.id in self.nondet_names:
                self.add("nondeterministic-call", node)
            elif f.id in ORDER_CONSUMERS and node.args and self._is_set_valued(node.args[0]):
                self.add("set-to-sequence", node)
        elif isinstance(f, ast.Attribute):
            if isinstance(f.value, ast.Name) and f.value.id in NONDET_MODULES:
                self.add("nondeterministic-call", node)
            elif isinstance(f.value, ast.Name) and (f.value.id, f.attr) in LISTING_CALLS:
                self.add("directory-listing", node)
            elif f.attr in ("pop", "popitem") and not node.args and not node.keywords:
                self.add("argless-pop", node)
            elif f.attr == "join" and node.args and self._is_set_valued(node.args[0]):
                self.add("set-to-sequence", node)
        self.generic_visit(node)

    def visit_For(self, node):
        if self._is_set_valued(node.iter):
            self.add("iterate-set", ast.Expr(value=node.iter))
        self.generic_visit(node)

    def visit_comprehension(self, node):
        if self._is_set_valued(node.iter):
            self.add("iterate-set", ast.Expr(value=node.iter))
        self.generic_visit(node)


def scan(repo):
    root = os.path.join(repo, "shexer")
    trees = []
    for dp, dn, fn in os.walk(root):
        dn.sort()
        for f in sorted(fn):
            if not f.endswith(".py"):
                continue
            p = os.path.join(dp, f)
            with open(p, encoding="utf-8") as fh:
                trees.append((os.path.relpath(p, repo), ast.parse(fh.read(), filename=p)))
    ctx = Ctx()
    ctx.reviewed = {(f["file"], f["function"]) for f in load_reviewed()}
    sites = []
    for _ in range(4):                     # facts flow between files: iterate to a fixed point
        before = (len(ctx.set_attrs), len(ctx.returning), len(ctx.set_params))
        sites = []
        for rel, tree in trees:
            sc = Scanner(rel, ctx)
            sc.visit(tree)
            sites.extend(sc.sites)
        if before == (len(ctx.set_attrs), len(ctx.returning), len(ctx.set_params)):
            break
    return sites, sorted(ctx.returning)


def key(s):
    return (s["file"], s["function"], s["kind"], s["code"])


def load_recorded():
    if not os.path.exists(SITES):
        return []
    with open(SITES) as f:
        return json.load(f)["sites"]


def load_reviewed():
    if not os.path.exists(SITES):
        return []
    with open(SITES) as f:
        return json.load(f).get("reviewed_functions", [])


def compare(repo):
    """-> (new sites, vanished sites, all current sites)"""
    cur, _ = scan(repo)
    rec = load_recorded()
    ck = {}
    for s in cur:
        ck[key(s)] = ck.get(key(s), 0) + 1
    rk = {}
    for s in rec:
        rk[key(s)] = rk.get(key(s), 0) + s.get("count", 1)
    new = [dict(zip(("file", "function", "kind", "code"), k), count=n - rk.get(k, 0)) for k, n in ck.items()
           if n > rk.get(k, 0)]
    gone = [dict(zip(("file", "function", "kind", "code"), k)) for k in rk if k not in ck]
    return new, gone, cur


def main():
    args = [a for a in sys.argv[1:] if not a.startswith("--")]
    repo = args[0] if args else os.environ.get("VERIF_REPO", "/repo")
    if "--update" in sys.argv:
        cur, returning = scan(repo)
        old = {key(s): s for s in load_recorded()}
        load_reviewed_before = load_reviewed()
        out = {}
        for s in cur:
            k = key(s)
            if k in out:
                out[k]["count"] += 1
            else:
                out[k] = dict(s, count=1, disposition=old.get(k, {}).get("disposition", "TODO review"))
        os.makedirs(os.path.dirname(SITES), exist_ok=True)
        with open(SITES, "w") as f:
            json.dump({"comment": "nondeterminism sites of /repo/shexer found by tools/scan_oracle_sites.py, each with "
                                  "the reviewer's disposition; compared with a fresh scan on every C19 run; reviewed_functions: "
                                  "pattern-free functions pinned by the SHA-256 of their normalised source (kind "
                                  "reviewed-function)",
                       "functions_returning_sets": returning, "reviewed_functions": load_reviewed_before,
                       "sites": list(out.values())}, f, indent=1)
        print("%d sites (%d distinct) written" % (len(cur), len(out)))
        return 0
    new, gone, cur = compare(repo)
    print(json.dumps({"n_sites": len(cur), "new": new, "vanished": gone}, indent=1))
    return 1 if new else 0


if __name__ == "__main__":
    sys.exit(main())
