#!/usr/bin/env python3
"""Checks that DESIGN.md and MANIFEST.json only name things that exist:
  * every identifier that looks like a theorem / definition of the development (C07_T1, C05_run_wellformed,
    BAlg_laws, run_shexc ...) and is written between backquotes in DESIGN.md, or appears as Cxx_name in MANIFEST.json,
    is defined somewhere under rocq/theories;
  * every finding id (C04-F2, C07-X-0a5a576, ...) is an entry of known_findings.json, and is described with the
    status it has there when the text says "fixed" / "known" right next to it (not checked: free prose);
  * every 7-hex commit that is named exists in /repo's history (fix commits) or in /verif's own history (evidence /
    seed commits such as ce2410d).
A FORMER id of a repaired finding (C04-F2 for C04-X-e73c6a2, C06-F7r for C06-X-5a4aa62, ...: the names the theorems, the
corpus files and the commit messages still use) is accepted when an entry of known_findings.json records it under `was` /
`former_ids` or when tools/clean_findings.py lists it as SUPERSEDED (= its defect was repaired; a `known` entry under
that id would be dropped).
A finding id may be written with a wildcard tail (C11-X-3370abe-* for C11-X-3370abe-bnode and -nonliteral): an id
that is a proper prefix of existing ids, or an existing id followed by a further "-word" taken from the prose, is fine.
exit 0 when clean, 1 otherwise (prints what is dangling)."""
import json, os, re, subprocess, sys

ROOT = os.path.dirname(os.path.dirname(os.path.abspath(__file__)))
REPO = os.environ.get("VERIF_REPO", "/repo")


def coq_names():
    names = set()
    pat = re.compile(r"^\s*(?:Local\s+|Global\s+|#\[[^\]]*\]\s*)*(?:Theorem|Lemma|Corollary|Example|Definition|Fixpoint|"
                     r"Inductive|Record|Fact|Remark|Proposition|Function|Notation|Ltac|Module|Section|Variant|Class|"
                     r"Instance|Program Definition|Program Fixpoint|Equations)\s+([A-Za-z_][A-Za-z0-9_']*)", re.M)
    ctor = re.compile(r"^\s*\|\s*([A-Za-z_][A-Za-z0-9_']*)", re.M)
    field = re.compile(r"[{;]\s*([a-z_][A-Za-z0-9_']*)\s*:", re.M)
    withp = re.compile(r"^\s*with\s+([A-Za-z_][A-Za-z0-9_']*)", re.M)
    for d, _, fs in os.walk(os.path.join(ROOT, "rocq", "theories")):
        for f in fs:
            if f.endswith(".v"):
                t = open(os.path.join(d, f), errors="replace").read()
                for p in (pat, ctor, field, withp):
                    names.update(p.findall(t))
    return names


def main():
    names = coq_names()
    kf = {f["id"]: f for f in json.load(open(os.path.join(ROOT, "known_findings.json")))["findings"]}
    commits = set(subprocess.run(["git", "-C", REPO, "log", "--format=%h", "--abbrev=7"], capture_output=True,
                                 text=True).stdout.split())
    own = set(subprocess.run(["git", "-C", ROOT, "log", "--all", "--format=%h", "--abbrev=7"], capture_output=True,
                             text=True).stdout.split())
    former = set()
    for f in kf.values():
        w = f.get("was", []), f.get("former_ids", [])
        for x in w:
            former.update([x] if isinstance(x, str) else x)
    m = re.search(r'SUPERSEDED = set\("""(.*?)"""', open(os.path.join(ROOT, "tools", "clean_findings.py")).read(), re.S)
    if m:
        former.update(m.group(1).split())
    design = open(os.path.join(ROOT, "DESIGN.md")).read()
    # only the as-built parts are held to this standard (sections 1-10 are the design written before the code)
    built = design.split("## 0. One-paragraph summary")[0] + "## 11." + design.split("## 11.", 1)[-1]
    manifest = open(os.path.join(ROOT, "MANIFEST.json")).read()
    bad = []
    ticks = set(re.findall(r"`([A-Za-z_][A-Za-z0-9_']*)`", built))
    looks_coq = re.compile(r"^(C\d\d_|P1_|E2E_|K\d_|BAlg|QAlg|run_|div64|add64|round64)")
    for n in sorted(ticks):
        if looks_coq.match(n) and n not in names and n.rstrip("_") not in names:
            if not any(m.startswith(n) for m in names if n.endswith("_")):
                bad.append("DESIGN.md names `%s`: not defined under rocq/theories" % n)
    for n in sorted(set(re.findall(r"\b(C\d\d_[A-Za-z0-9_']+)", manifest + built))):
        n2 = n.rstrip("_").rstrip("'")
        if n2 not in names and n not in names and not any(m.startswith(n2) for m in names):
            bad.append("name %s (MANIFEST.json / DESIGN.md): not defined under rocq/theories" % n)
    for fid in sorted(set(re.findall(r"\b(C\d\d-(?:F\d+r?|R\d+|X-[0-9a-f]{7}(?:-[a-z]+)?))\b", built + manifest))):
        base = re.sub(r"^(C\d\d-X-[0-9a-f]{7})-[a-z]+$", r"\1", fid)
        if fid in former and fid not in kf:
            continue
        if fid not in kf and base not in kf and not any(k.startswith(fid + "-") or k.startswith(base + "-") for k in kf):
            bad.append("finding id %s is not in known_findings.json" % fid)
    for c in sorted(set(re.findall(r"\b([0-9a-f]{7})\b", built))):
        if re.search(r"[a-f]", c) and re.search(r"[0-9]", c) and c not in commits and c not in own:
            # hex-looking words that are not commits (hashes of replays etc.) are rare in the text; report them
            bad.append("DESIGN.md names commit %s: neither in %s's history nor in /verif's" % (c, REPO))
    for f in kf.values():
        if f["status"] == "fixed":
            for c in str(f.get("commit", "")).split("+"):
                if c and c[:7] not in commits:
                    bad.append("known_findings.json %s: commit %s not in %s's history" % (f["id"], c, REPO))
    for b in bad:
        print(b)
    print("check_docs: %d problem(s); %d Coq names, %d findings, %d commits known" % (len(bad), len(names), len(kf), len(commits)))
    return 1 if bad else 0


if __name__ == "__main__":
    sys.exit(main())
