#!/bin/sh
# usage: tools/rebase_seed.sh <Cxx-mk>   -- a seeded change whose patch no longer applies to /repo HEAD (the repairs
# moved the code) is re-based: the patch is applied at the newest ancestor commit where it still applies, committed
# there and cherry-picked onto HEAD in a scratch worktree; the demonstration must still exit 0 without / 1 with the
# re-based change and the suite must stay at the baseline; then seeded/<id>/patch.diff is replaced (the original is
# kept as patch.orig.diff).
s="$1"; HERE="$(cd "$(dirname "$0")/.." && pwd)"; D="$HERE/seeded/$s"; S=/tmp/rebase.$$
[ -f "$D/patch.diff" ] || { echo "no such seed"; exit 2; }
git -C /repo worktree add -q --detach "$S" HEAD || exit 2
trap 'git -C /repo worktree remove --force "$S" >/dev/null 2>&1' EXIT INT TERM
if git -C "$S" apply --check "$D/patch.diff" 2>/dev/null; then echo "$s applies to HEAD as it is"; exit 0; fi
base=""
for c in $(git -C /repo log --format=%h -n 80); do
  git -C "$S" checkout -q --detach "$c"
  if git -C "$S" apply --check "$D/patch.diff" 2>/dev/null; then base="$c"; break; fi
done
[ -n "$base" ] || { echo "$s: applies to no ancestor"; exit 1; }
git -C "$S" apply "$D/patch.diff" && git -C "$S" -c user.name=seed -c user.email=seed@x commit -qam seed || exit 1
sc="$(git -C "$S" rev-parse HEAD)"
git -C "$S" checkout -q --detach "$(git -C /repo rev-parse HEAD)"
if ! git -C "$S" -c user.name=seed -c user.email=seed@x cherry-pick "$sc" >/dev/null 2>&1; then
  echo "$s: conflict when re-basing from $base (needs a hand)"; git -C "$S" cherry-pick --abort 2>/dev/null; exit 1; fi
git -C "$S" diff HEAD~1 HEAD > /tmp/rebased.$$.diff
/venv/bin/python "$D/demo.py" "$S" >/dev/null 2>&1; d1=$?
git -C "$S" checkout -q --detach "$(git -C /repo rev-parse HEAD)"
/venv/bin/python "$D/demo.py" "$S" >/dev/null 2>&1; d0=$?
git -C "$S" apply /tmp/rebased.$$.diff
suite="$(cd "$S" && /venv/bin/python -m pytest -q -p no:cacheprovider --timeout=900 2>&1 | grep -E '[0-9]+ passed' | tail -1)"
echo "$s: re-based from $base; demo unchanged=$d0 changed=$d1; suite: $suite"
case "$suite" in *"20 failed, 182 passed"*) ;; *) echo "  suite differs: NOT replaced"; rm -f /tmp/rebased.$$.diff; exit 1;; esac
if [ "$d0" = 0 ] && [ "$d1" != 0 ]; then
  [ -f "$D/patch.orig.diff" ] || cp "$D/patch.diff" "$D/patch.orig.diff"
  cp /tmp/rebased.$$.diff "$D/patch.diff"; echo "  replaced $D/patch.diff (original kept as patch.orig.diff, made at $base)"
else echo "  demonstration no longer discriminates: NOT replaced"; fi
rm -f /tmp/rebased.$$.diff
