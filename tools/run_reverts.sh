#!/bin/sh
# Regression seeds for free: every "fix:" commit recorded as fixed in known_findings.json is reverted on a private
# scratch worktree of /repo and the quick check of its property has to report the violation again ("a fixed entry
# suppresses nothing").  One line per (property, commit): CAUGHT … / MISSED / SKIP (the reverse patch no longer applies).
# usage: [REVERT_ONLY="<commit> ..."] tools/run_reverts.sh [Cxx ...]
HERE="$(cd "$(dirname "$0")/.." && pwd)"
cd "$HERE" || exit 2
mkdir -p work/reverts
/venv/bin/python - "$@" <<'PY' > work/reverts/list.txt
import json, sys
want = set(sys.argv[1:])
seen = set()
for f in json.load(open("known_findings.json"))["findings"]:
    if f["status"] != "fixed":
        continue
    for c in str(f.get("commit", "")).split("+"):
        k = (f["property"], c)
        if c and k not in seen and (not want or f["property"] in want):
            seen.add(k); print(f["property"], c)
PY
while read p c; do
  if [ -n "$REVERT_ONLY" ]; then case " $REVERT_ONLY " in *" $c "*) ;; *) continue;; esac; fi
  d="work/reverts/$c.diff"
  git -C /repo show --format= "$c" -- . > "$d.fwd" 2>/dev/null || { echo "$p $c SKIP unknown-commit"; continue; }
  # the reverse of the fix, as a patch against HEAD
  S=/tmp/revrepo.$$
  git -C /repo worktree add -q --detach "$S" HEAD || exit 2
  if git -C "$S" apply -R "$HERE/$d.fwd" 2>/dev/null; then
    git -C "$S" diff > "$d"
    git -C /repo worktree remove --force "$S" >/dev/null 2>&1
  else
    git -C /repo worktree remove --force "$S" >/dev/null 2>&1
    echo "$p $c SKIP reverse-does-not-apply"; continue
  fi
  out="$(tools/try_patch.sh "$d" "$p" 2>&1)"
  if echo "$out" | grep "^VIOLATION" | grep -vq "no-failing-input-found"; then v="CAUGHT failing-input"
  elif echo "$out" | grep -q "^VIOLATION"; then v="CAUGHT no-failing-input-found"
  elif echo "$out" | grep -q "exit=0"; then v="MISSED"
  else v="ERROR $(echo "$out" | tail -1 | cut -c1-160)"; fi
  echo "$p $c $v"
done < work/reverts/list.txt
