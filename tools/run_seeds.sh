#!/bin/sh
# Runs every seeded change under seeded/<Cxx>-m<k>/ against the quick check of its property (private scratch
# worktree of /repo, VERIF_REPO) and prints one line per seed: caught with a failing input / caught without /
# missed.  usage: tools/run_seeds.sh [<Cxx>-m<k> ...]
HERE="$(cd "$(dirname "$0")/.." && pwd)"
cd "$HERE" || exit 2
SEEDS="$*"; [ -n "$SEEDS" ] || SEEDS="$(ls seeded | grep -E '^C[0-9]+-m[0-9]+$')"
for s in $SEEDS; do
  p="${s%%-*}"
  if grep -q '"retired"' "seeded/$s/meta.json" 2>/dev/null; then echo "$s $p RETIRED (see meta.json)"; continue; fi
  out="$(tools/try_patch.sh "seeded/$s/patch.diff" "$p" 2>&1)"
  if echo "$out" | grep -q "^VIOLATION.*no-failing-input-found"; then
    if echo "$out" | grep "^VIOLATION" | grep -vq "no-failing-input-found"; then v="CAUGHT failing-input"; else v="CAUGHT no-failing-input-found"; fi
  elif echo "$out" | grep -q "^VIOLATION"; then v="CAUGHT failing-input"
  elif echo "$out" | grep -q "exit=0"; then v="MISSED"
  else v="ERROR $(echo "$out" | tail -1)"; fi
  echo "$s $p $v"
done
