#!/bin/sh
# Runs the quick check of every claimed property on the UNCHANGED tree under several values of VERIF_SEED: a
# VIOLATION or a non-zero exit here is a false alarm or an unlisted finding and has to be dealt with before the
# check is trusted.  usage: tools/seed_sweep.sh "<seeds>" [Cxx ...]
HERE="$(cd "$(dirname "$0")/.." && pwd)"
cd "$HERE" || exit 2
SEEDS="${1:-2 3 4}"; shift
PROPS="$*"; [ -n "$PROPS" ] || PROPS="C01 C02 C03 C04 C05 C06 C07 C08 C09 C10 C11 C12 C13 C14 C15 C16 C17 C18 C19 C20"
bad=0
for s in $SEEDS; do
  for p in $PROPS; do
    out="$(VERIF_SEED=$s bin/check "$p" quick 2>&1)"; rc=$?
    echo "seed=$s $p exit=$rc $(echo "$out" | grep -E '^(OK|VIOLATION|INTERNAL)' | head -3 | tr '\n' ' ' | cut -c1-260)"
    [ $rc -eq 0 ] || bad=1
  done
done
exit $bad
