#!/usr/bin/env python3
"""Regenerate rocq/theories/Gen/ConstsC15.v from /repo's Python source (AST only).

Constants of the endpoint path that Model/Endpoint.v and the C15 theorems
mention: the SPARQL-JSON keys the result reader looks at, the prefixes that
make a string "a URI" for add_corners_if_it_is_an_uri / _is_an_unprefixed_iri,
the rule deriving the LIMIT from instances_cap / limit_remote_instances, and
the Shaper defaults of the endpoint-only parameters.  Fail-closed (exit 3):
anything not recognised is an error, never a guess.  Kept separate from
tools/gen_consts.py so that builder branches merge; harness/vp/props/c15.py
runs it before every build.

Usage: gen_consts_c15.py [repo_root] [out_file]
"""
import ast
import os
import sys
import warnings
warnings.filterwarnings("ignore")

REPO = sys.argv[1] if len(sys.argv) > 1 else os.environ.get("VERIF_REPO", "/repo")
OUT = sys.argv[2] if len(sys.argv) > 2 else os.path.join(
    os.path.dirname(os.path.abspath(__file__)), "..", "rocq", "theories", "Gen", "ConstsC15.v")


class Fail(Exception):
    pass


def parse(rel):
    p = os.path.join(REPO, rel)
    with open(p, encoding="utf-8") as f:
        return ast.parse(f.read(), filename=p)


def coq_str(s):
    if not isinstance(s, str) or any(ord(c) < 32 or ord(c) > 126 for c in s):
        raise Fail("not a printable ASCII string: %r" % (s,))
    return '(Str "%s")' % s.replace('"', '""')


def module_str_consts(tree):
    out = {}
    for node in tree.body:
        if isinstance(node, ast.Assign) and len(node.targets) == 1 and isinstance(node.targets[0], ast.Name) \
                and isinstance(node.value, ast.Constant) and isinstance(node.value.value, str):
            out[node.targets[0].id] = node.value.value
    return out


def find_def(tree, name, cls=None):
    body = tree.body
    if cls is not None:
        for node in tree.body:
            if isinstance(node, ast.ClassDef) and node.name == cls:
                body = node.body
                break
        else:
            raise Fail("class %s not found" % cls)
    for node in body:
        if isinstance(node, ast.FunctionDef) and node.name == name:
            return node
    raise Fail("function %s not found" % name)


def lit_tuple(node):
    if isinstance(node, (ast.Tuple, ast.List)) and all(isinstance(e, ast.Constant) for e in node.elts):
        return [e.value for e in node.elts]
    return None


def startswith_args(fn):
    """string constants c of every  <expr>.startswith(c)  in the function, in source order"""
    out = []
    for node in ast.walk(fn):
        if isinstance(node, ast.Call) and isinstance(node.func, ast.Attribute) and node.func.attr == "startswith" \
                and len(node.args) == 1 and isinstance(node.args[0], ast.Constant) and isinstance(node.args[0].value, str):
            out.append((node.lineno, node.col_offset, node.args[0].value))
    return [c for _, _, c in sorted(out)]


def shaper_default(tree, name):
    init = find_def(tree, "__init__", "Shaper")
    args = init.args.args[1:]
    defaults = init.args.defaults
    if len(args) != len(defaults):
        raise Fail("Shaper.__init__: positional parameter without default")
    for a, d in zip(args, defaults):
        if a.arg == name:
            if isinstance(d, ast.Constant):
                return d.value
            if isinstance(d, ast.UnaryOp) and isinstance(d.op, ast.USub) and isinstance(d.operand, ast.Constant):
                return -d.operand.value
            raise Fail("default of %s is not a literal" % name)
    raise Fail("Shaper.__init__ has no parameter %s" % name)


# ---- C15-F7 / C15-F8 (appended): what RdflibSgraph.add_triple stores for a literal.  Two accepted texts of
# add_triple + _turn_obj_into_rdflib_element (compared as ASTs: comments, docstrings and layout do not matter).
_LSG_OLD = '''
class RdflibSgraph(SGraph):
    def add_triple(self, a_triple):
        subj = tune_subj(add_corners_if_it_is_an_uri(a_triple[_S]),
                         raise_error_if_no_corners=False)
        prop = tune_prop(add_corners_if_it_is_an_uri(a_triple[_P]),
                         raise_error_if_no_corners=False)
        obj = tune_token(add_corners_if_it_is_an_uri(a_triple[_O]),
                         raise_error_if_no_corners=False)

        self._rdflib_graph.add((self._turn_obj_into_rdflib_element(subj),
                                self._turn_obj_into_rdflib_element(prop),
                                self._turn_obj_into_rdflib_element(obj)))

    def _turn_obj_into_rdflib_element(self, model_elem):
        if type(model_elem) == ModelIRI or type(model_elem) == ModelProperty:
            return URIRef(model_elem.iri)
        elif type(model_elem) == ModelLiteral:
            return Literal(lexical_or_value=str(model_elem),
                           datatype=model_elem.elem_type,
                           normalize=False)
        elif type(model_elem) == ModelBnode:
            return BNode(value=str(model_elem))
        else:
            raise ValueError("Unexpected type of element. " + str(model_elem) + ": " + str(type(model_elem)))
'''

_LSG_NEW = '''
class RdflibSgraph(SGraph):
    def add_triple(self, a_triple):
        subj = tune_subj(add_corners_if_it_is_an_uri(a_triple[_S]),
                         raise_error_if_no_corners=False)
        prop = tune_prop(add_corners_if_it_is_an_uri(a_triple[_P]),
                         raise_error_if_no_corners=False)
        obj = tune_token(add_corners_if_it_is_an_uri(a_triple[_O]),
                         raise_error_if_no_corners=False)

        self._rdflib_graph.add((self._turn_obj_into_rdflib_element(subj),
                                self._turn_obj_into_rdflib_element(prop),
                                self._turn_obj_into_rdflib_element(obj, raw_token=a_triple[_O])))

    def _turn_obj_into_rdflib_element(self, model_elem, raw_token=None):
        if type(model_elem) == ModelIRI or type(model_elem) == ModelProperty:
            return URIRef(model_elem.iri)
        elif type(model_elem) == ModelLiteral:
            lexical_form, lang = self._lexical_form_and_lang(model_elem, raw_token)
            if lang is not None:
                return Literal(lexical_or_value=lexical_form,
                               lang=lang)
            return Literal(lexical_or_value=lexical_form,
                           datatype=model_elem.elem_type,
                           normalize=False)
        elif type(model_elem) == ModelBnode:
            return BNode(value=str(model_elem))
        else:
            raise ValueError("Unexpected type of element. " + str(model_elem) + ": " + str(type(model_elem)))

    @staticmethod
    def _lexical_form_and_lang(model_elem, raw_token):
        if raw_token is None or not raw_token.startswith('"') or raw_token.rfind('"') == 0:
            return str(model_elem), None
        index_of_last_quotes = raw_token.rfind('"')
        suffix = raw_token[index_of_last_quotes + 1:]
        lang = suffix[1:] if suffix.startswith("@") and _LANG_TAG.fullmatch(suffix[1:]) else None
        return raw_token[1:index_of_last_quotes], lang
'''
_LANG_TAG_REGEX = "[a-zA-Z]+(-[a-zA-Z0-9]+)*"


def _strip_docstring(fn):
    if fn.body and isinstance(fn.body[0], ast.Expr) and isinstance(fn.body[0].value, ast.Constant) \
            and isinstance(fn.body[0].value.value, str):
        fn.body = fn.body[1:]
    return fn


def _dump_methods(tree, names):
    """AST dumps (docstrings dropped) of the named methods of RdflibSgraph"""
    out = {}
    for node in tree.body:
        if isinstance(node, ast.ClassDef) and node.name == "RdflibSgraph":
            for f in node.body:
                if isinstance(f, ast.FunctionDef) and f.name in names:
                    out[f.name] = ast.dump(_strip_docstring(f))
    return out


def c15_cache_literal(w, rs):
    names = ["add_triple", "_turn_obj_into_rdflib_element", "_lexical_form_and_lang"]
    got = _dump_methods(rs, names)
    old = _dump_methods(ast.parse(_LSG_OLD), names)
    new = _dump_methods(ast.parse(_LSG_NEW), names)
    if got == old:
        token = False
    elif got == new:
        tag = [n.value for n in rs.body if isinstance(n, ast.Assign) and getattr(n.targets[0], "id", "") == "_LANG_TAG"]
        if len(tag) != 1 or not (isinstance(tag[0], ast.Call) and getattr(tag[0].func, "attr", "") == "compile"
                                 and len(tag[0].args) == 1 and isinstance(tag[0].args[0], ast.Constant)
                                 and tag[0].args[0].value == _LANG_TAG_REGEX and not tag[0].keywords):
            raise Fail("rdflib_sgraph.py: _LANG_TAG is not re.compile(%r)" % _LANG_TAG_REGEX)
        token = True
    else:
        raise Fail("RdflibSgraph.add_triple / _turn_obj_into_rdflib_element: neither the old text (the literal is "
                   "rebuilt from the model Literal) nor the new one (lexical form and language tag read from the token)")
    w("(* the local graph of the cache stores a literal rebuilt from the model Literal -- content cut at its first inner")
    w("   quote, no language tag (false: findings C15-F7, C15-F8) -- or the lexical form between the first and the last")
    w("   quote of the token with its well-formed language tag (true) *)")
    w("Definition lsg_token_literal : bool := %s." % ("true" if token else "false"))


def c15_all_classes_tau(w):
    """produce_shape_map_according_to_input, all_classes_mode: sgraph.yield_classes_with_instances() -- the classes
    of rdf:type whatever the instantiation property (finding C15-F9) -- or
    sgraph.yield_classes_with_instances(instantiation_property=instantiation_property)"""
    ty = parse("shexer/utils/factories/triple_yielders_factory.py")
    f = find_def(ty, "produce_shape_map_according_to_input")
    calls = [n for n in ast.walk(f) if isinstance(n, ast.Call) and isinstance(n.func, ast.Attribute)
             and n.func.attr == "yield_classes_with_instances"]
    if len(calls) != 1 or not (isinstance(calls[0].func.value, ast.Name) and calls[0].func.value.id == "sgraph"):
        raise Fail("produce_shape_map_according_to_input: expected one sgraph.yield_classes_with_instances(...)")
    c = calls[0]
    if not c.args and not c.keywords:
        passes = False
    elif (not c.args and len(c.keywords) == 1 and c.keywords[0].arg == "instantiation_property"
          and isinstance(c.keywords[0].value, ast.Name) and c.keywords[0].value.id == "instantiation_property") or \
         (not c.keywords and len(c.args) == 1 and isinstance(c.args[0], ast.Name) and c.args[0].id == "instantiation_property"):
        passes = True
    else:
        raise Fail("produce_shape_map_according_to_input: unexpected arguments of yield_classes_with_instances")
    # the default the parameterless call falls back to
    es = parse("shexer/model/graph/endpoint_sgraph.py")
    g = find_def(es, "yield_classes_with_instances", "EndpointSGraph")
    names = [a.arg for a in g.args.args]
    if names != ["self", "instantiation_property"] or len(g.args.defaults) != 1 \
            or not (isinstance(g.args.defaults[0], ast.Name) and g.args.defaults[0].id == "RDF_TYPE"):
        raise Fail("EndpointSGraph.yield_classes_with_instances: default instantiation property is not RDF_TYPE")
    imp = [a.name for n in es.body if isinstance(n, ast.ImportFrom) and n.module == "shexer.consts" for a in n.names]
    if "RDF_TYPE" not in imp:
        raise Fail("endpoint_sgraph.py: RDF_TYPE is not shexer.consts.RDF_TYPE")
    w("(* all_classes_mode against an endpoint lists the classes of the instantiation property (true) or of RDF_TYPE (false) *)")
    w("Definition all_classes_passes_tau : bool := %s." % ("true" if passes else "false"))


def main():
    out = ["(* GENERATED by tools/gen_consts_c15.py from /repo -- do not edit. *)",
           "From Coq Require Import List Ascii String ZArith Bool.",
           "From Shexer Require Import Lib.PyStr.", "Import ListNotations.", ""]
    w = out.append

    # ---- io/sparql/query.py: the keys / type tag of the result reader
    q = module_str_consts(parse("shexer/io/sparql/query.py"))
    for k in ["_RESULTS_KEY", "_BINDINGS_KEY", "_VALUE_KEY", "_TYPE_KEY", "_URI_TYPE", "_XML_LANG_FIELD"]:
        if k not in q:
            raise Fail("query.py: %s not found" % k)
        w("Definition q%s : str := %s." % (k, coq_str(q[k])))
    # _add_lang_if_needed: old shape  result += '"' + result + '"@' + lang  (the value is doubled, the datatype never read);
    # new shape: for literal bindings  '"' + value + '"'  followed by  '@' + lang  or  '^^<' + datatype + '>'
    qtree = parse("shexer/io/sparql/query.py")
    f = find_def(qtree, "_add_lang_if_needed")
    aug = [n for n in ast.walk(f) if isinstance(n, ast.AugAssign)]
    consts = sorted(n.value for n in ast.walk(f) if isinstance(n, ast.Constant) and isinstance(n.value, str)
                    and not (isinstance(n.value, str) and "\n" in n.value))
    if len(aug) == 1 and isinstance(aug[0].op, ast.Add) and consts == ['"', '"@'] \
            and [n.id for n in ast.walk(aug[0].value) if isinstance(n, ast.Name)].count("result") == 1:
        old_reader = True
    else:
        tests = [n for n in ast.walk(f) if isinstance(n, ast.Compare) and isinstance(n.ops[0], ast.In)
                 and isinstance(n.comparators[0], ast.Name) and n.comparators[0].id == "_LITERAL_TYPES"]
        lt = [lit_tuple(n.value) for n in qtree.body if isinstance(n, ast.Assign) and isinstance(n.targets[0], ast.Name)
              and n.targets[0].id == "_LITERAL_TYPES"]
        if len(tests) != 1 or lt != [["literal", "typed-literal"]] or q.get("_DATATYPE_FIELD") != "datatype" \
                or consts != ['"', '"', '>', '@', '^^<'] or len(aug) != 2:
            raise Fail("_add_lang_if_needed: neither the old nor the new shape (%r)" % (consts,))
        old_reader = False
    w("Definition q_lang_appends_to_value : bool := %s.   (* old shape: result += QUOTE value QUOTE-AT lang *)"
      % ("true" if old_reader else "false"))
    w("Definition q_reader_quotes_literals : bool := %s.   (* new shape: QUOTE value QUOTE then AT lang or ^^<datatype> *)"
      % ("false" if old_reader else "true"))

    # ---- model/graph/rdflib_sgraph.py: what the local graph of the cache gives back for a literal, and how it stores one
    rs = parse("shexer/model/graph/rdflib_sgraph.py")
    f = find_def(rs, "_add_lang_if_needed", "RdflibSgraph")
    consts = sorted(n.value for n in ast.walk(f) if isinstance(n, ast.Constant) and isinstance(n.value, str) and "\n" not in n.value)
    if consts == ['"', '"@']:
        lsg_new = False
    elif consts == ['"', '"', '"', '"', '"@', '"^^<', '>'] and len([n for n in ast.walk(f) if isinstance(n, ast.Return)]) == 4:
        lsg_new = True
    else:
        raise Fail("RdflibSgraph._add_lang_if_needed: neither the old nor the new shape (%r)" % (consts,))
    w("Definition lsg_quotes_literals : bool := %s." % ("true" if lsg_new else "false"))
    f = find_def(rs, "_turn_obj_into_rdflib_element", "RdflibSgraph")
    norm = [k.value.value for n in ast.walk(f) if isinstance(n, ast.Call) and getattr(n.func, "id", "") == "Literal"
            for k in n.keywords if k.arg == "normalize" and isinstance(k.value, ast.Constant)]
    if norm not in ([], [False]):
        raise Fail("RdflibSgraph._turn_obj_into_rdflib_element: unexpected normalize argument")
    w("Definition lsg_no_normalize : bool := %s." % ("true" if norm == [False] else "false"))

    # ---- the yielder: does the inverse part skip statements whose subject is a target (already yielded)?  is an
    # empty shape map (no sgraph) answered with no triples?
    yl = parse("shexer/io/graph/yielder/remote/sgraph_from_selectors_triple_yielder.py")
    f = find_def(yl, "_yield_relevant_sgraph_triples", "SgraphFromSelectorsTripleYielder")
    notin = [n for n in ast.walk(f) if isinstance(n, ast.Compare) and isinstance(n.ops[0], ast.NotIn)]
    if not notin:
        skips = False
    elif len(notin) == 1 and isinstance(notin[0].left, ast.Attribute) and notin[0].left.attr == "iri" \
            and isinstance(notin[0].left.value, ast.Subscript) and isinstance(notin[0].left.value.slice, ast.Constant) \
            and notin[0].left.value.slice.value == 0:
        skips = True
    else:
        raise Fail("_yield_relevant_sgraph_triples: unexpected membership test")
    w("Definition y_inverse_skips_direct_subjects : bool := %s." % ("true" if skips else "false"))
    # _collect_every_target_node: a set (old shape: iteration order is an oracle) or an insertion-ordered dict
    # (new shape: first occurrence order)
    f = find_def(yl, "_collect_every_target_node", "SgraphFromSelectorsTripleYielder")
    init = [n.value for n in f.body if isinstance(n, ast.Assign) and getattr(n.targets[0], "id", "") == "result"]
    ret = [n for n in ast.walk(f) if isinstance(n, ast.Return)]
    if len(init) != 1 or len(ret) != 1 or not (isinstance(ret[0].value, ast.Call) and getattr(ret[0].value.func, "id", "") == "list"):
        raise Fail("_collect_every_target_node: unexpected structure")
    if isinstance(init[0], ast.Call) and getattr(init[0].func, "id", "") == "set" and not init[0].args:
        ordered = False
    elif isinstance(init[0], ast.Dict) and not init[0].keys and \
            any(isinstance(n, ast.Assign) and isinstance(n.targets[0], ast.Subscript) for n in ast.walk(f)):
        ordered = True
    else:
        raise Fail("_collect_every_target_node: neither a set nor an insertion-ordered dict")
    w("Definition y_targets_first_occurrence_order : bool := %s." % ("true" if ordered else "false"))
    f = find_def(yl, "yield_triples", "SgraphFromSelectorsTripleYielder")
    guards = [n for n in f.body if isinstance(n, ast.If) and isinstance(n.test, ast.Compare) and isinstance(n.test.ops[0], ast.Is)
              and isinstance(n.test.comparators[0], ast.Constant) and n.test.comparators[0].value is None
              and len(n.body) == 1 and isinstance(n.body[0], ast.Return) and n.body[0].value is None]
    if len([n for n in f.body if isinstance(n, ast.If)]) != len(guards) or len(guards) > 1:
        raise Fail("yield_triples: unexpected test")
    w("Definition y_empty_shape_map_guard : bool := %s." % ("true" if guards else "false"))
    w("")

    # ---- utils/uri.py: what counts as "an URI" for add_corners_if_it_is_an_uri
    uri = parse("shexer/utils/uri.py")
    # decide_literal_type: old text = one chain of tests on the whole token ('"^^' not in ..., "xsd:" in ...);
    # new text (C06 repair B) = the kind is read from what follows the last quote (suffix)
    dl = find_def(uri, "decide_literal_type")
    ins = sorted(n.left.value for n in ast.walk(dl) if isinstance(n, ast.Compare) and isinstance(n.ops[0], (ast.In, ast.NotIn))
                 and isinstance(n.left, ast.Constant))
    sw = startswith_args(dl)
    ew = [n.args[0].value for n in ast.walk(dl) if isinstance(n, ast.Call) and isinstance(n.func, ast.Attribute)
          and n.func.attr == "endswith" and n.args and isinstance(n.args[0], ast.Constant)]
    has_suffix = any(isinstance(n, ast.Assign) and getattr(n.targets[0], "id", "") == "suffix" for n in ast.walk(dl))
    rf = [n.args[0].value for n in ast.walk(dl) if isinstance(n, ast.Call) and isinstance(n.func, ast.Attribute)
          and n.func.attr == "rfind" and n.args and isinstance(n.args[0], ast.Constant)]
    if ins == ['"^^', "dt:", "geo:", "rdf:", "xsd:"] and not has_suffix and ew == [">"]:
        from_suffix = False
    elif has_suffix and not ins and rf == ['"'] and sw[:7] == ["@", "^^", "xsd:", "rdf:", "dt:", "geo:", "<"] and ew == [">"]:
        from_suffix = True
    else:
        raise Fail("decide_literal_type: neither the old nor the new text (%r, %r, %r)" % (ins, sw, ew))
    w("Definition dlt_from_suffix : bool := %s.   (* decide_literal_type reads what follows the last quote *)"
      % ("true" if from_suffix else "false"))
    pre = startswith_args(find_def(uri, "add_corners_if_it_is_an_uri"))
    if not pre:
        raise Fail("add_corners_if_it_is_an_uri: no startswith test found")
    w("Definition uri_http_prefixes : list str := [%s]." % "; ".join(coq_str(p) for p in pre))

    # ---- model/graph/abstract_sgraph.py: _is_an_unprefixed_iri (non-strict branch)
    sg = parse("shexer/model/graph/abstract_sgraph.py")
    pre = startswith_args(find_def(sg, "_is_an_unprefixed_iri", "SGraph"))
    if len(pre) != 1:
        raise Fail("_is_an_unprefixed_iri: expected one startswith test")
    w("Definition unprefixed_iri_prefix : str := %s." % coq_str(pre[0]))
    w("")

    # ---- shaper.py: defaults of the endpoint-only parameters, and the LIMIT rule
    sh = parse("shexer/shaper.py")
    for name in ["track_classes_for_entities_at_last_depth_level", "strict_syntax_with_corners"]:
        v = shaper_default(sh, name)
        if not isinstance(v, bool):
            raise Fail("default of %s is not a bool" % name)
        w("Definition dflt15_%s : bool := %s." % (name, "true" if v else "false"))
    init = find_def(sh, "__init__", "Shaper")
    rule = None
    for node in ast.walk(init):
        if isinstance(node, ast.Assign) and isinstance(node.targets[0], ast.Attribute) \
                and node.targets[0].attr == "_limit_remote_instances":
            rule = node.value
    # self._limit_remote_instances = limit_remote_instances if instances_cap==-1 else instances_cap    (old)
    #                                limit_remote_instances if instances_cap <= 0 else instances_cap   (new)
    ok = (isinstance(rule, ast.IfExp) and isinstance(rule.body, ast.Name) and rule.body.id == "limit_remote_instances"
          and isinstance(rule.orelse, ast.Name) and rule.orelse.id == "instances_cap"
          and isinstance(rule.test, ast.Compare) and isinstance(rule.test.left, ast.Name)
          and rule.test.left.id == "instances_cap")
    if not ok:
        raise Fail("Shaper.__init__: rule for _limit_remote_instances not recognised")
    cmpv = rule.test.comparators[0]
    if isinstance(rule.test.ops[0], ast.Eq) and isinstance(cmpv, ast.UnaryOp) and isinstance(cmpv.operand, ast.Constant) \
            and cmpv.operand.value == 1:
        nonpos = False
    elif isinstance(rule.test.ops[0], ast.LtE) and isinstance(cmpv, ast.Constant) and cmpv.value == 0:
        nonpos = True
    else:
        raise Fail("Shaper.__init__: test of the _limit_remote_instances rule not recognised")
    w("Definition limit_rule_no_cap_value : Z := (-1)%Z.   (* old shape: limit if instances_cap == -1 else instances_cap *)")
    w("Definition limit_rule_no_cap_nonpositive : bool := %s.   (* new shape: limit if instances_cap <= 0 else instances_cap *)"
      % ("true" if nonpos else "false"))
    w("")

    # ---- list_of_classes_to_shape_map.py: the class selector filters blank subjects and appends LIMIT iff limit >= 0
    tr = parse("shexer/utils/translators/list_of_classes_to_shape_map.py")
    f = find_def(tr, "_get_raw_selector_to_catch_instances_of_class_uri", "ListOfClassesToShapeMap")
    strs = [n.value for n in ast.walk(f) if isinstance(n, ast.Constant) and isinstance(n.value, str)]
    tmpl = [s for s in strs if s.startswith("SPARQL")]
    if len(tmpl) != 1:
        raise Fail("class selector template not found")
    t = tmpl[0]
    if "FILTER (!isBlank(?s))" not in t or "?s <{prop}> <{class_uri}>" not in t or not t.rstrip('"').rstrip().endswith("{limit}"):
        raise Fail("class selector template changed: %r" % t)
    cmp_ = [n for n in ast.walk(f) if isinstance(n, ast.Compare)]
    if len(cmp_) != 1 or not isinstance(cmp_[0].ops[0], ast.Lt) or not isinstance(cmp_[0].comparators[0], ast.Constant) \
            or cmp_[0].comparators[0].value != 0 or "LIMIT " not in strs:
        raise Fail("class selector: LIMIT rule not recognised")
    w("Definition class_selector_filters_blank_subjects : bool := true.")
    w("Definition class_selector_limit_from : Z := 0%Z.   (* 'LIMIT k' is appended iff not (k < 0) *)")

    w("")
    c15_cache_literal(w, rs)
    c15_all_classes_tau(w)

    text = "\n".join(out) + "\n"
    old = None
    if os.path.exists(OUT):
        with open(OUT) as fh:
            old = fh.read()
    if old != text:
        with open(OUT, "w") as fh:
            fh.write(text)
    return 0


if __name__ == "__main__":
    try:
        sys.exit(main())
    except Fail as e:
        sys.stderr.write("gen_consts_c15: cannot translate: %s\n" % e)
        sys.exit(3)
    except (SyntaxError, OSError) as e:
        sys.stderr.write("gen_consts_c15: cannot read source: %s\n" % e)
        sys.exit(3)
