#!/usr/bin/env python3
"""Resolves the two recurring merge conflicts between builder branches: known_findings.json (union of
findings by id) and rocq/theories/Model/Entry.v (union of imports and of the entries list)."""
import json, re, subprocess, sys

def show(stage, path):
    return subprocess.run(["git", "show", ":%d:%s" % (stage, path)], capture_output=True, text=True).stdout

def findings():
    p = "known_findings.json"
    ours, theirs = json.loads(show(2, p)), json.loads(show(3, p))
    ids = {f["id"] for f in ours["findings"]}
    for f in theirs["findings"]:
        if f["id"] not in ids:
            ours["findings"].append(f)
    json.dump(ours, open(p, "w"), indent=1)
    subprocess.run(["git", "add", p])

def entry():
    p = "rocq/theories/Model/Entry.v"
    ours, theirs = show(2, p), show(3, p)
    imp = re.compile(r"^From Shexer Require Import (.*)\.$", re.M)
    have = set()
    for m in imp.finditer(ours):
        have |= set(m.group(1).split())
    extra = []
    for m in imp.finditer(theirs):
        for x in m.group(1).split():
            if x not in have and x not in extra:
                extra.append(x)
    lst = re.compile(r"(Definition entries : list \(str -> table -> option table\) :=\s*\[)([^\]]*)(\]\.)", re.S)
    mo, mt = lst.search(ours), lst.search(theirs)
    names = [x.strip() for x in mo.group(2).split(";") if x.strip()]
    for x in [x.strip() for x in mt.group(2).split(";") if x.strip()]:
        if x not in names:
            names.append(x)
    out = ours[:mo.start()] + mo.group(1) + "; ".join(names) + mo.group(3) + ours[mo.end():]
    if extra:
        out = out.replace("Import ListNotations.", "From Shexer Require Import %s.\nImport ListNotations." % " ".join(extra), 1)
    open(p, "w").write(out)
    subprocess.run(["git", "add", p])

st = subprocess.run(["git", "status", "--short"], capture_output=True, text=True).stdout
if "UU known_findings.json" in st: findings()
if "UU rocq/theories/Model/Entry.v" in st: entry()
print(subprocess.run(["git", "status", "--short"], capture_output=True, text=True).stdout)
