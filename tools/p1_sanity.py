#!/venv/bin/python
"""Sanity check of Spec/Counts.v against the REAL profiler (not a proof, not
part of any check): a direct Python transcription of keys_direct /
keys_inverse / cnt / card_ok / occ / class_count / class_keys is compared with
Shaper._profile and Shaper._class_counts on random graphs.

Run:  PYTHONPATH=/repo:harness PYTHONHASHSEED=0 /venv/bin/python tools/p1_sanity.py [N] [seed]
"""
import os
import random
import signal
import sys
import warnings

HERE = os.path.dirname(os.path.abspath(__file__))
sys.path.insert(0, os.path.join(HERE, "..", "harness"))
warnings.filterwarnings("ignore")

from vp import pipe  # noqa: E402
from shexer.shaper import Shaper  # noqa: E402
from shexer.utils.shapes import build_shapes_name_for_class_uri  # noqa: E402
from shexer.consts import SHAPES_DEFAULT_NAMESPACE  # noqa: E402

TAU = pipe.RDF_TYPE


# ---- transcription of Spec/Counts.v ---------------------------------------
def shape_name(c):
    return build_shapes_name_for_class_uri(class_uri=c, shapes_namespace=SHAPES_DEFAULT_NAMESPACE)


def classes_of(I, ident):
    return I.get(ident, [])


def shape_labels(I, ident):
    return [shape_name(c) for c in classes_of(I, ident)]


def elem_type(n):
    return "IRI" if n[0] == "I" else "BNode"


def keys_direct(tau, I, t):
    s, p, o = t
    if o[0] == "L":
        return [] if p == tau else [o[2]]
    if p == tau:
        return [o[1]] + (shape_labels(I, o[1]) if o[1] in ("IRI", "BNode") else [])
    return [elem_type(o)] + shape_labels(I, o[1])


def keys_inverse(tau, I, t):
    s, p, o = t
    if p == tau:
        return [s[1]] + (shape_labels(I, s[1]) if s[1] == "IRI" else [])
    return [elem_type(s)] + (shape_labels(I, s[1]) if s[0] == "I" else [])


def contrib(d, tau, I, t, i, p):
    s, tp, o = t
    if d == "direct":
        return keys_direct(tau, I, t) if (s[1] == i and tp == p) else []
    if o[0] == "L":
        return []
    return keys_inverse(tau, I, t) if (o[1] == i and tp == p) else []


def cnt(d, tau, I, G, i, p, k):
    return sum(contrib(d, tau, I, t, i, p).count(k) for t in G)


def card_ok(tau, p, card, n):
    if n <= 0:
        return False
    if p == tau:
        return card == 1
    return True if card == "+" else card == n


def occ(d, tau, I, G, c, p, k, card):
    return sum(cs.count(c) for i, cs in I.items() if card_ok(tau, p, card, cnt(d, tau, I, G, i, p, k)))


def class_count(I, c):
    return sum(cs.count(c) for cs in I.values())


def class_keys(targets, I):
    out = []
    for c in list(targets) + [c for cs in I.values() for c in cs]:
        if c not in out:
            out.append(c)
    return out


# ---- key orders (Spec/Counts.v, "order of the keys") -------------------------
def uniq_first(l):
    out = []
    for x in l:
        if x not in out:
            out.append(x)
    return out


def touches(d, t, i):
    s, p, o = t
    if d == "direct":
        return s[1] == i
    return o[0] != "L" and o[1] == i


def inst_props(d, G, i):
    return uniq_first([t[1] for t in G if touches(d, t, i)])


def inst_keys(d, tau, I, G, i, p):
    return uniq_first([k for t in G for k in contrib(d, tau, I, t, i, p)])


def class_props(d, I, G, c):
    return uniq_first([p for i, cs in I.items() if c in cs for p in inst_props(d, G, i)])


def class_type_keys(d, tau, I, G, c, p):
    return uniq_first([k for i, cs in I.items() if c in cs for k in inst_keys(d, tau, I, G, i, p)])


def cards_of(tau, p, n):
    if n <= 0:
        return []
    return [1] if p == tau else [n, "+"]


def class_cards(d, tau, I, G, c, p, k):
    return uniq_first([x for i, cs in I.items() if c in cs for x in cards_of(tau, p, cnt(d, tau, I, G, i, p, k))])


# ---- the tracker (all_classes_mode), transcribed from the abstract triples --
def track_all(tau, G):
    I = {}
    for s, p, o in G:
        if p == tau:
            I.setdefault(s[1], []).append(o[1])
    return I


class Hang(Exception):
    pass


def _alarm(signum, frame):
    raise Hang()


def real_profile(G, inverse):
    old = signal.signal(signal.SIGALRM, _alarm)
    signal.setitimer(signal.ITIMER_REAL, 10.0)
    try:
        sh = Shaper(raw_graph=pipe.nt_doc(G), all_classes_mode=True, inverse_paths=inverse)
        try:
            sh.shex_graph(string_output=True)
        except (TypeError, AttributeError):
            # later stages may crash on general graphs; the profile is computed before them
            if sh._profile is None:
                raise
        return sh._profile, sh._class_counts, sh._target_classes_dict
    finally:
        signal.setitimer(signal.ITIMER_REAL, 0)
        signal.signal(signal.SIGALRM, old)


def check_one(G, inverse):
    """returns (number of figures compared, list of mismatch descriptions)"""
    prof, counts, idict = real_profile(G, inverse)
    I = track_all(TAU, G)
    bad = []
    # the instance dictionary the profiler worked with
    real_I = {i: list(v[0]) for i, v in idict.items()}
    if list(real_I.items()) != list(I.items()):
        bad.append(("instances", real_I, I))
    if list(prof.keys()) != class_keys([], I):
        bad.append(("class keys", list(prof.keys()), class_keys([], I)))
    if dict(counts) != {c: class_count(I, c) for c in class_keys([], I)} or list(counts.keys()) != class_keys([], I):
        bad.append(("class counts", dict(counts)))
    props = sorted({t[1] for t in G})
    n = 0
    dirs = ["direct", "inverse"] if inverse else ["direct"]
    for c in prof:
        for d in dirs:
            pd = (prof[c][0] if d == "direct" else prof[c][1]) if inverse else prof[c]
            # key orders
            if list(pd.keys()) != class_props(d, I, G, c):
                bad.append((c, d, "property order", list(pd.keys()), class_props(d, I, G, c)))
            for p in pd:
                if list(pd[p].keys()) != class_type_keys(d, TAU, I, G, c, p):
                    bad.append((c, d, p, "type-key order", list(pd[p].keys()), class_type_keys(d, TAU, I, G, c, p)))
                for k in pd[p]:
                    if list(pd[p][k].keys()) != class_cards(d, TAU, I, G, c, p, k):
                        bad.append((c, d, p, k, "cardinality order", list(pd[p][k].keys()),
                                    class_cards(d, TAU, I, G, c, p, k)))
            # instance features: orders too
            for i, v in idict.items():
                feats = v[1] if d == "direct" else v[2]
                if list(feats.keys()) != inst_props(d, G, i):
                    bad.append((i, d, "instance property order", list(feats.keys()), inst_props(d, G, i)))
                for p in feats:
                    if list(feats[p].keys()) != inst_keys(d, TAU, I, G, i, p):
                        bad.append((i, d, p, "instance key order"))
                    for k, stored in feats[p].items():
                        n += 1
                        if stored != cnt(d, TAU, I, G, i, p, k):
                            bad.append((i, d, p, k, "cnt", stored, cnt(d, TAU, I, G, i, p, k)))
            # every key any triple contributes in this direction, plus the keys the profile has
            keys = set()
            for t in G:
                if d == "direct":
                    keys.update(keys_direct(TAU, I, t))
                elif t[2][0] != "L":
                    keys.update(keys_inverse(TAU, I, t))
            for p in pd:
                keys.update(pd[p].keys())
            maxn = len(G) * 4 + 2
            cards = list(range(0, min(maxn, 8))) + ["+"]
            for p in sorted(set(props) | set(pd.keys())):
                for k in sorted(keys):
                    real_cd = pd.get(p, {}).get(k)
                    allcards = set(cards) | (set(real_cd.keys()) if real_cd else set())
                    anypos = False
                    for card in allcards:
                        want = occ(d, TAU, I, G, c, p, k, card)
                        got = (real_cd or {}).get(card, 0)
                        n += 1
                        anypos = anypos or want > 0
                        if want != got:
                            bad.append((c, d, p, k, card, "spec", want, "real", got))
                        if real_cd is not None and card in real_cd and got == 0:
                            bad.append((c, d, p, k, card, "zero entry stored"))
                    if (real_cd is not None) != anypos:
                        bad.append((c, d, p, k, "entry exists", real_cd is not None, "spec positive", anypos))
    return n, bad


def main():
    N = int(sys.argv[1]) if len(sys.argv) > 1 else 200
    seed = int(sys.argv[2]) if len(sys.argv) > 2 else 1
    r = random.Random(seed)
    total = 0
    nbad = 0
    skipped = 0
    for j in range(N):
        # every third graph draws classes/nodes from two namespaces, so that two
        # classes can share a local name and hence a shape label (quirk Q2)
        G = pipe.gen_graph(r, general=True,
                           namespaces=("http://ex.org/", "http://b.org/x#") if j % 3 == 2 else ("http://ex.org/",))
        if j % 5 >= 3 and G:
            # repeated statements (the stream is not de-duplicated): exercises Q6
            # (tau count > 1 still reported under cardinality 1) and Q7 (class listed twice)
            for _ in range(r.randint(1, 3)):
                G.insert(r.randrange(len(G) + 1), r.choice(G))
        inverse = bool(j % 2)
        try:
            n, bad = check_one(G, inverse)
        except Hang:
            skipped += 1
            continue
        total += n
        if bad:
            nbad += 1
            if nbad <= 3:
                print("MISMATCH graph %d inverse=%s" % (j, inverse))
                for b in bad[:8]:
                    print("   ", b)
                print("   graph:", G)
    print("graphs=%d skipped=%d figures_compared=%d graphs_with_mismatch=%d" % (N, skipped, total, nbad))
    return 1 if nbad else 0


if __name__ == "__main__":
    sys.exit(main())
