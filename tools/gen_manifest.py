#!/usr/bin/env python3
"""Writes MANIFEST.json from the table below (kept in one place so that it stays valid)."""
import json
import os

HERE = os.path.dirname(os.path.abspath(__file__))
ROOT = os.path.dirname(HERE)

TB = ("Trusted base (DESIGN.md section 6): Coq 8.16.1 kernel, vm_compute only (no native_compute), no axioms (every "
      "recorded Print Assumptions output reads 'Closed under the global context'); tools/gen_consts.py (AST -> "
      "Gen/Consts.v, Gen/ConstsProfile.v, with one generated flag per repaired function that the model follows); "
      "extraction with ExtrOcamlBasic + ExtrOcamlString only and rocq/ocaml/driver.ml, cross-checked against vm_compute "
      "on a sample of every run; the Python harness (generators, canonicaliser, ratio-printing shim, oracle written from "
      "the property text); rdflib where named.  ")

CLAIMED = {
    "C01": {
        "text": "Coq theorems, closed under the global context, about the executable model of the extraction "
                "pipeline (tracker, profiler, shexing, ShExC serialiser), for ALL graphs, configurations, thresholds "
                "and both frequency algebras: the class profile holds exactly the declarative counts occ / "
                "class_count of Spec/Counts.v (Props/P1.v); the header count of every shape is the class count of "
                "the tracker's dictionary (C01_header_counts_exact, C01_header_is_number_of_instances); every "
                "constraint line and every comment carries the count, probability and ORIGINAL cardinality of one "
                "declarative count, or -- for the merged NONLITERAL alternative only -- the sum of two "
                "(C01_figures_exact, C01_fig_occ_cases, C01_line_exact, C01_comment_exact; for the run with the "
                "shexing stage in the order of the code, no domain: E2E_cur_figures_exact); binary64 ratios never "
                "exceed 1 (C01_ratio_at_most_one_e2e); the same for shape-map runs (C01_map_figures_exact); and for "
                "profile_graph: the TEXT is json.dumps(profile, indent=2) of the profiler's object, every number in "
                "it is the occ its path names, every positive count is printed, and a total parser reads the text "
                "back (C01_profile_json_figures, C01_profile_json_complete, C01_profile_round_trip, "
                "C01_profile_text_figures).  Tied to /repo on every run: the model's ShExC text and profile text "
                "equal the real Shaper's byte for byte on every generated case (class mode and shape maps; string "
                "and file sink), all printed figures are compared, and an independent recount recomputes every "
                "figure from the abstract triples.",
        "design": "DESIGN.md sections 0a, 6, 11 (C01)",
        "note": TB + "Partial: the NONLITERAL figure is a sum (C01_nonliteral_overlap_refuted, "
                "C01_nonliteral_mixed_cards_refuted: findings C01-F1, C01-F3, known) and classes sharing a local "
                "name share a label (C01_shared_label_refuted: C01-F2, known).  Most run theorems are stated about "
                "Run.run_shapes (old order of the shexing stage) and reach the code through Props/ShexStage.v: "
                "E2E_class_mode_order_irrelevant on its stated domain (DESIGN.md section 10).  The proof gate also "
                "recompiles P1, ShexStage and FreqLawsProps; Lib/Bin64 is compared with CPython floats on every run "
                "(bin64_vs_cpython).  The decimal rendering of a ratio is the shim.  Input is delivered through the "
                "N-Triples reader (C06's subject); literal contents are alphanumeric and the class-mode stream uses "
                "rdf:type only: the seeded changes C01-m5 (literal spelled like a node's IRI) and C01-m6 (custom "
                "instantiation property) are MISSED at present (DESIGN.md section 12).",
        "technique": "Coq proof by induction over folds / dictionaries (profile = declarative counts; figures = "
                     "profile entries), composed end to end; executable rendering of json.dumps with a round-trip "
                     "parser; byte-exact differential correspondence of the extracted model; recount oracle",
    },
    "C02": {
        "text": "Coq theorems for ALL graphs, thresholds and switch settings: with empty shapes kept a shape has the "
                "key (direction, property, value class) iff some declarative count of that key reaches the "
                "threshold, no key twice, one shape per class key in order (C02_keys_iff_occ, "
                "C02_one_shape_per_class_keep); with CPython's binary64 comparison iff the LARGEST count does, so "
                "the boundary is kept (C02_keys_max_e2e); with remove_empty_shapes on, thresholds <= 1 and ordinary "
                "class IRIs the same iff up to type keys that are removed classes (C02_keys_iff_occ_remove, "
                "C02_keys_iff_occ_remove_all_classes, C02_one_shape_per_class_remove); for the value class "
                "'non-literal' the key is present iff thr <= (#instances with an IRI or blank-node value)/N whenever "
                "the two kinds are nested (C02_keys_iff_union, C02_keys_iff_union_remove); shape-map runs: "
                "C02_map_keys_iff_occ, C02_map_keys_remove.  Tied to /repo by the byte-exact correspondence and an "
                "exact-rational oracle recomputing every key set on every k/n threshold boundary.",
        "design": "DESIGN.md sections 0a, 6, 11 (C02)",
        "note": TB + "Partial: without nestedness only an inequality holds and the union reading is refuted "
                "(C02_split_nonliteral_refuted: C02-F1, known); a requested class that is also a value of the "
                "instantiation property loses a key (C02_remove_dead_key_refuted: C02-F3, known); shape maps with "
                "remove_empty_shapes: soundness only.  Fixed in /repo: C02-F2 (a3b99df, "
                "C02_removed_reference_run_fixed).  The run theorems are about Run.run_shapes (old stage order) and "
                "reach the code through E2E_class_mode_order_irrelevant / E2E_cur_keys_iff_occ (Props/ShexStage.v, "
                "part of the proof gate with P1 and FreqLawsProps); Lib/Bin64 is compared with CPython floats on "
                "every run.",
        "technique": "Coq proof (selection invariants of the two merge loops, monotone binary64 ratio, input-level "
                     "discharge of the cleaning hypotheses) + differential correspondence + exact-rational recount "
                     "oracle",
    },
    "C03": {
        "text": "Coq theorems about the validated pipeline model: switching all_instances_are_compliant_mode off "
                "never changes a cardinality and yields no ?/* (C03_mode_off_keeps_cards, C03_mode_on_off); under "
                "keep_less_specific a '?' comes from a {1} candidate that tied with its '+' sibling "
                "(C03_relaxed_card_sound, C03_opt_at_most_one, C03_cardinalities); and CONFORMANCE with no premise "
                "left: for every graph of the property's strict domain (strict_domb) and every configuration with "
                "keep_less_specific, all-compliant mode, no disjunctions, all-classes mode, no cap, default shapes "
                "namespace, threshold 0 and ANY value of the other options, the instance typing is a valid typing of "
                "the extracted schema under the ShEx semantics of Spec/ShexSem.v (C03_conformance for binary64 and "
                "fewer than 2^53 triples, C03_conformance_exact unbounded; C03_conformance_partial keeps the premise "
                "form for target classes / caps).  The ORACLE on the real ShExC text is the EXTRACTED Coq validator "
                "(valid_typingb), judging every (instance, shape) pair; both mode settings are corresponded.",
        "design": "DESIGN.md sections 0a, 6, 11 (C03)",
        "note": TB + "Outside strict_domb the guarantee is false: C03_reference_tie_refuted, "
                "C03_nonliteral_overlap_refuted, C03_keep_less_specific_false_refuted (findings C03-F1, C03-F2, "
                "C03-F3, known); C03-F4 (a repeated typing statement makes references to that class count twice; observed with "
                "the extracted validator on the set of triples).  Disjunctions and thresholds other than 0 are outside the domain.  Also trusted: "
                "the ShExC canonicaliser that feeds the extracted validator.  The harness mirrors strict_domb in "
                "Python and compares it with Coq's on every case; after a generator change the two disagreed (two "
                "literals differing only in their language tag) and the check stopped with INTERNAL-ERROR on every "
                "seeded run until repaired (d041ea9, DESIGN.md section 10); the committed evidence is the thorough "
                "pass after the repair; seeds C03-m1 ... m3 are caught again, the re-run of m4-m6 was pending.",
        "technique": "Coq theorems about the pipeline model composed with P1; ShEx semantics written as a decidable "
                     "Spec and extracted to OCaml as the oracle on real output; differential correspondence",
    },
    "C04": {
        "text": "Coq theorems about a model in which every unguarded dereference, index, key lookup and raise of the "
                "modelled Python code is an explicit error outcome: for every input satisfying valid_input (typing "
                "triples have node objects, no string starts with the shape sentinel, disjunctions disabled or empty "
                "shapes kept, a priority prefix free) the whole run -- tracker, profiler, shexing, serialiser -- "
                "yields shapes and text for every frequency algebra, threshold and value of the other options "
                "(C04_run_total, C04_run_shexc_total), for ANY options with binary64 and thresholds <= 1 "
                "(C04_run_shexc_total_any_options), and every error outcome violates one of the conditions "
                "(C04_errors_characterised, C04_text_errors_characterised); shape-map runs: "
                "C04_map_errors_characterised, C04_map_run_total_tokens; SHACL output of shape-map runs "
                "(Model/RunMapShacl.v): the serialiser returns exactly when it builds the graph and rdflib's writer "
                "accepts every IRI, and with the repaired _add_target_class every run with printable labels "
                "serialises (C04_shacl_output_ok_iff, C04_map_shacl_total); profile_graph: rendering is total and a "
                "text comes out on exactly the inputs on which tracker and profiler succeed "
                "(C04_profile_json_total_iff, C04_profile_json_errors).  Tied to /repo by comparing the outcome "
                "(result / exception class) of the real shex_graph with the model's on adversarial graphs and shape "
                "maps; every SHACL run is compared with the document model by isomorphism, every profile text and "
                "every decorated text (examples_mode / detect_minimal_iri) byte for byte; crash oracle over ShExC "
                "string / file, SHACL, profile string / file.",
        "design": "DESIGN.md sections 0a, 6, 11 (C04)",
        "note": TB + "Known: C04-F3 (SHACL output with disable_or_statements=False raises TypeError whenever the shapes "
                "hold a disjunction: C04_shacl_choice_never, C04_shacl_choice_type_error, C04_shacl_choice_refuted; "
                "a repair would be a design decision), C04-F4 (a typing statement with a literal object raises "
                "AttributeError, = C10-F6; C04_literal_class_refuted; which runs fail is predicted exactly).  Fixed "
                "in /repo: C04-X-bfff754, C04-X-875505f, C04-X-6f5760d, C04-X-19ce196, C04-F1 (a3b99df, "
                "C04_choice_prune_run_fixed), C04-X-e73c6a2 (found as C04-F2: SHACL of any shape-map extraction "
                "raised; C04_map_shacl_fails_old / C04_map_shacl_fixed), C04-X-a9573a5 (found as C17-F4).  Run "
                "theorems about Run.run_shexc reach the code through E2E_class_mode_order_irrelevant (DESIGN.md "
                "section 10).",
        "technique": "Coq totality proof over an error-explicit model, composed end to end, incl. the SHACL document "
                     "and the profile text + differential outcome correspondence + crash search over adversarial "
                     "graphs x configurations x output kinds",
    },
    "C05": {
        "text": "Coq theorems: from a boolean condition on the input alone (c05_input_ok: default shapes namespace, "
                "class IRIs with distinct labels and PN_LOCAL local names, a user dictionary leaving a priority "
                "prefix free) the run succeeds and its ShExC text is accepted by a recogniser written from the ShEx "
                "2.1 grammar, has a functional prefix map, only declared prefixes, distinct labels and resolving "
                "references, for every frequency algebra and threshold (C05_run_wellformed; any options for "
                "thresholds <= 1: C05_run_wellformed_any_options); the empty-shape cleaning preserves closure "
                "(Props/C05refs.v); the SHACL output, as the abstract graph of Model/ShaclDoc.v, has every sh:node "
                "object declared, exactly one path per property shape and one node shape with one sh:targetClass per "
                "shape (C05_shacl_node_objects_declared, C05_shacl_one_path, C05_shacl_node_shapes_iff, "
                "C05_shacl_run; sh:targetClass is the class key with one pair of corners removed, the key itself for "
                "class-based runs: C05_target_class_obj_cases, C05_run_classes_plain); the same S1-S3 for shape-map "
                "runs (C05_map_shacl_graph, C05_map_pure_shacl_run).  Tied to /repo: ShExC text byte for byte, also "
                "through output_file at a path that already holds a schema and for a document beyond the 5000-line "
                "buffer; the EXTRACTED recogniser and closure checks run on every real text; every real SHACL "
                "document is compared with the model's graph by isomorphism.",
        "design": "DESIGN.md sections 0a, 6, 11 (C05)",
        "note": TB + "Known findings, each refuted in Coq: C05-F1 (custom shapes_namespace: dangling references, pinned "
                "by golden files; C05_custom_namespace_refuted), C05-F2 (shared local names: one label twice; "
                "C05_shared_local_name_refuted), C05-F3 (a parsed prefix already in use is declared twice; "
                "C05_parsed_prefix_collision_rejected, Spec level), C05-F4 (ignored typing constraints + "
                "remove_empty_shapes: reference to a class whose shape was emptied; observed).  The random prefix fallback and prefixes adopted "
                "from rdflib-parsed input are oracle-only; the theorems speak of class-mode runs (shape-map texts "
                "are corresponded and judged by the oracle).  Trusted: the Spec recogniser (a subset of the "
                "grammar).",
        "technique": "Coq: lexer + parser automaton compositional over ++, token lemmas, closure invariant of the "
                     "cleaning loop, input-level discharge; byte-exact correspondence; extracted-Spec oracle on real "
                     "output",
    },
    "C06": {
        "text": "Coq theorems (no fuel or length bound) about an executable model of the N-Triples reader that "
                "carries EVERY text the reader has had and follows flags regenerated from /repo (nt_fixed_tok, "
                "nt_fixed_dlt, nt_tok_end_at_hash, nt_uri_unclosed_to_eol, nt_skips_comment_lines; all true at /repo "
                "5ceb1a7).  Under these flags the FULL statement: for EVERY valid statement and EVERY valid layout "
                "reading the rendered line yields exactly the kinded triple, zero error lines, no exception, no hang "
                "(C06), whole documents in order (C06_document), every valid document with comment lines and blank "
                "lines, from a raw string or a file (C06_document_lines), and no text at all, valid or not, makes "
                "the reader hang (C06_terminates).  The same for the model of the fully repaired reader whatever "
                "/repo holds (C06_fully_repaired_reader ...), and relative to any flag values on C06_dom_cur "
                "(C06_partial, C06_dom_is_no_root_cause, C06_repairs_enlarge_domain).  Props/C06Channels.v composes "
                "this reader with C08's channels and the pipeline (C06_channel_text_to_graph_full, "
                "C06_channel_never_hangs).  Tied to /repo by bounded-exhaustive correspondence: every lexical form "
                "of <= 3 (thorough <= 4) symbols of an adversarial alphabet x suffixes x separator layouts x dot / "
                "comment variants x subjects (896 244 valid lines per quick run), 19 783 lines of arbitrary text "
                "(model vs implementation, no hang), documents with comment / blank lines from string and file, "
                "every real call under SIGALRM, the abstract triple as oracle, rdflib's parser validating the "
                "generator.",
        "design": "DESIGN.md sections 0a, 6, 11 (C06)",
        "note": TB + "No known finding is left.  Twelve repairs in /repo: C06-X-de802c9, C06-X-569e07d, C06-F1 ... C06-F8 "
                "(9171edc, 6538a5e, 0a5a576), C06-X-5a4aa62 (found as C06-F7r: '_:b.#comment', and a HANG on a '<' "
                "that is never closed), C06-X-0a5a744 (found as C06-F9: comment lines read as statements, comment / "
                "blank lines counted as errors); the witnesses C06_F1_refuted ... C06_F9_refuted, "
                "C06_F7r_hang_refuted, C06_full_refuted, C06_terminates_refuted, C06_document_lines_refuted speak of "
                "texts /repo no longer has.  The full statements have the form 'flag = true -> ...': they are about "
                "/repo as long as tools/gen_consts.py generates the flags as true.  Lexical forms are not compared "
                "(the property does not ask for them).",
        "technique": "executable Gallina model of the reader; induction over items / characters; bounded-exhaustive "
                     "differential correspondence; Gallina domain classifier evaluated by the model binary",
    },
    "C07": {
        "text": "Coq theorems about an executable model of the streaming Turtle reader: the state machine persisted "
                "across lines yields exactly the triples of the statement groups for ANY cut of the token sequence into "
                "lines (C07_T1); the tokeniser returns exactly the tokens of a cleaned dialect line (C07_T2); prefix / "
                "base expansion and literal typing give the spec's node, IRI, label or datatype (C07_T4, "
                "C07_T4_literal); cleaning removes exactly the comment, whatever it contains (C07_T3_plain, "
                "C07_T3_comment); and the composition: for EVERY document of the dialect inside C07_dom and EVERY layout "
                "(line breaks at any token boundary, tabs, comments) reading the TEXT yields the document's triples in "
                "order, raises nothing, does not hang and passes the end-of-input check (theorem C07); the tested "
                "escapes raise (C07_reject).  Tied to /repo by correspondence on every generated document (ALL 3^gaps "
                "layouts / 2^gaps break placements of small documents, 47 023 per quick run), abstract triples as "
                "oracle, rdflib's Turtle parser validating the generator.",
        "design": "DESIGN.md sections 0a, 6, 11 (C07)",
        "note": TB + "Known findings, each with a refuted lemma: C07-F1, C07-F2, C07-F6, C07-F13 (base / prefix "
                "resolution, custom-prefixed datatypes) and C07-R2, C07-R3, C07-R4 (out-of-dialect input accepted "
                "silently); C07_dom excludes exactly the first four.  Nine repairs in /repo (C07-X-b878913, -db95fdd, "
                "-74ab28b, -3b3f82c, -466698d, -1ba9679, -8416f2b, -e84df11, C07-X-0a5a576) with regression examples.  "
                "Lexical forms are not compared; untyped numerics outside a stated syntax are 'unmodelled'.",
        "technique": "executable Gallina model of the reader; induction over token streams and line cuts; differential "
                     "correspondence bounded-exhaustive over layouts",
    },
    "C08": {
        "text": "Coq theorems about an executable model of the plumbing that turns a source into the two triple "
                "streams of the two passes (dispatch tables generated from the AST): ANY partition of the lines into "
                "files / zip members / archives and any documented compression gives the stream of the single raw "
                "string -- with no hypothesis left for N-Triples (C06's reader plugged in, all lines valid or not: "
                "C08_channel_independent_nt) and TSV (C08_tsv_channel_independent); both passes see the same stream "
                "(C08_both_passes_same); rdflib's per-pass permutation and blank-node renamings are invisible when "
                "no blank node is an instance or class (C08_rdflib_counts_invariant, composed with C09); every "
                "accepted combination reaches the documented yielder (C08_dispatch_total); rdflib channels type "
                "literals as the N-Triples reader does (C08_rdflib_literal_typing); from the TEXT to the shapes for "
                "N-Triples, TSV and TURTLE_ITER (C08_nt_text_to_graph, C08_turtle_iter_channel_is_C07, "
                "C08_nt_vs_turtle_iter_permuted).  Tied to /repo by a metamorphic oracle over 41 channels per graph, "
                "stream correspondence with the real readers, exhaustive dispatch and line-reader correspondence.",
        "design": "DESIGN.md sections 0a, 6, 11 (C08)",
        "note": TB + "Hypotheses monitored on every case: codecs are identities; rdflib delivers a permutation up to an "
                "injective renaming.  The C08_nt_* compositions use the N-Triples tokeniser as it was before the "
                "repairs; the same statements for the reader /repo has now are Props/C06Channels.v (part of this "
                "check's proof gate).  The two-stream models follow the order of ClassShexer's stages in the code "
                "(c_clean_before_merge): a false alarm of this check with VERIF_SEED=1 on the unchanged tree showed "
                "that they had kept the old order (DESIGN.md section 10; C08_same_stream_single_graph, "
                "C08_two_streams_order_refuted).  Known: C08-F2 (blank-node instances on re-parsed channels; "
                "C08_bnode_relabel_refuted), C08-F4 (URL source with a streaming format; "
                "C08_dispatch_url_format_refuted).  Several Turtle files are not a partition of one document "
                "(C08_turtle_iter_partition_refuted, by design).  Fixed in /repo: C08-X-b46dc4c, C08-X-f392807, "
                "C08-X-875de04, C08-X-0a5a744 (found as C08-F6: a commented-out statement delivered as a triple on "
                "the line-based channels only).  Seeds C08-m5, C08-m6 are caught without a failing input only; "
                "C08-m1 awaits re-basing (section 12).",
        "technique": "executable Gallina model with table-driven dispatch from Consts.v, reader models plugged in, "
                     "rdflib as oracle arguments; metamorphic oracle + stream and dispatch correspondence",
    },
    "C09": {
        "text": "Coq theorems for ALL graphs: the declarative counts are invariant under permutation of the "
                "statements; the tracker's dictionary of a permuted document has the same instances with permuted "
                "class lists; hence every number of the class profile and the shape set, header counts and "
                "constraint key sets of the whole run are those of any permutation, for any setting of "
                "remove_empty_shapes and with no success hypothesis (C09_profile_permutation_invariant, "
                "C09_keys_permutation_invariant, C09_keys_permutation_invariant_valid_any); an injective renaming of "
                "blank nodes that are not classes commutes with the tracker, leaves every count unchanged and -- "
                "empty shapes kept, both runs succeeding -- gives the same shapes, names, header counts and keys in "
                "the same order (C09_track_rename, C09_rename_counts, C09_keys_rename_invariant); with "
                "detect_minimal_iri the IRI stem of a class and the stem printed on the shape line are invariant "
                "under the renaming (C09_stem_rename_invariant, C09_class_stem_rename_invariant, "
                "C09_printed_stem_rename_invariant; under c_min_iri_skips_bnode_prefix = true, i.e. since 96dbaaf).  "
                "Tied to /repo by the byte-exact correspondence and a metamorphic oracle on pairs of real runs "
                "(random and exhaustive permutations; relabelling with label families drawn from the whole "
                "BLANK_NODE_LABEL grammar, blank-node heavy documents, file input; IRI stems included).",
        "design": "DESIGN.md sections 0a, 6, 11 (C09)",
        "note": TB + "Equality of the CHOSEN constraints under ties is false: C09_reference_tie_refuted, "
                "C09_cardinality_tie_refuted (findings C09-F1, C09-F2, known); in the absence of ties it is checked "
                "by the oracle only (no theorem).  A blank-node class breaks the renaming statement "
                "(C09_rename_bnode_class_refuted).  Fixed in /repo: C09-X-96dbaaf (found as C09-F3 by the new label "
                "families: a 'stem' cut out of blank-node labels; C09_rename_stem_refuted for the old text, "
                "C09_rename_stem_fixed); limit of the repair: blank-node ids that do not start with '_:' (rdflib's "
                "JSON-LD parser, user-built graphs; DESIGN.md section 10).",
        "technique": "Coq proof (Permutation induction, set characterisation of the tracker, congruence of occ in "
                     "the instance dictionary) composed with P1 and the key theorem + metamorphic differential runs",
    },
    "C10": {
        "text": "Coq theorems: for every graph and target specification of C10_dom written as class names (full / "
                "bracketed / prefixed, list or file) or a shape map (fixed or JSON syntax; node, {FOCUS p o}, {s p "
                "FOCUS}, SPARQL with rdflib's answer as an oracle argument) or both, the model of sheXer's parsers "
                "and instance trackers succeeds and its dictionary holds key S for node n exactly when the Spec "
                "denotes n for S, nothing else, each once on documents without repeated statements, a label never "
                "repeated, no literal (C10_instances_denote_partial, C10_only_denoted_partial, "
                "C10_each_once_partial, C10_labels_once); rdf:type is ordinary under a custom instantiation property "
                "(C10_tau_ordinary).  Parser constants regenerated from /repo.  Tied to /repo by a differential run "
                "of model vs real constructor, tracker and shex_graph plus an independent Python oracle at "
                "dictionary and text level.",
        "design": "DESIGN.md sections 0a, 6, 11 (C10)",
        "note": TB + "rdflib's parse, FOCUS / SPARQL evaluation and blank-node ids are oracle arguments (monitored).  "
                "Known, each refuted in Coq: C10-F1 (blank node keyed by rdflib's id), C10-F5, C10-F6, C10-F7, "
                "C10-F8.  Fixed in /repo: C10-X-72d68cb, C10-X-cf40ad9, C10-X-9a400c9 (C10_prefixed_label_fixed, "
                "C10_at_in_iri_fixed, C10_repeated_answer_fixed), C10-X-705c27c (found as C10-F9: a name repeating "
                "its own prefix; C10_prefix_in_local_no_root_cause, C10_prefix_in_local_fixed), C10-X-6e7011d (found "
                "as C10-F10: the text 'SPARQL' removed everywhere in a selector; C10_sparql_kw_no_root_cause, "
                "C10_sparql_kw_in_query_fixed).  A literal is never a class (C10_class_instance_by_iri_object; "
                "documents with literals spelled like a class IRI are generated since seed C10-m4).  Seed C10-m2 "
                "awaits re-basing onto 705c27c.",
        "technique": "Coq proofs by induction over triples / items plus string lemmas (parse o render); "
                     "extracted-model correspondence; Spec-level Python oracle with figure recomputation",
    },
    "C11": {
        "text": "Coq theorems: for every statement of C11_dom -- kinds IRI, BNode, NONLITERAL, shape reference, "
                "datatype; instantiation constraints of any cardinality and direction; all {k>=1}, +, *, ?; every "
                "http(s) predicate; every dictionary with distinct readable prefixes -- the model of the SHACL "
                "serialiser emits exactly the encoding of what the model of the ShExC serialiser prints and decodes "
                "back to it (C11_views_agree, C11_read_back); one node shape per shape, same IRI, sh:targetClass = "
                "class, one property shape per constraint, in order (C11_shapes_agree); C11_cardinality_table for "
                "all k.  The node-kind table, SHACL vocabulary, cardinality tables and the serialiser's helper-call "
                "sequences are regenerated from shacl_serializer.py on every run.  Tied to /repo by per-line "
                "correspondence of both views against one real Shaper's two outputs, whole-document isomorphism with "
                "the model's SHACL graph, a property-text oracle (rdflib + ShExC canonicaliser) and a complete grid "
                "of synthetic statements.",
        "design": "DESIGN.md sections 0a, 6, 11 (C11)",
        "note": TB + "Conditions: http(s) predicates and class values, no OR statements (C11_dot_macro_disagrees; SHACL "
                "raises on a disjunction: finding C04-F3), detect_minimal_iri off (sh:pattern is "
                "C05_shacl_any_detect).  sh:targetClass is the class key with one pair of corners removed since "
                "e73c6a2 (C11_target_class_key; the key itself for class-based runs: C11_shapes_agree_class).  No "
                "known finding.  Fixed in /repo: C11-X-3370abe-bnode, C11-X-3370abe-nonliteral, "
                "C11-X-48b7fcb-cardinality, C11-X-48b7fcb-inverse (regression cases under corpus/C11).  Not caught "
                "at present: seed C11-m6 (a ShExC string beyond the 5000-line buffer: no such document in this "
                "check) and C11-m5 (not judged); DESIGN.md section 12.",
        "technique": "Gallina models of both serialisers over one statement; case analysis on kind x cardinality x "
                     "direction; string lemmas for the IRI print/read round trip; differential check",
    },
    "C12": {
        "text": "Coq theorems for ALL graphs and configurations: with thr1 <= thr2 (CPython binary64 comparison; "
                "also exact rationals, unbounded) every shape and key present at thr2 is present at thr1 -- empty "
                "shapes kept (C12_run_keys_monotone, C12_run_keys_monotone_exact) or removed, any target mode, "
                "thresholds <= 1, no class IRI starting with '%' or '@' (C12_run_keys_monotone_valid) --, every "
                "figure is a profile entry independent of the threshold (C12_figures_from_profile, "
                "C12_figure_threshold_free), the threshold reaches the pipeline only through the shexing stage "
                "(C12_threshold_only_in_shex); shape-map runs with empty shapes kept: C12_map_keys_monotone.  Tied "
                "to /repo by the correspondence of the extracted model and a metamorphic oracle over fresh real "
                "Shapers at all ordered pairs of a k/n threshold grid.",
        "design": "DESIGN.md sections 0a, 6, 11 (C12)",
        "note": TB + "Known: C12-F1 (the figure of the merged NONLITERAL alternative changes with the threshold; "
                "ShexStage_nonliteral_figure_refuted), C12-F3 (instances_cap counts typing STATEMENTS, not nodes: a "
                "typing statement written twice takes two places under the cap, so threshold 0 omits an observed "
                "feature and threshold 1 keeps a feature of one node of two; C12_repeated_typing_cap_refuted, "
                "C12_repeated_typing_nocap; found by the stream of documents with repeated statements added for seed "
                "C12-m4).  Fixed in /repo: C12-F2 (a3b99df: a reference to a shape that ended up empty was deleted "
                "outright; C12_remove_key_run_refuted for the old order, C12_remove_key_run_fixed).  Shape-map runs "
                "with remove_empty_shapes on: oracle only.  Besides the pairwise relation the oracle holds every "
                "case to the anchors (threshold 0 omits nothing observed, threshold 1 keeps only what all instances "
                "have; recount on the set of triples).  Run theorems about Run.run_shapes reach the code through "
                "E2E_cur_run_keys_monotone_valid (Props/ShexStage.v); FreqLawsProps is part of the proof gate and "
                "Lib/Bin64 is compared with CPython floats on every run.",
        "technique": "Coq proof (transitivity of the binary64 order from a software model of IEEE division; key-set "
                     "preservation through both merges) + differential correspondence + metamorphic oracle",
    },
    "C13": {
        "text": "Coq equations for ALL graphs: disable_comments, allow_opt_cardinality, disable_exact_cardinality "
                "and all_instances_are_compliant_mode change the shapes exactly by dropping comments / ?->* / "
                "{k>1}->+ / the per-statement relaxation (C13_run_disable_comments, C13_run_allow_opt_cardinality, "
                "C13_run_disable_exact_cardinality, C13_run_all_compliant); disable_or_statements=False only "
                "replaces merged statements by disjunctions of the same alternatives "
                "(C13_run_disable_or_statements); instances_report_mode and the namespaces dictionary never change "
                "the shapes.  On the TEXT and on its BYTES: disable_comments removes exactly the comments and "
                "instances_report_mode changes only the inside of comments (C13_run_shexc_disable_comments_bytes, "
                "C13_run_shexc_report_mode_bytes); two namespaces dictionaries give documents equal after expansion "
                "(C13_text_namespaces).  Tied to /repo by the byte-exact correspondence and a one-factor-at-a-time "
                "metamorphic oracle on real runs, incl. file vs string output beyond the 5000-line buffer.",
        "design": "DESIGN.md sections 0a, 6, 11 (C13)",
        "note": TB + "decimals is rendered by the harness shim (not in the model): checked numerically; known: C13-F1 "
                "(decimals=0 truncates; pinned by a golden file).  The all-compliant equation holds on O4_dom "
                "(C13_all_compliant_comment_refuted outside).  Fixed in /repo: C13-X-62f08fb.  The option pairs are "
                "class-mode runs on fresh Shapers: no shape with a single constraint, no second call on one Shaper "
                "-- the seeded changes C13-m5 and C13-m6 are MISSED at present (DESIGN.md section 12).",
        "technique": "Coq proof of commuting equations between two configurations, lifted to the structured text and "
                     "to bytes + differential correspondence + pairwise metamorphic oracle",
    },
    "C14": {
        "text": "Coq theorems for ALL graphs: with inverse_paths the direct statements, header count and label of "
                "every shape are those of the run without it -- any target mode, any remove_empty_shapes, thresholds "
                "<= 1, no class IRI starting with '%' or '@' (C14_run_direct_unchanged_valid; "
                "C14_run_direct_unchanged with empty shapes kept) -- and the inverse statements are exactly what the "
                "direct strategy computes from the inverse features, flagged '^' (C14_inverse_part_binary64); for "
                "graphs whose non-typing triples link IRI nodes the inverse features are the direct features of the "
                "graph with those triples reversed, for counts, the whole profile (equal as dictionaries, order "
                "included) and, empty shapes kept, the statements (C14_occ_inverse_is_reverse, "
                "C14_inverse_is_reverse_entries, C14_inverse_is_reverse_statements).  Tied to /repo by the "
                "correspondence and a three-run metamorphic oracle (G with, G without, reverse(G) without).",
        "design": "DESIGN.md sections 0a, 6, 11 (C14)",
        "note": TB + "The reversal needs IRI nodes: blank-node subjects of incoming links get no shape references by "
                "design (C14_keys_inverse_bnode_refuted), the property's own exclusion.  No finding.  Since seeds "
                "C14-m3 / C14-m4 the check also runs documents with literals spelled like a node, class or property "
                "of the graph and shape-map cases whose targets only ever occur as objects, and recounts the "
                "incoming constraints from the triples.  Run theorems about Run.run_shapes reach the code through "
                "E2E_cur_run_direct_unchanged_valid (Props/ShexStage.v, part of the proof gate).",
        "technique": "Coq proof (filtering commutes with the stable sort; direct / inverse code paths related by a "
                     "swap; reversal of the graph) + differential correspondence + metamorphic oracle",
    },
    "C15": {
        "text": "Coq theorems about an executable model of the endpoint path -- result reader, token tuning, "
                "per-node cache with its local graph, depth-1 traversal, class / selector queries with LIMIT, the "
                "tracker's early stop -- with the endpoint's answer order as an oracle argument: for all graphs of "
                "the domain (dom: IRI nodes, literals that read back as the local path reads them, no repeated "
                "statement; names_ok: the selector parser's keyword removal changes no class name and "
                "all_classes_mode lists the classes of the instantiation property -- true of every input since "
                "6e7011d / 6a980b4: C15_names_no_root_cause), all modes and both cache settings each pass is "
                "delivered exactly the statements touching its targets, each once (C15_triples, C15_delivered_once), "
                "the cache never changes what is delivered (C15_cache_same_result), the cached query log is a "
                "subsequence of the uncached one with no node fetched twice (C15_cache_log_partial), what is "
                "delivered is a permutation of what the local feature pass considers (C15_equals_local_partial), "
                "targets come in first-occurrence order (C15_targets_first_occurrence).  Tied to /repo by exact "
                "query-sequence and delivered-triple correspondence against an in-process rdflib-backed endpoint and "
                "a metamorphic oracle endpoint vs local extraction; planted streams: language-tag and embedded-quote "
                "twins, custom instantiation property, names holding 'SPARQL', prefixed / bracketed target classes.",
        "design": "DESIGN.md sections 0a, 6, 11 (C15)",
        "note": TB + "Also tools/gen_consts_c15.py (Gen/ConstsC15.v).  Partial: the log statement when pass 1 reads the "
                "whole stream; equality of the shapes rests on C09 (keys and counts).  Known: C15-F3 (blank nodes "
                "answered by an endpoint; C15_bnode_refuted), C15-F6 (LIMIT sent once per pass without ORDER BY; "
                "C15_limit_two_selects_refuted).  Fixed in /repo: C15-X-bc610c7, C15-X-1a7b577, C15-X-49681e3, "
                "C15-X-9a43704, C15-X-5ceb1a7-F7 and -F8 (found as C15-F7 / F8: the cache merged literals differing "
                "only in the language tag / after an embedded quote; C15_cache_keeps_lang_fixed, "
                "C15_cache_keeps_quote_fixed), C15-X-6a980b4 (C15-F9: all_classes_mode ignored a custom "
                "instantiation property; C15_all_classes_tau_fixed), C15-X-6e7011d (C15-F10: 'SPARQL' removed from "
                "class IRIs; C15_sparql_in_class_fixed).  The HTTP client is replaced by monkey-patching "
                "shexer.io.sparql.query._query_endpoint_json_result; rdflib evaluates the query text.",
        "technique": "executable Gallina model with oracle arguments; cache invariant by induction over requests; "
                     "differential correspondence on exact query / triple sequences; metamorphic oracle",
    },
    "C16": {
        "text": "Coq theorems: the tracker model with a cap lists per class exactly its first min(k,|class|) "
                "instances in both target modes (C16_cap_firstn, C16_cap_dictionary; the early stop is harmless: "
                "C16_cap_early_stop), equals the uncapped tracker on the restricted document, hence the whole ShExC "
                "output equals the extraction whose instance pass reads the restricted document "
                "(C16_cap_is_restriction_run), all figures of a capped run are exact for the first-k subset "
                "(C16_cap_figures_exact), a cap not smaller than every class or the source default changes nothing "
                "(C16_cap_large_id_run, C16_cap_large_is_default); namespaces_to_ignore deletes exactly the "
                "direct-child-predicate triples from the feature pass only (C16_ns_filter, C16_ns_child_rule, "
                "C16_ns_nested).  Tied to /repo byte for byte and by two-real-run metamorphic oracles, exhaustive "
                "over the orderings of <= 5 typing triples.",
        "design": "DESIGN.md sections 0a, 6, 11 (C16)",
        "note": TB + "Hypotheses of the first-k statement: NoDup g, ids_faithful g (C16_duplicate_line_witness).  'In "
                "document order' is proved as Permutation plus the exact dictionary (C16_order_witness).  "
                "C16_cap_is_restriction_run is stated for the run with ClassShexer's stages in the order of the code "
                "(run_shexc_cur) against the two-document run; for Run.run_shexc on the computed domain order_dom: "
                "C16_cap_is_restriction_run_modelled; with two documents the stage order matters "
                "(C16_two_documents_order_refuted, C16_two_documents_order_irrelevant).  Fixed in /repo: "
                "C16-X-0def8b0 (C16_F1_regression).  No known finding.  No case lists several files out of sorted "
                "order: the seeded change C16-m5 is MISSED at present (DESIGN.md section 12).",
        "technique": "induction over the triple stream with a cap-as-filter characterisation, invariant plus "
                     "pigeonhole for the early stop; differential and metamorphic runs",
    },
    "C17": {
        "text": "Coq theorems: for ALL id lists of C17_dom (every well-formed id list since 96dbaaf: C17_dom_unfold) "
                "the printed stem is a common prefix ending at ':', '/' or '#', has >= 3 characters, is not a bare "
                "scheme and is the longest such stem; none is printed only when none is admissible; a class with a "
                "blank-node instance gets none; independent of instance order; per class the fold computes it "
                "(C17_stem_longest, C17_stem_none, C17_stem_bnode_class_none, C17_stem_order_independent, "
                "C17_class_stem); for all graphs and modes the shape example is an instance of the class and a "
                "constraint example a value of the property in that direction, and every class with an instance gets "
                "a shape example (C17_examples_from_data, C17_shape_example_complete); and on the printed TEXT: "
                "neither option changes a constraint, the text with decorations stripped is the plain text, what is "
                "printed is that stem / such an example (C17_structure_unchanged, C17_text_strip_decor, "
                "C17_printed_stem_longest, C17_printed_example_from_data); printing the example line raises for no "
                "shape of any run (C17_F4_repaired, C17_example_line_never_raises, since a9573a5).  Tied to /repo by "
                "bounded-exhaustive function-level correspondence (1.2 M rows), byte-exact decorated texts and "
                "end-to-end runs with a brute-force oracle.",
        "design": "DESIGN.md sections 0a, 6, 11 (C17)",
        "note": TB + "Known: C17-F3 (examples lose their node kind when printed; C17_F3_as_printed).  Fixed in /repo: "
                "C17-X-a83169a, C17-X-cb32cb4, C17-X-a9573a5 (found as C17-F4: examples_mode raised on a printed "
                "shape without instance; C17_F4_refuted for the old text), C17-X-96dbaaf (found as C17-F5 = C09-F3: "
                "a stem cut out of blank-node labels; C17_bnode_label_stem_refuted for the old text, "
                "C17_bnode_label_stem_fixed).  Ids starting with the shape sentinel are outside the domain "
                "(C17_sentinel_refuted).  Blank-node ids without '_:' are the limit of 96dbaaf (DESIGN.md section "
                "10).",
        "technique": "Gallina model + Consts.v + bounded-exhaustive function-level and sampled end-to-end "
                     "differential correspondence + brute-force Spec oracle",
    },
    "C18": {
        "text": "Coq theorems about a state machine of the Shaper API glue -- store of namespace-dictionary objects, "
                "memo slots, statement mutation by examples_mode, the line buffer flushed every flush_size lines "
                "(from Consts.v) to a string or file: the file sink's content equals the string sink's result and "
                "the concatenation of the lines for ANY number of lines, flush size and prior file content "
                "(C18_file_eq_string); for every pipeline and every well-formed history of ANY length over any "
                "number of Shapers every call returns or writes exactly what a fresh Shaper returns for the call's "
                "own arguments (C18_pure, C18_free_pure); with the concrete tracker, profiler, shexing stage and "
                "serialiser plugged in every ShExC call is run_shexc of its own arguments and threshold "
                "(C18_shex_calls_are_run_shexc, C18_threshold_honoured); every profile_graph call is "
                "run_profile_json of its own arguments, file sink = string sink "
                "(C18_profile_calls_are_run_profile_json, C18_profile_file_eq_string).  Tied to /repo by predicting "
                "every output of all 2379 call histories of length <= 3 on five configurations (one with "
                "detect_minimal_iri and a class without an IRI stem; incl. outputs beyond "
                "two 5000-line flushes) and pairs of Shapers sharing a dictionary, against fresh-Shaper references, "
                "and by a profile channel (random graphs and configurations, profile_graph to string / file mixed "
                "with shex_graph) compared byte for byte with the model.",
        "design": "DESIGN.md sections 0a, 6, 11 (C18)",
        "note": TB + "SHACL texts stay an abstract stage; 'the SHACL serialiser ignores example comments' is monitored.  "
                "A call after a call that RAISED is outside the histories claimed: a Shaper whose first call raised "
                "inside the profiler is left half-adapted (counted under monitored_not_judged; DESIGN.md section "
                "10).  No known finding.  Fixed in /repo: C18-X-1b070df, C18-X-51cea95, C18-X-b8215b0, C18-X-15b8381 "
                "(C18_former_witnesses), C18-X-7d16faf (under detect_minimal_iri a later call with another threshold "
                "raised AttributeError when a shape has no IRI stem; regression: configuration 'stems').",
        "technique": "Gallina state machine over an abstract pipeline, instantiated with the concrete one; induction "
                     "over the history and over the line list; correspondence with the real Shaper on all histories "
                     "<= 3",
    },
    "C19": {
        "text": "Coq theorems that the places where a result could depend on something other than the arguments do "
                "not: the shapes prefix is independent of the random oracle iff a priority prefix is free, for all "
                "dictionaries (C19_prefix_oracle_independent, C19_prefix_random_iff_all_taken); the two 'shapes to "
                "remove' sets give the same result under any iteration order (C19_profile_removal_order_independent, "
                "C19_shape_removal_order_independent); the key order of the instance dictionary merged by "
                "MixedInstanceTracker._integrate_dicts is a function of the key orders of its two arguments "
                "(C19_integrate_dicts_key_order); the pipeline model (tracker, profiler, shexing, serialiser) takes "
                "no oracle argument at all.  The list of nondeterminism sites is tied to the source by an AST scan "
                "against corpus/C19/sites.json on every run (29 sites; set algebra on dictionary views counts as set "
                "creation; reviewed functions pinned by the hash of their source); every case is run in fresh "
                "interpreters under 8 / 64 PYTHONHASHSEED values and the ShExC bytes / SHACL digests compared, incl. "
                "shape map + all_classes_mode runs, tie graphs and all 16 subsets of the default shapes prefixes "
                "already bound by the user.",
        "design": "DESIGN.md sections 0a, 6, 11 (C19)",
        "note": TB + "rdflib's iteration order and blank-node ids are not modelled: any rdflib-sourced input is hash-seed "
                "dependent (C19-F1, known).  Fixed in /repo: C19-X-c9a1e70 (target nodes in a set; "
                "C19_target_order_refuted documents why).  Also trusted: the AST scanner's site patterns.",
        "technique": "explicit oracle arguments with independence theorems + AST scan of nondeterminism sites + "
                     "fresh interpreters across hash seeds",
    },
    "C20": {
        "text": "Coq theorem that the model of Shaper.__init__'s checks plus the shape-map stage accepts exactly the "
                "configurations of the property's reference predicate and rejects all others with ValueError "
                "(C20_ctor_iff on C20_dom; C20_ctor_accept_sound everywhere; C20_call_iff for shex_graph), with the "
                "membership lists regenerated from shaper.py on every run, and a bounded-exhaustive differential run "
                "of the model against the real constructor (all 8192 presence patterns, enum combinations per single "
                "source, present-but-falsy arguments, call cases as first and second call, invalid calls on a Shaper "
                "whose graph file does not exist).",
        "design": "DESIGN.md sections 0a, 6, 11 (C20)",
        "note": TB + "Dummy argument values stand for their presence pattern; rdflib's construction-time behaviour is "
                "modelled as observed.  Off C20_dom the full statement is refuted (C20_full_refuted): C20-F1, "
                "C20-F2, C20-F3, known (a shape map with a multi-file / URL source, a streaming format or a "
                "compressed file fails inside rdflib at construction).",
        "technique": "Coq proof (destruct + boolean reflection) over a finite configuration record + exhaustive "
                     "model / implementation correspondence",
    },
}

# Props/CurTransfer.v: the run-level headline theorems of these four properties as compiled statements about
# run_shapes_cur / run_shexc_cur (the code's order of the shexing stage); gated by core.EXTRA_PROPS
_CUR = ("  The run-level headline theorems are restated for the code's current order of the shexing stage "
        "(RunCur.run_shapes_cur / run_shexc_cur, the functions the correspondence runs against /repo) as compiled "
        "statements in Props/CurTransfer.v (Cur_%s_*: _keep = remove_empty_shapes off, any frequency algebra; "
        "_valid = binary64, class_iris_ok, threshold <= 1, fewer than 2^53 triples), part of the proof gate.")
for _k in ("C04", "C05", "C09", "C13"):
    CLAIMED[_k]["note"] = CLAIMED[_k]["note"] + _CUR % _k


NOT_YET = {}

PROPS = ["C%02d" % i for i in range(1, 21)]


def main():
    checks = []
    for pid in PROPS:
        if pid not in CLAIMED:
            continue
        c = CLAIMED[pid]
        checks.append({
            "property_id": pid,
            "quick_cmd": "bin/check %s quick" % pid,
            "thorough_cmd": "bin/check %s thorough" % pid,
            "evidence_file": "evidence/%s.json" % pid,
            "replay_cmd_template": "bin/check %s quick --replay {path}" % pid,
            "engine": "rocq-model+correspondence",
            "level_claimed": {"category": "proof", "text": c["text"], "design_ref": c["design"]},
            "level_note": c["note"],
            "technique": c["technique"],
        })
    na = [{"property_id": pid, "reason": NOT_YET.get(pid, "not claimed yet: model, theorem and correspondence check for "
                                                          "this property are still being built (see DESIGN.md section 9); "
                                                          "the technique applies")}
          for pid in PROPS if pid not in CLAIMED]
    m = {
        "version": 1,
        "setup_cmd": "bin/setup",
        "hooks": {"guard": "SHEXER_VERIF", "enable": "no source hooks: the harness drives the public API "
                  "(and monkey-patches shexer.io.sparql.query for the fake endpoint) from outside /repo",
                  "baseline_off_cmd": "cd /repo && /venv/bin/python -m pytest -ra -q -p no:cacheprovider --timeout=900 "
                                      "--continue-on-collection-errors",
                  "source_commits": [], "add_only": True},
        "engines": [{"name": "rocq-model+correspondence", "path": "rocq/ harness/vp/ bin/check",
                     "serves_properties": [c["property_id"] for c in checks],
                     "kind_free_text": "Coq 8.16.1 development (Spec/Model/Proofs/Props) with Consts.v regenerated from "
                                       "/repo by tools/gen_consts.py; differential correspondence of the executable model "
                                       "(extracted OCaml + vm_compute cross-check) against the real shexer"}],
        "checks": checks,
        "not_applicable": na,
        "notes": "bin/check <id> quick|thorough [--replay f]; exit 0 held / only KNOWN-FINDING lines, 1 VIOLATION, "
                 "2 internal error of the machinery.  known_findings.json lists recorded and fixed defects.",
    }
    with open(os.path.join(ROOT, "MANIFEST.json"), "w") as f:
        json.dump(m, f, indent=1)
        f.write("\n")


if __name__ == "__main__":
    main()
