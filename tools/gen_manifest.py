#!/usr/bin/env python3
"""Writes MANIFEST.json from the table below (kept in one place so that it stays valid)."""
import json
import os

HERE = os.path.dirname(os.path.abspath(__file__))
ROOT = os.path.dirname(HERE)

CLAIMED = {
    "C01": {
        "text": "Machine-checked proofs (Coq 8.16.1, closed under the global context) about the executable model of the "
                "extraction pipeline (tracker, profiler, shexing, ShExC serialiser), for ALL graphs and configurations: "
                "the class profile holds exactly the declarative counts occ/class_count of Spec/Counts.v (Props/P1.v), and "
                "every figure of the output (header, constraint lines, comments, direct and inverse, whatever the "
                "threshold and switches) is the count of one profile entry of the same direction, property, kind and "
                "original cardinality, or -- for the merged NONLITERAL alternative only -- the sum of two entries "
                "(Props/C01.v, Props/ShexStage.v); binary64 ratios of n <= N never exceed 1.  The model is tied to "
                "/repo on every run: its ShExC text equals the real Shaper's byte for byte on every generated case and "
                "the property's projection (all figures) is compared; an independent oracle recomputes every printed "
                "figure from the abstract triples.",
        "design": "DESIGN.md sections 0a, 7 (C01), 11",
        "note": "Trusted: Coq kernel; gen_consts.py; extraction (ExtrOcamlBasic, ExtrOcamlString) cross-checked against "
                "vm_compute; Lib/Bin64 software binary64 validated against CPython; the harness (generator, canonicaliser, "
                "ratio-printing shim).  The statement is false for the NONLITERAL merge and for classes sharing a local "
                "name: refuted lemmas + findings C01-F1..F3.  Input through the N-Triples reader (C06's subject).",
        "technique": "Coq proof by induction over folds / dictionaries (profile = declarative counts; figures = profile "
                     "entries) + byte-exact differential correspondence of the extracted model + recount oracle",
    },
    "C02": {
        "text": "Machine-checked proofs for ALL profiles, thresholds and switch settings that the shexing stage keeps a "
                "(direction, property, value class) key iff some candidate of that key reaches the threshold -- with "
                "CPython's binary64 comparison iff the LARGEST count of the key does (boundary kept) --, never keeps a key "
                "twice, and yields one shape per class key of the profile with the class count (Props/C02.v); with "
                "Props/P1.v the counts are those of the data.  Tied to /repo by the byte-exact correspondence of the "
                "extracted model; an independent exact-rational oracle recomputes every key set from the triples.",
        "design": "DESIGN.md sections 0a, 7 (C02), 11",
        "note": "Trusted base as C01.  For value class 'nonliteral' the largest candidate count is the union count only "
                "when the instances with an IRI value and those with a BNode value are nested: refuted otherwise "
                "(C02_split_nonliteral_refuted, finding C02-F1).  With remove_empty_shapes only the soundness direction "
                "is proved (C02_keys_remove_partial).",
        "technique": "Coq proof (selection invariants of the two merge loops, monotone binary64 ratio) + differential "
                     "correspondence + exact-rational recount oracle on every k/n threshold boundary",
    },
    "C03": {
        "text": "Machine-checked proofs about the validated pipeline model (all closed under the global context): "
                "switching all_instances_are_compliant_mode off never changes a cardinality and never yields ?/* "
                "(C03_mode_off_keeps_cards, C03_mode_on_off); with keep_less_specific a '?' constraint comes from a "
                "{1} candidate that tied with its '+' sibling, so no instance has two matching values "
                "(C03_relaxed_card_sound, C03_opt_at_most_one); every output cardinality holds on every instance "
                "(C03_cardinalities, exact and binary64); and on the property's strict domain the instance typing is a "
                "valid typing of the extracted schema under the ShEx semantics of Spec/ShexSem.v "
                "(C03_conformance_partial: the profile characterisation is a premise that the check evaluates on every "
                "input).  The ORACLE on the real ShExC text is the EXTRACTED Coq semantics (valid_typingb), judging "
                "every (instance, shape) pair; the real output is corresponded with the model's on both mode settings.",
        "design": "DESIGN.md sections 0a, 7 (C03), 11",
        "note": "Outside strict_domb three root causes break the guarantee (findings C03-F1..F3, refuted lemmas).  "
                "Disjunctions, target-class mode, instance cap, custom shapes namespace are outside the domain.  "
                "Trusted base as C01 + the ShExC canonicaliser that feeds the extracted validator.",
        "technique": "Coq theorems about the pipeline model; ShEx semantics written as a decidable Spec and extracted to "
                     "OCaml as the oracle on real output; differential correspondence on the full canonical structure",
    },
    "C04": {
        "text": "Machine-checked proof that the shexing stage of the model -- in which every unguarded dereference, "
                "index, key lookup and raise of the Python code is an explicit error outcome -- returns a result for "
                "ALL profiles, counts, thresholds and switch settings with disjunctions disabled (default) whenever the "
                "profile's type keys are renderable, plus the exact characterisation of the only failures of "
                "tune_token and of the empty-shape cleaning loop (Props/C04.v).  Tied to /repo by comparing the "
                "outcome (result / exception class) of the real shex_graph with the model's on C01's graphs and "
                "adversarial mixes; SHACL output and profile_graph are exercised on the implementation only.",
        "design": "DESIGN.md sections 0a, 7 (C04), 11",
        "note": "Trusted base as C01.  Not modelled (observed only): SHACL serialisation crashes, profile_graph, input "
                "readers other than N-Triples.  Five crashes found this way were repaired in /repo (fix: commits, "
                "known_findings.json status fixed).",
        "technique": "Coq totality proof over an error-explicit model + differential outcome correspondence + crash "
                     "search over adversarial graphs x configurations x {ShExC, SHACL, profile_graph}",
    },
    "C05": {
        "text": "Machine-checked proof (Coq 8.16.1, closed under the global context) that every ShExC text the validated "
                "serialiser model prints on C05_dom is accepted by a lexer + automaton recogniser written from the ShEx "
                "2.1 grammar (C05_document_recognised) and, given a reference-closed shape list with distinct labels, has "
                "a functional prefix map, only declared prefixes, distinct labels and resolving references "
                "(C05_closed_text, C05_wellformed_closed_partial); reference closure and label distinctness of the shape "
                "list after empty-shape removal are proved in Props/C05refs.v for the default shapes namespace and "
                "injective labels.  The model's text equals the real Shaper's byte for byte, and the EXTRACTED "
                "recogniser and closure checks run on every real output (incl. reference chains through shape maps); "
                "SHACL output is parsed with rdflib and checked for sh:node / path closure.",
        "design": "DESIGN.md sections 0a, 7 (C05), 11",
        "note": "Partial: SHACL is oracle-only (not modelled); C05_dom of the shape list is monitored at run time by the "
                "model binary rather than derived from graph-level premises; the random-prefix fallback is outside the "
                "model.  Findings C05-F1 (custom shapes_namespace: dangling references, pinned by golden files), C05-F2 "
                "(shared local names: duplicate labels), C05-F3 (parsed prefix collision).  Trusted: the Spec recogniser "
                "(a subset of the grammar, keywords case-insensitive).",
        "technique": "Coq: state-machine lexer and parser automaton compositional over ++, per-line token lemmas, closure "
                     "invariant of the cleaning loop; byte-exact text correspondence; extracted-Spec oracle on real output",
    },
    "C06": {
        "text": "Machine-checked proofs (closed under the global context; no fuel or length bound) about an executable "
                "Gallina model of the N-Triples reader (tokenizer with its find-based end-of-token arithmetic, token "
                "tuning, literal typing, both line readers, error counter), with its dispatch characters, markers and "
                "tables regenerated from the source: for every valid triple and layout of C06_dom reading the rendered "
                "line yields exactly the kinded triple, zero error lines, no exception and no hang (C06_partial), the "
                "same for whole documents in order (C06_document_partial), the reader always terminates "
                "(C06_terminates), and C06_dom is exactly 'no root cause present' (C06_dom_is_no_root_cause).  Tied to "
                "/repo by bounded-exhaustive correspondence: every lexical form of <= 3 (thorough: <= 4) symbols over "
                "the adversarial alphabet x suffix forms x separator layouts x dot / comment variants x subjects "
                "(quick 896 844 lines, thorough 10.4 M), every real call under SIGALRM, the abstract triple as oracle "
                "and rdflib's parser validating the generator.",
        "design": "DESIGN.md sections 0a, 7 (C06), 11",
        "note": "The full property is false on the current reader: eight root causes (findings C06-F1..F8, each a Gallina "
                "predicate with a refuted lemma and a pinned line); C06_dom excludes exactly those.  Two hangs / wrong "
                "typings were repaired earlier (C06-X-de802c9, C06-X-569e07d); three further repairs are in "
                "preparation.  Lexical forms are not compared (the property does not ask for them).",
        "technique": "executable Gallina model of the reader; induction over items/characters; bounded-exhaustive "
                     "differential correspondence; Gallina domain classifier evaluated by the model binary",
    },
    "C07": {
        "text": "Machine-checked proofs (14 theorems, closed under the global context) about an executable Gallina model "
                "of the streaming Turtle reader: the subject/predicate/object state machine persisted across lines "
                "yields exactly the triples of the statement groups for ANY cut of the token sequence into lines "
                "(C07_T1, unbounded); the tokenizer returns exactly the tokens of a cleaned dialect line and never "
                "raises or hangs (C07_T2); prefix/base expansion and literal typing give the spec's node, IRI, label or "
                "datatype (C07_T4); cleaning removes exactly the comment on the proved line shapes (C07_T3_*); "
                "end to end, reading the rendered TEXT of any document and layout of C07_partial_dom yields its "
                "semantics (C07_partial); the tested out-of-dialect escapes raise (C07_reject).  ~35 reader constants "
                "are regenerated from the source.  Tied to /repo by correspondence with the real reader on every "
                "generated document (all 3^gaps layouts / 2^gaps break placements of small documents), with the "
                "abstract triples as oracle and rdflib's Turtle parser validating the generator.",
        "design": "DESIGN.md sections 0a, 7 (C07), 11",
        "note": "The full property is false on the current reader: 17 known findings (F1-F13 expansion / typing / comment "
                "scan, R1-R4 missing rejections), each with a refuted lemma and a pinned reproducer; C07_dom excludes "
                "exactly those.  Lexical forms are not compared; untyped numerics other than [+-]digits[.digits] give the "
                "explicit outcome 'unmodelled'.  Open: T3 for a line holding both a string literal and a comment.",
        "technique": "executable Gallina model of the reader; induction over token streams and line cuts; differential "
                     "correspondence bounded-exhaustive over layouts",
    },
    "C08": {
        "text": "Machine-checked proofs (16 theorems, closed under the global context) about an executable model of the "
                "plumbing that turns a source into the two triple streams of the two passes, with the format x "
                "compression x source dispatch, line-reader chain and zip guard generated from the AST: for "
                "line-compositional readers ANY partition of the lines into files / zip members / archives and any "
                "documented compression gives the stream of the single raw string (C08_partition_invisible*; the reader "
                "hypotheses are discharged for TSV), both passes of line channels see the same list "
                "(C08_both_passes_same), rdflib's per-pass permutation and blank-node renaming are invisible when no "
                "blank node is an instance or class (C08_renamings_invisible_partial, composed with C09), every "
                "accepted combination reaches the expected yielder (C08_dispatch_total), and the TSV channel reads the "
                "NT semantics (C08_tsv_reads_nt_semantics).  Tied to /repo by a metamorphic oracle over 34 channels per "
                "graph, stream correspondence with the real reader plugged in, exhaustive dispatch and line-reader "
                "correspondence.",
        "design": "DESIGN.md sections 0a, 7 (C08), 11",
        "note": "Hypotheses: the N-Triples reader's line-compositionality is C06's; codecs are identities (monitored); "
                "rdflib delivers a permutation up to injective renaming (monitored).  Findings C08-F1..F5.  TURTLE_ITER "
                "is corresponded but has no partition theorem (prefix state).",
        "technique": "executable Gallina model with table-driven dispatch from Consts.v, readers and rdflib as Section "
                     "variables / oracles; metamorphic oracle + stream and dispatch correspondence",
    },
    "C09": {
        "text": "Machine-checked proofs for ALL graphs: the declarative counts occ/class_count are invariant under "
                "permutation of the statements; without a cap the tracker's instance dictionary of a permuted document "
                "has the same instances with permuted class lists; hence every number of the class profile and (with "
                "remove_empty_shapes off) the shape set, instance counts and constraint key sets of the whole run are "
                "the same for g and any permutation of g (Props/C09.v, closed under the global context).  Equality of the "
                "CHOSEN constraints under ties is refuted by two witnesses (findings C09-F1, C09-F2).  Tied to /repo by "
                "the byte-exact correspondence and by a metamorphic oracle on pairs of real runs (random and "
                "exhaustive permutations, blank-node relabelling, IRI stems included).",
        "design": "DESIGN.md sections 0a, 7 (C09), 11",
        "note": "Blank-node renaming is checked by the oracle only (no theorem: labels enter shape names and the "
                "IRI/BNode string comparisons); remove_empty_shapes on and the choice among tied candidates are outside "
                "the proved statement.  Trusted base as C01.",
        "technique": "Coq proof (Permutation induction, set characterisation of the tracker, congruence of occ in the "
                     "instance dictionary) composed with P1 and the key theorem + metamorphic differential runs",
    },
    "C10": {
        "text": "Machine-checked proof (Coq 8.16.1, closed) that, for every graph and target specification of C10_dom "
                "written as class names (full / <bracketed> / prefixed, list or file) or a shape map (fixed or JSON "
                "syntax; node, {FOCUS p o}, {s p FOCUS}, SPARQL) or both, the model of sheXer's parsers and instance "
                "trackers yields a dictionary holding key S for node n iff the Spec denotes n for S, with exact "
                "multiplicities, nothing else, and rdf:type ordinary under a custom instantiation property; 17 parser "
                "constants regenerated from /repo; differential run of model vs real tracker on generated cases plus an "
                "independent Python oracle at dictionary and text level.",
        "design": "DESIGN.md sections 0a, 7 (C10), 11",
        "note": "Trusted: Coq kernel, gen_consts.py, extraction (vm_compute cross-checked), rdflib (parse, FOCUS/SPARQL "
                "evaluation and blank-node ids are oracle arguments, monitored), NT reader = abstract triples.  Off "
                "C10_dom: findings C10-F1..F6 (_refuted lemmas, pinned reproducers).  Layout variants: check only.",
        "technique": "Coq proofs by induction over triples/items plus string lemmas (parse o render); extracted-model "
                     "correspondence; Spec-level Python oracle with figure recomputation",
    },
    "C11": {
        "text": "Machine-checked proof (closed under the global context) that for every well-formed statement -- kinds "
                "IRI, BNode, NONLITERAL, shape reference, datatype; instantiation constraints of any cardinality and "
                "direction; all {k>=1}, +, *, ? -- the model of the SHACL serialiser emits exactly the encoding of what "
                "the model of the ShExC serialiser prints (C11_views_agree, C11_read_back, C11_shapes_agree: one node "
                "shape per shape, same IRI, sh:targetClass = class, one property shape per constraint, in order; "
                "C11_cardinality_table), with the node-kind table, SHACL vocabulary, cardinality tables and the "
                "serialiser's helper-call sequences regenerated from shacl_serializer.py on every run.  Tied to /repo by "
                "per-line correspondence of both views against one real Shaper's two outputs and by a property-text "
                "oracle (rdflib + ShExC canonicaliser), plus a complete grid of synthetic statements.",
        "design": "DESIGN.md sections 0a, 7 (C11), 11",
        "note": "Conditions: http(s) predicates and class values, a sane namespaces dict, no OR statements, "
                "detect_minimal_iri off.  Four defects found this way were repaired in /repo (C11-X-3370abe-*, "
                "C11-X-48b7fcb-*); their reproducers are regression cases.  Trusted base as C01 + rdflib's Turtle parser.",
        "technique": "Gallina models of both serialisers over one statement; case analysis on kind x cardinality x "
                     "direction; string lemmas for the IRI print/read round trip; differential check",
    },
    "C12": {
        "text": "Machine-checked proofs for ALL profiles and configurations: with thr1 <= thr2 (CPython binary64 "
                "comparison, class sizes < 2^53; also exact rationals) every shape and key present at thr2 is present at "
                "thr1 (remove_empty_shapes off; on, on the domain where no reference points to an empty shape), every "
                "figure is a profile entry independent of the threshold, and the threshold reaches the pipeline only "
                "through the shexing stage (Props/C12.v).  Tied to /repo by the correspondence of the extracted model and "
                "by a metamorphic oracle over fresh real Shapers at all ordered pairs of a k/n threshold grid.",
        "design": "DESIGN.md sections 0a, 7 (C12), 11",
        "note": "Trusted base as C01.  Refuted and recorded: the figure of the merged NONLITERAL alternative changes "
                "with the threshold (C12-F1); a reference to a shape that ends up empty is deleted outright "
                "(C12_remove_key_refuted; needs a shape-map label without triples).",
        "technique": "Coq proof (transitivity of the binary64 order proved from a software model of IEEE division; "
                     "key-set preservation through both merges) + differential correspondence + metamorphic oracle",
    },
    "C13": {
        "text": "Machine-checked equations for ALL profiles/graphs: disable_comments, allow_opt_cardinality, "
                "disable_exact_cardinality and all_instances_are_compliant_mode change the result of the shexing stage "
                "exactly by mapping drop_comments / ?->* / {k>1}->+ / the per-statement relaxation over the statements "
                "(errors coincide); disable_or_statements=False only replaces merged statements by disjunctions of the "
                "same alternatives; instances_report_mode and the namespaces dictionary never change the shapes "
                "(Props/C13.v).  Tied to /repo by the byte-exact correspondence and by a one-factor-at-a-time "
                "metamorphic oracle on real runs, including file vs string output beyond the 5000-line buffer.",
        "design": "DESIGN.md sections 0a, 7 (C13), 11",
        "note": "Trusted base as C01.  decimals is rendered by the harness shim (not in the model): checked numerically; "
                "decimals=0 truncates (finding C13-F1, pinned by a golden file).  The all-compliant equation holds on "
                "O4_dom (refuted outside: a relaxed statement's comment keeps {3} while the line shows +).",
        "technique": "Coq proof of commuting equations between two configurations + differential correspondence + "
                     "pairwise metamorphic oracle",
    },
    "C14": {
        "text": "Machine-checked proofs for ALL class entries, thresholds and switches: with inverse_paths the direct "
                "statements, instance count and label of a shape are those of the run without it, and the inverse "
                "statements are exactly what the direct strategy computes from the inverse features, flagged '^' "
                "(Props/C14.v; premise: fle is a total preorder on the class's probabilities, proved for binary64); the "
                "profiler's direct features do not depend on the flag (Props/P1.v).  Tied to /repo by the correspondence "
                "and by a three-run metamorphic oracle (G with, G without, reverse(G) without).",
        "design": "DESIGN.md sections 0a, 7 (C14), 11",
        "note": "Trusted base as C01.  The reversed-graph comparison is strict on graphs without blank nodes (blank-node "
                "subjects of incoming links get no shape references by design).",
        "technique": "Coq proof (filtering commutes with the stable sort; direct/inverse code paths related by a swap) + "
                     "differential correspondence + metamorphic oracle",
    },
    "C15": {
        "text": "Machine-checked proofs (7 theorems, closed under the global context) about an executable model of the "
                "endpoint path -- result reader, token tuning, per-node cache with its local graph, depth-1 traversal, "
                "class/selector queries with LIMIT, the tracker's early stop -- with the endpoint's answer order and "
                "the set-to-list order as oracle arguments: for all graphs of C15_dom, all modes and both cache settings "
                "the triples delivered to each pass are, as multisets, the neighbourhoods of the targets "
                "(C15_triples), the cache never changes what is delivered (C15_cache_same_result), the cached query log "
                "is a subsequence of the uncached one with no node fetched twice (C15_cache_log_partial), and the "
                "delivered triples are the restriction of G the local feature pass considers (C15_equals_local_partial; "
                "equality of the shapes then rests on C09's permutation invariance).  Tied to /repo by exact "
                "query-sequence and delivered-triple correspondence against an in-process rdflib-backed endpoint and a "
                "metamorphic oracle endpoint vs local extraction.",
        "design": "DESIGN.md sections 0a, 7 (C15), 11",
        "note": "Partial: (c) not for capped target_classes; shapes equality composes with C09 informally.  Six findings "
                "C15-F1..F6 (F2 inside the property's domain: with inverse paths a statement linking two targets is "
                "delivered and counted twice).  The HTTP client is replaced by monkey-patching "
                "shexer.io.sparql.query._query_endpoint_json_result; rdflib evaluates the query text (trusted).",
        "technique": "executable Gallina model with oracle arguments; cache invariant by induction over requests; "
                     "differential correspondence on exact query/triple sequences; metamorphic oracle",
    },
    "C16": {
        "text": "Machine-checked proofs (Coq 8.16.1, closed) that the tracker model with a cap lists per class exactly "
                "the first min(k,|class|) instances in both target modes (early stop proved harmless), equals the "
                "uncapped tracker on the restricted document, is the identity for large caps / the source default, and "
                "that namespaces_to_ignore deletes exactly the direct-child-predicate triples from the feature pass "
                "only (17 theorems, Props/C16.v); model tied to /repo byte for byte and by two-real-run metamorphic "
                "oracles, exhaustive over the orderings of <= 5 typing triples.",
        "design": "DESIGN.md sections 0a, 7 (C16), 11",
        "note": "Hypotheses: NoDup g, ids_faithful g, tau_ok (off tau_ok: finding C16-F1).  The 'in document order' "
                "claim is proved as Permutation plus the exact dictionary (C16_cap_dictionary; order witness).  The rest "
                "of the pipeline is used only through run_shexc2's shape.  Trusted base as C01.",
        "technique": "induction over the triple stream with a cap-as-filter characterisation, invariant plus pigeonhole "
                     "for the early stop; differential and metamorphic runs",
    },
    "C17": {
        "text": "Machine-checked proofs (closed under the global context): for ALL well-formed id lists the printed stem "
                "is a common prefix, ends at ':', '/' or '#', has >= 3 characters, is not a bare scheme and is the "
                "longest such stem, and no stem is printed only when none is admissible (C17_stem_longest, "
                "C17_stem_none), independent of instance order; per class the fold computes that stem; for all graphs "
                "and modes the shape example is an instance of the class and a constraint example is a value of the "
                "property in that direction on some instance (C17_examples_from_data).  Separators, length bounds and "
                "the scheme regex are regenerated from the source.  Tied to /repo by bounded-exhaustive function-level "
                "correspondence (1.2M rows) and end-to-end runs with a brute-force oracle.",
        "design": "DESIGN.md sections 0a, 7 (C17), 11",
        "note": "'Neither option changes any constraint' is a run-time metamorphic check, not a theorem.  Finding C17-F3 "
                "(examples lose their node kind when printed).  Two stem defects repaired in /repo (a83169a, cb32cb4). "
                "Trusted base as C01.",
        "technique": "Gallina model + Consts.v + bounded-exhaustive function-level and sampled end-to-end differential "
                     "correspondence + brute-force Spec oracle",
    },
    "C18": {
        "text": "Machine-checked proofs (closed under the global context) about a Gallina state machine of the Shaper API "
                "glue -- store of namespace-dictionary objects, memo slots, statement mutation by examples_mode, the "
                "line buffer flushed every flush_size lines (from Consts.v) to a string or file -- over an abstract "
                "pipeline: the file sink's content equals the string sink's result and the concatenation of the lines, "
                "for ANY number of lines, flush size and prior file content (C18_file_eq_string), and for every "
                "well-formed history of ANY length every call returns or writes exactly what a fresh Shaper with its own "
                "dictionary copy returns for the call's own arguments (C18_pure, C18_free_pure; shared dictionaries "
                "included).  Tied to /repo by predicting every output of all 2379 call histories of length <= 3 on "
                "several configurations (incl. outputs beyond two 5000-line flushes) and pairs of Shapers sharing a "
                "dictionary, against fresh-Shaper references.",
        "design": "DESIGN.md sections 0a, 7 (C18), 11",
        "note": "Four history dependences found this way were repaired in /repo (C18-X-1b070df, -51cea95, -b8215b0, "
                "-15b8381); their pinned histories are regression cases.  Hypotheses: threshold equality decidable; the "
                "SHACL serializer ignores example comments (monitored).  Trusted base as C01.",
        "technique": "Gallina state machine over an abstract pipeline; induction over the history and over the line "
                     "list; free-instance correspondence with the real Shaper on all histories <= 3",
    },
    "C19": {
        "text": "Machine-checked proofs (closed under the global context) that the places where a result could depend on "
                "something other than the arguments do not: the shapes prefix is independent of the random oracle "
                "whenever a priority prefix is free, for all namespace dictionaries (C19_prefix_oracle_independent, "
                "..._random_iff_all_taken); the two 'shapes to remove' sets give the same result under any iteration "
                "order (C19_profile/_shape_removal_order_independent); the target-node collection is order-independent "
                "as a multiset of fetched triples (C19_target_order_partial).  The list of nondeterminism sites is tied "
                "to the source by an AST scan against corpus/C19/sites.json on every run; every case is run in fresh "
                "interpreters under 8 / 64 PYTHONHASHSEED values and the ShExC bytes / SHACL isomorphism digests "
                "compared.",
        "design": "DESIGN.md sections 0a, 7 (C19), 11",
        "note": "rdflib's iteration order and blank-node ids are not modelled: any rdflib-sourced input (parsed text or a "
                "Graph object) is hash-seed dependent (finding C19-F1).  One defect repaired in /repo (C19-X-c9a1e70). "
                "Trusted: the AST scanner's site patterns.",
        "technique": "explicit oracle arguments with independence theorems + AST scan of nondeterminism sites + fresh "
                     "interpreters across hash seeds",
    },
    "C20": {
        "text": "Machine-checked proof (Coq 8.16.1, closed under the global context) that the model of Shaper.__init__'s "
                "six checks plus the shape-map stage accepts exactly the configurations of the property's reference "
                "predicate and rejects all others with ValueError (C20_ctor_iff on C20_dom; C20_ctor_accept_sound "
                "everywhere; C20_call_iff for shex_graph), with the membership lists regenerated from shaper.py on "
                "every run, and a bounded-exhaustive differential run of the model against the real constructor "
                "(all 8192 presence patterns, all enum combinations per single source) that ties the model to the code.",
        "design": "DESIGN.md section 7 (C20)",
        "note": "Trusted: Coq kernel, gen_consts.py, the extraction/vm_compute evaluation of the model, the dummy "
                "argument values standing for their presence pattern, rdflib's construction-time behaviour (modelled). "
                "Off C20_dom the full statement is refuted (C20_full_refuted): findings C20-F1..F3.",
        "technique": "Coq proof (destruct + boolean reflection) over a finite configuration record + exhaustive "
                     "model/implementation correspondence",
    },
}

NOT_YET = {}

PROPS = ["C%02d" % i for i in range(1, 21)]


def main():
    checks = []
    for pid in PROPS:
        if pid not in CLAIMED:
            continue
        c = CLAIMED[pid]
        checks.append({
            "property_id": pid,
            "quick_cmd": "bin/check %s quick" % pid,
            "thorough_cmd": "bin/check %s thorough" % pid,
            "evidence_file": "evidence/%s.json" % pid,
            "replay_cmd_template": "bin/check %s quick --replay {path}" % pid,
            "engine": "rocq-model+correspondence",
            "level_claimed": {"category": "proof", "text": c["text"], "design_ref": c["design"]},
            "level_note": c["note"],
            "technique": c["technique"],
        })
    na = [{"property_id": pid, "reason": NOT_YET.get(pid, "not claimed yet: model, theorem and correspondence check for "
                                                          "this property are still being built (see DESIGN.md section 9); "
                                                          "the technique applies")}
          for pid in PROPS if pid not in CLAIMED]
    m = {
        "version": 1,
        "setup_cmd": "bin/setup",
        "hooks": {"guard": "SHEXER_VERIF", "enable": "no source hooks: the harness drives the public API "
                  "(and monkey-patches shexer.io.sparql.query for the fake endpoint) from outside /repo",
                  "baseline_off_cmd": "cd /repo && /venv/bin/python -m pytest -ra -q -p no:cacheprovider --timeout=900 "
                                      "--continue-on-collection-errors",
                  "source_commits": [], "add_only": True},
        "engines": [{"name": "rocq-model+correspondence", "path": "rocq/ harness/vp/ bin/check",
                     "serves_properties": [c["property_id"] for c in checks],
                     "kind_free_text": "Coq 8.16.1 development (Spec/Model/Proofs/Props) with Consts.v regenerated from "
                                       "/repo by tools/gen_consts.py; differential correspondence of the executable model "
                                       "(extracted OCaml + vm_compute cross-check) against the real shexer"}],
        "checks": checks,
        "not_applicable": na,
        "notes": "bin/check <id> quick|thorough [--replay f]; exit 0 held / only KNOWN-FINDING lines, 1 VIOLATION, "
                 "2 internal error of the machinery.  known_findings.json lists recorded and fixed defects.",
    }
    with open(os.path.join(ROOT, "MANIFEST.json"), "w") as f:
        json.dump(m, f, indent=1)
        f.write("\n")


if __name__ == "__main__":
    main()
