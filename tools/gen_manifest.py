#!/usr/bin/env python3
"""Writes MANIFEST.json from the table below (kept in one place so that it stays valid)."""
import json
import os

HERE = os.path.dirname(os.path.abspath(__file__))
ROOT = os.path.dirname(HERE)

CLAIMED = {
    "C20": {
        "text": "Machine-checked proof (Coq 8.16.1, closed under the global context) that the model of Shaper.__init__'s "
                "six checks plus the shape-map stage accepts exactly the configurations of the property's reference "
                "predicate and rejects all others with ValueError (C20_ctor_iff on C20_dom; C20_ctor_accept_sound "
                "everywhere; C20_call_iff for shex_graph), with the membership lists regenerated from shaper.py on "
                "every run, and a bounded-exhaustive differential run of the model against the real constructor "
                "(all 8192 presence patterns, all enum combinations per single source) that ties the model to the code.",
        "design": "DESIGN.md section 7 (C20)",
        "note": "Trusted: Coq kernel, gen_consts.py, the extraction/vm_compute evaluation of the model, the dummy "
                "argument values standing for their presence pattern, rdflib's construction-time behaviour (modelled). "
                "Off C20_dom the full statement is refuted (C20_full_refuted): findings C20-F1..F3.",
        "technique": "Coq proof (destruct + boolean reflection) over a finite configuration record + exhaustive "
                     "model/implementation correspondence",
    },
}

NOT_YET = {}

PROPS = ["C%02d" % i for i in range(1, 21)]


def main():
    checks = []
    for pid in PROPS:
        if pid not in CLAIMED:
            continue
        c = CLAIMED[pid]
        checks.append({
            "property_id": pid,
            "quick_cmd": "bin/check %s quick" % pid,
            "thorough_cmd": "bin/check %s thorough" % pid,
            "evidence_file": "evidence/%s.json" % pid,
            "replay_cmd_template": "bin/check %s quick --replay {path}" % pid,
            "engine": "rocq-model+correspondence",
            "level_claimed": {"category": "proof", "text": c["text"], "design_ref": c["design"]},
            "level_note": c["note"],
            "technique": c["technique"],
        })
    na = [{"property_id": pid, "reason": NOT_YET.get(pid, "not claimed yet: model, theorem and correspondence check for "
                                                          "this property are still being built (see DESIGN.md section 9); "
                                                          "the technique applies")}
          for pid in PROPS if pid not in CLAIMED]
    m = {
        "version": 1,
        "setup_cmd": "bin/setup",
        "hooks": {"guard": "SHEXER_VERIF", "enable": "no source hooks: the harness drives the public API "
                  "(and monkey-patches shexer.io.sparql.query for the fake endpoint) from outside /repo",
                  "baseline_off_cmd": "cd /repo && /venv/bin/python -m pytest -ra -q -p no:cacheprovider --timeout=900 "
                                      "--continue-on-collection-errors",
                  "source_commits": [], "add_only": True},
        "engines": [{"name": "rocq-model+correspondence", "path": "rocq/ harness/vp/ bin/check",
                     "serves_properties": [c["property_id"] for c in checks],
                     "kind_free_text": "Coq 8.16.1 development (Spec/Model/Proofs/Props) with Consts.v regenerated from "
                                       "/repo by tools/gen_consts.py; differential correspondence of the executable model "
                                       "(extracted OCaml + vm_compute cross-check) against the real shexer"}],
        "checks": checks,
        "not_applicable": na,
        "notes": "bin/check <id> quick|thorough [--replay f]; exit 0 held / only KNOWN-FINDING lines, 1 VIOLATION, "
                 "2 internal error of the machinery.  known_findings.json lists recorded and fixed defects.",
    }
    with open(os.path.join(ROOT, "MANIFEST.json"), "w") as f:
        json.dump(m, f, indent=1)
        f.write("\n")


if __name__ == "__main__":
    main()
