#!/usr/bin/env python3
"""Writes MANIFEST.json from the table below (kept in one place so that it stays valid)."""
import json
import os

HERE = os.path.dirname(os.path.abspath(__file__))
ROOT = os.path.dirname(HERE)

CLAIMED = {
    "C01": {
        "text": "Machine-checked proofs (Coq 8.16.1, closed under the global context) about the executable model of the "
                "extraction pipeline (tracker, profiler, shexing, ShExC serialiser), for ALL graphs and configurations: "
                "the class profile holds exactly the declarative counts occ/class_count of Spec/Counts.v (Props/P1.v), and "
                "every figure of the output (header, constraint lines, comments, direct and inverse, whatever the "
                "threshold and switches) is the count of one profile entry of the same direction, property, kind and "
                "original cardinality, or -- for the merged NONLITERAL alternative only -- the sum of two entries "
                "(Props/C01.v, Props/ShexStage.v); binary64 ratios of n <= N never exceed 1.  The model is tied to "
                "/repo on every run: its ShExC text equals the real Shaper's byte for byte on every generated case and "
                "the property's projection (all figures) is compared; an independent oracle recomputes every printed "
                "figure from the abstract triples.",
        "design": "DESIGN.md sections 0a, 7 (C01), 11",
        "note": "Trusted: Coq kernel; gen_consts.py; extraction (ExtrOcamlBasic, ExtrOcamlString) cross-checked against "
                "vm_compute; Lib/Bin64 software binary64 validated against CPython; the harness (generator, canonicaliser, "
                "ratio-printing shim).  The statement is false for the NONLITERAL merge and for classes sharing a local "
                "name: refuted lemmas + findings C01-F1..F3.  Input through the N-Triples reader (C06's subject).",
        "technique": "Coq proof by induction over folds / dictionaries (profile = declarative counts; figures = profile "
                     "entries) + byte-exact differential correspondence of the extracted model + recount oracle",
    },
    "C02": {
        "text": "Machine-checked proofs for ALL profiles, thresholds and switch settings that the shexing stage keeps a "
                "(direction, property, value class) key iff some candidate of that key reaches the threshold -- with "
                "CPython's binary64 comparison iff the LARGEST count of the key does (boundary kept) --, never keeps a key "
                "twice, and yields one shape per class key of the profile with the class count (Props/C02.v); with "
                "Props/P1.v the counts are those of the data.  Tied to /repo by the byte-exact correspondence of the "
                "extracted model; an independent exact-rational oracle recomputes every key set from the triples.",
        "design": "DESIGN.md sections 0a, 7 (C02), 11",
        "note": "Trusted base as C01.  For value class 'nonliteral' the largest candidate count is the union count only "
                "when the instances with an IRI value and those with a BNode value are nested: refuted otherwise "
                "(C02_split_nonliteral_refuted, finding C02-F1).  With remove_empty_shapes only the soundness direction "
                "is proved (C02_keys_remove_partial).",
        "technique": "Coq proof (selection invariants of the two merge loops, monotone binary64 ratio) + differential "
                     "correspondence + exact-rational recount oracle on every k/n threshold boundary",
    },
    "C04": {
        "text": "Machine-checked proof that the shexing stage of the model -- in which every unguarded dereference, "
                "index, key lookup and raise of the Python code is an explicit error outcome -- returns a result for "
                "ALL profiles, counts, thresholds and switch settings with disjunctions disabled (default) whenever the "
                "profile's type keys are renderable, plus the exact characterisation of the only failures of "
                "tune_token and of the empty-shape cleaning loop (Props/C04.v).  Tied to /repo by comparing the "
                "outcome (result / exception class) of the real shex_graph with the model's on C01's graphs and "
                "adversarial mixes; SHACL output and profile_graph are exercised on the implementation only.",
        "design": "DESIGN.md sections 0a, 7 (C04), 11",
        "note": "Trusted base as C01.  Not modelled (observed only): SHACL serialisation crashes, profile_graph, input "
                "readers other than N-Triples.  Five crashes found this way were repaired in /repo (fix: commits, "
                "known_findings.json status fixed).",
        "technique": "Coq totality proof over an error-explicit model + differential outcome correspondence + crash "
                     "search over adversarial graphs x configurations x {ShExC, SHACL, profile_graph}",
    },
    "C12": {
        "text": "Machine-checked proofs for ALL profiles and configurations: with thr1 <= thr2 (CPython binary64 "
                "comparison, class sizes < 2^53; also exact rationals) every shape and key present at thr2 is present at "
                "thr1 (remove_empty_shapes off; on, on the domain where no reference points to an empty shape), every "
                "figure is a profile entry independent of the threshold, and the threshold reaches the pipeline only "
                "through the shexing stage (Props/C12.v).  Tied to /repo by the correspondence of the extracted model and "
                "by a metamorphic oracle over fresh real Shapers at all ordered pairs of a k/n threshold grid.",
        "design": "DESIGN.md sections 0a, 7 (C12), 11",
        "note": "Trusted base as C01.  Refuted and recorded: the figure of the merged NONLITERAL alternative changes "
                "with the threshold (C12-F1); a reference to a shape that ends up empty is deleted outright "
                "(C12_remove_key_refuted; needs a shape-map label without triples).",
        "technique": "Coq proof (transitivity of the binary64 order proved from a software model of IEEE division; "
                     "key-set preservation through both merges) + differential correspondence + metamorphic oracle",
    },
    "C13": {
        "text": "Machine-checked equations for ALL profiles/graphs: disable_comments, allow_opt_cardinality, "
                "disable_exact_cardinality and all_instances_are_compliant_mode change the result of the shexing stage "
                "exactly by mapping drop_comments / ?->* / {k>1}->+ / the per-statement relaxation over the statements "
                "(errors coincide); disable_or_statements=False only replaces merged statements by disjunctions of the "
                "same alternatives; instances_report_mode and the namespaces dictionary never change the shapes "
                "(Props/C13.v).  Tied to /repo by the byte-exact correspondence and by a one-factor-at-a-time "
                "metamorphic oracle on real runs, including file vs string output beyond the 5000-line buffer.",
        "design": "DESIGN.md sections 0a, 7 (C13), 11",
        "note": "Trusted base as C01.  decimals is rendered by the harness shim (not in the model): checked numerically; "
                "decimals=0 truncates (finding C13-F1, pinned by a golden file).  The all-compliant equation holds on "
                "O4_dom (refuted outside: a relaxed statement's comment keeps {3} while the line shows +).",
        "technique": "Coq proof of commuting equations between two configurations + differential correspondence + "
                     "pairwise metamorphic oracle",
    },
    "C14": {
        "text": "Machine-checked proofs for ALL class entries, thresholds and switches: with inverse_paths the direct "
                "statements, instance count and label of a shape are those of the run without it, and the inverse "
                "statements are exactly what the direct strategy computes from the inverse features, flagged '^' "
                "(Props/C14.v; premise: fle is a total preorder on the class's probabilities, proved for binary64); the "
                "profiler's direct features do not depend on the flag (Props/P1.v).  Tied to /repo by the correspondence "
                "and by a three-run metamorphic oracle (G with, G without, reverse(G) without).",
        "design": "DESIGN.md sections 0a, 7 (C14), 11",
        "note": "Trusted base as C01.  The reversed-graph comparison is strict on graphs without blank nodes (blank-node "
                "subjects of incoming links get no shape references by design).",
        "technique": "Coq proof (filtering commutes with the stable sort; direct/inverse code paths related by a swap) + "
                     "differential correspondence + metamorphic oracle",
    },
    "C20": {
        "text": "Machine-checked proof (Coq 8.16.1, closed under the global context) that the model of Shaper.__init__'s "
                "six checks plus the shape-map stage accepts exactly the configurations of the property's reference "
                "predicate and rejects all others with ValueError (C20_ctor_iff on C20_dom; C20_ctor_accept_sound "
                "everywhere; C20_call_iff for shex_graph), with the membership lists regenerated from shaper.py on "
                "every run, and a bounded-exhaustive differential run of the model against the real constructor "
                "(all 8192 presence patterns, all enum combinations per single source) that ties the model to the code.",
        "design": "DESIGN.md section 7 (C20)",
        "note": "Trusted: Coq kernel, gen_consts.py, the extraction/vm_compute evaluation of the model, the dummy "
                "argument values standing for their presence pattern, rdflib's construction-time behaviour (modelled). "
                "Off C20_dom the full statement is refuted (C20_full_refuted): findings C20-F1..F3.",
        "technique": "Coq proof (destruct + boolean reflection) over a finite configuration record + exhaustive "
                     "model/implementation correspondence",
    },
}

NOT_YET = {}

PROPS = ["C%02d" % i for i in range(1, 21)]


def main():
    checks = []
    for pid in PROPS:
        if pid not in CLAIMED:
            continue
        c = CLAIMED[pid]
        checks.append({
            "property_id": pid,
            "quick_cmd": "bin/check %s quick" % pid,
            "thorough_cmd": "bin/check %s thorough" % pid,
            "evidence_file": "evidence/%s.json" % pid,
            "replay_cmd_template": "bin/check %s quick --replay {path}" % pid,
            "engine": "rocq-model+correspondence",
            "level_claimed": {"category": "proof", "text": c["text"], "design_ref": c["design"]},
            "level_note": c["note"],
            "technique": c["technique"],
        })
    na = [{"property_id": pid, "reason": NOT_YET.get(pid, "not claimed yet: model, theorem and correspondence check for "
                                                          "this property are still being built (see DESIGN.md section 9); "
                                                          "the technique applies")}
          for pid in PROPS if pid not in CLAIMED]
    m = {
        "version": 1,
        "setup_cmd": "bin/setup",
        "hooks": {"guard": "SHEXER_VERIF", "enable": "no source hooks: the harness drives the public API "
                  "(and monkey-patches shexer.io.sparql.query for the fake endpoint) from outside /repo",
                  "baseline_off_cmd": "cd /repo && /venv/bin/python -m pytest -ra -q -p no:cacheprovider --timeout=900 "
                                      "--continue-on-collection-errors",
                  "source_commits": [], "add_only": True},
        "engines": [{"name": "rocq-model+correspondence", "path": "rocq/ harness/vp/ bin/check",
                     "serves_properties": [c["property_id"] for c in checks],
                     "kind_free_text": "Coq 8.16.1 development (Spec/Model/Proofs/Props) with Consts.v regenerated from "
                                       "/repo by tools/gen_consts.py; differential correspondence of the executable model "
                                       "(extracted OCaml + vm_compute cross-check) against the real shexer"}],
        "checks": checks,
        "not_applicable": na,
        "notes": "bin/check <id> quick|thorough [--replay f]; exit 0 held / only KNOWN-FINDING lines, 1 VIOLATION, "
                 "2 internal error of the machinery.  known_findings.json lists recorded and fixed defects.",
    }
    with open(os.path.join(ROOT, "MANIFEST.json"), "w") as f:
        json.dump(m, f, indent=1)
        f.write("\n")


if __name__ == "__main__":
    main()
