#!/bin/sh
# usage: tools/try_patch.sh <patch.diff> <Cxx> [<Cyy> ...]
# Applies a seeded change to a scratch worktree of /repo (so that work running against /repo is not disturbed),
# runs the quick checks against it (VERIF_REPO), and removes the change straight afterwards.
P="$(readlink -f "$1")"; shift
HERE="$(cd "$(dirname "$0")/.." && pwd)"
S=/tmp/seedrepo
if [ ! -d "$S" ]; then git -C /repo worktree add -q --detach "$S" HEAD || exit 2; fi
git -C "$S" checkout -q --detach "$(git -C /repo rev-parse HEAD)" && git -C "$S" checkout -- . || exit 2
git -C "$S" apply "$P" || { echo "patch does not apply"; exit 2; }
trap 'git -C "$S" checkout -- . ; VERIF_REPO=/repo /venv/bin/python "$HERE/tools/gen_consts.py" /repo >/dev/null 2>&1' EXIT INT TERM
for c in "$@"; do
  out="$(VERIF_REPO="$S" "$HERE/bin/check" "$c" quick 2>&1)"; rc=$?
  echo "== $c exit=$rc"
  echo "$out" | grep -E "^(VIOLATION|INTERNAL-ERROR|OK )" | cut -c1-220
done
