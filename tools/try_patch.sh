#!/bin/sh
# usage: tools/try_patch.sh <patch.diff> <Cxx> [<Cyy> ...]
# Applies a seeded change to a private scratch worktree of /repo (so that work running against /repo is not
# disturbed), runs the quick checks against it (VERIF_REPO), and removes the worktree straight afterwards.
P="$(readlink -f "$1")"; shift
HERE="$(cd "$(dirname "$0")/.." && pwd)"
S=/tmp/seedrepo.$$
git -C /repo worktree add -q --detach "$S" HEAD || exit 2
trap 'git -C /repo worktree remove --force "$S" >/dev/null 2>&1' EXIT INT TERM
git -C "$S" apply "$P" || { echo "patch does not apply"; exit 2; }
for c in "$@"; do
  out="$(VERIF_REPO="$S" "$HERE/bin/check" "$c" quick 2>&1)"; rc=$?
  echo "== $c exit=$rc"
  echo "$out" | grep -E "^(VIOLATION|INTERNAL-ERROR|OK )" | cut -c1-220
done
