#!/venv/bin/python
"""Pins the AST fingerprints of the source files each property depends on (corpus/fingerprints.json, committed).

A quick check whose files differ from the pinned ones (the code under test was edited since the model was last
reviewed against it) ESCALATES itself to the thorough tier's case counts: the correspondence is re-established on
a much larger sample exactly when the code has changed.  It never decides anything by itself (no alarm is raised
because a fingerprint differs).  Files per property: the anchors of properties.jsonl, the files touched by the
seeded changes kept under seeded/<id>-m*/ and by the fix commits recorded for the property, plus the common core.

Run after every commit to /repo:  tools/pin_fingerprints.py [repo]"""
import ast, glob, hashlib, json, os, re, subprocess, sys, warnings
warnings.simplefilter("ignore")

ROOT = os.path.dirname(os.path.dirname(os.path.abspath(__file__)))
REPO = sys.argv[1] if len(sys.argv) > 1 else os.environ.get("VERIF_REPO", "/repo")
CORE = ["shexer/shaper.py", "shexer/core/shexing/class_shexer.py", "shexer/core/profiling/class_profiler.py",
        "shexer/core/shexing/strategy/abstract_shexing_strategy.py", "shexer/utils/uri.py"]


def fingerprint(path):
    try:
        return hashlib.sha256(ast.dump(ast.parse(open(path).read())).encode()).hexdigest()[:16]
    except (OSError, SyntaxError) as e:
        return "unreadable:%s" % type(e).__name__


def files_of_property(pid, anchors, fixed_commits):
    fs = set(CORE) | set(f for f in anchors if f.endswith(".py"))
    for d in glob.glob(os.path.join(ROOT, "seeded", pid + "-m*", "patch.diff")):
        fs.update(re.findall(r"^\+\+\+ b/(shexer/\S+\.py)", open(d).read(), re.M))
    for c in fixed_commits:
        out = subprocess.run(["git", "-C", "/repo", "show", "--name-only", "--format=", c], capture_output=True, text=True).stdout
        fs.update(l for l in out.split() if l.startswith("shexer/") and l.endswith(".py"))
    return sorted(fs)


def main():
    props = [json.loads(l) for l in open(os.path.join(ROOT, "properties.jsonl")) if l.strip()]
    kf = json.load(open(os.path.join(ROOT, "known_findings.json")))["findings"]
    by, files = {}, {}
    for p in props:
        commits = sorted({c for f in kf if f["property"] == p["id"] and f["status"] == "fixed"
                          for c in str(f.get("commit", "")).split("+") if c})
        by[p["id"]] = files_of_property(p["id"], p["anchors"]["files"], commits)
        for f in by[p["id"]]:
            files[f] = fingerprint(os.path.join(REPO, f))
    head = subprocess.run(["git", "-C", REPO, "rev-parse", "--short", "HEAD"], capture_output=True, text=True).stdout.strip()
    json.dump({"python": "%d.%d" % sys.version_info[:2], "pinned_at_repo_head": head, "files": files, "by_property": by},
              open(os.path.join(ROOT, "corpus", "fingerprints.json"), "w"), indent=1, sort_keys=True)
    print("pinned %d files for %d properties at %s" % (len(files), len(by), head))


if __name__ == "__main__":
    main()
