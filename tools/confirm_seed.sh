#!/bin/sh
# usage: tools/confirm_seed.sh <Cxx> <k>  -- confirms seeded change /tmp/mut/<Cxx>/out/m<k>.diff in a scratch worktree
# (applies; demo exits 0 without / 1 with; pinned suite still 182 passed) and stores it under seeded/<Cxx>-m<k>/
ID="$1"; K="$2"; HERE="$(cd "$(dirname "$0")/.." && pwd)"; SRC="${3:-/tmp/mut/$ID/out}"; NAME="${4:-m$K}"; S=/tmp/seedrepo
[ -d "$S" ] || git -C /repo worktree add -q --detach "$S" HEAD
git -C "$S" checkout -q --detach "$(git -C /repo rev-parse HEAD)" && git -C "$S" checkout -- . && git -C "$S" clean -fdq
/venv/bin/python "$SRC/demo$K.py" "$S" >/tmp/seed_demo0.out 2>&1; D0=$?
git -C "$S" apply "$SRC/m$K.diff" || { echo "patch does not apply"; exit 2; }
/venv/bin/python "$SRC/demo$K.py" "$S" >/tmp/seed_demo1.out 2>&1; D1=$?
SUITE="$(cd "$S" && /venv/bin/python -m pytest -q -p no:cacheprovider --timeout=900 2>&1 | grep -E '[0-9]+ passed' | tail -1)"
git -C "$S" checkout -- . ; git -C "$S" clean -fdq
echo "demo unchanged exit=$D0 changed exit=$D1 suite: $SUITE"
case "$SUITE" in *"20 failed, 182 passed"*) ;; *) echo "suite differs from baseline: NOT kept"; exit 1;; esac
[ "$D0" = 0 ] && [ "$D1" != 0 ] || { echo "demo does not discriminate: NOT kept"; exit 1; }
D="$HERE/seeded/$ID-$NAME"; mkdir -p "$D"
cp "$SRC/m$K.diff" "$D/patch.diff"; cp "$SRC/demo$K.py" "$D/demo.py"
/venv/bin/python - "$SRC/meta$K.json" "$D/meta.json" "$D0" "$D1" "$SUITE" <<'PY'
import json,sys
m=json.load(open(sys.argv[1]))
m.update({"confirmed_by_lead":{"demo_unchanged_exit":int(sys.argv[3]),"demo_changed_exit":int(sys.argv[4]),"suite_with_change":sys.argv[5],
 "ran":"tools/confirm_seed.sh: git apply in scratch worktree /tmp/seedrepo of /repo HEAD; demo.py before/after; pinned pytest suite with the change"}})
json.dump(m,open(sys.argv[2],"w"),indent=1)
PY
echo "kept as $D"
