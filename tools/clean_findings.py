#!/usr/bin/env python3
"""Normalises known_findings.json after merges: drops placeholder duplicates (ids containing '<commit'), keeps
one entry per id (the last one), and checks that every fixed entry carries its 'fixed: property=<id> <commit> …' line."""
import json, os, sys
p = os.path.join(os.path.dirname(os.path.dirname(os.path.abspath(__file__))), "known_findings.json")
d = json.load(open(p))
by = {}
order = []
for f in d["findings"]:
    if "<commit" in f["id"] or "<commit" in str(f.get("commit", "")):
        continue
    if f["id"] not in by:
        order.append(f["id"])
    by[f["id"]] = f
out = [by[i] for i in order]
bad = [f["id"] for f in out if f["status"] == "fixed" and not str(f.get("line", "")).startswith("fixed: property=%s " % f["property"])]
d["findings"] = out
json.dump(d, open(p, "w"), indent=1)
print("findings: %d known, %d fixed" % (sum(f["status"] == "known" for f in out), sum(f["status"] == "fixed" for f in out)))
if bad:
    print("fixed entries without a proper line:", bad)
    sys.exit(1)
