#!/usr/bin/env python3
"""Normalises known_findings.json after merges: drops placeholder duplicates (ids containing '<commit'), keeps
one entry per id (the last one), and checks that every fixed entry carries its 'fixed: property=<id> <commit> …' line."""
import json, os, sys
p = os.path.join(os.path.dirname(os.path.dirname(os.path.abspath(__file__))), "known_findings.json")
d = json.load(open(p))
by = {}
order = []
for f in d["findings"]:
    if "<commit" in f["id"] or "<commit" in str(f.get("commit", "")):
        continue
    if f["id"] not in by:
        order.append(f["id"])
    by[f["id"]] = f
# known entries of defects that were repaired since (their fixed entries are the Cxx-X-<commit> ones); builders'
# branches still carry them, so a merge can bring them back: a listed-as-known defect would be tolerated if it returned
SUPERSEDED = set("""C11-F1 C11-F2 C11-F3 C11-F4 C10-F2 C10-F3 C10-F4 C16-F1 C08-F1 C08-F3 C08-F5 C07-F3 C07-F4 C07-F5
C07-F10 C07-F11 C07-F12 C07-R1 C15-F1 C15-F2 C15-F4 C15-F5 C07-F7 C07-F8 C07-F9 C04-F2 C17-F4 C10-F9 C06-F7r C09-F3 C17-F5 C06-F9 C08-F6 C15-F7 C15-F8 C15-F9 C15-F10 C10-F10""".split())
out = [by[i] for i in order if not (i in SUPERSEDED and by[i]["status"] == "known")]
bad = [f["id"] for f in out if f["status"] == "fixed" and not str(f.get("line", "")).startswith("fixed: property=%s " % f["property"])]
d["findings"] = out
json.dump(d, open(p, "w"), indent=1)
print("findings: %d known, %d fixed" % (sum(f["status"] == "known" for f in out), sum(f["status"] == "fixed" for f in out)))
if bad:
    print("fixed entries without a proper line:", bad)
    sys.exit(1)
