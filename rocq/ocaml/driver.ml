(* Line protocol on stdin/stdout.
   request : "<entry-hex> <nrows>\n" followed by nrows lines, each a
             space-separated list of hex-encoded fields ("-" = empty field,
             a line "." = row with no field)
   response: "<nrows>\n" followed by rows in the same encoding. *)
let hexval c = match c with
  | '0'..'9' -> Char.code c - 48
  | 'a'..'f' -> Char.code c - 87
  | _ -> failwith "bad hex"

let unhex (s : string) : char list =
  if s = "-" then [] else begin
    let n = String.length s / 2 in
    let rec go i acc = if i < 0 then acc
      else go (i - 1) (Char.chr (hexval s.[2*i] * 16 + hexval s.[2*i+1]) :: acc) in
    go (n - 1) []
  end

let hex (l : char list) : string =
  if l = [] then "-" else begin
    let b = Buffer.create 64 in
    List.iter (fun c -> Buffer.add_string b (Printf.sprintf "%02x" (Char.code c))) l;
    Buffer.contents b
  end

let read_row () : char list list =
  let line = input_line stdin in
  if line = "." then [] else List.map unhex (String.split_on_char ' ' line)

let () =
  try
    while true do
      let hdr = input_line stdin in
      match String.split_on_char ' ' hdr with
      | [name; n] ->
        let n = int_of_string n in
        let rows = List.init n (fun _ -> read_row ()) in
        let out = Model.entry (unhex name) rows in
        print_string (string_of_int (List.length out)); print_newline ();
        List.iter (fun r ->
            if r = [] then print_string "." else print_string (String.concat " " (List.map hex r));
            print_newline ()) out;
        flush stdout
      | _ -> failwith "bad header"
    done
  with End_of_file -> ()
