(** Extraction of the model's entry point for the high-volume correspondence
    path.  Directives used (all from the standard library's plugin files):
    - ExtrOcamlBasic: bool, option, unit, list, prod, sumbool, sumor -> OCaml's
    - ExtrOcamlString: ascii -> char, string -> char list (with their
      Extract Inlined Constant for ascii_dec / eqb etc.)
    [Z], [N], [positive], [nat] stay the extracted inductive types. *)
From Coq Require Import Extraction ExtrOcamlBasic ExtrOcamlString.
From Shexer Require Import Model.Entry.
Extraction "ocaml/model.ml" entry.
