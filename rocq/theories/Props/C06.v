(** * C06 -- the N-Triples reader yields exactly the triples of the document *)
From Coq Require Import List Ascii String ZArith Bool.
From Shexer Require Import Lib.PyStr Gen.Consts Model.NtReader Spec.NtSyntax Spec.NtDom Spec.NtDomCur
  Proofs.NtProofs Proofs.NtProofsFx Proofs.NtTotal Proofs.NtDocs.
Import ListNotations.

(** The reader has several texts: the tokeniser of the tree as it was, the tokeniser after the
    repairs notes/proposed_fixes/C06-token-end-before-dot.diff and C06-closing-quote-scan.diff
    ([Gen.Consts.nt_fixed_tok]), the typing repair C06-literal-type-from-suffix.diff
    ([nt_fixed_dlt]), and the two edits of C06-comment-glued-to-dot.diff (finding C06-F7r):
    a token also ends at '#' ([nt_tok_end_at_hash]) and a '<' that is never closed reaches the end
    of the line instead of looping for ever ([nt_uri_unclosed_to_eol]); and, independently of all
    that, the document loop that skips blank lines and comment lines
    (C06-comments-and-blank-lines.diff, finding C06-F9, [nt_skips_comment_lines]).  The flags are regenerated
    from /repo on every run; [read_raw_string_cur], [C06_dom_cur], [root_causes_cur] follow them.
    Every model and every domain theorem stays checked whatever the flags say.

    THE FULL PROPERTY ([C06], [C06_document], [C06_terminates] below) holds as soon as the flags
    of all the repairs are [true]; until then it is false ([C06_full_refuted],
    [C06_terminates_refuted]) and what holds is the statement on [C06_dom_cur]:

    Main theorem (partial: restricted to [C06_dom_cur]).  For every valid
    statement [t] and layout [l] (separators (space|tab)+, optional blanks
    before the dot, optional trailing comment) in the domain, the model of
    [NtTriplesYielder(raw_graph=line).yield_triples()] on the rendered line
    terminates normally, yields exactly one triple whose node kinds, IRIs,
    blank-node identifiers and literal datatype are those of the statement,
    and counts zero error lines.  Proved for lexical forms, IRIs, labels and
    comments of any length.  What is missing with respect to the full
    property: the valid lines outside the domain, i.e. those on which one of
    the root causes of [root_causes_cur] holds (each refuted below). *)
Theorem C06_partial : forall allow t l,
  valid_triple t = true -> valid_layout l = true -> C06_dom_cur t l = true ->
  kinded_result (read_raw_string_cur allow (nt_line t l)) = Some ([kinded t], 0%nat).
Proof. exact line_partial_cur. Qed.
Print Assumptions C06_partial.

(** Documents: one statement per line, in document order. *)
Theorem C06_document_partial : forall allow (ts : list (striple * layout)),
  Forall (fun x => valid_triple (fst x) = true /\ valid_layout (snd x) = true /\ C06_dom_cur (fst x) (snd x) = true) ts ->
  kinded_result (read_raw_string_cur allow (nt_doc ts)) = Some (map (fun x => kinded (fst x)) ts, 0%nat).
Proof. exact document_partial_cur. Qed.
Print Assumptions C06_document_partial.

(** Termination on the domain: never the hang outcome (fuel is never exhausted). *)
Theorem C06_terminates_partial : forall allow t l,
  valid_triple t = true -> valid_layout l = true -> C06_dom_cur t l = true ->
  forall ys e, read_raw_string_cur allow (nt_line t l) <> DocHang ys e.
Proof. exact line_terminates_cur. Qed.
Print Assumptions C06_terminates_partial.

(** ** The full property, once every repair is in /repo (all four flags [true]).

    No domain restriction: for EVERY valid statement and EVERY valid layout, reading the rendered
    line yields exactly the kinded triple, zero error lines, no exception, no hang. *)
Theorem C06 :
  nt_fixed_tok = true -> nt_fixed_dlt = true -> nt_tok_end_at_hash = true ->
  forall allow t l, valid_triple t = true -> valid_layout l = true ->
  kinded_result (read_raw_string_cur allow (nt_line t l)) = Some ([kinded t], 0%nat).
Proof. exact line_full_cur. Qed.
Print Assumptions C06.

Theorem C06_document :
  nt_fixed_tok = true -> nt_fixed_dlt = true -> nt_tok_end_at_hash = true ->
  forall allow (ts : list (striple * layout)),
  Forall (fun x => valid_triple (fst x) = true /\ valid_layout (snd x) = true) ts ->
  kinded_result (read_raw_string_cur allow (nt_doc ts)) = Some (map (fun x => kinded (fst x)) ts, 0%nat).
Proof. exact document_full_cur. Qed.
Print Assumptions C06_document.

(** ... in other words [C06_dom_cur] has lost its last root cause, and [C06_partial],
    [C06_document_partial], [C06_terminates_partial] are the full statements *)
Theorem C06_dom_cur_total :
  nt_fixed_tok = true -> nt_fixed_dlt = true -> nt_tok_end_at_hash = true -> forall t l, C06_dom_cur t l = true.
Proof. exact dom_cur_total. Qed.
Print Assumptions C06_dom_cur_total.

(** Termination for ALL text, valid N-Triples or not, any bytes: no line makes the reader hang
    (raw string or file, a document or one line).  Every iteration of [_look_for_tokens] moves
    forward once a '<' without '>' reaches the end of the line ([Proofs/NtTotal.v]). *)
Theorem C06_terminates :
  nt_fixed_tok = true -> nt_fixed_dlt = true -> nt_uri_unclosed_to_eol = true ->
  forall allow doc ys e,
    read_raw_string_cur allow doc <> DocHang ys e /\ read_file_cur allow doc <> DocHang ys e /\
    process_line_cur allow doc <> LHang.
Proof. exact terminates_all_cur. Qed.
Print Assumptions C06_terminates.

(** The same three statements about the model of the fully repaired reader itself
    ([read_raw_string_fx3] = every proposed repair), whatever /repo holds. *)
Theorem C06_fully_repaired_reader : forall allow t l,
  valid_triple t = true -> valid_layout l = true ->
  kinded_result (read_raw_string_fx3 allow (nt_line t l)) = Some ([kinded t], 0%nat).
Proof. exact line_fx3. Qed.
Print Assumptions C06_fully_repaired_reader.

Theorem C06_document_fully_repaired_reader : forall allow (ts : list (striple * layout)),
  Forall (fun x => valid_triple (fst x) = true /\ valid_layout (snd x) = true) ts ->
  kinded_result (read_raw_string_fx3 allow (nt_doc ts)) = Some (map (fun x => kinded (fst x)) ts, 0%nat).
Proof. exact document_fx3. Qed.
Print Assumptions C06_document_fully_repaired_reader.

Theorem C06_terminates_fully_repaired_reader : forall allow doc ys e,
  read_raw_string_fx3 allow doc <> DocHang ys e /\ read_file_fx3 allow doc <> DocHang ys e.
Proof. intros allow doc ys e. apply (terminates_g3 true true). Qed.
Print Assumptions C06_terminates_fully_repaired_reader.

(** each switch does its own part: [hs] alone gives the full statement on valid lines, [el] alone
    excludes hangs on every text *)
Theorem C06_each_switch : forall hs el allow,
  (hs = true -> forall t l, valid_triple t = true -> valid_layout l = true ->
     kinded_result (read_raw_string_g2 hs el allow (nt_line t l)) = Some ([kinded t], 0%nat)) /\
  (el = true -> forall doc ys e, read_raw_string_g2 hs el allow doc <> DocHang ys e).
Proof.
  intros hs el allow. split; intros ->; [intros t l; apply line_full_g2 | intros doc ys e; apply read_raw_string_g2_total].
Qed.
Print Assumptions C06_each_switch.

(** The domain is the joint absence of the root causes. *)
Theorem C06_dom_is_no_root_cause : forall t l,
  C06_dom_cur t l = true <-> Forall (fun b => b = false) (root_causes_cur t l).
Proof. exact dom_cur_iff_no_root_cause. Qed.
Print Assumptions C06_dom_is_no_root_cause.

(** The same statement for each text of the tokeniser. *)
Theorem C06_partial_unrepaired_tokeniser : forall allow t l,
  valid_triple t = true -> valid_layout l = true -> C06_dom t l = true ->
  kinded_result (read_raw_string allow (nt_line t l)) = Some ([kinded t], 0%nat).
Proof. exact line_partial. Qed.
Print Assumptions C06_partial_unrepaired_tokeniser.

Theorem C06_partial_repaired_tokeniser : forall allow t l,
  valid_triple t = true -> valid_layout l = true -> C06_dom_fx t l = true ->
  kinded_result (read_raw_string_fx allow (nt_line t l)) = Some ([kinded t], 0%nat).
Proof. exact line_partial_fx. Qed.
Print Assumptions C06_partial_repaired_tokeniser.

(** with the typing repair literal-type-from-suffix as well ([nt_fixed_dlt]) *)
Theorem C06_partial_all_repairs : forall allow t l,
  valid_triple t = true -> valid_layout l = true -> C06_dom_fx2 t l = true ->
  kinded_result (read_raw_string_fx2 allow (nt_line t l)) = Some ([kinded t], 0%nat).
Proof. exact line_partial_fx2. Qed.
Print Assumptions C06_partial_all_repairs.

(** The repairs only enlarge the domain: the tokeniser repairs remove every root cause but F3, F4,
    F5 (typing of the token, [decide_literal_type]) and the [_:b.#comment] remainder of F7; the
    typing repair removes F3, F4, F5; comment-glued-to-dot removes the remainder of F7. *)
Theorem C06_repairs_enlarge_domain : forall t l,
  (C06_dom t l = true -> C06_dom_fx t l = true) /\ (C06_dom_fx t l = true -> C06_dom_fx2 t l = true) /\
  (forall hs, C06_dom_fx2 t l = true -> C06_dom_fx3 hs t l = true) /\ C06_dom_fx3 true t l = true.
Proof. intros t l. split; [apply dom_grows | split; [apply dom_grows2 | split; [intros hs; apply dom_grows3 | apply dom_fx3_total]]]. Qed.
Print Assumptions C06_repairs_enlarge_domain.

(** ** Documents with comment lines and blank lines ([Spec.NtSyntax.dline]: a line is a statement,
    a comment line -- optional blanks, '#', anything -- or a blank line; the document means the
    list of its statements).  Partial: the statement lines in [C06_dom_cur]; comment lines only
    when the reader skips them ([nt_skips_comment_lines]; otherwise root cause F9); over a FILE
    blank lines too (the raw-string line reader drops them itself). *)
Theorem C06_document_lines_partial : forall allow ds,
  Forall (fun d => valid_dline d = true /\ dline_dom_cur d = true) ds ->
  kinded_result (read_raw_string_cur allow (nt_document ds)) = Some (doc_kinded ds, 0%nat).
Proof. exact document_lines_partial_cur. Qed.
Print Assumptions C06_document_lines_partial.

Theorem C06_document_lines_file_partial : forall allow ds,
  Forall (fun d => valid_dline d = true /\ dline_dom_file_cur d = true) ds ->
  kinded_result (read_file_cur allow (nt_document ds)) = Some (doc_kinded ds, 0%nat).
Proof. exact document_lines_file_partial_cur. Qed.
Print Assumptions C06_document_lines_file_partial.

(** the full property for documents, once every repair is in /repo: EVERY valid document --
    statements in any valid layout, comment lines, blank lines, a final line end or none -- read
    from a raw string or from a file: exactly the statements' triples, in order, zero error lines *)
Theorem C06_document_lines :
  nt_fixed_tok = true -> nt_fixed_dlt = true -> nt_tok_end_at_hash = true -> nt_skips_comment_lines = true ->
  forall allow ds, Forall (fun d => valid_dline d = true) ds ->
  kinded_result (read_raw_string_cur allow (nt_document ds)) = Some (doc_kinded ds, 0%nat) /\
  kinded_result (read_file_cur allow (nt_document ds)) = Some (doc_kinded ds, 0%nat).
Proof. exact document_lines_full_cur. Qed.
Print Assumptions C06_document_lines.

Theorem C06_document_lines_fully_repaired_reader : forall allow ds,
  Forall (fun d => valid_dline d = true) ds ->
  kinded_result (read_raw_string_fx3 allow (nt_document ds)) = Some (doc_kinded ds, 0%nat) /\
  kinded_result (read_file_fx3 allow (nt_document ds)) = Some (doc_kinded ds, 0%nat).
Proof. exact document_lines_fx3. Qed.
Print Assumptions C06_document_lines_fully_repaired_reader.

(** documents of statements read from a file (before: raw string only) *)
Theorem C06_document_file_partial : forall allow (ts : list (striple * layout)),
  Forall (fun x => valid_triple (fst x) = true /\ valid_layout (snd x) = true /\ C06_dom_cur (fst x) (snd x) = true) ts ->
  kinded_result (read_file_cur allow (nt_doc ts)) = Some (map (fun x => kinded (fst x)) ts, 0%nat).
Proof. exact document_file_partial_cur. Qed.
Print Assumptions C06_document_file_partial.

(** ** non-vacuity *)
Definition ex_s : snode := NIri (Str "http://e/s#a@b_c:d").
Definition ex_p : str := Str "http://e/p".
Definition ic (s : string) : list item := map IChar (list_ascii_of_string s).
Definition lay (s1 s2 pd : string) (c : option (string * string)) : layout :=
  Layout (Str s1) (Str s2) (Str pd) (match c with Some (w, t) => Some (Str w, Str t) | None => None end).

(** a typed literal whose lexical form has an escaped quote, an escaped
    backslash, '@', '#', '<', '>', ' .' and non-ASCII bytes; tab separators; no
    blank before the dot *)
Definition ex_t : striple :=
  STriple (NBn (Str "b1")) ex_p
    (OLit (ic "a@#<> ." ++ [IEsc dq; IChar (ascii_of_nat 195); IChar (ascii_of_nat 169); IEsc bs; IU4 "0" "0" "e" "9"])
          (SufType (Str "http://www.w3.org/2001/XMLSchema#integer"))).
Definition ex_l : layout := Layout [ascii_of_nat 9] [ascii_of_nat 9; " "%char] [] None.

Example C06_dom_inhabited :
  valid_triple ex_t = true /\ valid_layout ex_l = true /\ C06_dom_cur ex_t ex_l = true /\
  kinded_result (read_raw_string_cur false (nt_line ex_t ex_l))
  = Some ([(KBn (Str "_:b1"), ex_p, KLit (Str "http://www.w3.org/2001/XMLSchema#integer"))], 0%nat).
Proof. repeat split; vm_compute; reflexivity. Qed.

(** a language-tagged literal with a comment that holds a dot, digits and angle brackets *)
Example C06_dom_inhabited_lang :
  let t := STriple ex_s ex_p (OLit (ic "x^^y" ++ [IEsc dq]) (SufLang (Str "en-GB"))) in
  let l := lay "  " " " " " (Some (" "%string, " see <http://e/x> 12."%string)) in
  valid_triple t = true /\ valid_layout l = true /\ C06_dom_cur t l = true /\
  kinded_result (read_raw_string_cur false (nt_line t l)) = Some ([kinded t], 0%nat).
Proof. repeat split; vm_compute; reflexivity. Qed.

(** ** the full statement is false: one witness per root cause of the unrepaired tokeniser
    ([read_raw_string]); F3, F4, F5 and the remainder of F7 also for the repaired one below *)
Definition refutes (t : striple) (l : layout) : Prop :=
  valid_triple t = true /\ valid_layout l = true /\
  kinded_result (read_raw_string false (nt_line t l)) <> Some ([kinded t], 0%nat).

Ltac refute := unfold refutes; split; [vm_compute; reflexivity | split; [vm_compute; reflexivity | vm_compute; discriminate]].

Definition plain (lex : list item) := STriple ex_s ex_p (OLit lex SufNone).

(** F1  '\\\'' : escaped backslash then escaped quote; the line is dropped *)
Lemma C06_F1_refuted : exists t l, rc_F1 t = true /\ refutes t l.
Proof. exists (plain [IEsc bs; IEsc dq]), (lay " " " " "" None). split; [reflexivity | refute]. Qed.

(** F2  'a^^ b' : ^^ inside the lexical form followed by a blank; the line is dropped *)
Lemma C06_F2_refuted : exists t l, rc_F2 t = true /\ refutes t l.
Proof. exists (plain (ic "a^^ b")), (lay " " " " " " None). split; [reflexivity | refute]. Qed.

(** F3  '^^' : RuntimeError raised out of the reader *)
Lemma C06_F3_refuted : exists t l, rc_F3 t = true /\
  refutes t l /\ exists ys e, read_raw_string false (nt_line t l) = DocRaise ys e ERuntime.
Proof.
  exists (plain (ic "^^")), (lay " " " " " " None). split; [reflexivity|]. split; [refute|].
  eexists; eexists. vm_compute. reflexivity.
Qed.

(** F4  'xsd:'^^<http://e/dt> : datatype replaced by XSD namespace + rest of the token *)
Lemma C06_F4_refuted : exists t l, rc_F4 t = true /\ refutes t l.
Proof.
  exists (STriple ex_s ex_p (OLit (ic "xsd:") (SufType (Str "http://e/dt")))), (lay " " " " " " None).
  split; [reflexivity | refute].
Qed.

(** F5  'a'^^<http://e/a@b> : typed rdf:langString *)
Lemma C06_F5_refuted : exists t l, rc_F5 t = true /\ refutes t l.
Proof.
  exists (STriple ex_s ex_p (OLit (ic "a") (SufType (Str "http://e/a@b")))), (lay " " " " " " None).
  split; [reflexivity | refute].
Qed.

(** F6  'a' . # x@y : typed rdf:langString because of the comment *)
Lemma C06_F6_refuted : exists t l, rc_F6 t l = true /\ refutes t l.
Proof. exists (plain (ic "a")), (lay " " " " " " (Some (" "%string, " x@y"%string))). split; [reflexivity | refute]. Qed.

(** F7  _:b2. # c : the blank node is called _:b2. *)
Lemma C06_F7_refuted : exists t l, rc_F7 t l = true /\ refutes t l.
Proof.
  exists (STriple ex_s ex_p (ONode (NBn (Str "b2")))), (lay " " " " "" (Some (" "%string, " c"%string))).
  split; [reflexivity | refute].
Qed.

(** F8  'a' . # ^^ <x> : the line is dropped *)
Lemma C06_F8_refuted : exists t l, rc_F8 t l = true /\ refutes t l.
Proof. exists (plain (ic "a")), (lay " " " " " " (Some (" "%string, " ^^ <x>"%string))). split; [reflexivity | refute]. Qed.

(** ** the root causes that survive the tokeniser repairs, refuted on the repaired model *)
Definition refutes_fx (t : striple) (l : layout) : Prop :=
  valid_triple t = true /\ valid_layout l = true /\
  kinded_result (read_raw_string_fx false (nt_line t l)) <> Some ([kinded t], 0%nat).

Ltac refute_fx := unfold refutes_fx; split; [vm_compute; reflexivity | split; [vm_compute; reflexivity | vm_compute; discriminate]].

Lemma C06_F3_refuted_repaired_tokeniser : exists t l, rc_F3 t = true /\ refutes_fx t l.
Proof. exists (plain (ic "^^")), (lay " " " " " " None). split; [reflexivity | refute_fx]. Qed.

Lemma C06_F4_refuted_repaired_tokeniser : exists t l, rc_F4 t = true /\ refutes_fx t l.
Proof.
  exists (STriple ex_s ex_p (OLit (ic "xsd:") (SufType (Str "http://e/dt")))), (lay " " " " " " None).
  split; [reflexivity | refute_fx].
Qed.

Lemma C06_F5_refuted_repaired_tokeniser : exists t l, rc_F5 t = true /\ refutes_fx t l.
Proof.
  exists (STriple ex_s ex_p (OLit (ic "a") (SufType (Str "http://e/a@b")))), (lay " " " " " " None).
  split; [reflexivity | refute_fx].
Qed.

(** what is left of F7:  _:b2.#c  *)
Lemma C06_F7_refuted_repaired_tokeniser : exists t l, rc_F7_fx t l = true /\ refutes_fx t l.
Proof.
  exists (STriple ex_s ex_p (ONode (NBn (Str "b2")))), (lay " " " " "" (Some (""%string, "c"%string))).
  split; [reflexivity | refute_fx].
Qed.

(** the witnesses of the repaired root causes are read right by the repaired model *)
Definition reads_right_fx (t : striple) (l : layout) : Prop :=
  kinded_result (read_raw_string_fx false (nt_line t l)) = Some ([kinded t], 0%nat).

Example C06_F1_F2_F6_F7_F8_repaired :
  reads_right_fx (plain [IEsc bs; IEsc dq]) (lay " " " " "" None) /\
  reads_right_fx (plain (ic "a^^ b")) (lay " " " " " " None) /\
  reads_right_fx (plain (ic "a")) (lay " " " " " " (Some (" "%string, " x@y"%string))) /\
  reads_right_fx (STriple ex_s ex_p (ONode (NBn (Str "b2")))) (lay " " " " "" (Some (" "%string, " c"%string))) /\
  reads_right_fx (plain (ic "a")) (lay " " " " " " (Some (" "%string, " ^^ <x>"%string))).
Proof. repeat split; vm_compute; reflexivity. Qed.

(** ** all three earlier repairs: only the remainder of F7 is left (whatever the switch [el]) *)
Lemma C06_F7_refuted_all_repairs : forall el, exists t l, rc_F7_fx t l = true /\
  valid_triple t = true /\ valid_layout l = true /\
  kinded_result (read_raw_string_g2 false el false (nt_line t l)) <> Some ([kinded t], 0%nat).
Proof.
  intros el.
  exists (STriple ex_s ex_p (ONode (NBn (Str "b2")))), (lay " " " " "" (Some (""%string, "c"%string))).
  split; [reflexivity|]. split; [vm_compute; reflexivity | split; [vm_compute; reflexivity | destruct el; vm_compute; discriminate]].
Qed.

(** the same root cause as a HANG: the token [_:0-0.#] swallows the dot, the tokeniser walks on into
    the comment, meets a '<' that is never closed and stops advancing.  Valid N-Triples:
    [_:ZbbZ  <TAB><http://e/><TAB>_:0-0.# <x> @:a(e-acute)<xsd:a] *)
Definition hang_t : striple := STriple (NBn (Str "ZbbZ")) (Str "http://e/") (ONode (NBn (Str "0-0"))).
Definition hang_l : layout :=
  Layout [" "%char; " "%char; ascii_of_nat 9] [ascii_of_nat 9] []
         (Some ([], Str " <x> @:a" ++ [ascii_of_nat 195; ascii_of_nat 169] ++ Str "<xsd:a")).

Lemma C06_F7r_hang_refuted :
  rc_F7_fx hang_t hang_l = true /\ valid_triple hang_t = true /\ valid_layout hang_l = true /\
  read_raw_string_fx2 false (nt_line hang_t hang_l) = DocHang [] 0%nat.
Proof. repeat split; vm_compute; reflexivity. Qed.

Definition reads_right_fx2 (t : striple) (l : layout) : Prop :=
  kinded_result (read_raw_string_fx2 false (nt_line t l)) = Some ([kinded t], 0%nat).

Example C06_F3_F4_F5_repaired :
  reads_right_fx2 (plain (ic "^^")) (lay " " " " " " None) /\
  reads_right_fx2 (STriple ex_s ex_p (OLit (ic "xsd:") (SufType (Str "http://e/dt")))) (lay " " " " " " None) /\
  reads_right_fx2 (STriple ex_s ex_p (OLit (ic "a") (SufType (Str "http://e/a@b")))) (lay " " " " " " None).
Proof. repeat split; vm_compute; reflexivity. Qed.

(** ** with comment-glued-to-dot: the witnesses of F7r are read right, the hang line included *)
Definition reads_right_fx3 (t : striple) (l : layout) : Prop :=
  kinded_result (read_raw_string_fx3 false (nt_line t l)) = Some ([kinded t], 0%nat).

Example C06_F7r_repaired :
  reads_right_fx3 (STriple ex_s ex_p (ONode (NBn (Str "b2")))) (lay " " " " "" (Some (""%string, "c"%string))) /\
  reads_right_fx3 hang_t hang_l /\
  (* each switch alone: [hs] reads both lines right, [el] alone turns the hang into a wrong blank-node name *)
  kinded_result (read_raw_string_g2 true false false (nt_line hang_t hang_l)) = Some ([kinded hang_t], 0%nat) /\
  (exists ys n, read_raw_string_g2 false true false (nt_line hang_t hang_l) = DocDone ys n /\
                kinded_result (DocDone ys n) <> Some ([kinded hang_t], 0%nat)).
Proof.
  repeat split; try (vm_compute; reflexivity).
  eexists; eexists. split; [vm_compute; reflexivity | vm_compute; discriminate].
Qed.

(** an invalid line on which only [el] helps: '<' never closed *)
Example C06_unclosed_corner :
  (forall hs, process_line_g2 hs false false (Str "<http://e/s> <http://e/p> <http://e/o .") = LHang) /\
  process_line_fx3 false (Str "<http://e/s> <http://e/p> <http://e/o .") = LRaise EValue.
Proof. split; [intros hs; destruct hs; vm_compute; reflexivity | vm_compute; reflexivity]. Qed.

(** hence, as long as a token does not end at '#', the full statement (no domain restriction) does
    not hold, whichever of the other texts /repo has *)
Lemma C06_full_refuted :
  nt_fixed_tok && nt_fixed_dlt && nt_tok_end_at_hash = false ->
  ~ (forall t l, valid_triple t = true -> valid_layout l = true ->
     kinded_result (read_raw_string_cur false (nt_line t l)) = Some ([kinded t], 0%nat)).
Proof.
  intros F H.
  (* the witnesses of F7r, F3 (repaired tokeniser) and F1 (tokeniser as it was) *)
  pose proof (H (STriple ex_s ex_p (ONode (NBn (Str "b2")))) (lay " " " " "" (Some (""%string, "c"%string))) eq_refl eq_refl) as H7.
  pose proof (H (plain (ic "^^")) (lay " " " " " " None) eq_refl eq_refl) as H3.
  pose proof (H (plain [IEsc bs; IEsc dq]) (lay " " " " "" None) eq_refl eq_refl) as H1.
  clear H. unfold read_raw_string_cur, process_line_cur in *.
  destruct nt_fixed_tok; [destruct nt_fixed_dlt|].
  - cbn [andb] in F. rewrite F in H7. destruct nt_uri_unclosed_to_eol, nt_skips_comment_lines; vm_compute in H7; discriminate H7.
  - destruct nt_skips_comment_lines; vm_compute in H3; discriminate H3.
  - destruct nt_skips_comment_lines; vm_compute in H1; discriminate H1.
Qed.

(** ... and as long as a '<' without '>' does not reach the end of the line, some text makes the
    reader hang: an invalid line whatever [nt_tok_end_at_hash] says, and the VALID line of
    [C06_F7r_hang_refuted] when a token does not end at '#' either *)
Lemma C06_terminates_refuted :
  nt_fixed_tok = true -> nt_fixed_dlt = true -> nt_uri_unclosed_to_eol = false ->
  (exists doc ys e, read_raw_string_cur false doc = DocHang ys e) /\
  (nt_tok_end_at_hash = false ->
   exists t l ys e, valid_triple t = true /\ valid_layout l = true /\
                    read_raw_string_cur false (nt_line t l) = DocHang ys e).
Proof.
  intros E1 E2 E3. unfold read_raw_string_cur, process_line_cur. rewrite E1, E2, E3. split.
  - exists (Str "<x"), [], 0%nat. destruct nt_tok_end_at_hash, nt_skips_comment_lines; vm_compute; reflexivity.
  - intros ->. exists hang_t, hang_l, [], 0%nat. repeat split; vm_compute; reflexivity.
Qed.

(** ** F9: comment lines and blank lines.  The document
      [# <http://e/b> <http://e/commented> "B" .]
      [<http://a/s> <http://a/p> <http://a/o> .]
      [# just a comment]
      (blank line, final line end)
    states ONE triple.  A reader that tokenises every line yields the commented-out statement as
    well and counts the other comment line as an error line (over a file: the blank line too). *)
Definition f9_doc : list dline :=
  [DComment [] (Str " <http://e/b> <http://e/commented> ""B"" .");
   DStmt (STriple (NIri (Str "http://a/s")) (Str "http://a/p") (ONode (NIri (Str "http://a/o")))) (lay " " " " " " None);
   DComment [] (Str " just a comment"); DBlank []; DBlank []].

Lemma C06_F9_refuted :
  Forall (fun d => valid_dline d = true) f9_doc /\ existsb rc_F9 f9_doc = true /\
  doc_kinded f9_doc = [(KIri (Str "http://a/s"), Str "http://a/p", KIri (Str "http://a/o"))] /\
  (* every other repair in, the lines not skipped: a spurious triple, one error line; two over a file *)
  kinded_result (read_raw_string_g3 false true true false (nt_document f9_doc))
  = Some ((KIri (Str "http://e/b"), Str "http://e/commented", KLit xsd_string) :: doc_kinded f9_doc, 1%nat) /\
  kinded_result (read_file_g3 false true true false (nt_document f9_doc))
  = Some ((KIri (Str "http://e/b"), Str "http://e/commented", KLit xsd_string) :: doc_kinded f9_doc, 2%nat) /\
  (* with the lines skipped: read right *)
  kinded_result (read_raw_string_fx3 false (nt_document f9_doc)) = Some (doc_kinded f9_doc, 0%nat) /\
  kinded_result (read_file_fx3 false (nt_document f9_doc)) = Some (doc_kinded f9_doc, 0%nat).
Proof. repeat split; try (vm_compute; reflexivity). repeat constructor. Qed.

(** hence, as long as the reader does not skip them, the statement for documents with comment
    lines is false whichever of the other texts /repo has *)
Lemma C06_document_lines_refuted :
  nt_skips_comment_lines = false ->
  ~ (forall ds, Forall (fun d => valid_dline d = true) ds ->
     kinded_result (read_raw_string_cur false (nt_document ds)) = Some (doc_kinded ds, 0%nat)).
Proof.
  intros E H. specialize (H f9_doc (proj1 C06_F9_refuted)).
  unfold read_raw_string_cur, process_line_cur in H. rewrite E in H.
  destruct nt_fixed_tok; [destruct nt_fixed_dlt; [destruct nt_tok_end_at_hash, nt_uri_unclosed_to_eol|]|];
    vm_compute in H; discriminate H.
Qed.
