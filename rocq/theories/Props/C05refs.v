(** * C05 (closure half) — shape references resolve, labels are distinct,
    cleaning removes every empty shape (model level).
    Proofs: Proofs/ClosureLemmas.v. *)
From Coq Require Import List Ascii String ZArith NArith Bool.
From Shexer Require Import Lib.PyStr Lib.Dict Lib.Bin64 Gen.Consts Model.Profiler Model.Tokens
     Model.Freq Model.FreqInst Model.Shexing.
From Shexer Require Import Proofs.ShexBasics Proofs.ClosureLemmas Proofs.ShexExamples.
Import ListNotations.

(** ** R1: [_clean_empty_shapes] *)
Theorem C05_clean_preserves_closure : forall fuel l r,
  shapes_wf l -> refs_closed l -> clean_shapes fuel l = inl r -> refs_closed r /\ shapes_wf r.
Proof. exact clean_shapes_refs_closed. Qed.
Print Assumptions C05_clean_preserves_closure.

(** with the fuel [shex] gives it, no shape without statements is left *)
Theorem C05_clean_no_empty : forall fuel l r,
  List.length l < fuel -> clean_shapes fuel l = inl r -> no_empty r.
Proof. exact clean_shapes_no_empty. Qed.
Print Assumptions C05_clean_no_empty.

(** the cleaning fails exactly when, at the first iteration, an empty shape
    exists while a surviving shape holds a choice statement: the real code
    raises [TypeError: Choice statements doesnt have a single type] *)
Theorem C05_clean_error : forall fuel l e,
  shapes_wf l -> refs_closed l ->
  (clean_shapes (S fuel) l = inr e <-> e = SEType /\ clean_crash l).
Proof. exact clean_shapes_error. Qed.
Print Assumptions C05_clean_error.

Lemma C05_clean_crash_witness :
  exists cfg, x_disable_or cfg = false /\ shex QAlg cfg ex_thr ex_PZ ex_CZ = inr SEType.
Proof. exists (with_disable_or false ex_cfg). split; [reflexivity | vm_compute; reflexivity]. Qed.

(** ** R2 (+R1): with the default shapes namespace the references of the
    returned shapes resolve, cleaned or not *)
Theorem C05_refs_resolve_partial : forall fa cfg thr P C shapes,
  profile_refs_closed P -> x_shapes_ns cfg = c_SHAPES_DEFAULT_NAMESPACE ->
  shex fa cfg thr P C = inl shapes -> refs_closed shapes.
Proof. exact shex_refs_closed. Qed.
Print Assumptions C05_refs_resolve_partial.

Theorem C05_no_empty_shape : forall fa cfg thr P C shapes,
  x_remove_empty cfg = true -> shex fa cfg thr P C = inl shapes -> no_empty shapes.
Proof. exact shex_no_empty. Qed.
Print Assumptions C05_no_empty_shape.

Example C05_refs_resolve_nonvacuous :
  profile_refs_closed ex_PZ /\
  exists shapes, shex QAlg ex_cfg ex_thr ex_PZ ex_CZ = inl shapes /\
                 List.length shapes = 3 /\ refs_closedb shapes = true /\
                 (* before cleaning there were four shapes, one of them empty and referred to *)
                 exists M, map_err (shex_class QAlg ex_cfg ex_thr ex_CZ) ex_PZ = inl M /\
                           List.length M = 4 /\ empty_names M <> [].
Proof.
  split; [apply profile_refs_closedb_sound; vm_compute; reflexivity|].
  eexists. split; [vm_compute; reflexivity|]. split; [reflexivity|]. split; [vm_compute; reflexivity|].
  eexists. split; [vm_compute; reflexivity|]. split; [reflexivity|]. vm_compute. discriminate.
Qed.

(** a custom shapes namespace: the profiler names the referenced shapes in
    the default namespace, the shexer labels them in the custom one (pinned by
    the golden file shapes_namespace/different_namespace.shex) *)
Lemma C05_refs_resolve_refuted :
  exists cfg shapes,
    profile_refs_closed ex_P /\ x_shapes_ns cfg <> c_SHAPES_DEFAULT_NAMESPACE /\
    shex QAlg cfg ex_thr ex_P ex_C = inl shapes /\ ~ refs_closed shapes.
Proof.
  exists (with_shapes_ns (Str "http://ex/") ex_cfg). eexists.
  split; [apply profile_refs_closedb_sound; vm_compute; reflexivity|].
  split; [vm_compute; discriminate|]. split; [vm_compute; reflexivity|].
  intros H. apply refs_closedb_spec in H. vm_compute in H. discriminate H.
Qed.

(** ** R3: labels *)
Theorem C05_labels_distinct_partial : forall fa cfg thr P C shapes,
  NoDup (dkeys P) ->
  (forall c1 c2, In c1 (dkeys P) -> In c2 (dkeys P) ->
                 shape_name (x_shapes_ns cfg) c1 = shape_name (x_shapes_ns cfg) c2 -> c1 = c2) ->
  shex fa cfg thr P C = inl shapes -> NoDup (map sh_name shapes).
Proof. exact shex_labels_NoDup. Qed.
Print Assumptions C05_labels_distinct_partial.

(** two classes with the same local name get the same label *)
Lemma C05_labels_distinct_refuted :
  exists shapes, NoDup (dkeys ex_P2) /\ shex QAlg ex_cfg ex_thr ex_P2 ex_C2 = inl shapes /\
                 ~ NoDup (map sh_name shapes).
Proof.
  eexists. split.
  - constructor; [|constructor; [intros []|constructor]].
    intros [H|[]]. vm_compute in H. discriminate H.
  - split; [vm_compute; reflexivity|]. simpl. intros H. inversion H as [|? ? Hn _]; subst.
    apply Hn. left. reflexivity.
Qed.
