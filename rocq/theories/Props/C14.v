(** * C14 (shexing half) — inverse paths add incoming constraints and leave
    the direct part untouched (model level, one class).

    [order_at fa n]: [fle] is a total preorder on the probabilities of a class
    with [n] instances (needed because the direct and inverse statements are
    sorted together before being split again).  It holds for the binary64
    algebra for every [n], and for the exact algebra for [n <> 0]
    (Proofs/FreqOrder.v).  Proofs: Proofs/InverseLemmas.v. *)
From Coq Require Import List Ascii String ZArith NArith Bool.
From Shexer Require Import Lib.PyStr Lib.Dict Lib.Bin64 Gen.Consts Model.Profiler Model.Tokens
     Model.Freq Model.FreqInst Model.Shexing.
From Shexer Require Import Proofs.ShexBasics Proofs.InverseLemmas Proofs.FreqOrder Proofs.ShexExamples.
Import ListNotations.

(** ** I1: the direct statements, the instance count and the label are those
    of the run without inverse paths *)
Theorem C14_direct_untouched : forall fa cfg thr counts ce sh_t,
  order_at fa (class_cnt counts ce) ->
  shex_class fa (with_inverse true cfg) thr counts ce = inl sh_t ->
  exists sh_f,
    shex_class fa (with_inverse false cfg) thr counts ce = inl sh_f /\
    filter is_direct (sh_stmts sh_t) = sh_stmts sh_f /\
    sh_n sh_t = sh_n sh_f /\ sh_name sh_t = sh_name sh_f /\ sh_class sh_t = sh_class sh_f.
Proof. intros fa cfg thr counts ce sh_t Hord. exact (I1_direct_untouched fa cfg thr counts ce Hord sh_t). Qed.
Print Assumptions C14_direct_untouched.

(** a failure without inverse paths is a failure with them (the converse is
    false: the inverse statements can fail on their own) *)
Theorem C14_failure_mono : forall fa cfg thr counts ce e,
  order_at fa (class_cnt counts ce) ->
  shex_class fa (with_inverse false cfg) thr counts ce = inr e ->
  exists e', shex_class fa (with_inverse true cfg) thr counts ce = inr e'.
Proof. intros fa cfg thr counts ce e Hord. exact (I1_failure fa cfg thr counts ce Hord e). Qed.
Print Assumptions C14_failure_mono.

(** ** I2: the inverse statements are what the direct strategy computes from
    the inverse features, with the direction flag set *)
Theorem C14_inverse_part : forall fa cfg thr counts ce sh_t,
  order_at fa (class_cnt counts ce) ->
  shex_class fa (with_inverse true cfg) thr counts ce = inl sh_t ->
  exists sh', shex_class fa (with_inverse false cfg) thr counts (swap_entry ce) = inl sh' /\
              filter is_inverse (sh_stmts sh_t) = map set_inv (sh_stmts sh').
Proof. exact I2_inverse_part. Qed.
Print Assumptions C14_inverse_part.

(** ** the premise, for the two algebras *)
Theorem C14_order_binary64 : forall n, order_at BAlg n.
Proof. exact order_at_BAlg. Qed.
Print Assumptions C14_order_binary64.

Theorem C14_order_exact : forall n, n <> 0%N -> order_at QAlg n.
Proof. exact order_at_QAlg. Qed.
Print Assumptions C14_order_exact.

Lemma C14_order_exact_zero_refuted : ~ order_at QAlg 0.
Proof. exact order_at_QAlg_zero_refuted. Qed.

(** binary64, the algebra the correspondence check runs: no premise left *)
Corollary C14_direct_untouched_binary64 : forall cfg thr counts ce sh_t,
  shex_class BAlg (with_inverse true cfg) thr counts ce = inl sh_t ->
  exists sh_f,
    shex_class BAlg (with_inverse false cfg) thr counts ce = inl sh_f /\
    filter is_direct (sh_stmts sh_t) = sh_stmts sh_f /\
    sh_n sh_t = sh_n sh_f /\ sh_name sh_t = sh_name sh_f /\ sh_class sh_t = sh_class sh_f.
Proof. intros cfg thr counts ce sh_t. apply C14_direct_untouched. apply order_at_BAlg. Qed.
Print Assumptions C14_direct_untouched_binary64.

Corollary C14_inverse_part_binary64 : forall cfg thr counts ce sh_t,
  shex_class BAlg (with_inverse true cfg) thr counts ce = inl sh_t ->
  exists sh', shex_class BAlg (with_inverse false cfg) thr counts (swap_entry ce) = inl sh' /\
              filter is_inverse (sh_stmts sh_t) = map set_inv (sh_stmts sh').
Proof. intros cfg thr counts ce sh_t. apply C14_inverse_part. apply order_at_BAlg. Qed.
Print Assumptions C14_inverse_part_binary64.

(** ** non-vacuity: on the example class the inverse run succeeds, has an
    inverse statement and differs from the direct run *)
Example C14_inverse_acts :
  exists sh_t, shex_class QAlg (with_inverse true ex_cfg) ex_thr ex_C (ex_tA, ex_entry_A) = inl sh_t /\
               filter is_inverse (sh_stmts sh_t) <> [] /\ filter is_direct (sh_stmts sh_t) <> [] /\
               shex_class QAlg (with_inverse false ex_cfg) ex_thr ex_C (ex_tA, ex_entry_A) <> inl sh_t.
Proof.
  eexists. split; [vm_compute; reflexivity|].
  split; [vm_compute; discriminate|]. split; [vm_compute; discriminate|]. vm_compute. discriminate.
Qed.

Example C14_example_order : order_at QAlg (class_cnt ex_C (ex_tA, ex_entry_A)).
Proof. apply order_at_QAlg. vm_compute. discriminate. Qed.

(** ** End to end: [Run.run_shapes] with and without inverse paths on the same
    graph and configuration ([rwith_inverse b c] sets [r_inverse]).

    Composition (Proofs/EndToEnd2.v): the shapes prefix and the tracker ignore
    the flag; the profile of the run without inverse paths is the stripped
    profile of the run with them -- P1's [profile_inverse_flag_tracked], which
    for the tracker's own instance dictionary has no side condition, the
    profile-level cleaning of remove_empty_shapes included; I1 class by class.
    [direct_part sh_t sh_f]: same label, class and instance count, and the
    direct statements of [sh_t] are the statements of [sh_f], in order.
    A successful run with inverse paths implies a successful run without.

    Covered: (a) the shapes before the shape-level [_clean_empty_shapes]
    ([run_raw]), any options; (b) the final shapes with remove_empty_shapes
    off; (c) the final shapes with any setting of remove_empty_shapes when no
    shape of the run without inverse paths is empty before the shape-level
    cleaning (then that cleaning is the identity in both runs); (d), (e) further below: the
    hypothesis of (c) discharged from the input for thresholds <= 1.  Not
    covered: remove_empty_shapes on AND a shape without direct constraints
    (possible only for a threshold > 1 or a class IRI starting with '%'/"@") --
    there the two cleanings could diverge (a shape with inverse constraints
    only survives in one run and its references with it). *)
From Shexer Require Import Spec.Rdf Model.Tracker Model.SerialShexc Model.Run Proofs.DictLemmas Proofs.ProfileChar
  Proofs.EndToEnd2 Proofs.RunWitness.

Theorem C14_run_raw_direct_unchanged : forall c thr g ns Lt,
  run_raw BAlg (rwith_inverse true c) thr g = inl (ns, Lt) ->
  exists Lf, run_raw BAlg (rwith_inverse false c) thr g = inl (ns, Lf) /\
             Forall2 (fun sh_t sh_f =>
               sh_name sh_t = sh_name sh_f /\ sh_class sh_t = sh_class sh_f /\ sh_n sh_t = sh_n sh_f /\
               filter is_direct (sh_stmts sh_t) = sh_stmts sh_f) Lt Lf.
Proof. intros c thr g ns Lt. exact (run_raw_direct_unchanged BAlg c thr g ns Lt order_at_BAlg). Qed.
Print Assumptions C14_run_raw_direct_unchanged.

(** (b) remove_empty_shapes off *)
Theorem C14_run_direct_unchanged : forall c thr g ns st,
  r_remove_empty c = false ->
  run_shapes BAlg (rwith_inverse true c) thr g = inl (ns, st) ->
  exists sf, run_shapes BAlg (rwith_inverse false c) thr g = inl (ns, sf) /\
             Forall2 (fun sh_t sh_f =>
               sh_name sh_t = sh_name sh_f /\ sh_class sh_t = sh_class sh_f /\ sh_n sh_t = sh_n sh_f /\
               filter is_direct (sh_stmts sh_t) = sh_stmts sh_f) st sf.
Proof. intros c thr g ns st. exact (run_direct_unchanged_keep BAlg c thr g ns st order_at_BAlg). Qed.
Print Assumptions C14_run_direct_unchanged.

(** (c) any setting of remove_empty_shapes, no empty shape before the
    shape-level cleaning in the run without inverse paths *)
Theorem C14_run_direct_unchanged_nonempty : forall c thr g ns st,
  (forall ns' L, run_raw BAlg (rwith_inverse false c) thr g = inl (ns', L) ->
                 Forall (fun sh => sh_stmts sh <> []) L) ->
  run_shapes BAlg (rwith_inverse true c) thr g = inl (ns, st) ->
  exists sf, run_shapes BAlg (rwith_inverse false c) thr g = inl (ns, sf) /\
             Forall2 (fun sh_t sh_f =>
               sh_name sh_t = sh_name sh_f /\ sh_class sh_t = sh_class sh_f /\ sh_n sh_t = sh_n sh_f /\
               filter is_direct (sh_stmts sh_t) = sh_stmts sh_f) st sf.
Proof. intros c thr g ns st. exact (run_direct_unchanged_nonempty BAlg c thr g ns st order_at_BAlg). Qed.
Print Assumptions C14_run_direct_unchanged_nonempty.

(** the same three for any algebra whose [fle] is a total preorder at every
    class size (for the exact rationals a class of size 0 -- a requested target
    class without instances -- breaks it: [C14_order_exact_zero_refuted]) *)
Theorem C14_run_direct_unchanged_alg : forall fa c (thr : F fa) g ns st,
  (forall n, order_at fa n) -> r_remove_empty c = false ->
  run_shapes fa (rwith_inverse true c) thr g = inl (ns, st) ->
  exists sf, run_shapes fa (rwith_inverse false c) thr g = inl (ns, sf) /\ Forall2 direct_part st sf.
Proof. intros fa c thr g ns st Hord. exact (run_direct_unchanged_keep fa c thr g ns st Hord). Qed.
Print Assumptions C14_run_direct_unchanged_alg.

(** the profile-level half on its own *)
Theorem C14_front_inverse_flag : forall c g,
  front (rwith_inverse false c) g =
  match front (rwith_inverse true c) g with
  | inl (P, C) => inl (dmapv strip_c P, C)
  | inr e => inr e
  end.
Proof. exact front_inverse_flag. Qed.
Print Assumptions C14_front_inverse_flag.

(** non-vacuity: on the pinned graph [g_reftie_1] (default configuration,
    remove_empty_shapes on) the run with inverse paths succeeds, two shapes get
    an inverse constraint, no shape of the run without inverse paths is empty
    before cleaning, and the two runs differ *)
Example C14_run_inverse_acts :
  exists ns st L,
    run_shapes BAlg (rwith_inverse true base_rcfg) thr0 g_reftie_1 = inl (ns, st) /\
    map (fun sh => List.length (filter is_inverse (sh_stmts sh))) st = [0; 1; 1]%nat /\
    run_raw BAlg (rwith_inverse false base_rcfg) thr0 g_reftie_1 = inl (ns, L) /\
    forallb (fun sh => match sh_stmts sh with [] => false | _ => true end) L = true /\
    run_shapes BAlg (rwith_inverse false base_rcfg) thr0 g_reftie_1 <> inl (ns, st).
Proof.
  do 3 eexists. split; [vm_compute; reflexivity|]. split; [vm_compute; reflexivity|].
  split; [vm_compute; reflexivity|]. split; [vm_compute; reflexivity|]. vm_compute. discriminate.
Qed.

(** (d) all_classes mode (no target classes), threshold <= 1, fewer than 2^53
    triples: the hypothesis of (c) always holds -- every class of the profile
    has an instance and every instance has its class among the values of the
    instantiation property, so each shape keeps that constraint at frequency
    100 % -- hence no condition on remove_empty_shapes *)
From Shexer Require Import Proofs.Bin64Round Proofs.FreqLaws.

Theorem C14_no_empty_shape_all_classes : forall c thr g ns l,
  r_targets c = None -> wf_frac thr -> fle BAlg thr (fone BAlg) = true ->
  (N.of_nat (List.length g) < 2 ^ 53)%N ->
  run_raw BAlg c thr g = inl (ns, l) -> Forall (fun sh => sh_stmts sh <> []) l.
Proof.
  intros c thr g ns l Hn Hw Hle Hg.
  exact (run_raw_nonempty BAlg okN53 wf_frac BAlg_laws c thr g ns l Hn Hw Hle (okN53_of_graph g Hg)).
Qed.
Print Assumptions C14_no_empty_shape_all_classes.

Theorem C14_run_direct_unchanged_all_classes : forall c thr g ns st,
  r_targets c = None -> wf_frac thr -> fle BAlg thr (fone BAlg) = true ->
  (N.of_nat (List.length g) < 2 ^ 53)%N ->
  run_shapes BAlg (rwith_inverse true c) thr g = inl (ns, st) ->
  exists sf, run_shapes BAlg (rwith_inverse false c) thr g = inl (ns, sf) /\
             Forall2 (fun sh_t sh_f =>
               sh_name sh_t = sh_name sh_f /\ sh_class sh_t = sh_class sh_f /\ sh_n sh_t = sh_n sh_f /\
               filter is_direct (sh_stmts sh_t) = sh_stmts sh_f) st sf.
Proof. exact run_direct_unchanged_all_classes. Qed.
Print Assumptions C14_run_direct_unchanged_all_classes.

Example C14_all_classes_nonvacuous :
  r_targets base_rcfg = None /\ r_remove_empty base_rcfg = true /\ wf_frac thr0 /\
  fle BAlg thr0 (fone BAlg) = true /\ (N.of_nat (List.length g_reftie_1) < 2 ^ 53)%N.
Proof.
  split; [reflexivity|]. split; [reflexivity|]. split; [vm_compute; split; [discriminate | reflexivity]|].
  split; vm_compute; reflexivity.
Qed.

(** (e) final form for binary64: any mode (target classes included), any
    setting of remove_empty_shapes, thresholds <= 1, when no class IRI (object
    of an instantiation triple, requested target class) starts with '%' or "@"
    ([class_iris_ok]; true of every IRI and blank-node label): with
    remove_empty_shapes on, a class that survives the profile-level cleaning
    has features, hence an instance, hence the 100 % constraint on the
    instantiation property -- no shape is empty before the shape-level cleaning *)
Theorem C14_run_direct_unchanged_valid : forall c thr g ns st,
  class_iris_ok c g = true -> wf_frac thr -> fle BAlg thr (fone BAlg) = true ->
  (N.of_nat (List.length g) < 2 ^ 53)%N ->
  run_shapes BAlg (rwith_inverse true c) thr g = inl (ns, st) ->
  exists sf, run_shapes BAlg (rwith_inverse false c) thr g = inl (ns, sf) /\
             Forall2 (fun sh_t sh_f =>
               sh_name sh_t = sh_name sh_f /\ sh_class sh_t = sh_class sh_f /\ sh_n sh_t = sh_n sh_f /\
               filter is_direct (sh_stmts sh_t) = sh_stmts sh_f) st sf.
Proof. exact run_direct_unchanged_valid. Qed.
Print Assumptions C14_run_direct_unchanged_valid.

Theorem C14_no_empty_shape_remove : forall c thr g ns l,
  r_remove_empty c = true -> class_iris_ok c g = true ->
  wf_frac thr -> fle BAlg thr (fone BAlg) = true -> (N.of_nat (List.length g) < 2 ^ 53)%N ->
  run_raw BAlg c thr g = inl (ns, l) -> Forall (fun sh => sh_stmts sh <> []) l.
Proof.
  intros c thr g ns l Hre Hc Hw Hle Hg.
  exact (run_raw_nonempty_remove BAlg okN53 wf_frac BAlg_laws c thr g ns l Hre Hc Hw Hle (okN53_of_graph g Hg)).
Qed.
Print Assumptions C14_no_empty_shape_remove.

Example C14_valid_nonvacuous :
  class_iris_ok base_rcfg g_reftie_1 = true /\ class_iris_ok base_rcfg g_shared = true.
Proof. split; vm_compute; reflexivity. Qed.
