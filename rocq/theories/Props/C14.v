(** * C14 (shexing half) — inverse paths add incoming constraints and leave
    the direct part untouched (model level, one class).

    [order_at fa n]: [fle] is a total preorder on the probabilities of a class
    with [n] instances (needed because the direct and inverse statements are
    sorted together before being split again).  It holds for the binary64
    algebra for every [n], and for the exact algebra for [n <> 0]
    (Proofs/FreqOrder.v).  Proofs: Proofs/InverseLemmas.v. *)
From Coq Require Import List Ascii String ZArith NArith Bool.
From Shexer Require Import Lib.PyStr Lib.Dict Lib.Bin64 Gen.Consts Model.Profiler Model.Tokens
     Model.Freq Model.FreqInst Model.Shexing.
From Shexer Require Import Proofs.ShexBasics Proofs.InverseLemmas Proofs.FreqOrder Proofs.ShexExamples.
Import ListNotations.

(** ** I1: the direct statements, the instance count and the label are those
    of the run without inverse paths *)
Theorem C14_direct_untouched : forall fa cfg thr counts ce sh_t,
  order_at fa (class_cnt counts ce) ->
  shex_class fa (with_inverse true cfg) thr counts ce = inl sh_t ->
  exists sh_f,
    shex_class fa (with_inverse false cfg) thr counts ce = inl sh_f /\
    filter is_direct (sh_stmts sh_t) = sh_stmts sh_f /\
    sh_n sh_t = sh_n sh_f /\ sh_name sh_t = sh_name sh_f /\ sh_class sh_t = sh_class sh_f.
Proof. intros fa cfg thr counts ce sh_t Hord. exact (I1_direct_untouched fa cfg thr counts ce Hord sh_t). Qed.
Print Assumptions C14_direct_untouched.

(** a failure without inverse paths is a failure with them (the converse is
    false: the inverse statements can fail on their own) *)
Theorem C14_failure_mono : forall fa cfg thr counts ce e,
  order_at fa (class_cnt counts ce) ->
  shex_class fa (with_inverse false cfg) thr counts ce = inr e ->
  exists e', shex_class fa (with_inverse true cfg) thr counts ce = inr e'.
Proof. intros fa cfg thr counts ce e Hord. exact (I1_failure fa cfg thr counts ce Hord e). Qed.
Print Assumptions C14_failure_mono.

(** ** I2: the inverse statements are what the direct strategy computes from
    the inverse features, with the direction flag set *)
Theorem C14_inverse_part : forall fa cfg thr counts ce sh_t,
  order_at fa (class_cnt counts ce) ->
  shex_class fa (with_inverse true cfg) thr counts ce = inl sh_t ->
  exists sh', shex_class fa (with_inverse false cfg) thr counts (swap_entry ce) = inl sh' /\
              filter is_inverse (sh_stmts sh_t) = map set_inv (sh_stmts sh').
Proof. exact I2_inverse_part. Qed.
Print Assumptions C14_inverse_part.

(** ** the premise, for the two algebras *)
Theorem C14_order_binary64 : forall n, order_at BAlg n.
Proof. exact order_at_BAlg. Qed.
Print Assumptions C14_order_binary64.

Theorem C14_order_exact : forall n, n <> 0%N -> order_at QAlg n.
Proof. exact order_at_QAlg. Qed.
Print Assumptions C14_order_exact.

Lemma C14_order_exact_zero_refuted : ~ order_at QAlg 0.
Proof. exact order_at_QAlg_zero_refuted. Qed.

(** binary64, the algebra the correspondence check runs: no premise left *)
Corollary C14_direct_untouched_binary64 : forall cfg thr counts ce sh_t,
  shex_class BAlg (with_inverse true cfg) thr counts ce = inl sh_t ->
  exists sh_f,
    shex_class BAlg (with_inverse false cfg) thr counts ce = inl sh_f /\
    filter is_direct (sh_stmts sh_t) = sh_stmts sh_f /\
    sh_n sh_t = sh_n sh_f /\ sh_name sh_t = sh_name sh_f /\ sh_class sh_t = sh_class sh_f.
Proof. intros cfg thr counts ce sh_t. apply C14_direct_untouched. apply order_at_BAlg. Qed.
Print Assumptions C14_direct_untouched_binary64.

Corollary C14_inverse_part_binary64 : forall cfg thr counts ce sh_t,
  shex_class BAlg (with_inverse true cfg) thr counts ce = inl sh_t ->
  exists sh', shex_class BAlg (with_inverse false cfg) thr counts (swap_entry ce) = inl sh' /\
              filter is_inverse (sh_stmts sh_t) = map set_inv (sh_stmts sh').
Proof. intros cfg thr counts ce sh_t. apply C14_inverse_part. apply order_at_BAlg. Qed.
Print Assumptions C14_inverse_part_binary64.

(** ** non-vacuity: on the example class the inverse run succeeds, has an
    inverse statement and differs from the direct run *)
Example C14_inverse_acts :
  exists sh_t, shex_class QAlg (with_inverse true ex_cfg) ex_thr ex_C (ex_tA, ex_entry_A) = inl sh_t /\
               filter is_inverse (sh_stmts sh_t) <> [] /\ filter is_direct (sh_stmts sh_t) <> [] /\
               shex_class QAlg (with_inverse false ex_cfg) ex_thr ex_C (ex_tA, ex_entry_A) <> inl sh_t.
Proof.
  eexists. split; [vm_compute; reflexivity|].
  split; [vm_compute; discriminate|]. split; [vm_compute; discriminate|]. vm_compute. discriminate.
Qed.

Example C14_example_order : order_at QAlg (class_cnt ex_C (ex_tA, ex_entry_A)).
Proof. apply order_at_QAlg. vm_compute. discriminate. Qed.
