(** * C14 (shexing half) — inverse paths add incoming constraints and leave
    the direct part untouched (model level, one class).

    [order_at fa n]: [fle] is a total preorder on the probabilities of a class
    with [n] instances (needed because the direct and inverse statements are
    sorted together before being split again).  It holds for the binary64
    algebra for every [n], and for the exact algebra for [n <> 0]
    (Proofs/FreqOrder.v).  Proofs: Proofs/InverseLemmas.v. *)
From Coq Require Import List Ascii String ZArith NArith Bool.
From Shexer Require Import Lib.PyStr Lib.Dict Lib.Bin64 Gen.Consts Model.Profiler Model.Tokens
     Model.Freq Model.FreqInst Model.Shexing.
From Shexer Require Import Proofs.ShexBasics Proofs.InverseLemmas Proofs.FreqOrder Proofs.ShexExamples.
Import ListNotations.

(** ** I1: the direct statements, the instance count and the label are those
    of the run without inverse paths *)
Theorem C14_direct_untouched : forall fa cfg thr counts ce sh_t,
  order_at fa (class_cnt counts ce) ->
  shex_class fa (with_inverse true cfg) thr counts ce = inl sh_t ->
  exists sh_f,
    shex_class fa (with_inverse false cfg) thr counts ce = inl sh_f /\
    filter is_direct (sh_stmts sh_t) = sh_stmts sh_f /\
    sh_n sh_t = sh_n sh_f /\ sh_name sh_t = sh_name sh_f /\ sh_class sh_t = sh_class sh_f.
Proof. intros fa cfg thr counts ce sh_t Hord. exact (I1_direct_untouched fa cfg thr counts ce Hord sh_t). Qed.
Print Assumptions C14_direct_untouched.

(** a failure without inverse paths is a failure with them (the converse is
    false: the inverse statements can fail on their own) *)
Theorem C14_failure_mono : forall fa cfg thr counts ce e,
  order_at fa (class_cnt counts ce) ->
  shex_class fa (with_inverse false cfg) thr counts ce = inr e ->
  exists e', shex_class fa (with_inverse true cfg) thr counts ce = inr e'.
Proof. intros fa cfg thr counts ce e Hord. exact (I1_failure fa cfg thr counts ce Hord e). Qed.
Print Assumptions C14_failure_mono.

(** ** I2: the inverse statements are what the direct strategy computes from
    the inverse features, with the direction flag set *)
Theorem C14_inverse_part : forall fa cfg thr counts ce sh_t,
  order_at fa (class_cnt counts ce) ->
  shex_class fa (with_inverse true cfg) thr counts ce = inl sh_t ->
  exists sh', shex_class fa (with_inverse false cfg) thr counts (swap_entry ce) = inl sh' /\
              filter is_inverse (sh_stmts sh_t) = map set_inv (sh_stmts sh').
Proof. exact I2_inverse_part. Qed.
Print Assumptions C14_inverse_part.

(** ** the premise, for the two algebras *)
Theorem C14_order_binary64 : forall n, order_at BAlg n.
Proof. exact order_at_BAlg. Qed.
Print Assumptions C14_order_binary64.

Theorem C14_order_exact : forall n, n <> 0%N -> order_at QAlg n.
Proof. exact order_at_QAlg. Qed.
Print Assumptions C14_order_exact.

Lemma C14_order_exact_zero_refuted : ~ order_at QAlg 0.
Proof. exact order_at_QAlg_zero_refuted. Qed.

(** binary64, the algebra the correspondence check runs: no premise left *)
Corollary C14_direct_untouched_binary64 : forall cfg thr counts ce sh_t,
  shex_class BAlg (with_inverse true cfg) thr counts ce = inl sh_t ->
  exists sh_f,
    shex_class BAlg (with_inverse false cfg) thr counts ce = inl sh_f /\
    filter is_direct (sh_stmts sh_t) = sh_stmts sh_f /\
    sh_n sh_t = sh_n sh_f /\ sh_name sh_t = sh_name sh_f /\ sh_class sh_t = sh_class sh_f.
Proof. intros cfg thr counts ce sh_t. apply C14_direct_untouched. apply order_at_BAlg. Qed.
Print Assumptions C14_direct_untouched_binary64.

Corollary C14_inverse_part_binary64 : forall cfg thr counts ce sh_t,
  shex_class BAlg (with_inverse true cfg) thr counts ce = inl sh_t ->
  exists sh', shex_class BAlg (with_inverse false cfg) thr counts (swap_entry ce) = inl sh' /\
              filter is_inverse (sh_stmts sh_t) = map set_inv (sh_stmts sh').
Proof. intros cfg thr counts ce sh_t. apply C14_inverse_part. apply order_at_BAlg. Qed.
Print Assumptions C14_inverse_part_binary64.

(** ** non-vacuity: on the example class the inverse run succeeds, has an
    inverse statement and differs from the direct run *)
Example C14_inverse_acts :
  exists sh_t, shex_class QAlg (with_inverse true ex_cfg) ex_thr ex_C (ex_tA, ex_entry_A) = inl sh_t /\
               filter is_inverse (sh_stmts sh_t) <> [] /\ filter is_direct (sh_stmts sh_t) <> [] /\
               shex_class QAlg (with_inverse false ex_cfg) ex_thr ex_C (ex_tA, ex_entry_A) <> inl sh_t.
Proof.
  eexists. split; [vm_compute; reflexivity|].
  split; [vm_compute; discriminate|]. split; [vm_compute; discriminate|]. vm_compute. discriminate.
Qed.

Example C14_example_order : order_at QAlg (class_cnt ex_C (ex_tA, ex_entry_A)).
Proof. apply order_at_QAlg. vm_compute. discriminate. Qed.

(** ** End to end: [Run.run_shapes] with and without inverse paths on the same
    graph and configuration ([rwith_inverse b c] sets [r_inverse]).

    Composition (Proofs/EndToEnd2.v): the shapes prefix and the tracker ignore
    the flag; the profile of the run without inverse paths is the stripped
    profile of the run with them -- P1's [profile_inverse_flag_tracked], which
    for the tracker's own instance dictionary has no side condition, the
    profile-level cleaning of remove_empty_shapes included; I1 class by class.
    [direct_part sh_t sh_f]: same label, class and instance count, and the
    direct statements of [sh_t] are the statements of [sh_f], in order.
    A successful run with inverse paths implies a successful run without.

    Covered: (a) the shapes before the shape-level [_clean_empty_shapes]
    ([run_raw]), any options; (b) the final shapes with remove_empty_shapes
    off; (c) the final shapes with any setting of remove_empty_shapes when no
    shape of the run without inverse paths is empty before the shape-level
    cleaning (then that cleaning is the identity in both runs); (d), (e) further below: the
    hypothesis of (c) discharged from the input for thresholds <= 1.  Not
    covered: remove_empty_shapes on AND a shape without direct constraints
    (possible only for a threshold > 1 or a class IRI starting with '%'/"@") --
    there the two cleanings could diverge (a shape with inverse constraints
    only survives in one run and its references with it). *)
From Shexer Require Import Spec.Rdf Model.Tracker Model.SerialShexc Model.Run Proofs.DictLemmas Proofs.ProfileChar
  Proofs.EndToEnd2 Proofs.RunWitness.

Theorem C14_run_raw_direct_unchanged : forall c thr g ns Lt,
  run_raw BAlg (rwith_inverse true c) thr g = inl (ns, Lt) ->
  exists Lf, run_raw BAlg (rwith_inverse false c) thr g = inl (ns, Lf) /\
             Forall2 (fun sh_t sh_f =>
               sh_name sh_t = sh_name sh_f /\ sh_class sh_t = sh_class sh_f /\ sh_n sh_t = sh_n sh_f /\
               filter is_direct (sh_stmts sh_t) = sh_stmts sh_f) Lt Lf.
Proof. intros c thr g ns Lt. exact (run_raw_direct_unchanged BAlg c thr g ns Lt order_at_BAlg). Qed.
Print Assumptions C14_run_raw_direct_unchanged.

(** (b) remove_empty_shapes off *)
Theorem C14_run_direct_unchanged : forall c thr g ns st,
  r_remove_empty c = false ->
  run_shapes BAlg (rwith_inverse true c) thr g = inl (ns, st) ->
  exists sf, run_shapes BAlg (rwith_inverse false c) thr g = inl (ns, sf) /\
             Forall2 (fun sh_t sh_f =>
               sh_name sh_t = sh_name sh_f /\ sh_class sh_t = sh_class sh_f /\ sh_n sh_t = sh_n sh_f /\
               filter is_direct (sh_stmts sh_t) = sh_stmts sh_f) st sf.
Proof. intros c thr g ns st. exact (run_direct_unchanged_keep BAlg c thr g ns st order_at_BAlg). Qed.
Print Assumptions C14_run_direct_unchanged.

(** (c) any setting of remove_empty_shapes, no empty shape before the
    shape-level cleaning in the run without inverse paths *)
Theorem C14_run_direct_unchanged_nonempty : forall c thr g ns st,
  (forall ns' L, run_raw BAlg (rwith_inverse false c) thr g = inl (ns', L) ->
                 Forall (fun sh => sh_stmts sh <> []) L) ->
  run_shapes BAlg (rwith_inverse true c) thr g = inl (ns, st) ->
  exists sf, run_shapes BAlg (rwith_inverse false c) thr g = inl (ns, sf) /\
             Forall2 (fun sh_t sh_f =>
               sh_name sh_t = sh_name sh_f /\ sh_class sh_t = sh_class sh_f /\ sh_n sh_t = sh_n sh_f /\
               filter is_direct (sh_stmts sh_t) = sh_stmts sh_f) st sf.
Proof. intros c thr g ns st. exact (run_direct_unchanged_nonempty BAlg c thr g ns st order_at_BAlg). Qed.
Print Assumptions C14_run_direct_unchanged_nonempty.

(** the same three for any algebra whose [fle] is a total preorder at every
    class size (for the exact rationals a class of size 0 -- a requested target
    class without instances -- breaks it: [C14_order_exact_zero_refuted]) *)
Theorem C14_run_direct_unchanged_alg : forall fa c (thr : F fa) g ns st,
  (forall n, order_at fa n) -> r_remove_empty c = false ->
  run_shapes fa (rwith_inverse true c) thr g = inl (ns, st) ->
  exists sf, run_shapes fa (rwith_inverse false c) thr g = inl (ns, sf) /\ Forall2 direct_part st sf.
Proof. intros fa c thr g ns st Hord. exact (run_direct_unchanged_keep fa c thr g ns st Hord). Qed.
Print Assumptions C14_run_direct_unchanged_alg.

(** the profile-level half on its own *)
Theorem C14_front_inverse_flag : forall c g,
  front (rwith_inverse false c) g =
  match front (rwith_inverse true c) g with
  | inl (P, C) => inl (dmapv strip_c P, C)
  | inr e => inr e
  end.
Proof. exact front_inverse_flag. Qed.
Print Assumptions C14_front_inverse_flag.

(** non-vacuity: on the pinned graph [g_reftie_1] (default configuration,
    remove_empty_shapes on) the run with inverse paths succeeds, two shapes get
    an inverse constraint, no shape of the run without inverse paths is empty
    before cleaning, and the two runs differ *)
Example C14_run_inverse_acts :
  exists ns st L,
    run_shapes BAlg (rwith_inverse true base_rcfg) thr0 g_reftie_1 = inl (ns, st) /\
    map (fun sh => List.length (filter is_inverse (sh_stmts sh))) st = [0; 1; 1]%nat /\
    run_raw BAlg (rwith_inverse false base_rcfg) thr0 g_reftie_1 = inl (ns, L) /\
    forallb (fun sh => match sh_stmts sh with [] => false | _ => true end) L = true /\
    run_shapes BAlg (rwith_inverse false base_rcfg) thr0 g_reftie_1 <> inl (ns, st).
Proof.
  do 3 eexists. split; [vm_compute; reflexivity|]. split; [vm_compute; reflexivity|].
  split; [vm_compute; reflexivity|]. split; [vm_compute; reflexivity|]. vm_compute. discriminate.
Qed.

(** (d) all_classes mode (no target classes), threshold <= 1, fewer than 2^53
    triples: the hypothesis of (c) always holds -- every class of the profile
    has an instance and every instance has its class among the values of the
    instantiation property, so each shape keeps that constraint at frequency
    100 % -- hence no condition on remove_empty_shapes *)
From Shexer Require Import Proofs.Bin64Round Proofs.FreqLaws.

Theorem C14_no_empty_shape_all_classes : forall c thr g ns l,
  r_targets c = None -> wf_frac thr -> fle BAlg thr (fone BAlg) = true ->
  (N.of_nat (List.length g) < 2 ^ 53)%N ->
  run_raw BAlg c thr g = inl (ns, l) -> Forall (fun sh => sh_stmts sh <> []) l.
Proof.
  intros c thr g ns l Hn Hw Hle Hg.
  exact (run_raw_nonempty BAlg okN53 wf_frac BAlg_laws c thr g ns l Hn Hw Hle (okN53_of_graph g Hg)).
Qed.
Print Assumptions C14_no_empty_shape_all_classes.

Theorem C14_run_direct_unchanged_all_classes : forall c thr g ns st,
  r_targets c = None -> wf_frac thr -> fle BAlg thr (fone BAlg) = true ->
  (N.of_nat (List.length g) < 2 ^ 53)%N ->
  run_shapes BAlg (rwith_inverse true c) thr g = inl (ns, st) ->
  exists sf, run_shapes BAlg (rwith_inverse false c) thr g = inl (ns, sf) /\
             Forall2 (fun sh_t sh_f =>
               sh_name sh_t = sh_name sh_f /\ sh_class sh_t = sh_class sh_f /\ sh_n sh_t = sh_n sh_f /\
               filter is_direct (sh_stmts sh_t) = sh_stmts sh_f) st sf.
Proof. exact run_direct_unchanged_all_classes. Qed.
Print Assumptions C14_run_direct_unchanged_all_classes.

Example C14_all_classes_nonvacuous :
  r_targets base_rcfg = None /\ r_remove_empty base_rcfg = true /\ wf_frac thr0 /\
  fle BAlg thr0 (fone BAlg) = true /\ (N.of_nat (List.length g_reftie_1) < 2 ^ 53)%N.
Proof.
  split; [reflexivity|]. split; [reflexivity|]. split; [vm_compute; split; [discriminate | reflexivity]|].
  split; vm_compute; reflexivity.
Qed.

(** (e) final form for binary64: any mode (target classes included), any
    setting of remove_empty_shapes, thresholds <= 1, when no class IRI (object
    of an instantiation triple, requested target class) starts with '%' or "@"
    ([class_iris_ok]; true of every IRI and blank-node label): with
    remove_empty_shapes on, a class that survives the profile-level cleaning
    has features, hence an instance, hence the 100 % constraint on the
    instantiation property -- no shape is empty before the shape-level cleaning *)
Theorem C14_run_direct_unchanged_valid : forall c thr g ns st,
  class_iris_ok c g = true -> wf_frac thr -> fle BAlg thr (fone BAlg) = true ->
  (N.of_nat (List.length g) < 2 ^ 53)%N ->
  run_shapes BAlg (rwith_inverse true c) thr g = inl (ns, st) ->
  exists sf, run_shapes BAlg (rwith_inverse false c) thr g = inl (ns, sf) /\
             Forall2 (fun sh_t sh_f =>
               sh_name sh_t = sh_name sh_f /\ sh_class sh_t = sh_class sh_f /\ sh_n sh_t = sh_n sh_f /\
               filter is_direct (sh_stmts sh_t) = sh_stmts sh_f) st sf.
Proof. exact run_direct_unchanged_valid. Qed.
Print Assumptions C14_run_direct_unchanged_valid.

Theorem C14_no_empty_shape_remove : forall c thr g ns l,
  r_remove_empty c = true -> class_iris_ok c g = true ->
  wf_frac thr -> fle BAlg thr (fone BAlg) = true -> (N.of_nat (List.length g) < 2 ^ 53)%N ->
  run_raw BAlg c thr g = inl (ns, l) -> Forall (fun sh => sh_stmts sh <> []) l.
Proof.
  intros c thr g ns l Hre Hc Hw Hle Hg.
  exact (run_raw_nonempty_remove BAlg okN53 wf_frac BAlg_laws c thr g ns l Hre Hc Hw Hle (okN53_of_graph g Hg)).
Qed.
Print Assumptions C14_no_empty_shape_remove.

Example C14_valid_nonvacuous :
  class_iris_ok base_rcfg g_reftie_1 = true /\ class_iris_ok base_rcfg g_shared = true.
Proof. split; vm_compute; reflexivity. Qed.

(** ** Second half of the property: "the incoming constraints inverse_paths
    adds are exactly the outgoing constraints obtained from the graph with
    every non-literal triple reversed".

    [C14_inverse_part] above: per class, the inverse statements are what the
    DIRECT strategy computes from the class's inverse FEATURES.  Here
    (Proofs/EndToEnd3.v): the inverse features of [g] ARE the direct features
    of [reverse_nonliteral tau g] -- typing triples kept, every other triple
    with a node object turned around, literal-object triples dropped -- for a
    FIXED instance dictionary [I] (membership is read from the original graph)
    and properties other than the instantiation property, under [iri_nodes]
    (every subject and node object of a non-typing triple is an IRI).  The
    exclusion is real: a blank-node subject that is an instance gives its
    object an incoming link WITHOUT shape reference (QUIRK Q4 of
    Spec/Counts.v), the reversed triple gives an outgoing link WITH it
    ([C14_keys_inverse_bnode_refuted], [C14_cnt_inverse_bnode_refuted]). *)
From Shexer Require Import Spec.Counts Proofs.EndToEnd3.
From Shexer Require Model.RunCur Proofs.OrderIrrelevant.

Theorem C14_reverse_nonliteral_unfold : forall tau g,
  reverse_nonliteral tau g =
  flat_map (fun t => if str_eqb (tp t) tau then [t]
                     else match to t with
                          | ON o => [T o (tp t) (ON (ts t))]
                          | OL _ _ => []
                          end) g.
Proof. reflexivity. Qed.

Theorem C14_iri_nodes_unfold : forall tau g,
  iri_nodes tau g <->
  forall t, In t g -> tp t <> tau ->
    nk (ts t) = KIri /\ forall o, to t = ON o -> nk o = KIri.
Proof. exact iri_nodes_unfold. Qed.

(** one triple: [keys_inverse] on (s p o) = [keys_direct] on (o p s) exactly
    when the subject is an IRI (or is no instance) *)
Theorem C14_keys_inverse_is_direct_reversed : forall tau (I : insts) s p o,
  str_eqb p tau = false ->
  (keys_inverse tau I (T s p (ON o)) = keys_direct tau I (T o p (ON s)) <->
   nk s = KIri \/ classes_of I (nid s) = []).
Proof. exact keys_inverse_is_direct_reversed_iff. Qed.
Print Assumptions C14_keys_inverse_is_direct_reversed.

Lemma C14_keys_inverse_bnode_refuted :
  exists tau I s p o,
    str_eqb p tau = false /\ nk s = KBnode /\
    keys_inverse tau I (T s p (ON o)) = [c_BNODE_ELEM_TYPE] /\
    keys_direct tau I (T o p (ON s)) = [c_BNODE_ELEM_TYPE; shape_name c_SHAPES_DEFAULT_NAMESPACE rv_C] /\
    keys_inverse tau I (T s p (ON o)) <> keys_direct tau I (T o p (ON s)).
Proof. exact keys_inverse_is_direct_reversed_bnode_refuted. Qed.

(** (A1) per instance *)
Theorem C14_cnt_inverse_is_reverse : forall tau (I : insts) g i p k,
  p <> tau -> iri_nodes tau g ->
  cnt Inverse tau I g i p k = cnt Direct tau I (reverse_nonliteral tau g) i p k.
Proof. exact cnt_inverse_is_reverse. Qed.
Print Assumptions C14_cnt_inverse_is_reverse.

Lemma C14_cnt_inverse_bnode_refuted :
  exists tau I g i p k,
    p <> tau /\ ~ iri_nodes tau g /\
    cnt Inverse tau I g i p k = 0%N /\ cnt Direct tau I (reverse_nonliteral tau g) i p k = 1%N.
Proof. exact cnt_inverse_is_reverse_bnode_refuted. Qed.

(** (A2) per class *)
Theorem C14_occ_inverse_is_reverse : forall tau (I : insts) g c p k card,
  p <> tau -> iri_nodes tau g ->
  occ Inverse tau I g c p k card = occ Direct tau I (reverse_nonliteral tau g) c p k card.
Proof. exact occ_inverse_is_reverse. Qed.
Print Assumptions C14_occ_inverse_is_reverse.

(** (A3) the class profile, profile-level cleaning off: the profiler run
    WITHOUT inverse paths on the reversed graph succeeds whenever the run WITH
    inverse paths on [g] does, has the same class keys (in order) and class
    counts, and for every class and property other than [tau] the inverse
    part of the one and the direct part of the other hold the same number
    under every lookup and have the same entries *)
Theorem C14_inverse_is_reverse_profile : forall cfg (I : insts) g P C ID,
  NoDup (dkeys I) -> iri_nodes (p_tau cfg) g -> p_remove_empty cfg = false ->
  profile (set_inverse cfg true) I g = inl (P, C, ID) ->
  exists P' ID',
    profile (set_inverse cfg false) I (reverse_nonliteral (p_tau cfg) g) = inl (P', C, ID') /\
    dkeys P' = dkeys P /\
    forall c e, dget P c = Some e ->
      exists e', dget P' c = Some e' /\
        forall p, p <> p_tau cfg ->
          (forall k card, plook (c_inverse e) p k card = plook (c_direct e') p k card) /\
          (forall k, pmem (c_inverse e) p k = pmem (c_direct e') p k).
Proof. exact profile_inverse_is_reverse. Qed.
Print Assumptions C14_inverse_is_reverse_profile.

(** the same before the profile-level cleaning, whatever [remove_empty] *)
Theorem C14_inverse_is_reverse_raw_profile : forall cfg (I : insts) g ID P1 C0 ID' P1' C0',
  NoDup (dkeys I) -> iri_nodes (p_tau cfg) g ->
  annotate_all (p_tau cfg) true g (adapt I) = inl ID ->
  raw_profile (set_inverse cfg true) I ID = (P1, C0) ->
  annotate_all (p_tau cfg) false (reverse_nonliteral (p_tau cfg) g) (adapt I) = inl ID' ->
  raw_profile (set_inverse cfg false) I ID' = (P1', C0') ->
  dkeys P1' = dkeys P1 /\ C0' = C0 /\
  forall c e, dget P1 c = Some e ->
    exists e', dget P1' c = Some e' /\
      forall p, p <> p_tau cfg ->
        (forall k card, plook (c_inverse e) p k card = plook (c_direct e') p k card) /\
        (forall k, pmem (c_inverse e) p k = pmem (c_direct e') p k).
Proof. exact raw_profile_inverse_is_reverse. Qed.
Print Assumptions C14_inverse_is_reverse_raw_profile.

(** the feature pass fails on the reversed graph iff on the graph *)
Theorem C14_reverse_same_failures : forall tau inv inv' (I : insts) g,
  (exists ID, annotate_all tau inv g (adapt I) = inl ID) <->
  (exists ID, annotate_all tau inv' (reverse_nonliteral tau g) (adapt I) = inl ID).
Proof. exact annotate_all_ok_reverse. Qed.
Print Assumptions C14_reverse_same_failures.

(** non-vacuity: an IRI-only graph
      a : C . b : C . d : D .   a p b . a p d . b p d . d q a . a p "v"       *)
Definition rv_iri (s : string) : node := Node KIri (Str "http://ex.org/" ++ Str s).
Definition rv_D : str := Str "http://ex.org/D".
Definition rv_q : str := Str "http://ex.org/q".
Definition rv_G : graph :=
  [ T (rv_iri "a") rv_tau (ON (Node KIri rv_C));
    T (rv_iri "b") rv_tau (ON (Node KIri rv_C));
    T (rv_iri "d") rv_tau (ON (Node KIri rv_D));
    T (rv_iri "a") rv_p (ON (rv_iri "b"));
    T (rv_iri "a") rv_p (ON (rv_iri "d"));
    T (rv_iri "b") rv_p (ON (rv_iri "d"));
    T (rv_iri "d") rv_q (ON (rv_iri "a"));
    T (rv_iri "a") rv_p (OL (Str "v") (Str "http://www.w3.org/2001/XMLSchema#string")) ].
Definition rv_cfg : pcfg :=
  {| p_tau := rv_tau; p_inverse := true; p_remove_empty := false; p_targets := None; p_map_labels := [] |}.

Example C14_reverse_example_graph :
  reverse_nonliteral rv_tau rv_G =
  [ T (rv_iri "a") rv_tau (ON (Node KIri rv_C));
    T (rv_iri "b") rv_tau (ON (Node KIri rv_C));
    T (rv_iri "d") rv_tau (ON (Node KIri rv_D));
    T (rv_iri "b") rv_p (ON (rv_iri "a"));
    T (rv_iri "d") rv_p (ON (rv_iri "a"));
    T (rv_iri "d") rv_p (ON (rv_iri "b"));
    T (rv_iri "a") rv_q (ON (rv_iri "d")) ] /\
  iri_nodesb rv_tau rv_G = true.
Proof. split; vm_compute; reflexivity. Qed.

Definition rv_Ig : insts :=
  [ (nid (rv_iri "a"), [rv_C]); (nid (rv_iri "b"), [rv_C]); (nid (rv_iri "d"), [rv_D]) ].

Example C14_inverse_is_reverse_hypotheses :
  track rv_tau TAll (-1) rv_G = inl rv_Ig /\ NoDup (dkeys rv_Ig) /\ iri_nodes rv_tau rv_G.
Proof.
  split; [vm_compute; reflexivity|]. split.
  - repeat constructor; cbn; intros H; repeat (destruct H as [H|H]; [discriminate H|]); exact H.
  - apply iri_nodesb_ok. vm_compute. reflexivity.
Qed.

Example C14_inverse_is_reverse_nonvacuous :
  exists P C ID P' ID' eD eD',
    profile (set_inverse rv_cfg true) rv_Ig rv_G = inl (P, C, ID) /\
    profile (set_inverse rv_cfg false) rv_Ig (reverse_nonliteral rv_tau rv_G) = inl (P', C, ID') /\
    dget P rv_D = Some eD /\ dget P' rv_D = Some eD' /\
    (* d <- a, d <- b: the one instance of D has two incoming p-links, from IRIs of shape C *)
    plook (c_inverse eD) rv_p c_IRI_ELEM_TYPE (CKn 2) = 1%N /\
    plook (c_direct eD') rv_p c_IRI_ELEM_TYPE (CKn 2) = 1%N /\
    plook (c_inverse eD) rv_p (shape_name c_SHAPES_DEFAULT_NAMESPACE rv_C) (CKn 2) = 1%N /\
    plook (c_direct eD') rv_p (shape_name c_SHAPES_DEFAULT_NAMESPACE rv_C) (CKn 2) = 1%N /\
    (* the whole inverse part for properties other than tau is the direct part of the reversed run *)
    filter (fun pe => negb (str_eqb (fst pe) rv_tau)) (c_inverse eD) =
    filter (fun pe => negb (str_eqb (fst pe) rv_tau)) (c_direct eD') /\
    c_inverse eD <> [].
Proof.
  destruct (profile (set_inverse rv_cfg true) rv_Ig rv_G) as [[[P C] ID]|] eqn:HP; vm_compute in HP; [|discriminate HP].
  injection HP as <- <- <-.
  destruct (profile (set_inverse rv_cfg false) rv_Ig (reverse_nonliteral rv_tau rv_G)) as [[[P' C'] ID']|] eqn:HP';
    vm_compute in HP'; [|discriminate HP'].
  injection HP' as <- <- <-.
  do 7 eexists. split; [reflexivity|]. split; [reflexivity|].
  split; [vm_compute; reflexivity|]. split; [vm_compute; reflexivity|].
  vm_compute. repeat split; try reflexivity. discriminate.
Qed.

(** (A3, strong form) outside [tau] the inverse part of a class entry of the
    run on [g] and the direct part of the class entry of the run on the
    reversed graph are EQUAL AS DICTIONARIES: same keys in the same order at
    the three levels (property, type key, cardinality), same numbers.  The
    order matters because the shexing stage iterates over the dictionaries and
    its sorts are stable; it coincides because the reversal keeps the document
    order of the triples. *)
Theorem C14_inverse_is_reverse_entries : forall cfg (I : insts) g ID P1 C0 ID' P1' C0',
  NoDup (dkeys I) -> iri_nodes (p_tau cfg) g ->
  annotate_all (p_tau cfg) true g (adapt I) = inl ID ->
  raw_profile (set_inverse cfg true) I ID = (P1, C0) ->
  annotate_all (p_tau cfg) false (reverse_nonliteral (p_tau cfg) g) (adapt I) = inl ID' ->
  raw_profile (set_inverse cfg false) I ID' = (P1', C0') ->
  forall c e e', dget P1 c = Some e -> dget P1' c = Some e' ->
    filter (fun pe => negb (str_eqb (fst pe) (p_tau cfg))) (c_inverse e) =
    filter (fun pe => negb (str_eqb (fst pe) (p_tau cfg))) (c_direct e').
Proof. exact raw_profile_inverse_is_reverse_eq. Qed.
Print Assumptions C14_inverse_is_reverse_entries.

(** the tracker reads typing triples only: the instance dictionary of the
    reversed graph is that of the graph, so "instances from [g], features from
    the reversed graph" is the plain run on the reversed graph *)
Theorem C14_track_reverse : forall tau m cap g,
  track tau m cap (reverse_nonliteral tau g) = track tau m cap g.
Proof. exact track_reverse. Qed.
Print Assumptions C14_track_reverse.

(** [Run2.run_shapes2] has the shexing stage in the order the code has
    ([Model.RunCur.run_shapes_cur] is [Run.run_shapes] with that stage; the two
    coincide without remove_empty_shapes and wherever Props/ShexStage.v:
    [E2E_class_mode_order_irrelevant] applies) *)
Theorem C14_run_shapes2_reverse : forall fa c (thr : F fa) g,
  Run2.run_shapes2 fa c thr g (reverse_nonliteral (r_tau c) g) =
  RunCur.run_shapes_cur fa c thr (reverse_nonliteral (r_tau c) g).
Proof. exact run_shapes2_reverse. Qed.

(** (A4) statement level, remove_empty_shapes off, [iri_nodes]: when the run
    with inverse paths on [g] and the run without inverse paths that reads the
    instances from [g] and the features from the reversed graph both succeed,
    they produce the same shapes prefix and, shape by shape in the same order,
    the same label, class and instance count, and the INCOMING constraints of
    the first for the properties other than [tau] are EXACTLY the OUTGOING
    constraints of the second for those properties with the direction flag
    set: same order, same keys, cardinalities, figures and comments. *)
Theorem C14_inverse_is_reverse_statements : forall c thr g ns st ns' sr,
  r_remove_empty c = false -> iri_nodes (r_tau c) g ->
  Run2.run_shapes2 BAlg (rwith_inverse true c) thr g g = inl (ns, st) ->
  Run2.run_shapes2 BAlg (rwith_inverse false c) thr g (reverse_nonliteral (r_tau c) g) = inl (ns', sr) ->
  ns' = ns /\
  Forall2 (fun sh_t sh_r =>
    sh_name sh_t = sh_name sh_r /\ sh_class sh_t = sh_class sh_r /\ sh_n sh_t = sh_n sh_r /\
    filter (fun s => s_inv s && negb (str_eqb (s_prop s) (r_tau c))) (sh_stmts sh_t) =
    map set_inv (filter (fun s => negb (str_eqb (s_prop s) (r_tau c))) (sh_stmts sh_r))) st sr.
Proof.
  intros c thr g ns st ns' sr Hre Hg Ht Hr.
  change (r_tau c) with (r_tau (rwith_inverse false c)) in Hr at 1. rewrite run_shapes2_reverse in Hr.
  rewrite (OrderIrrelevant.run_shapes_cur_eq_keep BAlg (rwith_inverse false c) thr _ Hre) in Hr.
  change (Run2.run_shapes2 BAlg (rwith_inverse true c) thr g g)
    with (RunCur.run_shapes_cur BAlg (rwith_inverse true c) thr g) in Ht.
  rewrite (OrderIrrelevant.run_shapes_cur_eq_keep BAlg (rwith_inverse true c) thr g Hre) in Ht.
  exact (run_inverse_is_reverse BAlg c thr g ns st ns' sr order_at_BAlg Hre Hg Ht Hr).
Qed.
Print Assumptions C14_inverse_is_reverse_statements.

(** for any algebra whose [fle] is a total preorder at every class size *)
Theorem C14_inverse_is_reverse_statements_alg : forall fa c (thr : F fa) g ns st ns' sr,
  (forall n, order_at fa n) -> r_remove_empty c = false -> iri_nodes (r_tau c) g ->
  run_shapes fa (rwith_inverse true c) thr g = inl (ns, st) ->
  run_shapes fa (rwith_inverse false c) thr (reverse_nonliteral (r_tau c) g) = inl (ns', sr) ->
  ns' = ns /\ Forall2 (inverse_is_reverse (r_tau c)) st sr.
Proof. exact run_inverse_is_reverse. Qed.
Print Assumptions C14_inverse_is_reverse_statements_alg.

From Shexer Require Import Proofs.EndToEnd.

(** non-vacuity of (A4) on the IRI-only graph [rv_G] above (remove_empty_shapes
    off): both runs succeed, each shape of the run with inverse paths has
    incoming constraints outside [tau], and they are the outgoing constraints
    of the reversed run with the flag set *)
Definition rv_rcfg : rcfg := rwith_inverse true (EndToEnd.with_remove_empty false base_rcfg).

Example C14_inverse_is_reverse_statements_nonvacuous :
  exists ns st sr,
    r_tau rv_rcfg = rv_tau /\
    Run2.run_shapes2 BAlg (rwith_inverse true rv_rcfg) thr0 rv_G rv_G = inl (ns, st) /\
    Run2.run_shapes2 BAlg (rwith_inverse false rv_rcfg) thr0 rv_G (reverse_nonliteral rv_tau rv_G) = inl (ns, sr) /\
    map (fun sh => List.length (filter (fun s => s_inv s && negb (str_eqb (s_prop s) rv_tau)) (sh_stmts sh))) st = [2; 1]%nat /\
    map (fun sh => filter (fun s => s_inv s && negb (str_eqb (s_prop s) rv_tau)) (sh_stmts sh)) st =
    map (fun sh => map set_inv (filter (fun s => negb (str_eqb (s_prop s) rv_tau)) (sh_stmts sh))) sr.
Proof.
  do 3 eexists. split; [vm_compute; reflexivity|]. split; [vm_compute; reflexivity|].
  split; [vm_compute; reflexivity|]. split; vm_compute; reflexivity.
Qed.
