(** * Props/CurTransfer.v -- run-level headline theorems of C04, C05, C09, C13
      restated for the code's CURRENT order of the shexing stage.

    The run-level theorems of Props/C04.v, C05.v, C09.v, C13.v are stated
    about [Run.run_shapes] / [Run.run_shexc], which run the two sub-stages of
    [ClassShexer.shex_classes] in the order the code had before a3b99df
    ("merge, then remove empty shapes").  The functions the correspondence
    check runs against /repo are [RunCur.run_shapes_cur] / [run_shexc_cur],
    which follow the generated flag [Gen.Consts.c_clean_before_merge].  This
    file closes the distance as COMPILED statements (before it only four
    [E2E_cur_*] corollaries in Props/ShexStage.v existed; for the others the
    transfer was "a one-line rewrite" left to the reader): every statement
    below is about [run_shapes_cur] / [run_shexc_cur] and holds for BOTH
    values of the flag.

    Two domains, those of [Props/ShexStage.v: E2E_class_mode_order_irrelevant]:
      _keep   any frequency algebra; [remove_empty_shapes] switched off;
      _valid  binary64 frequencies; [class_iris_ok c g] (no class IRI of the
              document or of the request starts with "%" or "@"), a
              well-formed threshold <= 1 (the Shaper rejects the others),
              fewer than 2^53 triples.
    Outside them the two orders differ ([E2E_order_at_class_order_refuted],
    [E2E_order_at_class_typeerror_refuted]) and nothing is claimed.

    Part of the proof gate of C04, C05, C09 and C13 ([core.EXTRA_PROPS]). *)
From Coq Require Import List Ascii String ZArith NArith Bool Permutation.
From Shexer Require Import Lib.PyStr Lib.Dict Lib.Bin64 Gen.Consts Spec.Rdf Model.Tracker Model.Profiler Model.Tokens
  Model.Freq Model.FreqInst Model.Shexing Model.ShexingFix Model.SerialShexc Model.Run Model.RunCur Spec.ShexcGrammar.
From Shexer Require Import Proofs.Bin64Round Proofs.FreqLaws Proofs.OptionLemmas Proofs.EndToEnd Proofs.EndToEnd2
  Proofs.EndToEnd3 Proofs.ShexKeys Proofs.ShexBasics Proofs.ClosureLemmas Proofs.OrderIrrelevant.
From Shexer Require Proofs.InputLevel Proofs.ClosureLemmas.
Import ListNotations.
Local Open Scope string_scope.

(** ** C04: the run is total on valid input *)

(** Props/C04.v: [C04_run_total] *)
Theorem Cur_C04_run_total_keep : forall fa c (thr : F fa) g,
  r_remove_empty c = false -> valid_input c g = true ->
  exists ns shapes, run_shapes_cur fa c thr g = inl (ns, shapes).
Proof.
  intros fa c thr g Hre H. rewrite (run_shapes_cur_eq_keep fa c thr g Hre). exact (run_total fa c thr g H).
Qed.
Print Assumptions Cur_C04_run_total_keep.

Theorem Cur_C04_run_total_valid : forall c thr g,
  class_iris_ok c g = true -> wf_frac thr -> fle BAlg thr (fone BAlg) = true ->
  (N.of_nat (List.length g) < 2 ^ 53)%N ->
  valid_input c g = true ->
  exists ns shapes, run_shapes_cur BAlg c thr g = inl (ns, shapes).
Proof.
  intros c thr g Hc Hw Hle Hg H. rewrite (run_shapes_cur_eq_valid c thr g Hc Hw Hle Hg). exact (run_total BAlg c thr g H).
Qed.
Print Assumptions Cur_C04_run_total_valid.

(** Props/C04.v: [C04_run_shexc_total] *)
Theorem Cur_C04_run_shexc_total_keep : forall fa c (thr : F fa) g,
  r_remove_empty c = false -> valid_input_text c g = true ->
  exists text, run_shexc_cur fa c thr g = inl text.
Proof.
  intros fa c thr g Hre H. rewrite (run_shexc_cur_eq_keep fa c thr g Hre). exact (run_shexc_total fa c thr g H).
Qed.
Print Assumptions Cur_C04_run_shexc_total_keep.

Theorem Cur_C04_run_shexc_total_valid : forall c thr g,
  class_iris_ok c g = true -> wf_frac thr -> fle BAlg thr (fone BAlg) = true ->
  (N.of_nat (List.length g) < 2 ^ 53)%N ->
  valid_input_text c g = true ->
  exists text, run_shexc_cur BAlg c thr g = inl text.
Proof.
  intros c thr g Hc Hw Hle Hg H. rewrite (run_shexc_cur_eq_valid c thr g Hc Hw Hle Hg). exact (run_shexc_total BAlg c thr g H).
Qed.
Print Assumptions Cur_C04_run_shexc_total_valid.

(** ** C05: closed references, distinct labels, well-formed text *)

(** Props/C05.v: [C05_run_refs_closed] *)
Theorem Cur_C05_run_refs_closed_keep : forall fa c (thr : F fa) g ns shapes,
  r_remove_empty c = false ->
  forallb (sentinel_free (r_tau c)) g = true -> r_shapes_ns c = c_SHAPES_DEFAULT_NAMESPACE ->
  run_shapes_cur fa c thr g = inl (ns, shapes) -> ClosureLemmas.refs_closed shapes.
Proof.
  intros fa c thr g ns shapes Hre Hs Hn H. rewrite (run_shapes_cur_eq_keep fa c thr g Hre) in H.
  exact (InputLevel.run_refs_closed fa c thr g ns shapes Hs Hn H).
Qed.
Print Assumptions Cur_C05_run_refs_closed_keep.

Theorem Cur_C05_run_refs_closed_valid : forall c thr g ns shapes,
  class_iris_ok c g = true -> wf_frac thr -> fle BAlg thr (fone BAlg) = true ->
  (N.of_nat (List.length g) < 2 ^ 53)%N ->
  forallb (sentinel_free (r_tau c)) g = true -> r_shapes_ns c = c_SHAPES_DEFAULT_NAMESPACE ->
  run_shapes_cur BAlg c thr g = inl (ns, shapes) -> ClosureLemmas.refs_closed shapes.
Proof.
  intros c thr g ns shapes Hc Hw Hle Hg Hs Hn H. rewrite (run_shapes_cur_eq_valid c thr g Hc Hw Hle Hg) in H.
  exact (InputLevel.run_refs_closed BAlg c thr g ns shapes Hs Hn H).
Qed.
Print Assumptions Cur_C05_run_refs_closed_valid.

(** Props/C05.v: [C05_run_labels_distinct] *)
Theorem Cur_C05_run_labels_distinct_keep : forall fa c (thr : F fa) g ns shapes,
  r_remove_empty c = false ->
  NoDup (map (shape_name (r_shapes_ns c)) (InputLevel.input_classes c g)) ->
  run_shapes_cur fa c thr g = inl (ns, shapes) -> NoDup (map sh_name shapes).
Proof.
  intros fa c thr g ns shapes Hre Hn H. rewrite (run_shapes_cur_eq_keep fa c thr g Hre) in H.
  exact (InputLevel.run_labels_NoDup fa c thr g ns shapes Hn H).
Qed.
Print Assumptions Cur_C05_run_labels_distinct_keep.

Theorem Cur_C05_run_labels_distinct_valid : forall c thr g ns shapes,
  class_iris_ok c g = true -> wf_frac thr -> fle BAlg thr (fone BAlg) = true ->
  (N.of_nat (List.length g) < 2 ^ 53)%N ->
  NoDup (map (shape_name (r_shapes_ns c)) (InputLevel.input_classes c g)) ->
  run_shapes_cur BAlg c thr g = inl (ns, shapes) -> NoDup (map sh_name shapes).
Proof.
  intros c thr g ns shapes Hc Hw Hle Hg Hn H. rewrite (run_shapes_cur_eq_valid c thr g Hc Hw Hle Hg) in H.
  exact (InputLevel.run_labels_NoDup BAlg c thr g ns shapes Hn H).
Qed.
Print Assumptions Cur_C05_run_labels_distinct_valid.

(** Props/C05.v: [C05_run_wellformed] (the headline) *)
Theorem Cur_C05_run_wellformed_keep : forall fa c (thr : F fa) g,
  r_remove_empty c = false -> InputLevel.c05_input_ok c g = true ->
  exists text, run_shexc_cur fa c thr g = inl text /\ recognise text = true /\ wellformed_closed text = true.
Proof.
  intros fa c thr g Hre H. rewrite (run_shexc_cur_eq_keep fa c thr g Hre). exact (InputLevel.run_wellformed fa c thr g H).
Qed.
Print Assumptions Cur_C05_run_wellformed_keep.

Theorem Cur_C05_run_wellformed_valid : forall c thr g,
  class_iris_ok c g = true -> wf_frac thr -> fle BAlg thr (fone BAlg) = true ->
  (N.of_nat (List.length g) < 2 ^ 53)%N ->
  InputLevel.c05_input_ok c g = true ->
  exists text, run_shexc_cur BAlg c thr g = inl text /\ recognise text = true /\ wellformed_closed text = true.
Proof.
  intros c thr g Hc Hw Hle Hg H. rewrite (run_shexc_cur_eq_valid c thr g Hc Hw Hle Hg).
  exact (InputLevel.run_wellformed BAlg c thr g H).
Qed.
Print Assumptions Cur_C05_run_wellformed_valid.

(** ** C09: statement order and blank-node labels (both theorems already
    assume [remove_empty_shapes] off: no further domain) *)

(** Props/C09.v: [C09_keys_permutation_invariant] *)
Theorem Cur_C09_keys_permutation_invariant : forall fa c (thr : F fa) (g g' : graph) ns shapes ns' shapes',
  (r_cap c <= 0)%Z -> r_remove_empty c = false -> Permutation g g' ->
  run_shapes_cur fa c thr g = inl (ns, shapes) -> run_shapes_cur fa c thr g' = inl (ns', shapes') ->
  ns' = ns /\
  (forall cls, In cls (map sh_class shapes) <-> In cls (map sh_class shapes')) /\
  forall sh sh', In sh shapes -> In sh' shapes' -> sh_class sh = sh_class sh' ->
    sh_name sh = sh_name sh' /\ sh_n sh = sh_n sh' /\
    forall key, In key (map (skey (scfg_of c ns)) (sh_stmts sh)) <->
                In key (map (skey (scfg_of c ns)) (sh_stmts sh')).
Proof.
  intros fa c thr g g' ns shapes ns' shapes' Hcap Hre HP H H'.
  rewrite (run_shapes_cur_eq_keep fa c thr g Hre) in H. rewrite (run_shapes_cur_eq_keep fa c thr g' Hre) in H'.
  exact (e2e_keys_perm fa c thr g g' ns shapes ns' shapes' Hcap Hre HP H H').
Qed.
Print Assumptions Cur_C09_keys_permutation_invariant.

(** Props/C09.v: [C09_keys_rename_invariant] *)
Theorem Cur_C09_keys_rename_invariant : forall fa sg c (thr : F fa) g ns shapes ns' shapes',
  bn_renaming sg -> rename_dom (r_tau c) g = true -> r_remove_empty c = false ->
  run_shapes_cur fa c thr g = inl (ns, shapes) ->
  run_shapes_cur fa c thr (rename_graph sg g) = inl (ns', shapes') ->
  ns' = ns /\
  map sh_class shapes' = map sh_class shapes /\
  forall sh sh', In sh shapes -> In sh' shapes' -> sh_class sh = sh_class sh' ->
    sh_name sh = sh_name sh' /\ sh_n sh = sh_n sh' /\
    (forall inv p vc, In (inv, p, vc) (map (skey (scfg_of c ns)) (sh_stmts sh)) <->
                      In (inv, p, rvc sg (r_tau c) p vc) (map (skey (scfg_of c ns)) (sh_stmts sh'))) /\
    (forall inv p vc', In (inv, p, vc') (map (skey (scfg_of c ns)) (sh_stmts sh')) ->
                       exists vc, vc' = rvc sg (r_tau c) p vc).
Proof.
  intros fa sg c thr g ns shapes ns' shapes' Hsg Hg Hre H H'.
  rewrite (run_shapes_cur_eq_keep fa c thr g Hre) in H.
  rewrite (run_shapes_cur_eq_keep fa c thr (rename_graph sg g) Hre) in H'.
  exact (e2e_keys_rename fa sg c thr g ns shapes ns' shapes' Hsg Hg Hre H H').
Qed.
Print Assumptions Cur_C09_keys_rename_invariant.

(** ** C13: each option changes only what it documents.  The domain predicates
    read [r_tau], [r_targets] and [r_remove_empty] only, which none of the
    option setters below touches: the hypothesis is stated once, for [c]. *)

(** Props/C13.v: [C13_instances_report_mode] *)
Theorem Cur_C13_instances_report_mode_keep : forall fa m c (thr : F fa) g,
  r_remove_empty c = false ->
  run_shapes_cur fa (with_mode m c) thr g = run_shapes_cur fa c thr g.
Proof.
  intros fa m c thr g Hre.
  rewrite (run_shapes_cur_eq_keep fa (with_mode m c) thr g Hre), (run_shapes_cur_eq_keep fa c thr g Hre).
  exact (O6_mode fa m c thr g).
Qed.
Print Assumptions Cur_C13_instances_report_mode_keep.

Theorem Cur_C13_instances_report_mode_valid : forall m c thr g,
  class_iris_ok c g = true -> wf_frac thr -> fle BAlg thr (fone BAlg) = true ->
  (N.of_nat (List.length g) < 2 ^ 53)%N ->
  run_shapes_cur BAlg (with_mode m c) thr g = run_shapes_cur BAlg c thr g.
Proof.
  intros m c thr g Hc Hw Hle Hg.
  rewrite (run_shapes_cur_eq_valid (with_mode m c) thr g Hc Hw Hle Hg), (run_shapes_cur_eq_valid c thr g Hc Hw Hle Hg).
  exact (O6_mode BAlg m c thr g).
Qed.
Print Assumptions Cur_C13_instances_report_mode_valid.

(** Props/C13.v: [C13_run_disable_comments] *)
Theorem Cur_C13_run_disable_comments_keep : forall fa c (thr : F fa) g,
  r_remove_empty c = false ->
  run_shapes_cur fa (rwith_disable_comments true c) thr g =
  map_res (fun x : nsdict * list shape => let '(ns, l) := x in (ns, map_shapes drop_comments l))
          (run_shapes_cur fa (rwith_disable_comments false c) thr g).
Proof.
  intros fa c thr g Hre.
  rewrite (run_shapes_cur_eq_keep fa (rwith_disable_comments true c) thr g Hre),
          (run_shapes_cur_eq_keep fa (rwith_disable_comments false c) thr g Hre).
  exact (run_disable_comments fa c thr g).
Qed.
Print Assumptions Cur_C13_run_disable_comments_keep.

Theorem Cur_C13_run_disable_comments_valid : forall c thr g,
  class_iris_ok c g = true -> wf_frac thr -> fle BAlg thr (fone BAlg) = true ->
  (N.of_nat (List.length g) < 2 ^ 53)%N ->
  run_shapes_cur BAlg (rwith_disable_comments true c) thr g =
  map_res (fun x : nsdict * list shape => let '(ns, l) := x in (ns, map_shapes drop_comments l))
          (run_shapes_cur BAlg (rwith_disable_comments false c) thr g).
Proof.
  intros c thr g Hc Hw Hle Hg.
  rewrite (run_shapes_cur_eq_valid (rwith_disable_comments true c) thr g Hc Hw Hle Hg),
          (run_shapes_cur_eq_valid (rwith_disable_comments false c) thr g Hc Hw Hle Hg).
  exact (run_disable_comments BAlg c thr g).
Qed.
Print Assumptions Cur_C13_run_disable_comments_valid.

(** Props/C13.v: [C13_run_allow_opt_cardinality] *)
Theorem Cur_C13_run_allow_opt_cardinality_keep : forall fa c (thr : F fa) g,
  r_remove_empty c = false ->
  run_shapes_cur fa (rwith_allow_opt false c) thr g =
  map_res (fun x : nsdict * list shape => let '(ns, l) := x in (ns, map_shapes opt_to_star l))
          (run_shapes_cur fa (rwith_allow_opt true c) thr g).
Proof.
  intros fa c thr g Hre.
  rewrite (run_shapes_cur_eq_keep fa (rwith_allow_opt false c) thr g Hre),
          (run_shapes_cur_eq_keep fa (rwith_allow_opt true c) thr g Hre).
  exact (run_allow_opt fa c thr g).
Qed.
Print Assumptions Cur_C13_run_allow_opt_cardinality_keep.

Theorem Cur_C13_run_allow_opt_cardinality_valid : forall c thr g,
  class_iris_ok c g = true -> wf_frac thr -> fle BAlg thr (fone BAlg) = true ->
  (N.of_nat (List.length g) < 2 ^ 53)%N ->
  run_shapes_cur BAlg (rwith_allow_opt false c) thr g =
  map_res (fun x : nsdict * list shape => let '(ns, l) := x in (ns, map_shapes opt_to_star l))
          (run_shapes_cur BAlg (rwith_allow_opt true c) thr g).
Proof.
  intros c thr g Hc Hw Hle Hg.
  rewrite (run_shapes_cur_eq_valid (rwith_allow_opt false c) thr g Hc Hw Hle Hg),
          (run_shapes_cur_eq_valid (rwith_allow_opt true c) thr g Hc Hw Hle Hg).
  exact (run_allow_opt BAlg c thr g).
Qed.
Print Assumptions Cur_C13_run_allow_opt_cardinality_valid.

(** Props/C13.v: [C13_run_disable_exact_cardinality] *)
Theorem Cur_C13_run_disable_exact_cardinality_keep : forall fa c (thr : F fa) g,
  r_remove_empty c = false ->
  run_shapes_cur fa (rwith_disable_exact true c) thr g =
  map_res (fun x : nsdict * list shape => let '(ns, l) := x in (ns, map_shapes generalize_exact l))
          (run_shapes_cur fa (rwith_disable_exact false c) thr g).
Proof.
  intros fa c thr g Hre.
  rewrite (run_shapes_cur_eq_keep fa (rwith_disable_exact true c) thr g Hre),
          (run_shapes_cur_eq_keep fa (rwith_disable_exact false c) thr g Hre).
  exact (run_disable_exact fa c thr g).
Qed.
Print Assumptions Cur_C13_run_disable_exact_cardinality_keep.

Theorem Cur_C13_run_disable_exact_cardinality_valid : forall c thr g,
  class_iris_ok c g = true -> wf_frac thr -> fle BAlg thr (fone BAlg) = true ->
  (N.of_nat (List.length g) < 2 ^ 53)%N ->
  run_shapes_cur BAlg (rwith_disable_exact true c) thr g =
  map_res (fun x : nsdict * list shape => let '(ns, l) := x in (ns, map_shapes generalize_exact l))
          (run_shapes_cur BAlg (rwith_disable_exact false c) thr g).
Proof.
  intros c thr g Hc Hw Hle Hg.
  rewrite (run_shapes_cur_eq_valid (rwith_disable_exact true c) thr g Hc Hw Hle Hg),
          (run_shapes_cur_eq_valid (rwith_disable_exact false c) thr g Hc Hw Hle Hg).
  exact (run_disable_exact BAlg c thr g).
Qed.
Print Assumptions Cur_C13_run_disable_exact_cardinality_valid.

(** Props/C13.v: [C13_run_all_compliant] (on its domain [rO4_dom c]) *)
Theorem Cur_C13_run_all_compliant_keep : forall fa c (thr : F fa) g ns L1,
  r_remove_empty c = false -> rO4_dom c ->
  run_shapes_cur fa (rwith_all_compliant true c) thr g = inl (ns, L1) ->
  exists L0, run_shapes_cur fa (rwith_all_compliant false c) thr g = inl (ns, L0) /\
             map_err (relax_shape fa (scfg_of c ns)) L0 = inl L1.
Proof.
  intros fa c thr g ns L1 Hre Hd H.
  rewrite (run_shapes_cur_eq_keep fa (rwith_all_compliant true c) thr g Hre) in H.
  rewrite (run_shapes_cur_eq_keep fa (rwith_all_compliant false c) thr g Hre).
  exact (run_all_compliant fa c thr g ns L1 Hd H).
Qed.
Print Assumptions Cur_C13_run_all_compliant_keep.

Theorem Cur_C13_run_all_compliant_valid : forall c thr g ns L1,
  class_iris_ok c g = true -> wf_frac thr -> fle BAlg thr (fone BAlg) = true ->
  (N.of_nat (List.length g) < 2 ^ 53)%N ->
  rO4_dom c ->
  run_shapes_cur BAlg (rwith_all_compliant true c) thr g = inl (ns, L1) ->
  exists L0, run_shapes_cur BAlg (rwith_all_compliant false c) thr g = inl (ns, L0) /\
             map_err (relax_shape BAlg (scfg_of c ns)) L0 = inl L1.
Proof.
  intros c thr g ns L1 Hc Hw Hle Hg Hd H.
  rewrite (run_shapes_cur_eq_valid (rwith_all_compliant true c) thr g Hc Hw Hle Hg) in H.
  rewrite (run_shapes_cur_eq_valid (rwith_all_compliant false c) thr g Hc Hw Hle Hg).
  exact (run_all_compliant BAlg c thr g ns L1 Hd H).
Qed.
Print Assumptions Cur_C13_run_all_compliant_valid.

(** ** Non-vacuity: the [_valid] domain and [valid_input] hold on a witness
    graph of Proofs/RunWitness.v with [remove_empty_shapes] ON, and the run
    in the code's order succeeds there. *)
From Shexer Require Import Proofs.RunWitness.

Example Cur_transfer_nonvacuous :
  class_iris_ok base_rcfg g_mixed = true /\ valid_input base_rcfg g_mixed = true /\
  wf_frac (b_ratio 0 1) /\ fle BAlg (b_ratio 0 1) (fone BAlg) = true /\
  (N.of_nat (List.length g_mixed) < 2 ^ 53)%N /\
  exists ns shapes, run_shapes_cur BAlg base_rcfg (b_ratio 0 1) g_mixed = inl (ns, shapes) /\ shapes <> [].
Proof.
  split; [vm_compute; reflexivity|]. split; [vm_compute; reflexivity|].
  split; [apply wf_fracb_spec; vm_compute; reflexivity|]. split; [vm_compute; reflexivity|].
  split; [vm_compute; reflexivity|].
  destruct (run_shapes_cur BAlg base_rcfg (b_ratio 0 1) g_mixed) as [[ns shapes]|e] eqn:E;
    vm_compute in E; [|discriminate E].
  exists ns, shapes. split; [reflexivity|]. injection E as <- <-. discriminate.
Qed.
