(** * C09 -- shapes do not depend on statement order (or blank-node labels).

    Statements only; proofs in Proofs/EndToEnd.v (composition of P1,
    Proofs/ProfileChar.v, with the shexing-stage theorems, Proofs/ShexKeys.v).

    What the two halves give, for [Permutation g g'] (the same statements in
    another order):
    (a) [C09_counts_permutation_invariant]: for a FIXED instance dictionary
        the declarative counts [cnt], [occ], [class_count] agree;
    (b) [C09_tracker_permutation]: without instance cap ([cap <= 0]) the
        tracker succeeds on [g'] iff on [g], and yields an EQUIVALENT
        dictionary ([insts_equiv]: unique keys, the same instances, per
        instance the same classes up to order) -- not the same one: key order
        and class order follow the document; [C09_occ_insts_equiv] /
        [C09_class_count_insts_equiv]: the counts depend on the dictionary
        only up to that equivalence; [C09_counts_tracked]: hence every [occ]
        and [class_count] of the run on [g'] is that of the run on [g];
    (c) [C09_profile_permutation_invariant]: tracker and profiler succeed on
        one order iff on the other, same class keys (as a set), class counts
        and the same number under every lookup of the class profile;
        [C09_keys_permutation_invariant]: two successful runs (no cap, empty
        shapes kept) have the same shape classes and, class by class, the
        same name, header count and SET of keys (C02's [skey]: direction,
        property, value class).  With C01 (Props/C01.v) every figure printed
        by either run is an [occ] of the same data: no run reports a
        different number for the same fact.
    (d) What is NOT invariant -- which alternative is chosen under a tie:
        [C09_reference_tie_refuted] (finding C09-F1),
        [C09_cardinality_tie_refuted] (finding C09-F2).

    Not covered: runs with an instance cap (the capped tracker keeps the first
    [cap] instances per class in document order: genuinely order-dependent);
    [remove_empty = true] (key sets then also depend on which shapes are
    deleted; soundness is [C02_keys_remove_e2e]); invariance of the chosen
    constraints under [no_tie] (DESIGN.md section 7, C09 (b)); blank-node
    relabelling ([C09_rename_counts] is NOT stated: class keys can be blank
    nodes, shape labels are computed from identifiers, and QUIRK Q3 of
    Spec/Counts.v compares identifiers with the strings "IRI"/"BNode", so a
    renaming commutes with the counts only under side conditions that need
    their own development). *)
From Coq Require Import List Ascii String ZArith NArith Bool Permutation.
From Shexer Require Import Lib.PyStr Lib.Dict Lib.Bin64 Gen.Consts Spec.Rdf Model.Tracker Model.Profiler Model.Tokens
  Model.Freq Model.FreqInst Model.Shexing Model.Run Spec.Counts Proofs.DictLemmas Proofs.ProfileChar
  Proofs.ShexLemmas Proofs.ShexKeys Proofs.RunWitness Proofs.EndToEnd.
Import ListNotations.
Local Open Scope N_scope.

(** ** (a) fixed dictionary *)
Theorem C09_counts_permutation_invariant : forall dir tau (I : insts) (g g' : graph),
  Permutation g g' ->
  (forall i p k, cnt dir tau I g i p k = cnt dir tau I g' i p k) /\
  (forall cls p k card, occ dir tau I g cls p k card = occ dir tau I g' cls p k card).
Proof.
  intros dir tau I g g' HP. split; [intros; apply cnt_perm | intros; apply occ_perm]; exact HP.
Qed.
Print Assumptions C09_counts_permutation_invariant.

(** ** (b) the tracker *)

(** [insts_equiv], so that it can be read here *)
Theorem C09_insts_equiv_unfold : forall I I' : insts,
  insts_equiv I I' <->
  NoDup (dkeys I) /\ NoDup (dkeys I') /\
  (forall i, dmem I i = dmem I' i) /\
  (forall i, Permutation (classes_of I i) (classes_of I' i)).
Proof. intros. reflexivity. Qed.

Theorem C09_tracker_permutation : forall tau m cap (g g' : graph) (I : insts),
  (cap <= 0)%Z -> Permutation g g' -> track tau m cap g = inl I ->
  exists I', track tau m cap g' = inl I' /\ insts_equiv I I'.
Proof. exact track_perm. Qed.
Print Assumptions C09_tracker_permutation.

(** the uncapped tracker as a set: the classes of instance [i] are the
    objects of the relevant triples about [i], in document order; [i] is an
    instance iff there is one *)
Theorem C09_tracker_char : forall tau m (g : graph) (I : insts),
  track_plain tau m g [] = inl I ->
  (forall i, classes_of I i = map objid (filter (about tau m i) g)) /\
  (forall i, dmem I i = existsb (about tau m i) g).
Proof.
  intros tau m g I H. destruct (track_plain_char tau m g [] I H) as [A B]. split; intros i; [apply A | apply B].
Qed.
Print Assumptions C09_tracker_char.

Theorem C09_class_count_insts_equiv : forall (I I' : insts) cls,
  insts_equiv I I' -> class_count I cls = class_count I' cls.
Proof. exact class_count_insts_equiv. Qed.
Print Assumptions C09_class_count_insts_equiv.

Theorem C09_occ_insts_equiv : forall dir tau (I I' : insts) (G : graph) cls p k card,
  insts_equiv I I' -> occ dir tau I G cls p k card = occ dir tau I' G cls p k card.
Proof. exact occ_insts_equiv. Qed.
Print Assumptions C09_occ_insts_equiv.

Theorem C09_counts_tracked : forall tau m cap (g g' : graph) (I : insts),
  (cap <= 0)%Z -> Permutation g g' -> track tau m cap g = inl I ->
  exists I', track tau m cap g' = inl I' /\ insts_equiv I I' /\
    (forall cls, class_count I' cls = class_count I cls) /\
    (forall dir cls p k card, occ dir tau I' g' cls p k card = occ dir tau I g cls p k card).
Proof. exact counts_track_perm. Qed.
Print Assumptions C09_counts_tracked.

(** ** (c) the profile and the keys of the shapes *)
Theorem C09_profile_permutation_invariant : forall c (g g' : graph) (I : insts) P C ID,
  (r_cap c <= 0)%Z -> r_remove_empty c = false -> Permutation g g' ->
  track (r_tau c) (mode_of c) (r_cap c) g = inl I ->
  profile (pcfg_of c) I g = inl (P, C, ID) ->
  exists I' P' C' ID',
    track (r_tau c) (mode_of c) (r_cap c) g' = inl I' /\ insts_equiv I I' /\
    profile (pcfg_of c) I' g' = inl (P', C', ID') /\
    (forall cls, In cls (dkeys P) <-> In cls (dkeys P')) /\
    (forall cls, cnt_of C cls = cnt_of C' cls) /\
    forall cls e e', dget P cls = Some e -> dget P' cls = Some e' ->
      forall p k card,
        plook (c_direct e) p k card = plook (c_direct e') p k card /\
        plook (c_inverse e) p k card = plook (c_inverse e') p k card.
Proof. exact e2e_profile_perm. Qed.
Print Assumptions C09_profile_permutation_invariant.

Theorem C09_keys_permutation_invariant : forall fa c (thr : F fa) (g g' : graph) ns shapes ns' shapes',
  (r_cap c <= 0)%Z -> r_remove_empty c = false -> Permutation g g' ->
  run_shapes fa c thr g = inl (ns, shapes) -> run_shapes fa c thr g' = inl (ns', shapes') ->
  ns' = ns /\
  (forall cls, In cls (map sh_class shapes) <-> In cls (map sh_class shapes')) /\
  forall sh sh', In sh shapes -> In sh' shapes' -> sh_class sh = sh_class sh' ->
    sh_name sh = sh_name sh' /\ sh_n sh = sh_n sh' /\
    forall key, In key (map (skey (scfg_of c ns)) (sh_stmts sh)) <->
                In key (map (skey (scfg_of c ns)) (sh_stmts sh')).
Proof. exact e2e_keys_perm. Qed.
Print Assumptions C09_keys_permutation_invariant.

(** ** non-vacuity: the two orders of the reference-tie graph
    (s : C; o : C1, C2 / o : C2, C1; s p o) *)
Example C09_reftie_is_permutation : Permutation g_reftie_1 g_reftie_2.
Proof. unfold g_reftie_1, g_reftie_2. apply perm_skip. apply perm_swap. Qed.

(** the dictionaries differ (class order), and are equivalent *)
Example C09_tracker_nonvacuous :
  track tau TAll (-1) g_reftie_1 = inl [(ex "s", [ex "C"]); (ex "o", [ex "C1"; ex "C2"])] /\
  track tau TAll (-1) g_reftie_2 = inl [(ex "s", [ex "C"]); (ex "o", [ex "C2"; ex "C1"])] /\
  insts_equiv [(ex "s", [ex "C"]); (ex "o", [ex "C1"; ex "C2"])] [(ex "s", [ex "C"]); (ex "o", [ex "C2"; ex "C1"])].
Proof.
  split; [vm_compute; reflexivity|]. split; [vm_compute; reflexivity|].
  assert (Hc : (-1 <= 0)%Z) by (intros H; discriminate H).
  destruct (track_perm tau TAll (-1) g_reftie_1 g_reftie_2 _ Hc C09_reftie_is_permutation eq_refl)
    as (I' & HT & He).
  vm_compute in HT. injection HT as <-. exact He.
Qed.

(** the two runs (empty shapes kept): same classes up to order, same header
    counts, the same keys up to order *)
Example C09_keys_nonvacuous :
  keys_of_run BAlg (with_remove_empty false (with_discard false base_rcfg)) thr0 g_reftie_1 =
    Some [ (ex "C", 1, [(false, tau, VClass (ex "C")); (false, ex "p", VNonLit)]);
           (ex "C1", 1, [(false, tau, VClass (ex "C1")); (false, tau, VClass (ex "C2"))]);
           (ex "C2", 1, [(false, tau, VClass (ex "C1")); (false, tau, VClass (ex "C2"))]) ] /\
  keys_of_run BAlg (with_remove_empty false (with_discard false base_rcfg)) thr0 g_reftie_2 =
    Some [ (ex "C", 1, [(false, tau, VClass (ex "C")); (false, ex "p", VNonLit)]);
           (ex "C2", 1, [(false, tau, VClass (ex "C2")); (false, tau, VClass (ex "C1"))]);
           (ex "C1", 1, [(false, tau, VClass (ex "C2")); (false, tau, VClass (ex "C1"))]) ].
Proof. split; vm_compute; reflexivity. Qed.

(** ** (d) what is false: the choice among tied alternatives *)

(** C09-F1: two references tied in count (the value is typed with C1 and
    C2): the winner and the reported facts follow the order of the typing
    triples *)
Lemma C09_reference_tie_refuted :
  Permutation g_reftie_1 g_reftie_2 /\
  exists f1 f2,
    option_map figures (stmts_of (with_discard false base_rcfg) thr0 g_reftie_1 (ex "C")) = Some f1 /\
    option_map figures (stmts_of (with_discard false base_rcfg) thr0 g_reftie_2 (ex "C")) = Some f2 /\
    f1 <> f2 /\
    (* a fact reported by the first run only: (p, @:C1, {1}, 1) *)
    (exists x, In x f1 /\ ~ In x f2).
Proof.
  split; [exact C09_reftie_is_permutation|].
  eexists. eexists. split; [vm_compute; reflexivity|]. split; [vm_compute; reflexivity|]. split.
  - intros H. discriminate H.
  - eexists. split; [right; right; left; reflexivity|].
    intros H. repeat (destruct H as [H|H]; [discriminate H|]). exact H.
Qed.

(** C09-F2: exact cardinalities tied ({1} on one instance, {2} on the other),
    keep_less_specific = false: '?' in one order, '*' in the other *)
Example C09_cardtie_is_permutation : Permutation g_cardtie_1 g_cardtie_2.
Proof.
  unfold g_cardtie_1, g_cardtie_2.
  eapply Permutation_trans; [apply perm_swap|]. apply perm_skip. apply perm_skip.
  (* [x_s; x_t; y_t] ~ [x_t; y_t; x_s] *)
  apply Permutation_sym. eapply Permutation_trans; [|apply Permutation_sym, Permutation_cons_append].
  apply Permutation_refl.
Qed.

Lemma C09_cardinality_tie_refuted :
  Permutation g_cardtie_1 g_cardtie_2 /\
  option_map (map s_card) (stmts_of (with_kls false base_rcfg) thr0 g_cardtie_1 (ex "C")) = Some [CExact 1; COpt] /\
  option_map (map s_card) (stmts_of (with_kls false base_rcfg) thr0 g_cardtie_2 (ex "C")) = Some [CExact 1; CStar].
Proof. split; [exact C09_cardtie_is_permutation|]. split; vm_compute; reflexivity. Qed.
