(** * C09 -- shapes do not depend on statement order (or blank-node labels).

    Statements only; proofs in Proofs/EndToEnd.v (composition of P1,
    Proofs/ProfileChar.v, with the shexing-stage theorems, Proofs/ShexKeys.v).

    What the two halves give, for [Permutation g g'] (the same statements in
    another order):
    (a) [C09_counts_permutation_invariant]: for a FIXED instance dictionary
        the declarative counts [cnt], [occ], [class_count] agree;
    (b) [C09_tracker_permutation]: without instance cap ([cap <= 0]) the
        tracker succeeds on [g'] iff on [g], and yields an EQUIVALENT
        dictionary ([insts_equiv]: unique keys, the same instances, per
        instance the same classes up to order) -- not the same one: key order
        and class order follow the document; [C09_occ_insts_equiv] /
        [C09_class_count_insts_equiv]: the counts depend on the dictionary
        only up to that equivalence; [C09_counts_tracked]: hence every [occ]
        and [class_count] of the run on [g'] is that of the run on [g];
    (c) [C09_profile_permutation_invariant]: tracker and profiler succeed on
        one order iff on the other, same class keys (as a set), class counts
        and the same number under every lookup of the class profile;
        [C09_keys_permutation_invariant]: two successful runs (no cap, empty
        shapes kept) have the same shape classes and, class by class, the
        same name, header count and SET of keys (C02's [skey]: direction,
        property, value class).  With C01 (Props/C01.v) every figure printed
        by either run is an [occ] of the same data: no run reports a
        different number for the same fact.
    (d) What is NOT invariant -- which alternative is chosen under a tie:
        [C09_reference_tie_refuted] (finding C09-F1),
        [C09_cardinality_tie_refuted] (finding C09-F2).

    (c') [C09_keys_permutation_invariant_valid]: (c) with no hypothesis on the
        outcomes under [valid_input]; [C09_keys_permutation_invariant_any]:
        (c) for any setting of remove_empty_shapes (binary64, thresholds <= 1).
    (e) blank-node relabelling: [C09_track_rename], [C09_rename_counts],
        [C09_profile_rename_invariant], [C09_keys_rename_invariant] under the
        side conditions [rename_dom] (identifiers marked, no blank-node class);
        [C09_rename_bnode_class_refuted] shows the second one is needed;
        [C09_rename_stem_refuted] (finding C09-F3): with detect_minimal_iri the
        stem of a shape whose instances are blank nodes is cut out of their labels
        -- on the source without the first test of _determine_suitable_iri_pattern
        ([c_min_iri_skips_bnode_prefix = false]); with it the stem is invariant:
        [C09_stem_rename_invariant], [C09_class_stem_rename_invariant],
        [C09_printed_stem_rename_invariant].

    Not covered: runs with an instance cap under permutation (the capped
    tracker keeps the first [cap] instances per class in document order:
    genuinely order-dependent); [remove_empty = true] for thresholds > 1;
    invariance of the chosen constraints under [no_tie] (DESIGN.md section 7,
    C09 (b)); relabelling of graphs with blank-node classes. *)
From Coq Require Import List Ascii String ZArith NArith Bool Permutation.
From Shexer Require Import Lib.PyStr Lib.Dict Lib.Bin64 Gen.Consts Spec.Rdf Model.Tracker Model.Profiler Model.Tokens
  Model.Freq Model.FreqInst Model.Shexing Model.Run Spec.Counts Proofs.DictLemmas Proofs.ProfileChar
  Proofs.ShexLemmas Proofs.ShexKeys Proofs.RunWitness Proofs.EndToEnd.
Import ListNotations.
Local Open Scope N_scope.

(** ** (a) fixed dictionary *)
Theorem C09_counts_permutation_invariant : forall dir tau (I : insts) (g g' : graph),
  Permutation g g' ->
  (forall i p k, cnt dir tau I g i p k = cnt dir tau I g' i p k) /\
  (forall cls p k card, occ dir tau I g cls p k card = occ dir tau I g' cls p k card).
Proof.
  intros dir tau I g g' HP. split; [intros; apply cnt_perm | intros; apply occ_perm]; exact HP.
Qed.
Print Assumptions C09_counts_permutation_invariant.

(** ** (b) the tracker *)

(** [insts_equiv], so that it can be read here *)
Theorem C09_insts_equiv_unfold : forall I I' : insts,
  insts_equiv I I' <->
  NoDup (dkeys I) /\ NoDup (dkeys I') /\
  (forall i, dmem I i = dmem I' i) /\
  (forall i, Permutation (classes_of I i) (classes_of I' i)).
Proof. intros. reflexivity. Qed.

Theorem C09_tracker_permutation : forall tau m cap (g g' : graph) (I : insts),
  (cap <= 0)%Z -> Permutation g g' -> track tau m cap g = inl I ->
  exists I', track tau m cap g' = inl I' /\ insts_equiv I I'.
Proof. exact track_perm. Qed.
Print Assumptions C09_tracker_permutation.

(** the uncapped tracker as a set: the classes of instance [i] are the
    objects of the relevant triples about [i], in document order; [i] is an
    instance iff there is one *)
Theorem C09_tracker_char : forall tau m (g : graph) (I : insts),
  track_plain tau m g [] = inl I ->
  (forall i, classes_of I i = map objid (filter (about tau m i) g)) /\
  (forall i, dmem I i = existsb (about tau m i) g).
Proof.
  intros tau m g I H. destruct (track_plain_char tau m g [] I H) as [A B]. split; intros i; [apply A | apply B].
Qed.
Print Assumptions C09_tracker_char.

Theorem C09_class_count_insts_equiv : forall (I I' : insts) cls,
  insts_equiv I I' -> class_count I cls = class_count I' cls.
Proof. exact class_count_insts_equiv. Qed.
Print Assumptions C09_class_count_insts_equiv.

Theorem C09_occ_insts_equiv : forall dir tau (I I' : insts) (G : graph) cls p k card,
  insts_equiv I I' -> occ dir tau I G cls p k card = occ dir tau I' G cls p k card.
Proof. exact occ_insts_equiv. Qed.
Print Assumptions C09_occ_insts_equiv.

Theorem C09_counts_tracked : forall tau m cap (g g' : graph) (I : insts),
  (cap <= 0)%Z -> Permutation g g' -> track tau m cap g = inl I ->
  exists I', track tau m cap g' = inl I' /\ insts_equiv I I' /\
    (forall cls, class_count I' cls = class_count I cls) /\
    (forall dir cls p k card, occ dir tau I' g' cls p k card = occ dir tau I g cls p k card).
Proof. exact counts_track_perm. Qed.
Print Assumptions C09_counts_tracked.

(** ** (c) the profile and the keys of the shapes *)
Theorem C09_profile_permutation_invariant : forall c (g g' : graph) (I : insts) P C ID,
  (r_cap c <= 0)%Z -> r_remove_empty c = false -> Permutation g g' ->
  track (r_tau c) (mode_of c) (r_cap c) g = inl I ->
  profile (pcfg_of c) I g = inl (P, C, ID) ->
  exists I' P' C' ID',
    track (r_tau c) (mode_of c) (r_cap c) g' = inl I' /\ insts_equiv I I' /\
    profile (pcfg_of c) I' g' = inl (P', C', ID') /\
    (forall cls, In cls (dkeys P) <-> In cls (dkeys P')) /\
    (forall cls, cnt_of C cls = cnt_of C' cls) /\
    forall cls e e', dget P cls = Some e -> dget P' cls = Some e' ->
      forall p k card,
        plook (c_direct e) p k card = plook (c_direct e') p k card /\
        plook (c_inverse e) p k card = plook (c_inverse e') p k card.
Proof. exact e2e_profile_perm. Qed.
Print Assumptions C09_profile_permutation_invariant.

Theorem C09_keys_permutation_invariant : forall fa c (thr : F fa) (g g' : graph) ns shapes ns' shapes',
  (r_cap c <= 0)%Z -> r_remove_empty c = false -> Permutation g g' ->
  run_shapes fa c thr g = inl (ns, shapes) -> run_shapes fa c thr g' = inl (ns', shapes') ->
  ns' = ns /\
  (forall cls, In cls (map sh_class shapes) <-> In cls (map sh_class shapes')) /\
  forall sh sh', In sh shapes -> In sh' shapes' -> sh_class sh = sh_class sh' ->
    sh_name sh = sh_name sh' /\ sh_n sh = sh_n sh' /\
    forall key, In key (map (skey (scfg_of c ns)) (sh_stmts sh)) <->
                In key (map (skey (scfg_of c ns)) (sh_stmts sh')).
Proof. exact e2e_keys_perm. Qed.
Print Assumptions C09_keys_permutation_invariant.

(** ** non-vacuity: the two orders of the reference-tie graph
    (s : C; o : C1, C2 / o : C2, C1; s p o) *)
Example C09_reftie_is_permutation : Permutation g_reftie_1 g_reftie_2.
Proof. unfold g_reftie_1, g_reftie_2. apply perm_skip. apply perm_swap. Qed.

(** the dictionaries differ (class order), and are equivalent *)
Example C09_tracker_nonvacuous :
  track tau TAll (-1) g_reftie_1 = inl [(ex "s", [ex "C"]); (ex "o", [ex "C1"; ex "C2"])] /\
  track tau TAll (-1) g_reftie_2 = inl [(ex "s", [ex "C"]); (ex "o", [ex "C2"; ex "C1"])] /\
  insts_equiv [(ex "s", [ex "C"]); (ex "o", [ex "C1"; ex "C2"])] [(ex "s", [ex "C"]); (ex "o", [ex "C2"; ex "C1"])].
Proof.
  split; [vm_compute; reflexivity|]. split; [vm_compute; reflexivity|].
  assert (Hc : (-1 <= 0)%Z) by (intros H; discriminate H).
  destruct (track_perm tau TAll (-1) g_reftie_1 g_reftie_2 _ Hc C09_reftie_is_permutation eq_refl)
    as (I' & HT & He).
  vm_compute in HT. injection HT as <-. exact He.
Qed.

(** the two runs (empty shapes kept): same classes up to order, same header
    counts, the same keys up to order *)
Example C09_keys_nonvacuous :
  keys_of_run BAlg (with_remove_empty false (with_discard false base_rcfg)) thr0 g_reftie_1 =
    Some [ (ex "C", 1, [(false, tau, VClass (ex "C")); (false, ex "p", VNonLit)]);
           (ex "C1", 1, [(false, tau, VClass (ex "C1")); (false, tau, VClass (ex "C2"))]);
           (ex "C2", 1, [(false, tau, VClass (ex "C1")); (false, tau, VClass (ex "C2"))]) ] /\
  keys_of_run BAlg (with_remove_empty false (with_discard false base_rcfg)) thr0 g_reftie_2 =
    Some [ (ex "C", 1, [(false, tau, VClass (ex "C")); (false, ex "p", VNonLit)]);
           (ex "C2", 1, [(false, tau, VClass (ex "C2")); (false, tau, VClass (ex "C1"))]);
           (ex "C1", 1, [(false, tau, VClass (ex "C2")); (false, tau, VClass (ex "C1"))]) ].
Proof. split; vm_compute; reflexivity. Qed.

(** ** (d) what is false: the choice among tied alternatives *)

(** C09-F1: two references tied in count (the value is typed with C1 and
    C2): the winner and the reported facts follow the order of the typing
    triples *)
Lemma C09_reference_tie_refuted :
  Permutation g_reftie_1 g_reftie_2 /\
  exists f1 f2,
    option_map figures (stmts_of (with_discard false base_rcfg) thr0 g_reftie_1 (ex "C")) = Some f1 /\
    option_map figures (stmts_of (with_discard false base_rcfg) thr0 g_reftie_2 (ex "C")) = Some f2 /\
    f1 <> f2 /\
    (* a fact reported by the first run only: (p, @:C1, {1}, 1) *)
    (exists x, In x f1 /\ ~ In x f2).
Proof.
  split; [exact C09_reftie_is_permutation|].
  eexists. eexists. split; [vm_compute; reflexivity|]. split; [vm_compute; reflexivity|]. split.
  - intros H. discriminate H.
  - eexists. split; [right; right; left; reflexivity|].
    intros H. repeat (destruct H as [H|H]; [discriminate H|]). exact H.
Qed.

(** C09-F2: exact cardinalities tied ({1} on one instance, {2} on the other),
    keep_less_specific = false: '?' in one order, '*' in the other *)
Example C09_cardtie_is_permutation : Permutation g_cardtie_1 g_cardtie_2.
Proof.
  unfold g_cardtie_1, g_cardtie_2.
  eapply Permutation_trans; [apply perm_swap|]. apply perm_skip. apply perm_skip.
  (* [x_s; x_t; y_t] ~ [x_t; y_t; x_s] *)
  apply Permutation_sym. eapply Permutation_trans; [|apply Permutation_sym, Permutation_cons_append].
  apply Permutation_refl.
Qed.

Lemma C09_cardinality_tie_refuted :
  Permutation g_cardtie_1 g_cardtie_2 /\
  option_map (map s_card) (stmts_of (with_kls false base_rcfg) thr0 g_cardtie_1 (ex "C")) = Some [CExact 1; COpt] /\
  option_map (map s_card) (stmts_of (with_kls false base_rcfg) thr0 g_cardtie_2 (ex "C")) = Some [CExact 1; CStar].
Proof. split; [exact C09_cardtie_is_permutation|]. split; vm_compute; reflexivity. Qed.

(** ** (e) blank-node renaming  (supersedes the "not covered" remark of the
    header; proofs in Proofs/EndToEnd3.v)

    [sg] renames blank-node LABELS: it maps strings that start with "_:" to
    strings that start with "_:", injectively ([bn_renaming]).  It acts on a
    graph through [rename_graph] (blank nodes relabelled, IRIs and literals
    fixed) and on an instance dictionary through [rename_insts] (keys that
    are blank-node labels relabelled; class lists untouched).

    Side conditions, triple by triple ([rename_dom tau g]):
    - [marked_triple]: blank-node identifiers start with "_:" and IRI
      identifiers do not.  True of every yielder-produced graph; needed
      because the dictionaries are keyed by the bare identifier string (QUIRK
      Q5), so an IRI spelled "_:x" and the blank node _:x are the same
      instance before the renaming and two instances after it.  It also
      keeps renamed identifiers away from the strings "IRI"/"BNode" of
      QUIRK Q3;
    - [class_obj_ok]: the object of a typing triple is not a blank node.
      Really needed: a blank-node CLASS is a class key and its shape label is
      computed from the label text ([C09_rename_bnode_class_refuted]).

    What moves with the nodes: the type keys under the instantiation property
    are node identifiers (the class IRI for outgoing links, the typed SUBJECT
    for incoming ones), [rk sg tau p k] renames them; every other type key
    (node kind, datatype, shape label) is fixed. *)
From Shexer Require Import Proofs.EndToEnd2 Proofs.EndToEnd3.

Theorem C09_bn_renaming_unfold : forall sg,
  bn_renaming sg <->
  (forall s, prefixb (Str "_:") s = true -> prefixb (Str "_:") (sg s) = true) /\
  (forall a b, prefixb (Str "_:") a = true -> prefixb (Str "_:") b = true -> sg a = sg b -> a = b).
Proof. intros sg. split; [intros [A B]; split; assumption | intros [A B]; constructor; assumption]. Qed.

Theorem C09_rename_unfold : forall sg,
  (forall n, rename_node sg n = match nk n with KBnode => Node KBnode (sg (nid n)) | KIri => n end) /\
  (forall t, rename_triple sg t =
             T (rename_node sg (ts t)) (tp t)
               (match to t with ON n => ON (rename_node sg n) | OL c d => OL c d end)) /\
  (forall g, rename_graph sg g = map (rename_triple sg) g) /\
  (forall s, rid sg s = if prefixb (Str "_:") s then sg s else s) /\
  (forall I : insts, rename_insts sg I = map (fun ie => (rid sg (fst ie), snd ie)) I) /\
  (forall tau p k, rk sg tau p k = if str_eqb p tau then rid sg k else k).
Proof. intros sg. repeat split; intros; reflexivity. Qed.

Theorem C09_rename_dom_unfold : forall tau g,
  rename_dom tau g = true <->
  forall t, In t g ->
    marked_node (ts t) = true /\
    (forall o, to t = ON o -> marked_node o = true /\ (tp t = tau -> nk o = KIri)).
Proof. exact rename_dom_unfold. Qed.

(** the tracker commutes with the renaming (with or without cap, failures included) *)
Theorem C09_track_rename : forall sg tau m cap g,
  bn_renaming sg -> rename_dom tau g = true ->
  track tau m cap (rename_graph sg g) =
  match track tau m cap g with inl J => inl (rename_insts sg J) | inr e => inr e end.
Proof. intros sg tau m cap g Hsg Hg. exact (track_rename sg Hsg tau m cap g Hg). Qed.
Print Assumptions C09_track_rename.

(** the declarative counts are invariant, for ANY instance dictionary *)
Theorem C09_rename_counts : forall sg dir tau (I : insts) g,
  bn_renaming sg -> rename_dom tau g = true ->
  (forall i p k, cnt dir tau (rename_insts sg I) (rename_graph sg g) (rid sg i) p (rk sg tau p k) =
                 cnt dir tau I g i p k) /\
  (forall c p k card, occ dir tau (rename_insts sg I) (rename_graph sg g) c p (rk sg tau p k) card =
                      occ dir tau I g c p k card) /\
  (forall c, class_count (rename_insts sg I) c = class_count I c) /\
  (* no other key appears *)
  (forall c p k' card, (0 < occ dir tau (rename_insts sg I) (rename_graph sg g) c p k' card)%N ->
                       exists k, k' = rk sg tau p k).
Proof.
  intros sg dir tau I g Hsg Hg. split; [|split; [|split]].
  - intros. apply cnt_rename; assumption.
  - intros. apply occ_rename; assumption.
  - intros. apply class_count_rename.
  - intros c p k' card. apply occ_rename_pos_inv; assumption.
Qed.
Print Assumptions C09_rename_counts.

(** in particular for every type key outside the instantiation property
    (node kinds, datatypes, shape labels) nothing is renamed at all *)
Corollary C09_rename_counts_plain : forall sg dir tau (I : insts) g c p k card,
  bn_renaming sg -> rename_dom tau g = true -> p <> tau ->
  occ dir tau (rename_insts sg I) (rename_graph sg g) c p k card = occ dir tau I g c p k card.
Proof.
  intros sg dir tau I g c p k card Hsg Hg Hp.
  rewrite <- (occ_rename sg Hsg dir tau I g c p k card Hg). unfold rk.
  apply str_eqb_neq in Hp. rewrite Hp. reflexivity.
Qed.
Print Assumptions C09_rename_counts_plain.

(** the class profile (profile-level cleaning off): the profiler succeeds on
    the renamed input, with the same class keys in the same order, the same
    class counts and the same number under every lookup *)
Theorem C09_profile_rename_invariant : forall sg cfg (I : insts) g P C ID,
  bn_renaming sg -> NoDup (dkeys I) -> rename_dom (p_tau cfg) g = true -> p_remove_empty cfg = false ->
  profile cfg I g = inl (P, C, ID) ->
  exists P' ID',
    profile cfg (rename_insts sg I) (rename_graph sg g) = inl (P', C, ID') /\
    dkeys P' = dkeys P /\
    forall c e, dget P c = Some e ->
      exists e', dget P' c = Some e' /\
        forall p k card,
          plook (c_direct e') p (rk sg (p_tau cfg) p k) card = plook (c_direct e) p k card /\
          plook (c_inverse e') p (rk sg (p_tau cfg) p k) card = plook (c_inverse e) p k card.
Proof. intros sg cfg I g P C ID Hsg. exact (profile_rename sg Hsg cfg I g P C ID). Qed.
Print Assumptions C09_profile_rename_invariant.

(** the keys of the shapes ([r_remove_empty = false], any cap): two successful
    runs have the same shapes prefix, the same shape classes IN THE SAME ORDER
    and, class by class, the same name, header count and keys -- the value
    class of a key of the instantiation property renamed by [rvc] *)
Theorem C09_keys_rename_invariant : forall fa sg c (thr : F fa) g ns shapes ns' shapes',
  bn_renaming sg -> rename_dom (r_tau c) g = true -> r_remove_empty c = false ->
  run_shapes fa c thr g = inl (ns, shapes) -> run_shapes fa c thr (rename_graph sg g) = inl (ns', shapes') ->
  ns' = ns /\
  map sh_class shapes' = map sh_class shapes /\
  forall sh sh', In sh shapes -> In sh' shapes' -> sh_class sh = sh_class sh' ->
    sh_name sh = sh_name sh' /\ sh_n sh = sh_n sh' /\
    (forall inv p vc, In (inv, p, vc) (map (skey (scfg_of c ns)) (sh_stmts sh)) <->
                      In (inv, p, rvc sg (r_tau c) p vc) (map (skey (scfg_of c ns)) (sh_stmts sh'))) /\
    (forall inv p vc', In (inv, p, vc') (map (skey (scfg_of c ns)) (sh_stmts sh')) ->
                       exists vc, vc' = rvc sg (r_tau c) p vc).
Proof. exact e2e_keys_rename. Qed.
Print Assumptions C09_keys_rename_invariant.

Theorem C09_rvc_unfold : forall sg tau p vc,
  rvc sg tau p vc = if str_eqb p tau then match vc with VClass k => VClass (rid sg k) | _ => vc end else vc.
Proof. reflexivity. Qed.

(** without inverse paths no key names a blank node: the key SETS are equal *)
Theorem C09_keys_rename_invariant_direct : forall fa sg c (thr : F fa) g ns shapes ns' shapes',
  bn_renaming sg -> rename_dom (r_tau c) g = true -> r_remove_empty c = false -> r_inverse c = false ->
  run_shapes fa c thr g = inl (ns, shapes) -> run_shapes fa c thr (rename_graph sg g) = inl (ns', shapes') ->
  ns' = ns /\
  map sh_class shapes' = map sh_class shapes /\
  forall sh sh', In sh shapes -> In sh' shapes' -> sh_class sh = sh_class sh' ->
    sh_name sh = sh_name sh' /\ sh_n sh = sh_n sh' /\
    forall key, In key (map (skey (scfg_of c ns)) (sh_stmts sh)) <->
                In key (map (skey (scfg_of c ns)) (sh_stmts sh')).
Proof. exact e2e_keys_rename_direct. Qed.
Print Assumptions C09_keys_rename_invariant_direct.

(** non-vacuity: append "1" to every blank-node label *)
Definition sg1 (s : str) : str := s ++ Str "1".

Example C09_sg1_is_renaming : bn_renaming sg1.
Proof.
  constructor.
  - intros s H. unfold bn_pref in *. apply prefixb_spec in H. destruct H as [r ->].
    unfold sg1. rewrite <- app_assoc. apply prefixb_spec. eexists. reflexivity.
  - intros a b _ _ H. unfold sg1 in H. apply app_inv_tail in H. exact H.
Qed.

(** a : C . _:x : C . _:x rdf:type a (so [a] is a class too, with a blank-node
    instance: an incoming typing link from a blank node) . a p _:x . _:x p a *)
Definition g_ren : graph :=
  [ty "a" "C"; T (bn "x") tau (ON (iri "C")); T (bn "x") tau (ON (iri "a"));
   lnk "a" "p" (bn "x"); T (bn "x") (ex "p") (ON (iri "a"))].

Example C09_rename_nonvacuous :
  rename_dom tau g_ren = true /\
  rename_graph sg1 g_ren =
    [ty "a" "C"; T (bn "x1") tau (ON (iri "C")); T (bn "x1") tau (ON (iri "a"));
     lnk "a" "p" (bn "x1"); T (bn "x1") (ex "p") (ON (iri "a"))] /\
  track tau TAll (-1) g_ren = inl [(ex "a", [ex "C"]); (Str "_:x", [ex "C"; ex "a"])] /\
  track tau TAll (-1) (rename_graph sg1 g_ren) = inl [(ex "a", [ex "C"]); (Str "_:x1", [ex "C"; ex "a"])] /\
  keys_of_run BAlg (rwith_inverse true (with_remove_empty false base_rcfg)) thr0 g_ren =
    Some [ (ex "C", 2%N, [(false, tau, VClass (ex "C")); (false, ex "p", VNonLit); (true, ex "p", VNonLit);
                          (false, tau, VClass (ex "a")); (true, tau, VClass (Str "_:x"))]);
           (ex "a", 1%N, [(false, tau, VClass (ex "C")); (false, tau, VClass (ex "a")); (false, ex "p", VNonLit);
                          (true, ex "p", VNonLit)]) ] /\
  keys_of_run BAlg (rwith_inverse true (with_remove_empty false base_rcfg)) thr0 (rename_graph sg1 g_ren) =
    Some [ (ex "C", 2%N, [(false, tau, VClass (ex "C")); (false, ex "p", VNonLit); (true, ex "p", VNonLit);
                          (false, tau, VClass (ex "a")); (true, tau, VClass (Str "_:x1"))]);
           (ex "a", 1%N, [(false, tau, VClass (ex "C")); (false, tau, VClass (ex "a")); (false, ex "p", VNonLit);
                          (true, ex "p", VNonLit)]) ].
Proof. repeat split; vm_compute; reflexivity. Qed.

(** the side condition on classes is needed: [a rdf:type _:c].  The class key
    IS the blank-node label, so the tracker's dictionary of the renamed graph
    lists another class, the old class has no instance any more, and the
    shape gets another label *)
Definition g_bnclass : graph := [T (iri "a") tau (ON (bn "c"))].

Lemma C09_rename_bnode_class_refuted :
  bn_renaming sg1 /\ rename_dom tau g_bnclass = false /\
  track tau TAll (-1) g_bnclass = inl [(ex "a", [Str "_:c"])] /\
  track tau TAll (-1) (rename_graph sg1 g_bnclass) = inl [(ex "a", [Str "_:c1"])] /\
  rename_insts sg1 [(ex "a", [Str "_:c"])] = [(ex "a", [Str "_:c"])] /\
  class_count [(ex "a", [Str "_:c"])] (Str "_:c") = 1%N /\
  class_count [(ex "a", [Str "_:c1"])] (Str "_:c") = 0%N /\
  option_map (map (fun x => fst (fst x))) (keys_of_run BAlg base_rcfg thr0 g_bnclass) = Some [Str "_:c"] /\
  option_map (map (fun x => fst (fst x))) (keys_of_run BAlg base_rcfg thr0 (rename_graph sg1 g_bnclass)) = Some [Str "_:c1"] /\
  shape_name c_SHAPES_DEFAULT_NAMESPACE (Str "_:c") <> shape_name c_SHAPES_DEFAULT_NAMESPACE (Str "_:c1").
Proof.
  split; [exact C09_sg1_is_renaming|]. repeat split; try (vm_compute; reflexivity). vm_compute. discriminate.
Qed.

(** ** (c'), complements to (c)

    (i) under [valid_input] (the domain of C04, Props/C04.v) both runs
    succeed: [C09_keys_permutation_invariant] with no hypothesis on either
    outcome; (ii) ANY setting of remove_empty_shapes, for binary64, thresholds
    <= 1, no class IRI starting with '%'/"@" ([class_iris_ok]) and fewer than
    2^53 triples: there the shape-level cleaning removes nothing (C14's
    no-empty-shape lemmas) and the profile-level cleaning is declarative
    ([C09_raw_keys_iff_occ]: a class key is kept iff it is an original label
    or the class has a positive count; a key passes iff some (type key,
    cardinality) of its value class has a positive count that reaches the
    threshold AND the type key is not a removed class key), hence invariant. *)
From Shexer Require Import Proofs.Bin64Round Proofs.FreqLaws.

Theorem C09_keys_permutation_invariant_valid : forall fa c (thr : F fa) (g g' : graph),
  (r_cap c <= 0)%Z -> r_remove_empty c = false -> Permutation g g' -> valid_input c g = true ->
  exists ns shapes shapes',
    run_shapes fa c thr g = inl (ns, shapes) /\ run_shapes fa c thr g' = inl (ns, shapes') /\
    (forall cls, In cls (map sh_class shapes) <-> In cls (map sh_class shapes')) /\
    forall sh sh', In sh shapes -> In sh' shapes' -> sh_class sh = sh_class sh' ->
      sh_name sh = sh_name sh' /\ sh_n sh = sh_n sh' /\
      forall key, In key (map (skey (scfg_of c ns)) (sh_stmts sh)) <->
                  In key (map (skey (scfg_of c ns)) (sh_stmts sh')).
Proof. exact e2e_keys_perm_valid. Qed.
Print Assumptions C09_keys_permutation_invariant_valid.

Theorem C09_keys_permutation_invariant_total : forall fa c (thr : F fa) (g g' : graph) ns shapes,
  (r_cap c <= 0)%Z -> r_remove_empty c = false -> Permutation g g' -> valid_input c g = true ->
  run_shapes fa c thr g = inl (ns, shapes) ->
  exists shapes',
    run_shapes fa c thr g' = inl (ns, shapes') /\
    (forall cls, In cls (map sh_class shapes) <-> In cls (map sh_class shapes')) /\
    forall sh sh', In sh shapes -> In sh' shapes' -> sh_class sh = sh_class sh' ->
      sh_name sh = sh_name sh' /\ sh_n sh = sh_n sh' /\
      forall key, In key (map (skey (scfg_of c ns)) (sh_stmts sh)) <->
                  In key (map (skey (scfg_of c ns)) (sh_stmts sh')).
Proof. exact e2e_keys_perm_total. Qed.
Print Assumptions C09_keys_permutation_invariant_total.

(** C02 for the shapes before the shape-level cleaning ([run_raw],
    Proofs/EndToEnd2.v), whatever remove_empty_shapes: soundness and
    completeness *)
Theorem C09_raw_keys_iff_occ : forall fa c (thr : F fa) g ns shapes,
  run_raw fa c thr g = inl (ns, shapes) ->
  exists I P C ID,
    track (r_tau c) (mode_of c) (r_cap c) g = inl I /\
    profile (pcfg_of c) I g = inl (P, C, ID) /\
    map sh_class shapes = dkeys P /\
    forall sh, In sh shapes ->
      sh_name sh = shape_name (r_shapes_ns c) (sh_class sh) /\
      sh_n sh = class_count I (sh_class sh) /\
      forall inv p vc,
        In (inv, p, vc) (map (skey (scfg_of c ns)) (sh_stmts sh)) <->
        key_passes_occ_kept fa c thr I g
          (fun k => In k (class_keys (targets_of (pcfg_of c)) I) -> In k (dkeys P)) (sh_class sh) inv p vc.
Proof. exact run_raw_keys_iff_occ. Qed.
Print Assumptions C09_raw_keys_iff_occ.

(** which class keys the profile-level cleaning keeps *)
Theorem C09_kept_class_keys : forall cfg (I : insts) G P C ID,
  NoDup (dkeys I) -> profile cfg I G = inl (P, C, ID) ->
  forall c, In c (dkeys P) <->
            In c (class_keys (targets_of cfg) I) /\
            (p_remove_empty cfg = false \/ In c (orig_labels cfg) \/
             exists dir p k card, (dir = Inverse -> p_inverse cfg = true) /\
                                  (0 < occ dir (p_tau cfg) I G c p k card)%N).
Proof. intros cfg I G P C ID Hn HP. exact (proj1 (profile_kept_char cfg I G P C ID Hn HP)). Qed.
Print Assumptions C09_kept_class_keys.

(** raw shapes: invariant for any options and any threshold *)
Theorem C09_raw_keys_permutation_invariant : forall fa c (thr : F fa) (g g' : graph) ns shapes ns' shapes',
  (r_cap c <= 0)%Z -> Permutation g g' ->
  run_raw fa c thr g = inl (ns, shapes) -> run_raw fa c thr g' = inl (ns', shapes') ->
  ns' = ns /\
  (forall cls, In cls (map sh_class shapes) <-> In cls (map sh_class shapes')) /\
  forall sh sh', In sh shapes -> In sh' shapes' -> sh_class sh = sh_class sh' ->
    sh_name sh = sh_name sh' /\ sh_n sh = sh_n sh' /\
    forall key, In key (map (skey (scfg_of c ns)) (sh_stmts sh)) <->
                In key (map (skey (scfg_of c ns)) (sh_stmts sh')).
Proof. exact run_raw_keys_perm. Qed.
Print Assumptions C09_raw_keys_permutation_invariant.

(** (ii) final shapes, remove_empty_shapes on or off *)
Theorem C09_keys_permutation_invariant_any : forall c thr (g g' : graph) ns shapes ns' shapes',
  (r_cap c <= 0)%Z -> Permutation g g' ->
  class_iris_ok c g = true -> wf_frac thr -> fle BAlg thr (fone BAlg) = true ->
  (N.of_nat (List.length g) < 2 ^ 53)%N ->
  run_shapes BAlg c thr g = inl (ns, shapes) -> run_shapes BAlg c thr g' = inl (ns', shapes') ->
  ns' = ns /\
  (forall cls, In cls (map sh_class shapes) <-> In cls (map sh_class shapes')) /\
  forall sh sh', In sh shapes -> In sh' shapes' -> sh_class sh = sh_class sh' ->
    sh_name sh = sh_name sh' /\ sh_n sh = sh_n sh' /\
    forall key, In key (map (skey (scfg_of c ns)) (sh_stmts sh)) <->
                In key (map (skey (scfg_of c ns)) (sh_stmts sh')).
Proof. exact e2e_keys_perm_any. Qed.
Print Assumptions C09_keys_permutation_invariant_any.

(** ... and with no hypothesis on the outcomes *)
Theorem C09_keys_permutation_invariant_valid_any : forall c thr (g g' : graph),
  (r_cap c <= 0)%Z -> Permutation g g' ->
  typing_okb (r_tau c) g && forallb (sentinel_free (r_tau c)) g && prefix_free c && class_iris_ok c g = true ->
  wf_frac thr -> fle BAlg thr (fone BAlg) = true -> (N.of_nat (List.length g) < 2 ^ 53)%N ->
  exists ns shapes shapes',
    run_shapes BAlg c thr g = inl (ns, shapes) /\ run_shapes BAlg c thr g' = inl (ns, shapes') /\
    (forall cls, In cls (map sh_class shapes) <-> In cls (map sh_class shapes')) /\
    forall sh sh', In sh shapes -> In sh' shapes' -> sh_class sh = sh_class sh' ->
      sh_name sh = sh_name sh' /\ sh_n sh = sh_n sh' /\
      forall key, In key (map (skey (scfg_of c ns)) (sh_stmts sh)) <->
                  In key (map (skey (scfg_of c ns)) (sh_stmts sh')).
Proof. exact e2e_keys_perm_valid_any. Qed.
Print Assumptions C09_keys_permutation_invariant_valid_any.

(** non-vacuity: the default configuration (remove_empty_shapes ON) and the
    two orders of the reference-tie graph satisfy every hypothesis *)
Example C09_any_nonvacuous :
  r_remove_empty base_rcfg = true /\ (r_cap base_rcfg <= 0)%Z /\
  valid_input_le1 base_rcfg g_reftie_1 = true /\ valid_input (with_remove_empty false base_rcfg) g_reftie_1 = true /\
  wf_frac thr0 /\ fle BAlg thr0 (fone BAlg) = true /\ (N.of_nat (List.length g_reftie_1) < 2 ^ 53)%N /\
  keys_of_run BAlg base_rcfg thr0 g_reftie_1 =
    Some [ (ex "C", 1%N, [(false, tau, VClass (ex "C")); (false, ex "p", VNonLit)]);
           (ex "C1", 1%N, [(false, tau, VClass (ex "C1")); (false, tau, VClass (ex "C2"))]);
           (ex "C2", 1%N, [(false, tau, VClass (ex "C1")); (false, tau, VClass (ex "C2"))]) ] /\
  keys_of_run BAlg base_rcfg thr0 g_reftie_2 =
    Some [ (ex "C", 1%N, [(false, tau, VClass (ex "C")); (false, ex "p", VNonLit)]);
           (ex "C2", 1%N, [(false, tau, VClass (ex "C2")); (false, tau, VClass (ex "C1"))]);
           (ex "C1", 1%N, [(false, tau, VClass (ex "C2")); (false, tau, VClass (ex "C1"))]) ].
Proof.
  split; [reflexivity|]. split; [intros H; discriminate H|]. split; [vm_compute; reflexivity|].
  split; [vm_compute; reflexivity|]. split; [vm_compute; split; [discriminate | reflexivity]|].
  split; [vm_compute; reflexivity|]. split; [vm_compute; reflexivity|]. split; vm_compute; reflexivity.
Qed.

(** detect_minimal_iri is NOT invariant under a renaming (finding C09-F3) on the
    source in which _determine_suitable_iri_pattern accepts a common prefix that
    starts with "_:" ([Gen.Consts.c_min_iri_skips_bnode_prefix = false]): the
    per-class fold of longest_common_prefix ([Model/MinIri.v: stem], the model of
    ClassProfiler._update_shape_min_iri + _determine_suitable_iri_pattern that
    C17 checks against the real code) runs over the KEYS of the instance
    dictionary, blank-node identifiers included.  "_:b0", "_:b1" share "_:b",
    cut back to "_:" (two characters: no stem); renamed to "_:genid:b0",
    "_:genid:b1" (':' is a PN_CHARS_U of N-Triples) they share "_:genid:b",
    cut back to "_:genid:" -- printed as [<_:genid:>~] AND on the shape line. *)
From Shexer Require Import Model.MinIri.

Definition sg_genid (s : str) : str := Str "_:genid:" ++ skipn 2 s.

Example C09_sg_genid_is_renaming : bn_renaming sg_genid.
Proof.
  constructor.
  - intros s _. reflexivity.
  - intros a b Ha Hb H. unfold bn_pref in *. apply prefixb_spec in Ha. apply prefixb_spec in Hb.
    destruct Ha as [ra ->]. destruct Hb as [rb ->]. unfold sg_genid in H.
    assert (E : forall r, skipn 2 (Str "_:" ++ r) = r) by reflexivity.
    rewrite !E in H. apply app_inv_head in H. rewrite H. reflexivity.
Qed.

Definition g_bnstem : graph := [T (bn "b0") tau (ON (iri "A")); T (bn "b1") tau (ON (iri "A"))].

Lemma C09_rename_stem_refuted : c_min_iri_skips_bnode_prefix = false ->
  bn_renaming sg_genid /\ rename_dom tau g_bnstem = true /\
  track tau TAll (-1) g_bnstem = inl [(Str "_:b0", [ex "A"]); (Str "_:b1", [ex "A"])] /\
  track tau TAll (-1) (rename_graph sg_genid g_bnstem) =
    inl [(Str "_:genid:b0", [ex "A"]); (Str "_:genid:b1", [ex "A"])] /\
  MinIri.stem [Str "_:b0"; Str "_:b1"] = None /\
  MinIri.stem [Str "_:genid:b0"; Str "_:genid:b1"] = Some (Str "_:genid:").
Proof.
  intros F. first [ vm_compute in F; discriminate F
                  | split; [exact C09_sg_genid_is_renaming|]; repeat split; vm_compute; reflexivity ].
Qed.
Print Assumptions C09_rename_stem_refuted.

(** ** with the first test ([c_min_iri_skips_bnode_prefix = true]: a common prefix that
    starts with "_:" gives no stem) the stem does not depend on blank-node labels
    (proofs: Proofs/StemRename.v).

    [rid sg] is the renaming on identifiers ([C09_rename_unfold]): labels ("_:"-strings)
    go to labels, every other identifier is fixed.  [well_formed_ids]: a non-empty list of
    ids none of which starts with '%' (Spec/MinIriSpec.v; every list of IRIs and labels). *)
From Shexer Require Import Spec.MinIriSpec Model.Examples Model.RunDecor Proofs.StemRename.

(** at the level of the list of instance ids of a class *)
Theorem C09_stem_rename_invariant : forall sg ids,
  c_min_iri_skips_bnode_prefix = true -> bn_renaming sg -> well_formed_ids ids ->
  MinIri.stem (map (rid sg) ids) = MinIri.stem ids.
Proof. exact stem_rename. Qed.
Print Assumptions C09_stem_rename_invariant.

(** the instances of a class in the renamed dictionary are the renamed instances *)
Theorem C09_instances_of_rename : forall sg (I : insts) c,
  instances_of (rename_insts sg I) c = map (rid sg) (instances_of I c).
Proof. exact instances_of_rename. Qed.

(** composed with [C09_track_rename]: the tracker's dictionary of the renamed graph is the
    renamed dictionary, and the profiler's per-class stem ([Examples.shape_stem], what both
    serialisers print: Props/C17.v, [C17_class_stem]) of a class that has an instance is the
    same on both *)
Theorem C09_class_stem_rename_invariant : forall sg tau m cap g (I : insts) mode ip d d' c,
  c_min_iri_skips_bnode_prefix = true -> bn_renaming sg -> rename_dom tau g = true ->
  track tau m cap g = inl I ->
  profile_examples true mode ip I g = Some d ->
  profile_examples true mode ip (rename_insts sg I) (rename_graph sg g) = Some d' ->
  (exists i, is_instance I c i) -> well_formed_ids (instances_of I c) ->
  track tau m cap (rename_graph sg g) = inl (rename_insts sg I) /\
  shape_stem d' c = shape_stem d c.
Proof. exact class_stem_rename. Qed.
Print Assumptions C09_class_stem_rename_invariant.

(** the text put on the shape line of the decorated ShExC document ([RunDecor.min_iri_text],
    inside the text model compared byte for byte with the real output by C17's check) *)
Theorem C09_printed_stem_rename_invariant : forall sg c mode g (I : insts) d I' d' sh,
  c_min_iri_skips_bnode_prefix = true -> bn_renaming sg -> rename_dom (r_tau c) g = true ->
  run_decor_data c true mode g = Some (I, d) ->
  run_decor_data c true mode (rename_graph sg g) = Some (I', d') ->
  (exists i, is_instance I (sh_class sh) i) -> well_formed_ids (instances_of I (sh_class sh)) ->
  I' = rename_insts sg I /\
  min_iri_text {| d_dmi := true; d_mode := mode; d_inverse := r_inverse c |} d' sh =
  min_iri_text {| d_dmi := true; d_mode := mode; d_inverse := r_inverse c |} d sh.
Proof. exact printed_stem_rename. Qed.
Print Assumptions C09_printed_stem_rename_invariant.

(** non-vacuity / regression of C09-F3: the renaming of the refuted lemma, with the test *)
Example C09_rename_stem_fixed : c_min_iri_skips_bnode_prefix = true ->
  bn_renaming sg_genid /\ rename_dom tau g_bnstem = true /\
  well_formed_ids [Str "_:b0"; Str "_:b1"] /\
  map (rid sg_genid) [Str "_:b0"; Str "_:b1"] = [Str "_:genid:b0"; Str "_:genid:b1"] /\
  MinIri.stem [Str "_:b0"; Str "_:b1"] = None /\
  MinIri.stem [Str "_:genid:b0"; Str "_:genid:b1"] = None.
Proof.
  intros F. first [ vm_compute in F; discriminate F
                  | split; [exact C09_sg_genid_is_renaming|];
                    split; [vm_compute; reflexivity|];
                    split; [apply MinIriProofs.well_formed_idsb_sound; vm_compute; reflexivity|];
                    repeat split; vm_compute; reflexivity ].
Qed.

(** the flag is one of the two: exactly one of [C09_rename_stem_refuted] /
    [C09_stem_rename_invariant] speaks about the source tree the constants were generated from *)
Example C09_F3_status :
  (c_min_iri_skips_bnode_prefix = false /\
   MinIri.stem [Str "_:genid:b0"; Str "_:genid:b1"] = Some (Str "_:genid:")) \/
  (c_min_iri_skips_bnode_prefix = true /\ MinIri.stem [Str "_:genid:b0"; Str "_:genid:b1"] = None).
Proof. first [ left; split; vm_compute; reflexivity | right; split; vm_compute; reflexivity ]. Qed.
