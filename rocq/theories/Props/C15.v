(** * C15 -- extraction from a SPARQL endpoint equals extraction from the same graph locally

    Model: [Model/Endpoint.v] ([run c m G O]: the events -- queries sent,
    triples delivered, exceptions -- of the two passes of
    [Shaper(url_endpoint=...).shex_graph] over the endpoint serving [G]).
    [O] holds the oracles: the order in which the endpoint lists the solutions
    of each query, per pass ([o_ord]), and the iteration order of the Python
    set of target nodes ([o_set]); [ord_ok O] says both are permutations.

    [dom c G]: every statement of [G] has an IRI subject and an IRI or literal
    object that the endpoint path (result reader, cache round trip, token
    tuning) reads exactly as the local N-Triples path does ([C15_dom], a
    boolean evaluated by the harness on every generated graph; it holds for
    IRI nodes with plain non-numeric strings and canonical integers, see the
    Examples), and [G] read locally has no repeated statement.

    [targets c G O pass m]: the target nodes of a pass (instances the class
    selectors returned, LIMIT applied; nodes of the shape-map selectors).
    [neighbourhood inv T G] = statements of [G] with subject in [T], followed
    (inverse paths) by those with object in [T]: a statement linking two
    targets occurs twice. *)
From Coq Require Import List Ascii String ZArith Bool Permutation.
From Shexer Require Import Lib.PyStr Lib.Dict Gen.Consts Gen.ConstsC15 Spec.Rdf Spec.EndpointSpec
     Model.Tracker Model.Profiler Model.Endpoint
     Proofs.EndpointProofs Proofs.EndpointLocal Proofs.EndpointMain.
Import ListNotations.

(** (a) For both cache settings ([c] is arbitrary), every mode and every
    oracle: the run does not fail; the feature pass (pass 2) is delivered
    exactly the neighbourhood of its targets, as a multiset, read as the local
    path reads it; the instance pass (pass 1) is delivered the same for its
    targets, or -- when [instances_cap] makes the tracker stop early -- a
    prefix of such a list.  In shape-map mode pass 1 reads no triples. *)
Theorem C15_triples : forall c G O m,
  ord_ok O -> dom c G -> mode_ok c G m ->
  let r := run c m G O in
  r_ok r = true /\
  Permutation (yields (r_p2 r)) (local_graph (neighbourhood (c_inverse c) (targets c G O 2 m) G)) /\
  match m with
  | MShapeMap _ => yields (r_p1 r) = []
  | _ => exists full1,
      Permutation full1 (local_graph (neighbourhood (c_inverse c) (targets c G O 1 m) G)) /\
      (yields (r_p1 r) = full1 \/
       ((0 < c_cap c)%Z /\ ~ reads_all c m /\ exists n, yields (r_p1 r) = firstn n full1))
  end.
Proof. exact C15a. Qed.
Print Assumptions C15_triples.

(** Without a LIMIT the targets are exactly the instances of the target classes. *)
Theorem C15_targets_are_instances : forall c G O pass cl x,
  ord_ok O -> dom c G -> (eff_limit c < 0)%Z ->
  (In x (targets c G O pass (MClasses cl)) <-> exists k, In k cl /\ In x (instances_of (c_tau c) k G)).
Proof. exact C15_targets. Qed.
Print Assumptions C15_targets_are_instances.

(** (b) [disable_endpoint_cache] does not change what is delivered: equal as
    multisets (as lists it is false: [C15_cache_same_list_refuted]). *)
Theorem C15_cache_same_result : forall c G O m,
  ord_ok O -> dom c G -> mode_ok c G m ->
  let rc := run (with_cache true c) m G O in
  let rn := run (with_cache false c) m G O in
  Permutation (yields (r_p2 rc)) (yields (r_p2 rn)) /\
  (reads_all c m -> Permutation (yields (r_p1 rc)) (yields (r_p1 rn))).
Proof. exact C15b. Qed.
Print Assumptions C15_cache_same_result.

(** (c) The query log with the cache is a subsequence (hence a sub-multiset)
    of the log without it, never longer, and with the cache no (kind, node)
    fetch is sent twice.  PARTIAL: proved when pass 1 reads the whole stream
    ([reads_all]: every mode except target classes with a positive
    [instances_cap], where the instance tracker stops reading early and the
    position of the stop is read off two differently ordered streams); the
    check evaluates the statement on capped runs as well. *)
Theorem C15_cache_log_partial : forall c G O m,
  ord_ok O -> dom c G -> mode_ok c G m -> reads_all c m ->
  let rc := run (with_cache true c) m G O in
  let rn := run (with_cache false c) m G O in
  subseq (log_of rc) (log_of rn) /\
  List.length (log_of rc) <= List.length (log_of rn) /\
  NoDup (filter is_fetch (log_of rc)).
Proof. exact C15c. Qed.
Print Assumptions C15_cache_log_partial.

(** (d) The tie to the local extraction.  For an instance dictionary [I] whose
    keys are the targets: what the endpoint delivers to the feature pass is a
    permutation of the statements of the local graph that the local feature
    pass ([Profiler.annotate_all]) does not skip, plus (inverse paths) a second
    copy of every statement linking two targets; and the local feature pass
    computes the same from that restriction as from the whole graph.
    Equality of the final SHAPES needs two more facts that are not proved
    here: permutation invariance of the pipeline (property C09, Props/C09.v:
    [C09_tracker_permutation], [C09_profile_permutation_invariant],
    [C09_keys_permutation_invariant] -- without instance cap, up to the choice
    among tied candidates) and, with inverse paths, absence of statements
    linking two targets -- the second copy is counted
    ([C15_inverse_double_refuted], finding C15-F2). *)
Theorem C15_equals_local_partial : forall c G O m I,
  ord_ok O -> dom c G -> mode_ok c G m ->
  let r := run c m G O in
  let T := targets c G O 2 m in
  (forall id, Profiler.tracked I id = mem_str id T) ->
  Permutation (yields (r_p2 r))
              (filter (rel (c_inverse c) I) (local_graph G) ++
               local_graph (filter (fun t => subj_in T t && obj_in T t) (if c_inverse c then G else []))) /\
  annotate_all (c_tau c) (c_inverse c) (local_graph G) I =
  annotate_all (c_tau c) (c_inverse c) (filter (rel (c_inverse c) I) (local_graph G)) I.
Proof. exact C15d. Qed.
Print Assumptions C15_equals_local_partial.

(** Where the model says that pass 1 stops reading after [n] triples
    ([instances_cap] reached for every target class), the tracker model of the
    pipeline computes the same instances from those [n] triples as from the
    whole stream. *)
Theorem C15_pass1_reads_like_tracker : forall tau m cap g n,
  consumption tau m cap g = CStop n -> track tau m cap g = track tau m cap (firstn n g).
Proof. exact consumption_stop_track. Qed.
Print Assumptions C15_pass1_reads_like_tracker.

(** The set oracle the harness uses (ranking observed at the real set->list
    site) is an instance of the oracles the theorems quantify over. *)
Theorem C15_rank_oracle_ok : forall rank l, NoDup l -> Permutation (order_by_rank rank l) l.
Proof. exact order_by_rank_perm. Qed.
Print Assumptions C15_rank_oracle_ok.

(** ** non-vacuity *)
Definition ex (s : string) : str := Str "http://ex.org/" ++ Str s.
Definition rdf_type : str := c_RDF_TYPE.
Definition iri (s : string) : sterm := SN (NI (ex s)).
Definition plain_lit (s : string) : sterm := SLit (Str s) None None.
Definition int_lit (s : string) : sterm := SLit (Str s) (Some xsd_integer) None.
Definition st (s p : string) (o : sterm) : striple := {| ss := NI (ex s); sp := ex p; so := o |}.
Definition ty (s cl : string) : striple := {| ss := NI (ex s); sp := rdf_type; so := iri cl |}.

Definition id_oracles : oracles := {| o_ord := fun _ _ l => l; o_set := fun _ l => l |}.
Lemma id_oracles_ok : ord_ok id_oracles.
Proof. split; intros; apply Permutation_refl. Qed.

Definition cfg0 (cache inverse : bool) (limit cap : Z) : cfg :=
  {| c_tau := rdf_type; c_cache := cache; c_inverse := inverse;
     c_allow_num := dflt_infer_numeric_types_for_untyped_literals;
     c_last_level := dflt15_track_classes_for_entities_at_last_depth_level;
     c_limit := limit; c_cap := cap |}.

Definition G_ex : sgraph :=
  [ty "a" "C"; st "a" "p" (iri "b"); st "a" "n" (plain_lit "x y"); st "a" "m" (int_lit "5");
   ty "b" "D"; st "b" "p" (iri "c"); ty "c" "C"; st "c" "n" (plain_lit "abc"); st "c" "m" (int_lit "-12")].

Ltac nodup_compute := apply nodup_b_ok; vm_compute; reflexivity.

Example C15_dom_inhabited :
  dom (cfg0 true true (-1) (-1)) G_ex /\ mode_ok (cfg0 true true (-1) (-1)) G_ex (MClasses [ex "C"; ex "D"]) /\
  mode_ok (cfg0 true true (-1) (-1)) G_ex MAll /\
  List.length (yields (r_p2 (run (cfg0 true true (-1) (-1)) (MClasses [ex "C"; ex "D"]) G_ex id_oracles))) = 11 /\
  List.length (log_of (run (cfg0 true true (-1) (-1)) MAll G_ex id_oracles)) = 12 /\
  List.length (log_of (run (cfg0 false true (-1) (-1)) MAll G_ex id_oracles)) = 18.
Proof.
  split; [split; [vm_compute; reflexivity | unfold local_graph; nodup_compute]|].
  split; [discriminate|]. split; [split; [vm_compute; reflexivity | exists (ty "a" "C"); split; [left|]; reflexivity]|].
  repeat split; vm_compute; reflexivity.
Qed.

(** ** what is false today (known findings; each with a pinned reproducer
    replayed against the real code by harness/vp/props/c15.py) *)

Ltac in_compute := apply in_triple_b; vm_compute; reflexivity.
Ltac not_in_compute := apply notin_triple_b; vm_compute; reflexivity.

(** C15-F1 (result reader).  A language-tagged literal is delivered with its
    value doubled and quoted ([hola"hola"@es]); a typed literal whose
    datatype cannot be guessed from its lexical form loses its datatype
    ([xsd:date] -> [xsd:string]); a plain string that looks like a number
    becomes [xsd:integer].  None of the three delivered objects occurs in the
    local reading of the graph. *)
Definition G_f1 : sgraph :=
  [ty "a" "C"; st "a" "l" (SLit (Str "hola") None (Some (Str "es")));
   st "a" "d" (SLit (Str "2020-01-01") (Some (Str "http://www.w3.org/2001/XMLSchema#date")) None);
   st "a" "s" (plain_lit "42")].

Lemma C15_literals_refuted :
  exists c G O m, ord_ok O /\ NoDup (local_graph G) /\ mode_ok c G m /\ r_ok (run c m G O) = true /\
    exists x y z, In x (yields (r_p2 (run c m G O))) /\ ~ In x (local_graph G) /\
                  In y (yields (r_p2 (run c m G O))) /\ ~ In y (local_graph G) /\
                  In z (yields (r_p2 (run c m G O))) /\ ~ In z (local_graph G) /\
                  to x = OL (Str "hola""hola""@es") c_LANG_STRING_TYPE /\
                  to y = OL (Str "2020-01-01") c_STRING_TYPE /\
                  to z = OL (Str "42") c_INTEGER_TYPE.
Proof.
  exists (cfg0 true false (-1) (-1)), G_f1, id_oracles, (MClasses [ex "C"]).
  split; [apply id_oracles_ok|]. split; [unfold local_graph; nodup_compute|]. split; [discriminate|].
  split; [vm_compute; reflexivity|].
  exists {| ts := Node KIri (ex "a"); tp := ex "l"; to := OL (Str "hola""hola""@es") c_LANG_STRING_TYPE |},
         {| ts := Node KIri (ex "a"); tp := ex "d"; to := OL (Str "2020-01-01") c_STRING_TYPE |},
         {| ts := Node KIri (ex "a"); tp := ex "s"; to := OL (Str "42") c_INTEGER_TYPE |}.
  split; [in_compute|]. split; [not_in_compute|]. split; [in_compute|]. split; [not_in_compute|].
  split; [in_compute|]. split; [not_in_compute|]. repeat split; reflexivity.
Qed.

(** C15-F2 (inverse paths, inside the domain).  A statement linking two
    targets is delivered twice -- by the outgoing fetch of its subject and by
    the incoming fetch of its object -- and the feature pass counts it twice:
    from what the endpoint delivers the instance [a] has two [p]-values of
    kind IRI, from the local graph one. *)
Definition G_f2 : sgraph := [ty "a" "C"; st "a" "p" (iri "b"); ty "b" "D"].
Definition I_f2 : idict := adapt [(ex "a", [ex "C"]); (ex "b", [ex "D"])].

Lemma C15_inverse_double_refuted :
  exists c G O m, ord_ok O /\ dom c G /\ mode_ok c G m /\
    ~ NoDup (yields (r_p2 (run c m G O))) /\
    annotate_all (c_tau c) true (yields (r_p2 (run c m G O))) I_f2 <>
    annotate_all (c_tau c) true (local_graph G) I_f2.
Proof.
  exists (cfg0 true true (-1) (-1)), G_f2, id_oracles, MAll.
  split; [apply id_oracles_ok|]. split; [split; [vm_compute; reflexivity | unfold local_graph; nodup_compute]|].
  split; [split; [vm_compute; reflexivity | exists (ty "a" "C"); split; [left|]; reflexivity]|].
  split.
  - apply nodup_b_false. vm_compute. reflexivity.
  - intro H. vm_compute in H. discriminate.
Qed.

(** (b) as lists is false: the local rdflib graph of the cache returns the
    statements of a node grouped by predicate, the endpoint in its own order. *)
Definition G_order : sgraph := [ty "a" "C"; st "a" "p" (iri "x"); st "a" "q" (iri "y"); st "a" "p" (iri "z")].
Definition ord_pqp : oracles :=
  {| o_ord := fun _ q l => match fst q with QPO => match l with [t; p1; q1; p2] => [p1; q1; t; p2] | _ => l end | _ => l end;
     o_set := fun _ l => l |}.

Lemma C15_cache_same_list_refuted :
  exists c G O m, dom c G /\ mode_ok c G m /\
    (forall pass q, Permutation (o_ord O pass q (po_match G (ex "a"))) (po_match G (ex "a"))) /\
    yields (r_p2 (run (with_cache true c) m G O)) <> yields (r_p2 (run (with_cache false c) m G O)).
Proof.
  exists (cfg0 true false (-1) (-1)), G_order, ord_pqp, (MClasses [ex "C"]).
  split; [split; [vm_compute; reflexivity | unfold local_graph; nodup_compute]|]. split; [discriminate|].
  split.
  - intros pass [k n]. destruct k; cbn; try apply Permutation_refl.
    change (po_match G_order (ex "a")) with G_order. unfold G_order.
    apply (perm_trans (l' := [st "a" "p" (iri "x"); ty "a" "C"; st "a" "q" (iri "y"); st "a" "p" (iri "z")])).
    + constructor. apply perm_swap.
    + apply perm_swap.
  - intro H. vm_compute in H. discriminate.
Qed.

(** C15-F4.  [instances_cap = 0] means "no cap" for the trackers
    ([Tracker.track]: [cap <= 0]) but becomes [LIMIT 0] on the class selector:
    nothing is delivered although the class has instances. *)
Lemma C15_cap_zero_refuted :
  exists c G O m, ord_ok O /\ dom c G /\ mode_ok c G m /\ c_cap c = 0%Z /\
    instances_of (c_tau c) (ex "C") G <> [] /\
    yields (r_p2 (run c m G O)) = [] /\ log_of (run c m G O) = [(QSel, ex "C" ++ Str " LIMIT 0"); (QSel, ex "C" ++ Str " LIMIT 0")].
Proof.
  exists (cfg0 true false (-1) 0), G_ex, id_oracles, (MClasses [ex "C"]).
  split; [apply id_oracles_ok|]. split; [split; [vm_compute; reflexivity | unfold local_graph; nodup_compute]|].
  split; [discriminate|]. split; [reflexivity|]. split; [vm_compute; discriminate|].
  split; vm_compute; reflexivity.
Qed.

(** C15-F5.  all_classes_mode against an endpoint without any instance: the
    shape map is empty, it has no sgraph, the yielder dies with AttributeError
    (the local extraction answers an empty schema).  This is why [mode_ok]
    asks for one instantiation statement. *)
Lemma C15_no_class_refuted :
  exists c G O, ord_ok O /\ dom c G /\ r_ok (run c MAll G O) = false /\
    r_p1 (run c MAll G O) = [EQ (QClasses, c_tau c); EX XAttr].
Proof.
  exists (cfg0 true false (-1) (-1)), [st "a" "p" (iri "b")], id_oracles.
  split; [apply id_oracles_ok|]. split; [split; [vm_compute; reflexivity | unfold local_graph; nodup_compute]|].
  split; vm_compute; reflexivity.
Qed.

(** C15-F6.  With a LIMIT the class selector is sent once per pass without
    ORDER BY.  An endpoint that lists the instances in another order the
    second time makes the two passes disagree: pass 1 tracks the instances of
    one node, pass 2 is delivered the statements of another. *)
Definition flip_oracles : oracles :=
  {| o_ord := fun pass _ l => if Nat.eqb pass 2 then rev l else l; o_set := fun _ l => l |}.

Lemma C15_limit_two_selects_refuted :
  exists c G O m, ord_ok O /\ dom c G /\ mode_ok c G m /\
    targets c G O 1 m = [ex "a"] /\ targets c G O 2 m = [ex "c"] /\
    map ts (yields (r_p1 (run c m G O))) = [Node KIri (ex "a"); Node KIri (ex "a"); Node KIri (ex "a"); Node KIri (ex "a")] /\
    map ts (yields (r_p2 (run c m G O))) = [Node KIri (ex "c"); Node KIri (ex "c"); Node KIri (ex "c")].
Proof.
  exists (cfg0 true false 1 (-1)), G_ex, flip_oracles, (MClasses [ex "C"]).
  split; [split; intros; cbn; [destruct (Nat.eqb pass 2); [apply Permutation_sym, Permutation_rev | apply Permutation_refl] | apply Permutation_refl]|].
  split; [split; [vm_compute; reflexivity | unfold local_graph; nodup_compute]|].
  split; [discriminate|]. repeat split; vm_compute; reflexivity.
Qed.

(** C15-F3 (outside the property's domain of IRI nodes).  A blank-node object
    is delivered as an [xsd:string] literal holding the endpoint's label; a
    blank-node subject met by the incoming fetch kills the run (ValueError in
    [tune_subj]). *)
Lemma C15_bnode_refuted :
  exists c G O m, ord_ok O /\ r_ok (run c m G O) = false /\
    In {| ts := Node KIri (ex "a"); tp := ex "p"; to := OL (Str "b0") c_STRING_TYPE |} (yields (r_p1 (run c m G O))) /\
    existsb is_EX (r_p1 (run c m G O)) = true.
Proof.
  exists (cfg0 false true (-1) (-1)),
         [ty "a" "C"; {| ss := NI (ex "a"); sp := ex "p"; so := SN (NB (Str "b0")) |};
          {| ss := NB (Str "b1"); sp := ex "q"; so := iri "a" |}],
         id_oracles, (MClasses [ex "C"]).
  split; [apply id_oracles_ok|]. split; [vm_compute; reflexivity|]. split; [in_compute | vm_compute; reflexivity].
Qed.
