(** * C15 -- extraction from a SPARQL endpoint equals extraction from the same graph locally

    Model: [Model/Endpoint.v] ([run c m G O]: the events -- queries sent,
    triples delivered, exceptions -- of the two passes of
    [Shaper(url_endpoint=...).shex_graph] over the endpoint serving [G]).
    [O] holds the oracles: the order in which the endpoint lists the solutions
    of each query, per pass ([o_ord]), and the iteration order of the Python
    set of target nodes ([o_set]); [ord_ok O] says both are permutations.

    [dom c G]: every statement of [G] has an IRI subject and an IRI or literal
    object that the endpoint path (result reader, cache round trip, token
    tuning) reads exactly as the local N-Triples path does ([C15_dom], a
    boolean evaluated by the harness on every generated graph; since the
    repairs of findings C15-F1/F2/F4/F5 it holds for IRI nodes with plain,
    typed and language-tagged literals whose lexical form has no double
    quote, see the Examples), and [G] read locally has no repeated statement.

    [names_ok c m G] ([C15_names_dom], a boolean the harness evaluates): in the
    class modes the selector parser's removal of the keyword [SPARQL] changes
    neither the instantiation property nor a class name, and all_classes_mode
    lists the classes of the instantiation property (findings C15-F9, C15-F10;
    both conditions are [true] once the two repairs are in the tree).

    [targets c G O pass m]: the target nodes of a pass (instances the class
    selectors returned, LIMIT applied; nodes of the shape-map selectors).
    [touching inv T G] = the statements of [G] with subject in [T] or
    (inverse paths) object in [T], each once. *)
From Coq Require Import List Ascii String ZArith Bool Permutation.
From Shexer Require Import Lib.PyStr Lib.Dict Gen.Consts Gen.ConstsC15 Spec.Rdf Spec.EndpointSpec
     Model.Tracker Model.Profiler Model.Endpoint
     Proofs.EndpointProofs Proofs.EndpointLocal Proofs.EndpointMain.
Import ListNotations.

(** (a) For both cache settings ([c] is arbitrary), every mode and every
    oracle: the run does not fail; the feature pass (pass 2) is delivered
    exactly the statements touching its targets, each once, read as the local
    path reads them; the instance pass (pass 1) is delivered the same for its
    targets, or -- when [instances_cap] makes the tracker stop early -- a
    prefix of such a list.  In shape-map mode pass 1 reads no triples. *)
Theorem C15_triples : forall c G O m,
  ord_ok O -> dom c G -> mode_ok m -> names_ok c m G ->
  let r := run c m G O in
  r_ok r = true /\
  Permutation (yields (r_p2 r)) (local_graph (touching (c_inverse c) (targets c G O 2 m) G)) /\
  match m with
  | MShapeMap _ => yields (r_p1 r) = []
  | _ => exists full1,
      Permutation full1 (local_graph (touching (c_inverse c) (targets c G O 1 m) G)) /\
      (yields (r_p1 r) = full1 \/
       ((0 < c_cap c)%Z /\ ~ reads_all c m /\ exists n, yields (r_p1 r) = firstn n full1))
  end.
Proof. exact C15a. Qed.
Print Assumptions C15_triples.

(** no statement is delivered twice to the feature pass (finding C15-F2 repaired) *)
Theorem C15_delivered_once : forall c G O m,
  ord_ok O -> dom c G -> mode_ok m -> names_ok c m G -> NoDup (yields (r_p2 (run c m G O))).
Proof. exact C15a_nodup. Qed.
Print Assumptions C15_delivered_once.

(** Without a LIMIT the targets are exactly the instances of the target classes. *)
Theorem C15_targets_are_instances : forall c G O pass cl x,
  ord_ok O -> dom c G -> (eff_limit c < 0)%Z ->
  (In x (targets c G O pass (MClasses cl)) <-> exists k, In k cl /\ In x (instances_of (c_tau c) k G)).
Proof. exact C15_targets. Qed.
Print Assumptions C15_targets_are_instances.

(** (b) [disable_endpoint_cache] does not change what is delivered: equal as
    multisets (as lists it is false: [C15_cache_same_list_refuted]). *)
Theorem C15_cache_same_result : forall c G O m,
  ord_ok O -> dom c G -> mode_ok m -> names_ok c m G ->
  let rc := run (with_cache true c) m G O in
  let rn := run (with_cache false c) m G O in
  Permutation (yields (r_p2 rc)) (yields (r_p2 rn)) /\
  (reads_all c m -> Permutation (yields (r_p1 rc)) (yields (r_p1 rn))).
Proof. exact C15b. Qed.
Print Assumptions C15_cache_same_result.

(** (c) The query log with the cache is a subsequence (hence a sub-multiset)
    of the log without it, never longer, and with the cache no (kind, node)
    fetch is sent twice.  PARTIAL: proved when pass 1 reads the whole stream
    ([reads_all]: every mode except target classes with a positive
    [instances_cap], where the instance tracker stops reading early and the
    position of the stop is read off two differently ordered streams); the
    check evaluates the statement on capped runs as well. *)
Theorem C15_cache_log_partial : forall c G O m,
  ord_ok O -> dom c G -> mode_ok m -> names_ok c m G -> reads_all c m ->
  let rc := run (with_cache true c) m G O in
  let rn := run (with_cache false c) m G O in
  subseq (log_of rc) (log_of rn) /\
  List.length (log_of rc) <= List.length (log_of rn) /\
  NoDup (filter is_fetch (log_of rc)).
Proof. exact C15c. Qed.
Print Assumptions C15_cache_log_partial.

(** (d) The tie to the local extraction.  For an instance dictionary [I] whose
    keys are the targets: what the endpoint delivers to the feature pass is a
    permutation of exactly the statements of the local graph that the local
    feature pass ([Profiler.annotate_all]) does not skip, and the local feature
    pass computes the same from that restriction as from the whole graph.
    Equality of the final SHAPES then follows from permutation invariance of
    the pipeline (property C09, Props/C09.v: [C09_tracker_permutation],
    [C09_profile_permutation_invariant], [C09_keys_permutation_invariant] --
    without instance cap, up to the choice among tied candidates); that
    composition is not proved here. *)
Theorem C15_equals_local_partial : forall c G O m I,
  ord_ok O -> dom c G -> mode_ok m -> names_ok c m G ->
  let r := run c m G O in
  let T := targets c G O 2 m in
  (forall id, Profiler.tracked I id = mem_str id T) ->
  Permutation (yields (r_p2 r)) (filter (rel (c_inverse c) I) (local_graph G)) /\
  annotate_all (c_tau c) (c_inverse c) (local_graph G) I =
  annotate_all (c_tau c) (c_inverse c) (filter (rel (c_inverse c) I) (local_graph G)) I.
Proof. exact C15d. Qed.
Print Assumptions C15_equals_local_partial.

(** Where the model says that pass 1 stops reading after [n] triples
    ([instances_cap] reached for every target class), the tracker model of the
    pipeline computes the same instances from those [n] triples as from the
    whole stream. *)
Theorem C15_pass1_reads_like_tracker : forall tau m cap g n,
  consumption tau m cap g = CStop n -> track tau m cap g = track tau m cap (firstn n g).
Proof. exact consumption_stop_track. Qed.
Print Assumptions C15_pass1_reads_like_tracker.

(** Since fix c9a1e70 the targets are collected in an insertion-ordered
    dictionary: they are the first occurrences of the selector answers, in
    answer order (no set oracle is left; the theorems above, quantified over
    [o_set], are stronger than needed), and in shape-map mode the fetches are
    sent in exactly that order. *)
Theorem C15_targets_first_occurrence : forall c G O pass m,
  targets c G O pass m =
  dedup str_eqb (flat_map (sel_answers G O (match m with MShapeMap _ => 1 | _ => pass end) (c_tau c)
                                       (match m with MShapeMap _ => (-1)%Z | _ => eff_limit c end))
                          (match m with
                           | MClasses cl => class_items cl
                           | MAll => class_items (all_classes G O pass (c_tau c))
                           | MShapeMap items => items
                           end)).
Proof. exact targets_first_occurrence. Qed.
Print Assumptions C15_targets_first_occurrence.

Theorem C15_fetch_order_shape_map : forall c G O items,
  ord_ok O -> dom c G -> forallb sel_plain items = true ->
  let T := dedup str_eqb (flat_map (sel_answers G O 1 (c_tau c) (-1)) items) in
  queries (r_p2 (run c (MShapeMap items) G O)) =
  map (fun a => (QPO, a)) T ++ (if c_inverse c then map (fun a => (QSP, a)) T else []).
Proof. exact fetch_order_map. Qed.
Print Assumptions C15_fetch_order_shape_map.

(** The set oracle the harness uses (ranking observed at the real set->list
    site) is an instance of the oracles the theorems quantify over. *)
Theorem C15_rank_oracle_ok : forall rank l, NoDup l -> Permutation (order_by_rank rank l) l.
Proof. exact order_by_rank_perm. Qed.
Print Assumptions C15_rank_oracle_ok.

(** ** non-vacuity *)
Definition ex (s : string) : str := Str "http://ex.org/" ++ Str s.
Definition rdf_type : str := c_RDF_TYPE.
Definition iri (s : string) : sterm := SN (NI (ex s)).
Definition plain_lit (s : string) : sterm := SLit (Str s) None None.
Definition int_lit (s : string) : sterm := SLit (Str s) (Some xsd_integer) None.
Definition st (s p : string) (o : sterm) : striple := {| ss := NI (ex s); sp := ex p; so := o |}.
Definition ty (s cl : string) : striple := {| ss := NI (ex s); sp := rdf_type; so := iri cl |}.

Definition id_oracles : oracles := {| o_ord := fun _ _ l => l; o_set := fun _ l => l |}.
Lemma id_oracles_ok : ord_ok id_oracles.
Proof. split; intros; apply Permutation_refl. Qed.

Definition cfg0 (cache inverse : bool) (limit cap : Z) : cfg :=
  {| c_tau := rdf_type; c_cache := cache; c_inverse := inverse;
     c_allow_num := dflt_infer_numeric_types_for_untyped_literals;
     c_last_level := dflt15_track_classes_for_entities_at_last_depth_level;
     c_limit := limit; c_cap := cap |}.

Definition G_ex : sgraph :=
  [ty "a" "C"; st "a" "p" (iri "b"); st "a" "n" (plain_lit "x y"); st "a" "m" (int_lit "5");
   ty "b" "D"; st "b" "p" (iri "c"); ty "c" "C"; st "c" "n" (plain_lit "abc"); st "c" "m" (int_lit "-12")].

Ltac nodup_compute := apply nodup_b_ok; vm_compute; reflexivity.

Definition cA : cfg := cfg0 true true (-1) (-1).

Example C15_dom_inhabited :
  dom cA G_ex /\ mode_ok (MClasses [ex "C"; ex "D"]) /\
  names_ok cA (MClasses [ex "C"; ex "D"]) G_ex /\ names_ok cA MAll G_ex /\
  List.length (yields (r_p2 (run cA (MClasses [ex "C"; ex "D"]) G_ex id_oracles))) = 9 /\
  List.length (log_of (run cA MAll G_ex id_oracles)) = 12 /\
  List.length (log_of (run (cfg0 false true (-1) (-1)) MAll G_ex id_oracles)) = 18.
Proof.
  split; [split; [vm_compute; reflexivity | unfold local_graph; nodup_compute]|].
  split; [exact I|]. repeat split; vm_compute; reflexivity.
Qed.

(** [dom] as a boolean the harness can evaluate ([nodup_b]: no two statements
    of the local reading are equal) *)
Theorem C15_dom_boolean : forall c G,
  C15_dom (c_allow_num c) (c_tau c) G && nodup_b (local_graph G) = true -> dom c G.
Proof.
  intros c G H. apply andb_true_iff in H. destruct H as [H1 H2]. split; [exact H1 | apply nodup_b_ok; exact H2].
Qed.
Print Assumptions C15_dom_boolean.

(** the cache statement (b): "with the cache ON the result is the same", said
    in full for the model; its domain: [dom] asks [NoDup (local_graph G)] -- no
    two served statements are read alike locally -- and [C15_dom] that every
    literal is read by the endpoint path as it is locally.  Outside it the
    statement is false today: see [C15_cache_merges_lang_refuted] and
    [C15_cache_merges_quote_refuted] below. *)

Ltac in_compute := apply in_triple_b; vm_compute; reflexivity.
Ltac not_in_compute := apply notin_triple_b; vm_compute; reflexivity.

(** ** repaired findings, as regression examples *)

(** C15-F1 repaired: language-tagged, typed (also with a datatype that cannot
    be guessed from the lexical form) and numeric-looking plain literals are in
    the domain, with and without the cache, and are delivered as read locally. *)
Definition G_f1 : sgraph :=
  [ty "a" "C"; st "a" "l" (SLit (Str "hola") None (Some (Str "es")));
   st "a" "d" (SLit (Str "2020-01-01") (Some (Str "http://www.w3.org/2001/XMLSchema#date")) None);
   st "a" "s" (plain_lit "42"); st "a" "k" (SLit (Str "007") (Some xsd_integer) None);
   st "a" "c" (SLit (Str "v1") (Some (Str "http://ex.org/dt")) None)].

Example C15_literals_in_domain :
  dom (cfg0 true false (-1) (-1)) G_f1 /\
  yields (r_p2 (run (cfg0 true false (-1) (-1)) (MClasses [ex "C"]) G_f1 id_oracles)) = local_graph G_f1 /\
  yields (r_p2 (run (cfg0 false false (-1) (-1)) (MClasses [ex "C"]) G_f1 id_oracles)) = local_graph G_f1.
Proof.
  split; [split; [vm_compute; reflexivity | unfold local_graph; nodup_compute]|]. split; vm_compute; reflexivity.
Qed.

(** With C06's repair B of [decide_literal_type] (flag [dlt_from_suffix]) the
    domain also holds lexical forms and datatype IRIs containing [^^], [xsd:],
    [dt:], [@]: the kind is read after the closing quote only. *)
Definition G_suffix : sgraph :=
  [ty "a" "C"; st "a" "p" (SLit (Str "xsd:int ^^ dt:x") (Some (Str "http://ex.org/dt")) None);
   st "a" "q" (SLit (Str "v") (Some (Str "mailto:a@b.org")) None); st "a" "r" (plain_lit "^^<x>");
   st "a" "s" (SLit (Str "a@b") None (Some (Str "en")))].

Example C15_suffix_literals_in_domain :
  dlt_from_suffix = true ->
  dom (cfg0 true false (-1) (-1)) G_suffix /\
  yields (r_p2 (run (cfg0 true false (-1) (-1)) (MClasses [ex "C"]) G_suffix id_oracles)) = local_graph G_suffix /\
  yields (r_p2 (run (cfg0 false false (-1) (-1)) (MClasses [ex "C"]) G_suffix id_oracles)) = local_graph G_suffix.
Proof.
  intros H.
  first [ discriminate H
        | split; [split; [vm_compute; reflexivity | unfold local_graph; nodup_compute]|]; split; vm_compute; reflexivity ].
Qed.

(** C15-F2 repaired: a statement linking two targets is delivered once. *)
Definition G_f2 : sgraph := [ty "a" "C"; st "a" "p" (iri "b"); ty "b" "D"].
Example C15_inverse_once :
  dom cA G_f2 /\ yields (r_p2 (run cA MAll G_f2 id_oracles)) = local_graph G_f2.
Proof. split; [split; [vm_compute; reflexivity | unfold local_graph; nodup_compute]|]. vm_compute. reflexivity. Qed.

(** C15-F4 repaired: [instances_cap = 0] is no cap and no LIMIT. *)
Example C15_cap_zero_no_limit :
  eff_limit (cfg0 true false (-1) 0) = (-1)%Z /\
  log_of (run (cfg0 true false (-1) 0) (MClasses [ex "C"]) G_ex id_oracles) =
  log_of (run (cfg0 true false (-1) (-1)) (MClasses [ex "C"]) G_ex id_oracles).
Proof. split; vm_compute; reflexivity. Qed.

(** C15-F5 repaired: all_classes_mode against an endpoint without any
    instance delivers nothing and does not fail. *)
Example C15_no_class_ok :
  r_ok (run (cfg0 true false (-1) (-1)) MAll [st "a" "p" (iri "b")] id_oracles) = true /\
  r_p1 (run (cfg0 true false (-1) (-1)) MAll [st "a" "p" (iri "b")] id_oracles) = [EQ (QClasses, rdf_type)] /\
  yields (r_p2 (run (cfg0 true false (-1) (-1)) MAll [st "a" "p" (iri "b")] id_oracles)) = [].
Proof. repeat split; vm_compute; reflexivity. Qed.

(** ** what is false today (known findings; each with a pinned reproducer
    replayed against the real code by harness/vp/props/c15.py) *)

(** (b) as lists is false: the local rdflib graph of the cache returns the
    statements of a node grouped by predicate, the endpoint in its own order. *)
Definition G_order : sgraph := [ty "a" "C"; st "a" "p" (iri "x"); st "a" "q" (iri "y"); st "a" "p" (iri "z")].
Definition ord_pqp : oracles :=
  {| o_ord := fun _ q l => match fst q with QPO => match l with [t; p1; q1; p2] => [p1; q1; t; p2] | _ => l end | _ => l end;
     o_set := fun _ l => l |}.

Lemma C15_cache_same_list_refuted :
  exists c G O m, dom c G /\ mode_ok m /\
    (forall pass q, Permutation (o_ord O pass q (po_match G (ex "a"))) (po_match G (ex "a"))) /\
    yields (r_p2 (run (with_cache true c) m G O)) <> yields (r_p2 (run (with_cache false c) m G O)).
Proof.
  exists (cfg0 true false (-1) (-1)), G_order, ord_pqp, (MClasses [ex "C"]).
  split; [split; [vm_compute; reflexivity | unfold local_graph; nodup_compute]|]. split; [exact I|].
  split.
  - intros pass [k n]. destruct k; cbn; try apply Permutation_refl.
    change (po_match G_order (ex "a")) with G_order. unfold G_order.
    apply (perm_trans (l' := [st "a" "p" (iri "x"); ty "a" "C"; st "a" "q" (iri "y"); st "a" "p" (iri "z")])).
    + constructor. apply perm_swap.
    + apply perm_swap.
  - intro H. vm_compute in H. discriminate.
Qed.

(** C15-F6.  With a LIMIT the class selector is sent once per pass without
    ORDER BY.  An endpoint that lists the instances in another order the
    second time makes the two passes disagree: pass 1 tracks the instances of
    one node, pass 2 is delivered the statements of another. *)
Definition flip_oracles : oracles :=
  {| o_ord := fun pass _ l => if Nat.eqb pass 2 then rev l else l; o_set := fun _ l => l |}.

Lemma C15_limit_two_selects_refuted :
  exists c G O m, ord_ok O /\ dom c G /\ mode_ok m /\
    targets c G O 1 m = [ex "a"] /\ targets c G O 2 m = [ex "c"] /\
    map ts (yields (r_p1 (run c m G O))) = [Node KIri (ex "a"); Node KIri (ex "a"); Node KIri (ex "a"); Node KIri (ex "a")] /\
    map ts (yields (r_p2 (run c m G O))) = [Node KIri (ex "c"); Node KIri (ex "c"); Node KIri (ex "c")].
Proof.
  exists (cfg0 true false 1 (-1)), G_ex, flip_oracles, (MClasses [ex "C"]).
  split; [split; intros; cbn; [destruct (Nat.eqb pass 2); [apply Permutation_sym, Permutation_rev | apply Permutation_refl] | apply Permutation_refl]|].
  split; [split; [vm_compute; reflexivity | unfold local_graph; nodup_compute]|].
  split; [exact I|]. repeat split; vm_compute; reflexivity.
Qed.

(** C15-F3 (outside the property's domain of IRI nodes).  A blank-node object
    is delivered as an [xsd:string] literal holding the endpoint's label; a
    blank-node subject met by the incoming fetch kills the run (ValueError in
    [tune_subj]). *)
Lemma C15_bnode_refuted :
  exists c G O m, ord_ok O /\ r_ok (run c m G O) = false /\
    In {| ts := Node KIri (ex "a"); tp := ex "p"; to := OL (Str "b0") c_STRING_TYPE |} (yields (r_p1 (run c m G O))) /\
    existsb is_EX (r_p1 (run c m G O)) = true.
Proof.
  exists (cfg0 false true (-1) (-1)),
         [ty "a" "C"; {| ss := NI (ex "a"); sp := ex "p"; so := SN (NB (Str "b0")) |};
          {| ss := NB (Str "b1"); sp := ex "q"; so := iri "a" |}],
         id_oracles, (MClasses [ex "C"]).
  split; [apply id_oracles_ok|]. split; [vm_compute; reflexivity|]. split; [in_compute | vm_compute; reflexivity].
Qed.

(** C15-F7.  The local graph of the cache is built from the model [Literal],
    which keeps no language tag: two literals of one (subject, predicate) that
    differ only in their tag ("chat"@en, "chat"@fr) become one node of the
    rdflib graph, and with the cache ON one statement is delivered where the
    endpoint serves two ({1} for {2} in the shape).  Every statement is in
    [C15_dom] and the served graph is a set; what [dom] excludes is that the
    two are read alike locally ([NoDup (local_graph G)] fails). *)
Definition lang_lit (s l : string) : sterm := SLit (Str s) None (Some (Str l)).
Definition G_lang : sgraph := [ty "a" "C"; st "a" "name" (lang_lit "chat" "en"); st "a" "name" (lang_lit "chat" "fr")].
Definition cC : cfg := cfg0 true false (-1) (-1).

Ltac nodup_served :=
  repeat (constructor; [cbn; intros H; repeat (destruct H as [H|H]; [vm_compute in H; discriminate H|]); exact H|]);
  constructor.

Lemma C15_cache_merges_lang_refuted :
  lsg_token_literal = false ->
  exists c G O m, ord_ok O /\ C15_dom (c_allow_num c) (c_tau c) G = true /\ NoDup G /\ mode_ok m /\ names_ok c m G /\
    ~ NoDup (local_graph G) /\
    List.length (yields (r_p2 (run (with_cache true c) m G O))) = 2 /\
    List.length (yields (r_p2 (run (with_cache false c) m G O))) = 3 /\
    ~ Permutation (yields (r_p2 (run (with_cache true c) m G O))) (yields (r_p2 (run (with_cache false c) m G O))).
Proof.
  intros E.
  first [ vm_compute in E; discriminate E     (* the cache keeps the language tag: nothing to refute *)
        | exists cC, G_lang, id_oracles, (MClasses [ex "C"]);
          split; [apply id_oracles_ok|]; split; [vm_compute; reflexivity|]; split; [unfold G_lang; nodup_served|];
          split; [exact I|]; split; [vm_compute; reflexivity|];
          split; [apply nodup_b_false; vm_compute; reflexivity|];
          split; [vm_compute; reflexivity|]; split; [vm_compute; reflexivity|];
          intros P; apply Permutation_length in P; vm_compute in P; discriminate P ].
Qed.

(** the same input once the cache stores the literal of the token (flag
    [lsg_token_literal], notes/proposed_fixes/C15-cache-keeps-literal.diff) *)
Example C15_cache_keeps_lang_fixed :
  lsg_token_literal = true ->
  yields (r_p2 (run (with_cache true cC) (MClasses [ex "C"]) G_lang id_oracles)) =
  yields (r_p2 (run (with_cache false cC) (MClasses [ex "C"]) G_lang id_oracles)) /\
  List.length (yields (r_p2 (run (with_cache true cC) (MClasses [ex "C"]) G_lang id_oracles))) = 3.
Proof.
  intros E. first [ vm_compute in E; discriminate E | split; vm_compute; reflexivity ].
Qed.

(** C15-F8.  [parse_literal] cuts the content of a quoted token at the first
    inner quote; the cache stores that cut content, so two string literals
    that share the text before an embedded quote ("x "a"", "x "b"") become one
    node: again {1} with the cache, {2} without.  (Such literals are outside
    [C15_dom]: the local reader cuts them elsewhere; the local graph has no
    repetition here.) *)
Definition G_quote : sgraph :=
  [ty "a" "C"; st "a" "n" (plain_lit "x ""a"""); st "a" "n" (plain_lit "x ""b""")].

Lemma C15_cache_merges_quote_refuted :
  lsg_token_literal = false ->
  exists c G O m, ord_ok O /\ NoDup (local_graph G) /\ mode_ok m /\ names_ok c m G /\
    C15_dom (c_allow_num c) (c_tau c) G = false /\
    List.length (yields (r_p2 (run (with_cache true c) m G O))) = 2 /\
    List.length (yields (r_p2 (run (with_cache false c) m G O))) = 3 /\
    ~ Permutation (yields (r_p2 (run (with_cache true c) m G O))) (yields (r_p2 (run (with_cache false c) m G O))).
Proof.
  intros E.
  first [ vm_compute in E; discriminate E
        | exists cC, G_quote, id_oracles, (MClasses [ex "C"]);
          split; [apply id_oracles_ok|]; split; [unfold local_graph; nodup_compute|];
          split; [exact I|]; split; [vm_compute; reflexivity|]; split; [vm_compute; reflexivity|];
          split; [vm_compute; reflexivity|]; split; [vm_compute; reflexivity|];
          intros P; apply Permutation_length in P; vm_compute in P; discriminate P ].
Qed.

Example C15_cache_keeps_quote_fixed :
  lsg_token_literal = true ->
  yields (r_p2 (run (with_cache true cC) (MClasses [ex "C"]) G_quote id_oracles)) =
  yields (r_p2 (run (with_cache false cC) (MClasses [ex "C"]) G_quote id_oracles)) /\
  List.length (yields (r_p2 (run (with_cache true cC) (MClasses [ex "C"]) G_quote id_oracles))) = 3.
Proof.
  intros E. first [ vm_compute in E; discriminate E | split; vm_compute; reflexivity ].
Qed.

(** C15-F9.  all_classes_mode with an instantiation property other than
    rdf:type: [produce_shape_map_according_to_input] asks the endpoint for the
    classes with [yield_classes_with_instances()] -- no argument, so for the
    classes of rdf:type.  Here there is none: no selector, no target, nothing
    delivered, while [a] is an instance of [C] for the property given. *)
Definition cIsA : cfg :=
  {| c_tau := ex "isA"; c_cache := true; c_inverse := false;
     c_allow_num := dflt_infer_numeric_types_for_untyped_literals;
     c_last_level := dflt15_track_classes_for_entities_at_last_depth_level;
     c_limit := (-1)%Z; c_cap := (-1)%Z |}.
Definition G_isA : sgraph := [st "a" "isA" (iri "C"); st "a" "p" (iri "b")].

Lemma C15_all_classes_tau_refuted :
  all_classes_passes_tau = false ->
  exists c G O, ord_ok O /\ dom c G /\ C15_names_dom c MAll G = false /\
    targets c G O 2 MAll = [ex "a"] /\
    r_ok (run c MAll G O) = true /\ yields (r_p2 (run c MAll G O)) = [] /\
    log_of (run c MAll G O) = [(QClasses, rdf_type); (QClasses, rdf_type)] /\
    ~ Permutation (yields (r_p2 (run c MAll G O))) (local_graph (touching (c_inverse c) (targets c G O 2 MAll) G)).
Proof.
  intros E.
  first [ vm_compute in E; discriminate E
        | exists cIsA, G_isA, id_oracles;
          split; [apply id_oracles_ok|];
          split; [split; [vm_compute; reflexivity | unfold local_graph; nodup_compute]|];
          split; [vm_compute; reflexivity|]; split; [vm_compute; reflexivity|];
          split; [vm_compute; reflexivity|]; split; [vm_compute; reflexivity|]; split; [vm_compute; reflexivity|];
          intros P; apply Permutation_length in P; vm_compute in P; discriminate P ].
Qed.

Example C15_all_classes_tau_fixed :
  all_classes_passes_tau = true ->
  names_ok cIsA MAll G_isA /\ yields (r_p2 (run cIsA MAll G_isA id_oracles)) = local_graph G_isA.
Proof.
  intros E. first [ vm_compute in E; discriminate E | split; vm_compute; reflexivity ].
Qed.

(** C15-F10.  The selector of a target class is handed to the selector parser
    as [SPARQL "select ?s where { ?s <tau> <class> ... }"]; the parser removes
    EVERY occurrence of the keyword, also inside the class IRI (or the
    instantiation property): class [http://ex.org/SPARQLThing] is asked for as
    [http://ex.org/Thing], which has no instance. *)
Definition G_kw : sgraph := [ty "a" "SPARQLThing"; st "a" "p" (iri "b")].

Lemma C15_sparql_in_class_refuted :
  c_sel_sparql_strip_once = false ->
  exists c G O m, ord_ok O /\ dom c G /\ mode_ok m /\ C15_names_dom c m G = false /\
    targets c G O 2 m = [ex "a"] /\
    r_ok (run c m G O) = true /\ yields (r_p2 (run c m G O)) = [] /\
    log_of (run c m G O) = [(QSel, ex "Thing"); (QSel, ex "Thing")] /\
    ~ Permutation (yields (r_p2 (run c m G O))) (local_graph (touching (c_inverse c) (targets c G O 2 m) G)).
Proof.
  intros E.
  first [ vm_compute in E; discriminate E
        | exists cC, G_kw, id_oracles, (MClasses [ex "SPARQLThing"]);
          split; [apply id_oracles_ok|];
          split; [split; [vm_compute; reflexivity | unfold local_graph; nodup_compute]|];
          split; [exact I|];
          split; [vm_compute; reflexivity|]; split; [vm_compute; reflexivity|];
          split; [vm_compute; reflexivity|]; split; [vm_compute; reflexivity|]; split; [vm_compute; reflexivity|];
          intros P; apply Permutation_length in P; vm_compute in P; discriminate P ].
Qed.

Example C15_sparql_in_class_fixed :
  c_sel_sparql_strip_once = true ->
  names_ok cC (MClasses [ex "SPARQLThing"]) G_kw /\
  yields (r_p2 (run cC (MClasses [ex "SPARQLThing"]) G_kw id_oracles)) = local_graph G_kw.
Proof.
  intros E. first [ vm_compute in E; discriminate E | split; vm_compute; reflexivity ].
Qed.

(** what [names_ok] asks, spelled out *)
Theorem C15_names_domain : forall c m G,
  C15_names_dom c m G =
  match m with
  | MClasses cl => kw_unchanged (c_tau c) && forallb kw_unchanged cl
  | MAll => kw_unchanged (c_tau c) && str_eqb (tau_all c) (c_tau c) &&
            forallb (fun t => negb (str_eqb (sp t) (rc_false (c_tau c))) || kw_unchanged (value_of_term (so t))) G
  | MShapeMap _ => true
  end.
Proof. reflexivity. Qed.
Print Assumptions C15_names_domain.

Theorem C15_names_no_root_cause :
  c_sel_sparql_strip_once = true -> all_classes_passes_tau = true -> forall c m G, names_ok c m G.
Proof.
  intros E1 E2 c m G. unfold names_ok, C15_names_dom, kw_unchanged, kw_strip, tau_all. rewrite E1, E2.
  destruct m; rewrite ?str_eqb_refl; cbn [andb]; try reflexivity.
  - induction l as [|x l IH]; cbn; [reflexivity|]. rewrite str_eqb_refl. exact IH.
  - induction G as [|t G IH]; cbn; [reflexivity|]. rewrite str_eqb_refl, orb_true_r. exact IH.
Qed.
Print Assumptions C15_names_no_root_cause.
