(** * C16 -- restriction options equal restricting the input.

    [instances_cap = k]: every shape is computed from exactly the first
    min(k, |class|) instances of its class in document order;
    [namespaces_to_ignore = N]: same shapes as deleting every triple whose
    predicate is a direct child of a namespace in N, class membership still
    read from the full graph.

    Vocabulary (Spec/Restrict.v): [memberships tau sc g] = the (instance,
    class) pairs the typing triples of [g] state, in document order ([sc] =
    [None] for all_classes_mode, [Some targets] otherwise);
    [first_k_instances]; [restrict_typing] = the document with the typing
    triples of capped-out memberships deleted; [direct_child]/[ignored];
    [sub_sat P g' g] = [g'] is [g] minus the triples violating [P].
    Model: [Tracker.track] (frozen pipeline model, with the early stop of pure
    target_classes mode), [NsFilter.filter_ns], [Run2.run_shexc2] (the
    extraction with separate sources for the instance pass and the feature
    pass) -- tied to /repo by the correspondence run of harness/vp/props/c16.py. *)
From Coq Require Import List Ascii String ZArith NArith Bool Permutation.
From Shexer Require Import Lib.PyStr Lib.Dict Gen.Consts Spec.Rdf Spec.Restrict Model.Tracker Model.Freq Model.Run
     Model.NsFilter Model.Run2 Proofs.RestrictProofs.
Import ListNotations.

(** ** (cap1) the instances of every class are exactly its first k, in both target modes.
    [cls I i] = class list of instance [i] in the returned dictionary, [inst_of I c] =
    the instances listed for [c] (dictionary order = order of an instance's first kept
    typing triple, hence [Permutation] and not list equality: see [C16_order_witness]). *)
Theorem C16_cap_firstn : forall tau m k g I, (0 < k)%Z -> NoDup g -> ids_faithful g ->
  track tau m k g = inl I ->
  forall c,
    (forall i, In c (cls I i) <-> In i (first_k_instances tau (scope_of m) (Z.to_nat k) g c)) /\
    Permutation (inst_of I c) (first_k_instances tau (scope_of m) (Z.to_nat k) g c) /\
    List.length (inst_of I c) = Nat.min (Z.to_nat k) (List.length (class_subjects tau (scope_of m) g c)).
Proof. exact cap_firstn_graph. Qed.
Print Assumptions C16_cap_firstn.

(** the same from the weaker hypothesis "no membership is stated twice" *)
Theorem C16_cap_firstn_memberships : forall tau m k g I, (0 < k)%Z -> NoDup (memberships tau (scope_of m) g) ->
  track tau m k g = inl I ->
  forall c,
    (forall i, In c (cls I i) <-> In i (first_k_instances tau (scope_of m) (Z.to_nat k) g c)) /\
    Permutation (inst_of I c) (first_k_instances tau (scope_of m) (Z.to_nat k) g c) /\
    List.length (inst_of I c) = Nat.min (Z.to_nat k) (List.length (class_subjects tau (scope_of m) g c)).
Proof. exact cap_firstn. Qed.
Print Assumptions C16_cap_firstn_memberships.

(** the whole dictionary: it is the one built from the kept memberships, in document order *)
Theorem C16_cap_dictionary : forall tau m k g I, (0 < k)%Z -> NoDup (memberships tau (scope_of m) g) ->
  track tau m k g = inl I ->
  I = build (filter (kept tau (scope_of m) (Z.to_nat k) g) (memberships tau (scope_of m) g)) [].
Proof. exact track_cap_is_build. Qed.
Print Assumptions C16_cap_dictionary.

(** ** the early stop of pure target_classes mode skips only triples that the
    non-stopping variant would reject *)
Theorem C16_cap_early_stop : forall tau l cap g, 0 < cap -> tau_ok tau g ->
  track_cap tau (TClasses l) cap (Some (List.length l)) g [] {| cc := []; completed := 0 |}
  = track_cap tau (TClasses l) cap None g [] {| cc := []; completed := 0 |}.
Proof. exact track_cap_stop_eq. Qed.
Print Assumptions C16_cap_early_stop.

(** ... and without any hypothesis on the graph, every normal result of the non-stopping variant is kept *)
Theorem C16_cap_early_stop_sound : forall tau l cap g I, 0 < cap ->
  track_cap tau (TClasses l) cap None g [] {| cc := []; completed := 0 |} = inl I ->
  track_cap tau (TClasses l) cap (Some (List.length l)) g [] {| cc := []; completed := 0 |} = inl I.
Proof. exact track_cap_stop_sound. Qed.
Print Assumptions C16_cap_early_stop_sound.

(** ** (cap2) cap on = no cap on the restricted document (instance pass) *)
Theorem C16_cap_is_restriction : forall tau m k g z, (0 < k)%Z -> (z <= 0)%Z ->
  NoDup g -> ids_faithful g -> tau_ok tau g ->
  track tau m k g = track tau m z (restrict_typing tau (scope_of m) (Z.to_nat k) g).
Proof. exact cap_is_restriction_graph. Qed.
Print Assumptions C16_cap_is_restriction.

(** ... hence the whole ShExC output with the cap equals the output of the
    uncapped extraction whose INSTANCE pass reads the restricted document and
    whose FEATURE pass reads the full one ([instances_file_input] = restricted
    document).  The feature pass must read the full document: the deleted
    typing triples still are [rdf:type [C]] features of instances kept for
    another class (see [C16_plain_restriction_differs]). *)
Theorem C16_cap_is_restriction_run : forall fa c thr g z, (0 < r_cap c)%Z -> (z <= 0)%Z ->
  NoDup g -> ids_faithful g -> tau_ok (r_tau c) g ->
  run_shexc fa c thr g =
  run_shexc2 fa (with_cap c z) thr (restrict_typing (r_tau c) (r_targets c) (Z.to_nat (r_cap c)) g) g.
Proof. exact run_cap_is_restriction_graph. Qed.
Print Assumptions C16_cap_is_restriction_run.

Theorem C16_cap_is_restriction_shapes : forall fa c thr g z, (0 < r_cap c)%Z -> (z <= 0)%Z ->
  NoDup g -> ids_faithful g -> tau_ok (r_tau c) g ->
  run_shapes fa c thr g =
  run_shapes2 fa (with_cap c z) thr (restrict_typing (r_tau c) (r_targets c) (Z.to_nat (r_cap c)) g) g.
Proof. exact run_shapes_cap_is_restriction. Qed.
Print Assumptions C16_cap_is_restriction_shapes.

(** [ids_faithful] is no restriction on real input: it follows from "blank-node
    strings start with _: and IRI strings do not" *)
Theorem C16_ids_faithful_of_marked : forall g, (forall n, node_in g n -> bnode_marked n) -> ids_faithful g.
Proof. exact marked_ids_faithful. Qed.
Print Assumptions C16_ids_faithful_of_marked.

(** ** (cap3) a cap not smaller than every class changes nothing (duplicates allowed) *)
Theorem C16_cap_large_id : forall tau m k g z, (0 < k)%Z -> (z <= 0)%Z -> tau_ok tau g ->
  (forall c, List.length (class_subjects tau (scope_of m) g c) <= Z.to_nat k) ->
  track tau m k g = track tau m z g.
Proof. exact cap_large_id. Qed.
Print Assumptions C16_cap_large_id.

(** ... in particular it equals the run with the option left at its default ([Consts.dflt_instances_cap], read from the source) *)
Theorem C16_cap_large_is_default : forall tau m k g, (0 < k)%Z -> tau_ok tau g ->
  (forall c, List.length (class_subjects tau (scope_of m) g c) <= Z.to_nat k) ->
  track tau m k g = track tau m dflt_instances_cap g.
Proof. exact cap_large_is_default. Qed.
Print Assumptions C16_cap_large_is_default.

Theorem C16_cap_large_id_run : forall fa c thr g z, (0 < r_cap c)%Z -> (z <= 0)%Z -> tau_ok (r_tau c) g ->
  (forall x, List.length (class_subjects (r_tau c) (r_targets c) g x) <= Z.to_nat (r_cap c)) ->
  run_shexc fa c thr g = run_shexc fa (with_cap c z) thr g.
Proof. exact run_cap_large_id. Qed.
Print Assumptions C16_cap_large_id_run.

(** ** (ns1) the code's test is "direct child of some listed namespace" *)
Theorem C16_ns_child_rule : forall ign p, child_of_ns ign p = true <-> ignored ign p.
Proof. exact child_of_ns_spec. Qed.
Print Assumptions C16_ns_child_rule.

(** [namespaces_to_ignore = ign] = the extraction whose feature pass reads the
    unique document obtained by deleting the ignored-predicate triples and
    whose instance pass reads the full document *)
Theorem C16_ns_filter : forall fa c ign thr g,
  exists g', sub_sat (fun t => ~ ignored ign (tp t)) g' g /\
             (forall g'', sub_sat (fun t => ~ ignored ign (tp t)) g'' g -> g'' = g') /\
             run_shexc_ign fa c ign thr g = run_shexc2 fa c thr g g'.
Proof. exact run_ign_is_deletion. Qed.
Print Assumptions C16_ns_filter.

(** predicates one level deeper are kept; with nested namespaces a child of the inner one is not a child of the outer one *)
Theorem C16_ns_deeper_kept : forall ns r, In "/"%char r \/ In "#"%char r -> ~ direct_child ns (ns ++ r).
Proof. exact deeper_not_child. Qed.
Print Assumptions C16_ns_deeper_kept.

Theorem C16_ns_nested : forall ns mid local,
  In "/"%char mid \/ In "#"%char mid -> ~ In "/"%char local -> ~ In "#"%char local ->
  direct_child (ns ++ mid) (ns ++ mid ++ local) /\ ~ direct_child ns (ns ++ mid ++ local).
Proof. exact nested_inner_only. Qed.
Print Assumptions C16_ns_nested.

(** the instantiation property in an ignored namespace: typing triples vanish
    from the feature pass only (membership is read from the full graph by [C16_ns_filter]) *)
Theorem C16_ns_tau_ignored : forall ign tau g t, ignored ign tau -> In t (filter_ns ign g) -> tp t <> tau.
Proof. exact tau_ignored_no_tau_feature. Qed.
Print Assumptions C16_ns_tau_ignored.

(** ** non-vacuity *)

Ltac notin := let H := fresh in intros H; cbn in H; repeat (destruct H as [H|H]; [discriminate H|]); exact H.

Definition ex_tau : str := Str "http://www.w3.org/1999/02/22-rdf-syntax-ns#type".
Definition nI (s : string) : node := Node KIri (Str s).
Definition tt (s c : string) : triple := T (nI s) ex_tau (ON (nI c)).

(** two target classes, interleaved typing triples, a node with two classes;
    cap 2: C keeps a, b (c is capped out of C but kept for D); D keeps b, c;
    the early stop fires at [c type D]; [d type D] is never read *)
Definition ex_g : graph :=
  [tt "a" "C"; tt "b" "D"; tt "b" "C"; T (nI "a") (Str "http://ex.org/p") (OL (Str "x") (Str "dt"));
   tt "c" "C"; tt "c" "D"; tt "d" "D"; T (nI "d") (Str "http://ex.org/p") (ON (nI "a"))].
Definition ex_m : tmode := TClasses [Str "C"; Str "D"].

Example C16_example :
  NoDup (memberships ex_tau (scope_of ex_m) ex_g) /\ tau_ok ex_tau ex_g /\
  track ex_tau ex_m 2 ex_g = inl [(Str "a", [Str "C"]); (Str "b", [Str "D"; Str "C"]); (Str "c", [Str "D"])] /\
  first_k_instances ex_tau (scope_of ex_m) 2 ex_g (Str "C") = [Str "a"; Str "b"] /\
  first_k_instances ex_tau (scope_of ex_m) 2 ex_g (Str "D") = [Str "b"; Str "c"] /\
  List.length (restrict_typing ex_tau (scope_of ex_m) 2 ex_g) = 6 /\
  track ex_tau TAll 2 ex_g = track ex_tau ex_m 2 ex_g.
Proof.
  split; [|split].
  - vm_compute. repeat constructor; notin.
  - intros t Ht Hp. cbn in Ht.
    repeat (destruct Ht as [<-|Ht]; [first [reflexivity | vm_compute in Hp; discriminate Hp]|]). destruct Ht.
  - vm_compute. repeat split; reflexivity.
Qed.

Example C16_ns_example :
  child_of_ns [Str "http://ex.org/"] (Str "http://ex.org/p") = true /\
  child_of_ns [Str "http://ex.org/"] (Str "http://ex.org/a/p") = false /\
  child_of_ns [Str "http://ex.org/"; Str "http://ex.org/a/"] (Str "http://ex.org/a/p") = true /\
  child_of_ns [Str "http://ex.org/a/"] (Str "http://ex.org/p") = false /\
  child_of_ns [Str "http://ex.org/"] (Str "http://ex.org/a#p") = false.
Proof. vm_compute. repeat split; reflexivity. Qed.

(** a listed "namespace" without a trailing separator is compared as a plain
    string prefix (code and Spec agree; recorded so that nobody reads more into "namespace") *)
Example C16_ns_unterminated :
  child_of_ns [Str "http://ex.org/a"] (Str "http://ex.org/ab") = true /\
  child_of_ns [Str "http://ex.org/a"] (Str "http://ex.org/a/b") = false.
Proof. vm_compute. split; reflexivity. Qed.

(** ** witnesses of the boundaries *)

(** Known finding C16-F1: pure target_classes mode, a cap no class reaches, and
    a typing triple whose object is a literal: without the cap the triple is
    just irrelevant, with the cap [_check_class_counts] raises AttributeError
    ("a cap not smaller than every class changes nothing" is false here;
    [tau_ok] in [C16_cap_large_id] cannot be dropped). *)
Definition f1_g : graph := [tt "a" "C"; T (nI "b") ex_tau (OL (Str "x") (Str "dt"))].
Lemma C16_cap_large_literal_refuted :
  exists tau m k g, (0 < k)%Z /\ NoDup g /\
    (forall c, List.length (class_subjects tau (scope_of m) g c) <= Z.to_nat k) /\
    track tau m k g <> track tau m (-1) g.
Proof.
  exists ex_tau, (TClasses [Str "C"]), 5%Z, f1_g. split; [reflexivity|]. split.
  - repeat constructor; notin.
  - split.
    + intros c. unfold class_subjects, subjects_of. rewrite map_length.
      etransitivity; [apply filter_length_le'|]. vm_compute. repeat constructor.
    + vm_compute. discriminate.
Qed.

(** deleting the typing triples from the document BOTH passes read is not the
    same thing: [c] is kept for D and still has the feature [type [C]] in the
    capped run; so the restricted document goes to the instance pass only *)
Lemma C16_plain_restriction_differs :
  exists tau m k g, In (tt "c" "C") g /\ ~ In (tt "c" "C") (restrict_typing tau (scope_of m) k g) /\
                    In (Str "D") (cls (build (memberships tau (scope_of m) (restrict_typing tau (scope_of m) k g)) []) (Str "c")).
Proof.
  exists ex_tau, ex_m, 2, ex_g. split; [cbn; tauto|]. split.
  - vm_compute. notin.
  - vm_compute. tauto.
Qed.

(** dictionary order is not per-class document order (only the SET of kept instances is claimed) *)
Lemma C16_order_witness :
  exists tau m k g I, track tau m k g = inl I /\
    inst_of I (Str "C") = [Str "a"; Str "b"] /\
    first_k_instances tau (scope_of m) (Z.to_nat k) g (Str "C") = [Str "b"; Str "a"].
Proof.
  exists ex_tau, TAll, 5%Z, [tt "a" "D"; tt "b" "C"; tt "a" "C"]. eexists. split; [vm_compute; reflexivity|].
  split; vm_compute; reflexivity.
Qed.

(** a document stating a membership twice (not a graph): the cap counts triples, not instances *)
Lemma C16_duplicate_line_witness :
  exists tau m k g I, track tau m k g = inl I /\ ~ NoDup g /\
    inst_of I (Str "C") = [Str "a"] /\ first_k_instances tau (scope_of m) (Z.to_nat k) g (Str "C") = [Str "a"; Str "b"].
Proof.
  exists ex_tau, TAll, 2%Z, [tt "a" "C"; tt "a" "C"; tt "b" "C"]. eexists. split; [vm_compute; reflexivity|].
  split; [|split; vm_compute; reflexivity].
  intros H. inversion H; subst. apply H2. left; reflexivity.
Qed.
