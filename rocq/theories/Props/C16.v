(** * C16 -- restriction options equal restricting the input.

    [instances_cap = k]: every shape is computed from exactly the first
    min(k, |class|) instances of its class in document order;
    [namespaces_to_ignore = N]: same shapes as deleting every triple whose
    predicate is a direct child of a namespace in N, class membership still
    read from the full graph.

    Vocabulary (Spec/Restrict.v): [memberships tau sc g] = the (instance,
    class) pairs the typing triples of [g] state, in document order ([sc] =
    [None] for all_classes_mode, [Some targets] otherwise);
    [first_k_instances]; [restrict_typing] = the document with the typing
    triples of capped-out memberships deleted; [direct_child]/[ignored];
    [sub_sat P g' g] = [g'] is [g] minus the triples violating [P].
    Model: [Tracker.track] (frozen pipeline model, with the early stop of pure
    target_classes mode), [NsFilter.filter_ns], [Run2.run_shexc2] (the
    extraction with separate sources for the instance pass and the feature
    pass) -- tied to /repo by the correspondence run of harness/vp/props/c16.py.

    [Run2.run_shapes2] / [run_shexc2] / [run_shexc_ign] run the shexing stage in
    the order the code has ([ShexingFix.shex_cur], selected by the generated flag
    [Consts.c_clean_before_merge]): with two documents a class WITH instances can
    be empty at a threshold <= 1 -- namespaces_to_ignore covering the
    instantiation property, [C16_ns_tau_ignored] -- and be referenced, and there
    the two orders of ClassShexer's stages differ ([C16_two_documents_order_refuted]).
    The one-document run in that order is [RunCur.run_shexc_cur]; it is the
    modelled [Run.run_shexc] on [OrderIrrelevant.order_dom]
    (Props/ShexStage.v: [E2E_class_mode_order_irrelevant]), hence the [_modelled]
    forms below. *)
From Coq Require Import List Ascii String ZArith NArith Bool Permutation.
From Shexer Require Import Lib.PyStr Lib.Dict Gen.Consts Spec.Rdf Spec.Restrict Spec.Counts Model.Tracker Model.Profiler
     Model.Freq Model.FreqInst Model.Shexing Model.Run Model.NsFilter Model.Run2 Model.RunCur Proofs.ProfileChar Proofs.ShexKeys Proofs.EndToEnd Proofs.RestrictProofs
     Proofs.RestrictCompose Proofs.OrderIrrelevant.
From Shexer Require Import Proofs.Bin64Round Proofs.EndToEnd2.
Import ListNotations.

(** ** (cap1) the instances of every class are exactly its first k, in both target modes.
    [cls I i] = class list of instance [i] in the returned dictionary, [inst_of I c] =
    the instances listed for [c] (dictionary order = order of an instance's first kept
    typing triple, hence [Permutation] and not list equality: see [C16_order_witness]). *)
Theorem C16_cap_firstn : forall tau m k g I, (0 < k)%Z -> NoDup g -> ids_faithful g ->
  track tau m k g = inl I ->
  forall c,
    (forall i, In c (cls I i) <-> In i (first_k_instances tau (scope_of m) (Z.to_nat k) g c)) /\
    Permutation (inst_of I c) (first_k_instances tau (scope_of m) (Z.to_nat k) g c) /\
    List.length (inst_of I c) = Nat.min (Z.to_nat k) (List.length (class_subjects tau (scope_of m) g c)).
Proof. exact cap_firstn_graph. Qed.
Print Assumptions C16_cap_firstn.

(** the same from the weaker hypothesis "no membership is stated twice" *)
Theorem C16_cap_firstn_memberships : forall tau m k g I, (0 < k)%Z -> NoDup (memberships tau (scope_of m) g) ->
  track tau m k g = inl I ->
  forall c,
    (forall i, In c (cls I i) <-> In i (first_k_instances tau (scope_of m) (Z.to_nat k) g c)) /\
    Permutation (inst_of I c) (first_k_instances tau (scope_of m) (Z.to_nat k) g c) /\
    List.length (inst_of I c) = Nat.min (Z.to_nat k) (List.length (class_subjects tau (scope_of m) g c)).
Proof. exact cap_firstn. Qed.
Print Assumptions C16_cap_firstn_memberships.

(** the whole dictionary: it is the one built from the kept memberships, in document order *)
Theorem C16_cap_dictionary : forall tau m k g I, (0 < k)%Z -> NoDup (memberships tau (scope_of m) g) ->
  track tau m k g = inl I ->
  I = build (filter (kept tau (scope_of m) (Z.to_nat k) g) (memberships tau (scope_of m) g)) [].
Proof. exact track_cap_is_build. Qed.
Print Assumptions C16_cap_dictionary.

(** ** the early stop of pure target_classes mode skips only triples that the
    non-stopping variant would reject (no hypothesis on the graph) *)
Theorem C16_cap_early_stop : forall tau l cap g, 0 < cap ->
  track_cap tau (TClasses l) cap (Some (List.length l)) g [] {| cc := []; completed := 0 |}
  = track_cap tau (TClasses l) cap None g [] {| cc := []; completed := 0 |}.
Proof. exact track_cap_stop_eq. Qed.
Print Assumptions C16_cap_early_stop.

(** the tracker raises exactly when, in all_classes_mode, a typing triple has a
    literal object -- whatever the cap (with target classes it never raises) *)
Theorem C16_track_err_iff : forall tau m k g e,
  track tau m k g = inr e <->
  e = TEAttr /\ m = TAll /\ exists t, In t g /\ tp t = tau /\ is_node (to t) = false.
Proof. exact track_err_iff. Qed.
Print Assumptions C16_track_err_iff.

(** ** (cap2) cap on = no cap on the restricted document (instance pass) *)
Theorem C16_cap_is_restriction : forall tau m k g z, (0 < k)%Z -> (z <= 0)%Z ->
  NoDup g -> ids_faithful g ->
  track tau m k g = track tau m z (restrict_typing tau (scope_of m) (Z.to_nat k) g).
Proof. exact cap_is_restriction_graph. Qed.
Print Assumptions C16_cap_is_restriction.

(** ... hence the whole ShExC output with the cap equals the output of the
    uncapped extraction whose INSTANCE pass reads the restricted document and
    whose FEATURE pass reads the full one ([instances_file_input] = restricted
    document).  The feature pass must read the full document: the deleted
    typing triples still are [rdf:type [C]] features of instances kept for
    another class (see [C16_plain_restriction_differs]). *)
Theorem C16_cap_is_restriction_run : forall fa c thr g z, (0 < r_cap c)%Z -> (z <= 0)%Z ->
  NoDup g -> ids_faithful g ->
  run_shexc_cur fa c thr g =
  run_shexc2 fa (with_cap c z) thr (restrict_typing (r_tau c) (r_targets c) (Z.to_nat (r_cap c)) g) g.
Proof. exact run_cap_is_restriction_graph. Qed.
Print Assumptions C16_cap_is_restriction_run.

Theorem C16_cap_is_restriction_shapes : forall fa c thr g z, (0 < r_cap c)%Z -> (z <= 0)%Z ->
  NoDup g -> ids_faithful g ->
  run_shapes_cur fa c thr g =
  run_shapes2 fa (with_cap c z) thr (restrict_typing (r_tau c) (r_targets c) (Z.to_nat (r_cap c)) g) g.
Proof. exact run_shapes_cap_is_restriction. Qed.
Print Assumptions C16_cap_is_restriction_shapes.

(** the same for the modelled one-document run [Run.run_shexc] / [Run.run_shapes]
    where the order of ClassShexer's stages is irrelevant *)
Theorem C16_cap_is_restriction_run_modelled : forall fa c thr g z, (0 < r_cap c)%Z -> (z <= 0)%Z ->
  NoDup g -> ids_faithful g -> order_dom fa c thr g = true ->
  run_shexc fa c thr g =
  run_shexc2 fa (with_cap c z) thr (restrict_typing (r_tau c) (r_targets c) (Z.to_nat (r_cap c)) g) g.
Proof.
  intros fa c thr g z Hk Hz Hnd Hf Hd. rewrite <- (run_shexc_cur_eq fa c thr g Hd).
  exact (run_cap_is_restriction_graph fa c thr g z Hk Hz Hnd Hf).
Qed.
Print Assumptions C16_cap_is_restriction_run_modelled.

Theorem C16_cap_is_restriction_shapes_modelled : forall fa c thr g z, (0 < r_cap c)%Z -> (z <= 0)%Z ->
  NoDup g -> ids_faithful g -> order_dom fa c thr g = true ->
  run_shapes fa c thr g =
  run_shapes2 fa (with_cap c z) thr (restrict_typing (r_tau c) (r_targets c) (Z.to_nat (r_cap c)) g) g.
Proof.
  intros fa c thr g z Hk Hz Hnd Hf Hd. rewrite <- (run_shapes_cur_eq fa c thr g Hd).
  exact (run_shapes_cap_is_restriction fa c thr g z Hk Hz Hnd Hf).
Qed.
Print Assumptions C16_cap_is_restriction_shapes_modelled.

(** [order_dom] holds without remove_empty_shapes, and with it for thresholds in
    [0, 1] when no class IRI starts with '%' or "@" (binary64: fewer than 2^53 triples) *)
Theorem C16_order_dom_of_input : forall c thr g,
  class_order_dom_b c thr g = true -> order_dom BAlg c thr g = true.
Proof. exact class_order_dom_b_sound. Qed.
Print Assumptions C16_order_dom_of_input.

(** [ids_faithful] is no restriction on real input: it follows from "blank-node
    strings start with _: and IRI strings do not" *)
Theorem C16_ids_faithful_of_marked : forall g, (forall n, node_in g n -> bnode_marked n) -> ids_faithful g.
Proof. exact marked_ids_faithful. Qed.
Print Assumptions C16_ids_faithful_of_marked.

(** ** all figures of a capped run are exact for the first-k subset
    (composition with P1, Props/P1.v, and the shexing theorem K3, Props/ShexStage.v).
    [fig_occ tau I g dir cls p] (Proofs/EndToEnd.v) says where a statement's
    count comes from: for a type key other than the merged NONLITERAL it is ONE
    declarative count [occ dir tau I g cls p key card] (Spec/Counts.v) -- over
    the FULL graph [g], membership of subjects and referenced objects read from
    the capped dictionary [I], which lists exactly the first k instances of
    every class; [post_okR] attaches it to the line and to each comment. *)
Theorem C16_cap_figures_exact : forall fa c thr g ns shapes,
  (0 < r_cap c)%Z -> NoDup g -> ids_faithful g ->
  run_shapes fa c thr g = inl (ns, shapes) ->
  let k := Z.to_nat (r_cap c) in
  exists I,
    track (r_tau c) (mode_of c) (r_cap c) g = inl I /\
    (forall z, (z <= 0)%Z ->
       track (r_tau c) (mode_of c) z (restrict_typing (r_tau c) (r_targets c) k g) = inl I) /\
    (forall cl i, In cl (classes_of I i) <-> In i (first_k_instances (r_tau c) (r_targets c) k g cl)) /\
    forall sh, In sh shapes ->
      sh_n sh = N.of_nat (Nat.min k (List.length (class_subjects (r_tau c) (r_targets c) g (sh_class sh)))) /\
      sh_n sh = class_count I (sh_class sh) /\
      forall st, In st (sh_stmts sh) ->
        (s_inv st = true -> r_inverse c = true) /\
        post_okR (scfg_of c ns) (fig_occ (r_tau c) I g (dir_of (s_inv st)) (sh_class sh) (s_prop st)) st.
Proof. exact cap_figures_exact. Qed.
Print Assumptions C16_cap_figures_exact.

(** ... and for the one-document run with the stage in the order the code has *)
Theorem C16_cap_figures_exact_cur : forall fa c thr g ns shapes,
  (0 < r_cap c)%Z -> NoDup g -> ids_faithful g ->
  run_shapes_cur fa c thr g = inl (ns, shapes) ->
  let k := Z.to_nat (r_cap c) in
  exists I,
    track (r_tau c) (mode_of c) (r_cap c) g = inl I /\
    (forall z, (z <= 0)%Z ->
       track (r_tau c) (mode_of c) z (restrict_typing (r_tau c) (r_targets c) k g) = inl I) /\
    (forall cl i, In cl (classes_of I i) <-> In i (first_k_instances (r_tau c) (r_targets c) k g cl)) /\
    forall sh, In sh shapes ->
      sh_n sh = N.of_nat (Nat.min k (List.length (class_subjects (r_tau c) (r_targets c) g (sh_class sh)))) /\
      sh_n sh = class_count I (sh_class sh) /\
      forall st, In st (sh_stmts sh) ->
        (s_inv st = true -> r_inverse c = true) /\
        post_okR (scfg_of c ns) (fig_occ (r_tau c) I g (dir_of (s_inv st)) (sh_class sh) (s_prop st)) st.
Proof. exact cap_figures_exact_cur. Qed.
Print Assumptions C16_cap_figures_exact_cur.

(** the same statement for the extraction with separate sources (any cap, any
    instance document [gi]): figures are [occ] over the feature graph [gf]
    w.r.t. the dictionary tracked on [gi] *)
Theorem C16_figures_run_shapes2 : forall fa c thr gi gf ns shapes,
  run_shapes2 fa c thr gi gf = inl (ns, shapes) ->
  exists I, track (r_tau c) (mode_of c) (r_cap c) gi = inl I /\
    forall sh, In sh shapes ->
      In (sh_class sh) (class_keys (targets_of (pcfg_of c)) I) /\
      sh_name sh = shape_name (r_shapes_ns c) (sh_class sh) /\
      sh_n sh = class_count I (sh_class sh) /\
      forall st, In st (sh_stmts sh) ->
        (s_inv st = true -> r_inverse c = true) /\
        post_okR (scfg_of c ns) (fig_occ (r_tau c) I gf (dir_of (s_inv st)) (sh_class sh) (s_prop st)) st.
Proof. exact e2e2_figures. Qed.
Print Assumptions C16_figures_run_shapes2.

(** ** (cap3) a cap not smaller than every class changes nothing (any document: duplicates, literal objects) *)
Theorem C16_cap_large_id : forall tau m k g z, (0 < k)%Z -> (z <= 0)%Z ->
  (forall c, List.length (class_subjects tau (scope_of m) g c) <= Z.to_nat k) ->
  track tau m k g = track tau m z g.
Proof. exact cap_large_id. Qed.
Print Assumptions C16_cap_large_id.

(** ... in particular it equals the run with the option left at its default ([Consts.dflt_instances_cap], read from the source) *)
Theorem C16_cap_large_is_default : forall tau m k g, (0 < k)%Z ->
  (forall c, List.length (class_subjects tau (scope_of m) g c) <= Z.to_nat k) ->
  track tau m k g = track tau m dflt_instances_cap g.
Proof. exact cap_large_is_default. Qed.
Print Assumptions C16_cap_large_is_default.

Theorem C16_cap_large_id_run : forall fa c thr g z, (0 < r_cap c)%Z -> (z <= 0)%Z ->
  (forall x, List.length (class_subjects (r_tau c) (r_targets c) g x) <= Z.to_nat (r_cap c)) ->
  run_shexc fa c thr g = run_shexc fa (with_cap c z) thr g.
Proof. exact run_cap_large_id. Qed.
Print Assumptions C16_cap_large_id_run.

Theorem C16_cap_large_id_run_cur : forall fa c thr g z, (0 < r_cap c)%Z -> (z <= 0)%Z ->
  (forall x, List.length (class_subjects (r_tau c) (r_targets c) g x) <= Z.to_nat (r_cap c)) ->
  run_shexc_cur fa c thr g = run_shexc_cur fa (with_cap c z) thr g.
Proof. exact run_cap_large_id_cur. Qed.
Print Assumptions C16_cap_large_id_run_cur.

(** ** (ns1) the code's test is "direct child of some listed namespace" *)
Theorem C16_ns_child_rule : forall ign p, child_of_ns ign p = true <-> ignored ign p.
Proof. exact child_of_ns_spec. Qed.
Print Assumptions C16_ns_child_rule.

(** [namespaces_to_ignore = ign] = the extraction whose feature pass reads the
    unique document obtained by deleting the ignored-predicate triples and
    whose instance pass reads the full document *)
Theorem C16_ns_filter : forall fa c ign thr g,
  exists g', sub_sat (fun t => ~ ignored ign (tp t)) g' g /\
             (forall g'', sub_sat (fun t => ~ ignored ign (tp t)) g'' g -> g'' = g') /\
             run_shexc_ign fa c ign thr g = run_shexc2 fa c thr g g'.
Proof. exact run_ign_is_deletion. Qed.
Print Assumptions C16_ns_filter.

(** predicates one level deeper are kept; with nested namespaces a child of the inner one is not a child of the outer one *)
Theorem C16_ns_deeper_kept : forall ns r, In "/"%char r \/ In "#"%char r -> ~ direct_child ns (ns ++ r).
Proof. exact deeper_not_child. Qed.
Print Assumptions C16_ns_deeper_kept.

Theorem C16_ns_nested : forall ns mid local,
  In "/"%char mid \/ In "#"%char mid -> ~ In "/"%char local -> ~ In "#"%char local ->
  direct_child (ns ++ mid) (ns ++ mid ++ local) /\ ~ direct_child ns (ns ++ mid ++ local).
Proof. exact nested_inner_only. Qed.
Print Assumptions C16_ns_nested.

(** the instantiation property in an ignored namespace: typing triples vanish
    from the feature pass only (membership is read from the full graph by [C16_ns_filter]) *)
Theorem C16_ns_tau_ignored : forall ign tau g t, ignored ign tau -> In t (filter_ns ign g) -> tp t <> tau.
Proof. exact tau_ignored_no_tau_feature. Qed.
Print Assumptions C16_ns_tau_ignored.

(** ... and then the order of ClassShexer's stages matters (all_classes mode,
    threshold 4/5, default options): C has two instances and [p] on one of them,
    D references C; without its typing constraint C is empty at the threshold.
    [run_shexc2_old] is the two-document run with the stage in the OLD order
    (merge, then [_clean_empty_shapes]): it loses D, the code keeps D with the
    constraint on the node kind.  Hence [Run2] follows the flag. *)
Lemma C16_two_documents_order_refuted :
  c_clean_before_merge = true ->
  exists c ign thr g,
    child_of_ns ign (r_tau c) = true /\ r_targets c = None /\ class_iris_ok c g = true /\
    wf_frac thr /\ fle BAlg thr (fone BAlg) = true /\
    order_dom2 BAlg c thr g (filter_ns ign g) = false /\
    exists t1 t2, run_shexc_ign BAlg c ign thr g = inl t1 /\
                  run_shexc2_old BAlg c thr g (filter_ns ign g) = inl t2 /\ t1 <> t2.
Proof. exact order_two_documents_refuted. Qed.

(** where no class of the feature-pass profile is empty at the threshold
    ([order_dom2], a boolean on the input) the two orders agree *)
Theorem C16_two_documents_order_irrelevant : forall fa c thr gi gf,
  order_dom2 fa c thr gi gf = true -> run_shexc2 fa c thr gi gf = run_shexc2_old fa c thr gi gf.
Proof. exact run_shexc2_eq_old. Qed.
Print Assumptions C16_two_documents_order_irrelevant.

(** ** non-vacuity *)

Ltac notin := let H := fresh in intros H; cbn in H; repeat (destruct H as [H|H]; [discriminate H|]); exact H.

Definition ex_tau : str := Str "http://www.w3.org/1999/02/22-rdf-syntax-ns#type".
Definition nI (s : string) : node := Node KIri (Str s).
Definition tt (s c : string) : triple := T (nI s) ex_tau (ON (nI c)).

(** two target classes, interleaved typing triples, a node with two classes;
    cap 2: C keeps a, b (c is capped out of C but kept for D); D keeps b, c;
    the early stop fires at [c type D]; [d type D] is never read *)
Definition ex_g : graph :=
  [tt "a" "C"; tt "b" "D"; tt "b" "C"; T (nI "a") (Str "http://ex.org/p") (OL (Str "x") (Str "dt"));
   tt "c" "C"; tt "c" "D"; tt "d" "D"; T (nI "d") (Str "http://ex.org/p") (ON (nI "a"))].
Definition ex_m : tmode := TClasses [Str "C"; Str "D"].

Example C16_example :
  NoDup (memberships ex_tau (scope_of ex_m) ex_g) /\
  track ex_tau ex_m 2 ex_g = inl [(Str "a", [Str "C"]); (Str "b", [Str "D"; Str "C"]); (Str "c", [Str "D"])] /\
  first_k_instances ex_tau (scope_of ex_m) 2 ex_g (Str "C") = [Str "a"; Str "b"] /\
  first_k_instances ex_tau (scope_of ex_m) 2 ex_g (Str "D") = [Str "b"; Str "c"] /\
  List.length (restrict_typing ex_tau (scope_of ex_m) 2 ex_g) = 6 /\
  track ex_tau TAll 2 ex_g = track ex_tau ex_m 2 ex_g.
Proof.
  split.
  - vm_compute. repeat constructor; notin.
  - vm_compute. repeat split; reflexivity.
Qed.

Example C16_ns_example :
  child_of_ns [Str "http://ex.org/"] (Str "http://ex.org/p") = true /\
  child_of_ns [Str "http://ex.org/"] (Str "http://ex.org/a/p") = false /\
  child_of_ns [Str "http://ex.org/"; Str "http://ex.org/a/"] (Str "http://ex.org/a/p") = true /\
  child_of_ns [Str "http://ex.org/a/"] (Str "http://ex.org/p") = false /\
  child_of_ns [Str "http://ex.org/"] (Str "http://ex.org/a#p") = false.
Proof. vm_compute. repeat split; reflexivity. Qed.

(** a listed "namespace" without a trailing separator is compared as a plain
    string prefix (code and Spec agree; recorded so that nobody reads more into "namespace") *)
Example C16_ns_unterminated :
  child_of_ns [Str "http://ex.org/a"] (Str "http://ex.org/ab") = true /\
  child_of_ns [Str "http://ex.org/a"] (Str "http://ex.org/a/b") = false.
Proof. vm_compute. split; reflexivity. Qed.

(** ** witnesses of the boundaries *)

(** Former finding C16-F1 (fixed in /repo: [InstanceCapMode.is_relevant_triple]
    asks the wrapped strategy first): target classes, a cap no class reaches
    and a typing triple with a literal object -- the cap changes nothing *)
Definition f1_g : graph := [tt "a" "C"; T (nI "b") ex_tau (OL (Str "x") (Str "dt"))].
Example C16_F1_regression :
  track ex_tau (TClasses [Str "C"]) 5 f1_g = track ex_tau (TClasses [Str "C"]) (-1) f1_g /\
  track ex_tau (TClasses [Str "C"]) 5 f1_g = inl [(Str "a", [Str "C"])] /\
  track ex_tau TAll 5 f1_g = inr TEAttr /\ track ex_tau TAll (-1) f1_g = inr TEAttr.
Proof. vm_compute. repeat split; reflexivity. Qed.

(** deleting the typing triples from the document BOTH passes read is not the
    same thing: [c] is kept for D and still has the feature [type [C]] in the
    capped run; so the restricted document goes to the instance pass only *)
Lemma C16_plain_restriction_differs :
  exists tau m k g, In (tt "c" "C") g /\ ~ In (tt "c" "C") (restrict_typing tau (scope_of m) k g) /\
                    In (Str "D") (cls (build (memberships tau (scope_of m) (restrict_typing tau (scope_of m) k g)) []) (Str "c")).
Proof.
  exists ex_tau, ex_m, 2, ex_g. split; [cbn; tauto|]. split.
  - vm_compute. notin.
  - vm_compute. tauto.
Qed.

(** dictionary order is not per-class document order (only the SET of kept instances is claimed) *)
Lemma C16_order_witness :
  exists tau m k g I, track tau m k g = inl I /\
    inst_of I (Str "C") = [Str "a"; Str "b"] /\
    first_k_instances tau (scope_of m) (Z.to_nat k) g (Str "C") = [Str "b"; Str "a"].
Proof.
  exists ex_tau, TAll, 5%Z, [tt "a" "D"; tt "b" "C"; tt "a" "C"]. eexists. split; [vm_compute; reflexivity|].
  split; vm_compute; reflexivity.
Qed.

(** a document stating a membership twice (not a graph): the cap counts triples, not instances *)
Lemma C16_duplicate_line_witness :
  exists tau m k g I, track tau m k g = inl I /\ ~ NoDup g /\
    inst_of I (Str "C") = [Str "a"] /\ first_k_instances tau (scope_of m) (Z.to_nat k) g (Str "C") = [Str "a"; Str "b"].
Proof.
  exists ex_tau, TAll, 2%Z, [tt "a" "C"; tt "a" "C"; tt "b" "C"]. eexists. split; [vm_compute; reflexivity|].
  split; [|split; vm_compute; reflexivity].
  intros H. inversion H; subst. apply H2. left; reflexivity.
Qed.
