(** * P1 -- foundation theorem of the extraction pipeline: the class profile
    the model builds contains exactly the counts of [Spec/Counts.v].

    Statements only; proofs are in [Proofs/ProfileChar.v].  Lookups:
    [fget f p k] = [f.get(p,{}).get(k,0)] on instance features,
    [plook d p k card] = [d.get(p,{}).get(k,{}).get(card,0)] on class features,
    [fmem]/[pmem] = "the entry exists". *)
From Coq Require Import List Ascii String ZArith NArith Bool Permutation.
From Shexer Require Import Lib.PyStr Lib.Dict Gen.Consts Spec.Rdf Model.Tracker Model.Profiler
     Spec.Counts Proofs.DictLemmas Proofs.ProfileChar Proofs.ProfileOrder.
Import ListNotations.
Local Open Scope N_scope.

(** ** (a) the feature pass over the triple stream *)

(** A successful pass leaves the instance keys and their classes untouched and
    stores, per instance, exactly [cnt]: an entry exists iff the count is
    positive.  Without inverse paths the inverse features stay empty.  No
    hypothesis on [I] or [G]. *)
Theorem P1_annotate_all_char : forall tau inverse (I : insts) (G : graph) ID,
  annotate_all tau inverse G (adapt I) = inl ID ->
  dmapv i_classes ID = I /\
  dkeys ID = dkeys I /\
  forall i e, dget ID i = Some e ->
    i_classes e = classes_of I i /\
    feat_wf (i_direct e) /\ feat_wf (i_inverse e) /\
    (forall p k, fget (i_direct e) p k = cnt Direct tau I G i p k) /\
    (forall p k, fmem (i_direct e) p k = true <-> 0 < cnt Direct tau I G i p k) /\
    (if inverse
     then (forall p k, fget (i_inverse e) p k = cnt Inverse tau I G i p k) /\
          (forall p k, fmem (i_inverse e) p k = true <-> 0 < cnt Inverse tau I G i p k)
     else i_inverse e = []).
Proof. exact annotate_all_char. Qed.
Print Assumptions P1_annotate_all_char.

(** The pass raises exactly when some [tau]-triple whose subject is an
    instance has a literal object, and then always AttributeError. *)
Theorem P1_annotate_all_err : forall tau inverse (I : insts) (G : graph) e,
  annotate_all tau inverse G (adapt I) = inr e <->
  e = PEAttr /\ exists t, In t G /\ bad_triple tau I t.
Proof. exact annotate_all_err. Qed.
Print Assumptions P1_annotate_all_err.

Theorem P1_annotate_all_ok_iff : forall tau inverse (I : insts) (G : graph),
  (exists ID, annotate_all tau inverse G (adapt I) = inl ID) <->
  (forall t, In t G -> ~ bad_triple tau I t).
Proof. exact annotate_all_ok_iff. Qed.
Print Assumptions P1_annotate_all_ok_iff.

(** ** (b) the class profile before cleaning *)

(** [raw_profile cfg I ID] is the pair ([P1], [C0]) computed inside [profile]
    (see [P1_profile_result]).  Class keys: requested targets, then the classes
    of [I] in first-occurrence order; class counts: number of listings; every
    lookup is [occ]; an entry exists iff some [occ] is positive. *)
Theorem P1_profile_counts_char : forall cfg (I : insts) (G : graph) ID P1 C0,
  NoDup (dkeys I) ->
  annotate_all (p_tau cfg) (p_inverse cfg) G (adapt I) = inl ID ->
  raw_profile cfg I ID = (P1, C0) ->
  dkeys P1 = class_keys (targets_of cfg) I /\
  dkeys C0 = dkeys P1 /\
  NoDup (dkeys P1) /\
  (forall c, In c (dkeys P1) -> dget C0 c = Some (class_count I c)) /\
  forall c e, dget P1 c = Some e ->
    (forall p k card, plook (c_direct e) p k card = occ Direct (p_tau cfg) I G c p k card) /\
    (forall p k, pmem (c_direct e) p k = true <->
                 exists card, 0 < occ Direct (p_tau cfg) I G c p k card) /\
    (if p_inverse cfg
     then (forall p k card, plook (c_inverse e) p k card = occ Inverse (p_tau cfg) I G c p k card) /\
          (forall p k, pmem (c_inverse e) p k = true <->
                       exists card, 0 < occ Inverse (p_tau cfg) I G c p k card)
     else c_inverse e = []).
Proof. exact profile_counts_char. Qed.
Print Assumptions P1_profile_counts_char.

(** Entry-wise form (what a stage iterating over the dictionaries needs):
    every stored number is the declarative count and is positive; keys are
    unique at the three levels ([centry_wf]); a class "has features" iff some
    count is positive. *)
Theorem P1_profile_entries_char : forall cfg (I : insts) (G : graph) ID P1 C0,
  NoDup (dkeys I) ->
  annotate_all (p_tau cfg) (p_inverse cfg) G (adapt I) = inl ID ->
  raw_profile cfg I ID = (P1, C0) ->
  forall c e, dget P1 c = Some e ->
    centry_wf e /\
    (forall p m k cd card n, In (p, m) (c_direct e) -> In (k, cd) m -> In (card, n) cd ->
       n = occ Direct (p_tau cfg) I G c p k card /\ 0 < n) /\
    (c_direct e <> [] <-> exists p k card, 0 < occ Direct (p_tau cfg) I G c p k card) /\
    (p_inverse cfg = true ->
     (forall p m k cd card n, In (p, m) (c_inverse e) -> In (k, cd) m -> In (card, n) cd ->
        n = occ Inverse (p_tau cfg) I G c p k card /\ 0 < n) /\
     (c_inverse e <> [] <-> exists p k card, 0 < occ Inverse (p_tau cfg) I G c p k card)).
Proof. exact profile_entries_char. Qed.
Print Assumptions P1_profile_entries_char.

(** ** (d) cleaning, and the result of [profile] *)

(** Cleaning never fails and is exactly one removal round ... *)
Theorem P1_clean_profile_char : forall fuel inv labels P,
  clean_profile (S fuel) inv labels P =
  inl (remove_iteration (shapes_to_remove inv labels P) P).
Proof. exact clean_profile_char. Qed.
Print Assumptions P1_clean_profile_char.

(** ... which removes exactly the class keys that are not original labels and
    have no features ... *)
Theorem P1_In_shapes_to_remove : forall inv labels P c,
  In c (shapes_to_remove inv labels P) <->
  exists e, In (c, e) P /\ ~ In c labels /\ has_features inv e = false.
Proof. exact In_shapes_to_remove. Qed.
Print Assumptions P1_In_shapes_to_remove.

(** ... keeps the other class keys in order, and deletes from the type-key
    dictionaries exactly the keys equal to a removed class key. *)
Theorem P1_remove_iteration_char : forall ks P,
  dkeys (remove_iteration ks P) = filter (not_in ks) (dkeys P) /\
  (forall c, dget (remove_iteration ks P) c =
             if mem_str c ks then None else option_map (clean_entry ks) (dget P c)) /\
  (forall d, dkeys (remove_keys_pdict ks d) = dkeys d) /\
  (forall d p k card, plook (remove_keys_pdict ks d) p k card =
                      if mem_str k ks then 0 else plook d p k card) /\
  (forall d p k, pmem (remove_keys_pdict ks d) p k = negb (mem_str k ks) && pmem d p k).
Proof.
  intros ks P. split; [apply dkeys_remove_iteration|]. split; [apply dget_remove_iteration|].
  split; [apply dkeys_remove_keys_pdict|]. split; [apply plook_remove_keys_pdict | apply pmem_remove_keys_pdict].
Qed.
Print Assumptions P1_remove_iteration_char.

Theorem P1_profile_result : forall c (I : insts) (g : graph),
  profile c I g =
  match annotate_all (p_tau c) (p_inverse c) g (adapt I) with
  | inr e => inr e
  | inl ID =>
    let '(P1, C0) := raw_profile c I ID in
    inl (if p_remove_empty c
         then remove_iteration (shapes_to_remove (p_inverse c) (orig_labels c) P1) P1
         else P1, C0, ID)
  end.
Proof. exact profile_result. Qed.
Print Assumptions P1_profile_result.

Theorem P1_profile_unchanged : forall c (I : insts) (g : graph) ID P1 C0,
  annotate_all (p_tau c) (p_inverse c) g (adapt I) = inl ID ->
  raw_profile c I ID = (P1, C0) ->
  p_remove_empty c = false \/ shapes_to_remove (p_inverse c) (orig_labels c) P1 = [] ->
  profile c I g = inl (P1, C0, ID).
Proof. exact profile_unchanged. Qed.
Print Assumptions P1_profile_unchanged.

(** The final result of [profile], cleaning included, in the entry-wise form
    the shape-building stage consumes: every stored number is the declarative
    count (soundness) ... *)
Theorem P1_profile_final_char : forall cfg (I : insts) (G : graph) P C ID,
  NoDup (dkeys I) ->
  profile cfg I G = inl (P, C, ID) ->
  annotate_all (p_tau cfg) (p_inverse cfg) G (adapt I) = inl ID /\
  NoDup (dkeys P) /\
  (exists ks, dkeys P = filter (not_in ks) (class_keys (targets_of cfg) I) /\
              (p_remove_empty cfg = false -> ks = [])) /\
  dkeys C = class_keys (targets_of cfg) I /\
  (forall c, In c (class_keys (targets_of cfg) I) -> dget C c = Some (class_count I c)) /\
  forall c e, In (c, e) P ->
    dget P c = Some e /\
    (forall p m k cd card n, In (p, m) (c_direct e) -> In (k, cd) m -> In (card, n) cd ->
       n = occ Direct (p_tau cfg) I G c p k card /\ 0 < n) /\
    (p_inverse cfg = true ->
     forall p m k cd card n, In (p, m) (c_inverse e) -> In (k, cd) m -> In (card, n) cd ->
       n = occ Inverse (p_tau cfg) I G c p k card /\ 0 < n) /\
    (p_inverse cfg = false -> c_inverse e = []).
Proof. exact profile_final_char. Qed.
Print Assumptions P1_profile_final_char.

(** ... and every positive declarative count is stored (completeness), except
    under type keys that are class keys removed by the cleaning. *)
Theorem P1_profile_final_complete : forall cfg (I : insts) (G : graph) P C ID,
  NoDup (dkeys I) ->
  profile cfg I G = inl (P, C, ID) ->
  forall c e, In (c, e) P ->
  forall p k, (In k (class_keys (targets_of cfg) I) -> In k (dkeys P)) ->
    (forall card, 0 < occ Direct (p_tau cfg) I G c p k card ->
       exists m cd, In (p, m) (c_direct e) /\ In (k, cd) m /\
                    In (card, occ Direct (p_tau cfg) I G c p k card) cd) /\
    (p_inverse cfg = true ->
     forall card, 0 < occ Inverse (p_tau cfg) I G c p k card ->
       exists m cd, In (p, m) (c_inverse e) /\ In (k, cd) m /\
                    In (card, occ Inverse (p_tau cfg) I G c p k card) cd).
Proof. exact profile_final_complete. Qed.
Print Assumptions P1_profile_final_complete.

(** ** (c) direct features do not depend on the inverse flag (feeds C14) *)

(** [strip_i]/[strip_c] erase the inverse component of an instance / class
    entry.  Without cleaning the run without inverse paths IS the stripped run
    with inverse paths: same outcome class, same class counts, same direct
    features, same order. *)
Theorem P1_profile_inverse_flag_raw : forall cfg (I : insts) (G : graph),
  p_remove_empty cfg = false ->
  profile (set_inverse cfg false) I G =
  match profile (set_inverse cfg true) I G with
  | inl (P, C, ID) => inl (dmapv strip_c P, C, dmapv strip_i ID)
  | inr e => inr e
  end.
Proof. exact profile_inverse_flag_raw. Qed.
Print Assumptions P1_profile_inverse_flag_raw.

Theorem P1_profile_direct_independent_of_inverse :
  forall cfg (I : insts) (G : graph) Pt Ct IDt Pf Cf IDf,
  p_remove_empty cfg = false ->
  profile (set_inverse cfg true) I G = inl (Pt, Ct, IDt) ->
  profile (set_inverse cfg false) I G = inl (Pf, Cf, IDf) ->
  Cf = Ct /\
  dkeys Pf = dkeys Pt /\
  map (fun ce : str * centry => (fst ce, c_direct (snd ce))) Pf =
  map (fun ce : str * centry => (fst ce, c_direct (snd ce))) Pt /\
  (forall c et ef, dget Pt c = Some et -> dget Pf c = Some ef -> c_direct ef = c_direct et) /\
  map (fun ie : str * ientry => (fst ie, i_direct (snd ie))) IDf =
  map (fun ie : str * ientry => (fst ie, i_direct (snd ie))) IDt.
Proof. exact profile_direct_independent_of_inverse. Qed.
Print Assumptions P1_profile_direct_independent_of_inverse.

(** With cleaning the same holds when both cleanings remove the same class
    keys (sufficient: [shapes_to_remove_strip_eq] -- no non-label class has
    inverse features only) ... *)
Theorem P1_profile_inverse_flag : forall cfg (I : insts) (G : graph),
  (p_remove_empty cfg = true ->
   forall ID P1 C0,
     annotate_all (p_tau cfg) true G (adapt I) = inl ID ->
     raw_profile (set_inverse cfg true) I ID = (P1, C0) ->
     shapes_to_remove false (orig_labels cfg) (dmapv strip_c P1) =
     shapes_to_remove true (orig_labels cfg) P1) ->
  profile (set_inverse cfg false) I G =
  match profile (set_inverse cfg true) I G with
  | inl (P, C, ID) => inl (dmapv strip_c P, C, dmapv strip_i ID)
  | inr e => inr e
  end.
Proof. exact profile_inverse_flag. Qed.
Print Assumptions P1_profile_inverse_flag.

(** ... and unconditionally: equal class counts and instance features; a class
    kept by both runs has the same direct counts except under type keys that
    are class keys removed by the run without inverse paths. *)
Theorem P1_profile_direct_independent_of_inverse_clean :
  forall cfg (I : insts) (G : graph) Pt Ct IDt Pf Cf IDf,
  profile (set_inverse cfg true) I G = inl (Pt, Ct, IDt) ->
  profile (set_inverse cfg false) I G = inl (Pf, Cf, IDf) ->
  Cf = Ct /\
  IDf = dmapv strip_i IDt /\
  (forall c, In c (dkeys Pf) -> In c (dkeys Pt)) /\
  forall c et ef, dget Pt c = Some et -> dget Pf c = Some ef ->
    forall p k card,
      plook (c_direct ef) p k card =
      if mem_str k (class_keys (targets_of cfg) I) && negb (mem_str k (dkeys Pf))
      then 0 else plook (c_direct et) p k card.
Proof. exact profile_direct_independent_of_inverse_clean. Qed.
Print Assumptions P1_profile_direct_independent_of_inverse_clean.

(** For an instance dictionary each of whose listed instances is the subject of
    some triple of the graph -- in particular the one the tracker computes
    from the same graph -- there is no side condition at all. *)
Theorem P1_profile_inverse_flag_subjects : forall cfg (I : insts) (G : graph),
  NoDup (dkeys I) ->
  (forall i cs, In (i, cs) I -> cs <> [] -> exists t, In t G /\ nid (ts t) = i) ->
  profile (set_inverse cfg false) I G =
  match profile (set_inverse cfg true) I G with
  | inl (P, C, ID) => inl (dmapv strip_c P, C, dmapv strip_i ID)
  | inr e => inr e
  end.
Proof. exact profile_inverse_flag_subjects. Qed.
Print Assumptions P1_profile_inverse_flag_subjects.

Theorem P1_profile_inverse_flag_tracked : forall cfg m cap (G : graph) (I : insts),
  track (p_tau cfg) m cap G = inl I ->
  profile (set_inverse cfg false) I G =
  match profile (set_inverse cfg true) I G with
  | inl (P, C, ID) => inl (dmapv strip_c P, C, dmapv strip_i ID)
  | inr e => inr e
  end.
Proof. exact profile_inverse_flag_tracked. Qed.
Print Assumptions P1_profile_inverse_flag_tracked.

(** The tracker's dictionary satisfies the hypothesis [NoDup (dkeys I)] of (b). *)
Theorem P1_track_insts_ok : forall tau m cap (G : graph) (I : insts),
  track tau m cap G = inl I ->
  NoDup (dkeys I) /\
  forall i, In i (dkeys I) -> exists t, In t G /\ nid (ts t) = i /\ tp t = tau.
Proof. exact track_insts_ok. Qed.
Print Assumptions P1_track_insts_ok.

(** ** (e) statement order does not matter (feeds C09) *)

Theorem P1_cnt_perm : forall dir tau (I : insts) (G G' : graph) i p k,
  Permutation G G' -> cnt dir tau I G i p k = cnt dir tau I G' i p k.
Proof. exact cnt_perm. Qed.
Print Assumptions P1_cnt_perm.

(** ([class_count I c] does not mention the graph.) *)
Theorem P1_occ_perm : forall dir tau (I : insts) (G G' : graph) c p k card,
  Permutation G G' -> occ dir tau I G c p k card = occ dir tau I G' c p k card.
Proof. exact occ_perm. Qed.
Print Assumptions P1_occ_perm.

Theorem P1_annotate_all_ok_perm : forall tau inv (I : insts) (G G' : graph),
  Permutation G G' ->
  (exists ID, annotate_all tau inv G (adapt I) = inl ID) ->
  (exists ID, annotate_all tau inv G' (adapt I) = inl ID).
Proof. exact annotate_all_ok_perm. Qed.
Print Assumptions P1_annotate_all_ok_perm.

(** ** key orders: every dictionary lists its keys in first-occurrence order

    [fsub f p] / [psub d p] / [csub m k] are "the inner dictionary, or the
    empty one".  Cleaning keeps the orders (it only filters). *)

Theorem P1_annotate_all_order_char : forall tau inverse (I : insts) (G : graph) ID,
  annotate_all tau inverse G (adapt I) = inl ID ->
  forall i e, dget ID i = Some e ->
    dkeys (i_direct e) = inst_props Direct G i /\
    (forall p, dkeys (fsub (i_direct e) p) = inst_keys Direct tau I G i p) /\
    (forall p m, dget (i_direct e) p = Some m -> dkeys m = inst_keys Direct tau I G i p) /\
    (inverse = true ->
     dkeys (i_inverse e) = inst_props Inverse G i /\
     (forall p, dkeys (fsub (i_inverse e) p) = inst_keys Inverse tau I G i p) /\
     (forall p m, dget (i_inverse e) p = Some m -> dkeys m = inst_keys Inverse tau I G i p)).
Proof. exact annotate_all_order_char. Qed.
Print Assumptions P1_annotate_all_order_char.

Theorem P1_profile_order_char : forall cfg (I : insts) (G : graph) ID P1 C0,
  NoDup (dkeys I) ->
  annotate_all (p_tau cfg) (p_inverse cfg) G (adapt I) = inl ID ->
  raw_profile cfg I ID = (P1, C0) ->
  forall c e, dget P1 c = Some e ->
    dkeys (c_direct e) = class_props Direct I G c /\
    (forall p, dkeys (psub (c_direct e) p) = class_type_keys Direct (p_tau cfg) I G c p) /\
    (forall p k, ckeys (csub (psub (c_direct e) p) k) = class_cards Direct (p_tau cfg) I G c p k) /\
    (p_inverse cfg = true ->
     dkeys (c_inverse e) = class_props Inverse I G c /\
     (forall p, dkeys (psub (c_inverse e) p) = class_type_keys Inverse (p_tau cfg) I G c p) /\
     (forall p k, ckeys (csub (psub (c_inverse e) p) k) = class_cards Inverse (p_tau cfg) I G c p k)).
Proof. exact profile_order_char. Qed.
Print Assumptions P1_profile_order_char.

(** ** elementary facts about the declarative counts *)

Theorem P1_occ_le_class_count : forall dir tau (I : insts) (G : graph) c p k card,
  occ dir tau I G c p k card <= class_count I c.
Proof. exact occ_le_class_count. Qed.
Print Assumptions P1_occ_le_class_count.

Theorem P1_occ_exact_le_plus : forall dir tau (I : insts) (G : graph) c p k n,
  str_eqb p tau = false ->
  occ dir tau I G c p k (CKn n) <= occ dir tau I G c p k CKplus.
Proof. exact occ_exact_le_plus. Qed.
Print Assumptions P1_occ_exact_le_plus.

Theorem P1_occ_tau_only_one : forall dir tau (I : insts) (G : graph) c k card,
  card <> CKn 1 -> occ dir tau I G c tau k card = 0.
Proof. exact occ_tau_only_one. Qed.
Print Assumptions P1_occ_tau_only_one.

(** ** non-vacuity: a concrete graph

    Two classes C, D; three instances: a : C, b : C and D (multi-typed), the
    blank node _:x : D; an untyped IRI u; a literal.

      a type C . b type C . b type D . _:x type D .
      a p b .  a p u .  a p "v"^^xsd:string .  b p _:x .  _:x p a .            *)

Definition ex_tau : str := Str "http://www.w3.org/1999/02/22-rdf-syntax-ns#type".
Definition ex_C : str := Str "http://ex.org/C".
Definition ex_D : str := Str "http://ex.org/D".
Definition ex_p : str := Str "http://ex.org/p".
Definition ex_xsd_string : str := Str "http://www.w3.org/2001/XMLSchema#string".
Definition ex_a : node := Node KIri (Str "http://ex.org/a").
Definition ex_b : node := Node KIri (Str "http://ex.org/b").
Definition ex_u : node := Node KIri (Str "http://ex.org/u").
Definition ex_x : node := Node KBnode (Str "_:x").

Definition ex_G : graph :=
  [ T ex_a ex_tau (ON (Node KIri ex_C));
    T ex_b ex_tau (ON (Node KIri ex_C));
    T ex_b ex_tau (ON (Node KIri ex_D));
    T ex_x ex_tau (ON (Node KIri ex_D));
    T ex_a ex_p (ON ex_b);
    T ex_a ex_p (ON ex_u);
    T ex_a ex_p (OL (Str "v") ex_xsd_string);
    T ex_b ex_p (ON ex_x);
    T ex_x ex_p (ON ex_a) ].

Definition ex_I : insts :=
  [ (nid ex_a, [ex_C]); (nid ex_b, [ex_C; ex_D]); (nid ex_x, [ex_D]) ].

Definition ex_cfg : pcfg :=
  {| p_tau := ex_tau; p_inverse := true; p_remove_empty := true; p_targets := None; p_map_labels := [] |}.

Definition ex_lab (c : str) : str := shape_name c_SHAPES_DEFAULT_NAMESPACE c.

(** the instance dictionary is what the tracker computes, its keys are unique *)
Example P1_example_hypotheses :
  track ex_tau TAll (-1) ex_G = inl ex_I /\ NoDup (dkeys ex_I).
Proof.
  split; [vm_compute; reflexivity|].
  repeat constructor; cbn; intros H; repeat (destruct H as [H|H]; [discriminate H|]); exact H.
Qed.

(** the declarative counts are the expected numbers ... *)
Example P1_example_spec :
  class_count ex_I ex_C = 2 /\ class_count ex_I ex_D = 2 /\
  class_keys [] ex_I = [ex_C; ex_D] /\
  (* a has two IRI values for p, b has none, so: *)
  occ Direct ex_tau ex_I ex_G ex_C ex_p c_IRI_ELEM_TYPE (CKn 2) = 1 /\
  occ Direct ex_tau ex_I ex_G ex_C ex_p c_IRI_ELEM_TYPE (CKn 1) = 0 /\
  occ Direct ex_tau ex_I ex_G ex_C ex_p c_IRI_ELEM_TYPE CKplus = 1 /\
  (* a -> b (: C, D) and b -> _:x (: D): both instances of C have one value of shape D *)
  occ Direct ex_tau ex_I ex_G ex_C ex_p (ex_lab ex_D) (CKn 1) = 2 /\
  occ Direct ex_tau ex_I ex_G ex_C ex_p (ex_lab ex_C) (CKn 1) = 1 /\
  occ Direct ex_tau ex_I ex_G ex_C ex_p c_BNODE_ELEM_TYPE (CKn 1) = 1 /\
  occ Direct ex_tau ex_I ex_G ex_C ex_p ex_xsd_string (CKn 1) = 1 /\
  (* the instantiation property: value sets, cardinality 1 only *)
  occ Direct ex_tau ex_I ex_G ex_C ex_tau ex_C (CKn 1) = 2 /\
  occ Direct ex_tau ex_I ex_G ex_C ex_tau ex_D (CKn 1) = 1 /\
  occ Direct ex_tau ex_I ex_G ex_C ex_tau ex_C CKplus = 0 /\
  (* D = {b, _:x}: _:x -> a *)
  occ Direct ex_tau ex_I ex_G ex_D ex_p c_IRI_ELEM_TYPE (CKn 1) = 1 /\
  (* inverse: a <- _:x (blank subject: type only, Q4); b <- a; _:x <- b *)
  occ Inverse ex_tau ex_I ex_G ex_C ex_p c_BNODE_ELEM_TYPE (CKn 1) = 1 /\
  occ Inverse ex_tau ex_I ex_G ex_C ex_p (ex_lab ex_D) (CKn 1) = 0 /\
  occ Inverse ex_tau ex_I ex_G ex_D ex_p c_IRI_ELEM_TYPE (CKn 1) = 2 /\
  occ Inverse ex_tau ex_I ex_G ex_D ex_p (ex_lab ex_C) (CKn 1) = 2 /\
  occ Inverse ex_tau ex_I ex_G ex_D ex_p (ex_lab ex_D) (CKn 1) = 1.
Proof. vm_compute. repeat split; reflexivity. Qed.

Example P1_example_orders :
  class_props Direct ex_I ex_G ex_C = [ex_tau; ex_p] /\
  class_type_keys Direct ex_tau ex_I ex_G ex_C ex_p =
    [c_IRI_ELEM_TYPE; ex_lab ex_C; ex_lab ex_D; ex_xsd_string; c_BNODE_ELEM_TYPE] /\
  class_cards Direct ex_tau ex_I ex_G ex_C ex_p c_IRI_ELEM_TYPE = [CKn 2; CKplus] /\
  class_cards Direct ex_tau ex_I ex_G ex_C ex_tau ex_C = [CKn 1].
Proof. vm_compute. repeat split; reflexivity. Qed.

(** ... and the model run succeeds and stores the same numbers *)
Example P1_example_model :
  exists P C ID,
    profile ex_cfg ex_I ex_G = inl (P, C, ID) /\
    dkeys P = [ex_C; ex_D] /\ C = [(ex_C, 2); (ex_D, 2)] /\
    exists eC eD, dget P ex_C = Some eC /\ dget P ex_D = Some eD /\
      plook (c_direct eC) ex_p c_IRI_ELEM_TYPE (CKn 2) = 1 /\
      plook (c_direct eC) ex_p c_IRI_ELEM_TYPE (CKn 1) = 0 /\
      plook (c_direct eC) ex_p c_IRI_ELEM_TYPE CKplus = 1 /\
      plook (c_direct eC) ex_p (ex_lab ex_D) (CKn 1) = 2 /\
      plook (c_direct eC) ex_tau ex_C (CKn 1) = 2 /\
      plook (c_direct eC) ex_tau ex_D (CKn 1) = 1 /\
      plook (c_direct eD) ex_p c_IRI_ELEM_TYPE (CKn 1) = 1 /\
      plook (c_inverse eC) ex_p c_BNODE_ELEM_TYPE (CKn 1) = 1 /\
      plook (c_inverse eD) ex_p c_IRI_ELEM_TYPE (CKn 1) = 2 /\
      plook (c_inverse eD) ex_p (ex_lab ex_C) (CKn 1) = 2 /\
      plook (c_inverse eD) ex_p (ex_lab ex_D) (CKn 1) = 1.
Proof.
  destruct (profile ex_cfg ex_I ex_G) as [[[P C] ID]|e] eqn:E; vm_compute in E; [|discriminate E].
  injection E as <- <- <-. do 3 eexists. split; [reflexivity|].
  split; [vm_compute; reflexivity|]. split; [vm_compute; reflexivity|].
  do 2 eexists. split; [vm_compute; reflexivity|]. split; [vm_compute; reflexivity|].
  vm_compute. repeat split; reflexivity.
Qed.

(** the general theorem applies to the example: its hypotheses hold *)
Example P1_example_theorem_applies :
  exists ID P1 C0,
    annotate_all (p_tau ex_cfg) (p_inverse ex_cfg) ex_G (adapt ex_I) = inl ID /\
    raw_profile ex_cfg ex_I ID = (P1, C0) /\
    profile ex_cfg ex_I ex_G = inl (P1, C0, ID) /\
    forall c e, dget P1 c = Some e ->
      forall p k card, plook (c_direct e) p k card = occ Direct ex_tau ex_I ex_G c p k card.
Proof.
  destruct (annotate_all (p_tau ex_cfg) (p_inverse ex_cfg) ex_G (adapt ex_I)) as [ID|e] eqn:HA;
    [|vm_compute in HA; discriminate HA].
  destruct (raw_profile ex_cfg ex_I ID) as [P1 C0] eqn:HR.
  exists ID, P1, C0. split; [reflexivity|]. split; [exact HR|].
  destruct P1_example_hypotheses as [_ ND].
  split.
  - apply (profile_unchanged ex_cfg ex_I ex_G ID P1 C0 HA HR). right.
    revert HR. vm_compute in HA. injection HA as <-. vm_compute. intros HR. injection HR as <- _. reflexivity.
  - intros c e He. destruct (profile_counts_char ex_cfg ex_I ex_G ID P1 C0 ND HA HR) as [_ [_ [_ [_ H]]]].
    destruct (H c e He) as [HD _]. exact HD.
Qed.
