(** * C06 at the channels -- the N-Triples reader /repo has NOW, composed with C08 and the pipeline.

    [Props/C08.v] ([C08_nt_line_compositional] ... [C08_nt_text_channel_independent]) composes the
    channels with [NtReader.run_lines]: the model of the tokeniser AS IT WAS before the repairs
    9171edc / 6538a5e / 0a5a576, on its domain [NtDom.C06_dom].  The statements below are the same
    compositions for [nt_reader_cur], the document loop of [NtReader.process_line_cur] (the text
    selected by the flags generated from /repo), on [NtDomCur.C06_dom_cur] -- and, once every repair
    is in /repo, with no domain left and no hang on any text.  Lemmas: [Proofs/NtChannelsCur.v]. *)
From Coq Require Import List Ascii String ZArith NArith Bool.
From Shexer Require Import Lib.PyStr Gen.Consts Spec.Rdf Model.Freq Model.Shexing Model.Run Model.RunCur Model.Channels
     Spec.ChannelSpec Proofs.ChannelProofs Proofs.ChannelReaders Proofs.NtChannelsCur.
From Shexer Require Model.NtReader Spec.NtSyntax Spec.NtDomCur.
Import ListNotations.

(** the reader is C06's: the N-Triples channel over a raw string IS [read_raw_string_cur] *)
Theorem C06_channel_is_reader_cur :
  forall pyfloat read_ttl gunzip unxz unzip rdf_parse allow o doc,
    channel pyfloat (nt_reader_cur allow) read_ttl gunzip unxz unzip rdf_parse o (Str "nt") None (SRaw doc)
    = rd_of_doc (NtReader.read_raw_string_cur allow doc).
Proof. exact nt_chan_raw_cur. Qed.
Print Assumptions C06_channel_is_reader_cur.

(** the hypotheses of C08's partition theorems, for ALL lines, valid or not *)
Theorem C06_channel_line_compositional : forall allow, line_compositional (nt_reader_cur allow).
Proof. exact nt_reader_cur_compositional. Qed.
Print Assumptions C06_channel_line_compositional.

Theorem C06_channel_blank_silent : forall allow, blank_silent (nt_reader_cur allow).
Proof. exact nt_reader_cur_blank_silent. Qed.
Print Assumptions C06_channel_blank_silent.

(** any lines, any partition into plain / gz / xz files, zip members, zip archives: the stream of the
    single raw string *)
Theorem C06_channel_partition_invisible :
  forall pyfloat allow read_ttl gunzip unxz unzip rdf_parse o o',
    let chan := channel pyfloat (nt_reader_cur allow) read_ttl gunzip unxz unzip rdf_parse in
    (forall cm lss stored,
        cm_plain cm -> Forall (Forall line_ok) lss ->
        Forall2 (stored_as gunzip unxz cm) (map render_lines lss) stored ->
        rd_stream (chan o (Str "nt") cm (SFiles stored))
        = rd_stream (chan o' (Str "nt") None (SRaw (render_lines (List.concat lss))))) /\
    (forall cm ls st,
        cm_plain cm -> Forall line_ok ls -> stored_as gunzip unxz cm (render_lines ls) st ->
        rd_stream (chan o (Str "nt") cm (SFile st)) = rd_stream (chan o' (Str "nt") None (SRaw (render_lines ls)))) /\
    (forall archive lss,
        Forall (Forall line_ok) lss -> archive_holds unzip archive lss ->
        rd_stream (chan o (Str "nt") (Some c_ZIP) (SFile archive))
        = rd_stream (chan o' (Str "nt") None (SRaw (render_lines (List.concat lss))))) /\
    (forall archives lsss,
        Forall (Forall (Forall line_ok)) lsss -> Forall2 (archive_holds unzip) archives lsss ->
        rd_stream (chan o (Str "nt") (Some c_ZIP) (SFiles archives))
        = rd_stream (chan o' (Str "nt") None (SRaw (render_lines (List.concat (List.concat lsss)))))).
Proof. exact partition_invisible_nt_cur. Qed.
Print Assumptions C06_channel_partition_invisible.

(** from the TEXT to the abstract graph: C06 ; C08 ; pipeline, on [C06_dom_cur] *)
Theorem C06_channel_text_to_graph :
  forall pyfloat allow read_ttl gunzip unxz unzip rdf_parse fa c thr (o1 o2 : porc)
         (ts : list (NtSyntax.striple * NtSyntax.layout)),
    Forall (fun x => NtSyntax.valid_triple (fst x) = true /\ NtSyntax.valid_layout (snd x) = true /\
                     NtDomCur.C06_dom_cur (fst x) (snd x) = true) ts ->
    run_over_passes fa c thr (passes pyfloat (nt_reader_cur allow) read_ttl gunzip unxz unzip rdf_parse o1 o2
                                     (Str "nt") None (SRaw (NtSyntax.nt_doc ts)))
    = Some (run_shapes_cur fa c thr (nt_graph ts)).
Proof. exact nt_text_to_graph_cur. Qed.
Print Assumptions C06_channel_text_to_graph.

(** ... and over every partition of the document's lines *)
Theorem C06_channel_text_channel_independent :
  forall pyfloat allow read_ttl gunzip unxz unzip rdf_parse fa c thr (o1 o2 : porc)
         (ts : list (NtSyntax.striple * NtSyntax.layout)),
    let P := passes pyfloat (nt_reader_cur allow) read_ttl gunzip unxz unzip rdf_parse in
    Forall nt_ok_case_cur ts -> Forall line_ok (nt_lines ts) ->
    (forall cm lss stored,
        List.concat lss = nt_lines ts -> cm_plain cm ->
        Forall2 (stored_as gunzip unxz cm) (map render_lines lss) stored ->
        run_over_passes fa c thr (P o1 o2 (Str "nt") cm (SFiles stored)) = Some (run_shapes_cur fa c thr (nt_graph ts))) /\
    (forall cm st,
        cm_plain cm -> stored_as gunzip unxz cm (render_lines (nt_lines ts)) st ->
        run_over_passes fa c thr (P o1 o2 (Str "nt") cm (SFile st)) = Some (run_shapes_cur fa c thr (nt_graph ts))) /\
    (forall archive lss,
        List.concat lss = nt_lines ts -> archive_holds unzip archive lss ->
        run_over_passes fa c thr (P o1 o2 (Str "nt") (Some c_ZIP) (SFile archive)) = Some (run_shapes_cur fa c thr (nt_graph ts))) /\
    (forall archives lsss,
        List.concat (List.concat lsss) = nt_lines ts -> Forall2 (archive_holds unzip) archives lsss ->
        run_over_passes fa c thr (P o1 o2 (Str "nt") (Some c_ZIP) (SFiles archives)) = Some (run_shapes_cur fa c thr (nt_graph ts))).
Proof. exact nt_text_channel_independent_cur. Qed.
Print Assumptions C06_channel_text_channel_independent.

(** with every repair in /repo: every valid statement, every valid layout -- no domain *)
Theorem C06_channel_text_to_graph_full :
  forall pyfloat allow read_ttl gunzip unxz unzip rdf_parse fa c thr (o1 o2 : porc)
         (ts : list (NtSyntax.striple * NtSyntax.layout)),
    nt_fixed_tok = true -> nt_fixed_dlt = true -> nt_tok_end_at_hash = true ->
    Forall (fun x => NtSyntax.valid_triple (fst x) = true /\ NtSyntax.valid_layout (snd x) = true) ts ->
    run_over_passes fa c thr (passes pyfloat (nt_reader_cur allow) read_ttl gunzip unxz unzip rdf_parse o1 o2
                                     (Str "nt") None (SRaw (NtSyntax.nt_doc ts)))
    = Some (run_shapes_cur fa c thr (nt_graph ts)).
Proof. exact nt_text_to_graph_full. Qed.
Print Assumptions C06_channel_text_to_graph_full.

(** ... and no lines at all make the N-Triples reader end in the hang outcome *)
Theorem C06_channel_never_hangs :
  forall allow, nt_fixed_tok = true -> nt_fixed_dlt = true -> nt_uri_unclosed_to_eol = true ->
  forall ls, nt_reader_cur allow ls <> inr (nt_abort None).
Proof. exact nt_reader_cur_never_hangs. Qed.
Print Assumptions C06_channel_never_hangs.

(** ** documents with comment lines and blank lines ([NtSyntax.dline], [NtSyntax.nt_document]):
    the pipeline sees the statements' graph ([nt_graph_of_doc]); partial on [dline_dom_cur]
    (comment lines only once the reader skips them, finding C06-F9), full with every repair *)
Theorem C06_channel_document_to_graph :
  forall pyfloat allow read_ttl gunzip unxz unzip rdf_parse fa c thr (o1 o2 : porc) (ds : list NtSyntax.dline),
    Forall (fun d => NtSyntax.valid_dline d = true /\ NtDomCur.dline_dom_cur d = true) ds ->
    run_over_passes fa c thr (passes pyfloat (nt_reader_cur allow) read_ttl gunzip unxz unzip rdf_parse o1 o2
                                     (Str "nt") None (SRaw (NtSyntax.nt_document ds)))
    = Some (run_shapes_cur fa c thr (nt_graph_of_doc ds)).
Proof. exact nt_doc_to_graph_cur. Qed.
Print Assumptions C06_channel_document_to_graph.

Theorem C06_channel_document_to_graph_full :
  forall pyfloat allow read_ttl gunzip unxz unzip rdf_parse fa c thr (o1 o2 : porc) (ds : list NtSyntax.dline),
    nt_fixed_tok = true -> nt_fixed_dlt = true -> nt_tok_end_at_hash = true -> nt_skips_comment_lines = true ->
    Forall (fun d => NtSyntax.valid_dline d = true) ds ->
    run_over_passes fa c thr (passes pyfloat (nt_reader_cur allow) read_ttl gunzip unxz unzip rdf_parse o1 o2
                                     (Str "nt") None (SRaw (NtSyntax.nt_document ds)))
    = Some (run_shapes_cur fa c thr (nt_graph_of_doc ds)).
Proof. exact nt_doc_to_graph_full. Qed.
Print Assumptions C06_channel_document_to_graph_full.
