(** * C19 -- extraction is deterministic across processes

    The model ([Model/Determinism.v]) makes every consultation of something
    other than the arguments explicit: the iteration order of each Python [set]
    that is iterated or turned into a list is a list argument (any permutation
    of the set's elements), the [random] module is an oracle [rand : nat -> str].
    The theorems below are independence from those arguments.  The list of
    sites is tied to /repo by tools/scan_oracle_sites.py (corpus/C19/sites.json):
    a site the scan finds and the list does not know breaks the tie.

    [C19_integrate_dicts_key_order]: the dictionary merge of the mixed tracker
    (shape map + all_classes_mode) orders its keys by the two input orders only.

    rdflib's own iteration order and blank-node ids are NOT modelled; a source
    that passes through rdflib (input_format turtle/xml/n3/json-ld, URL input,
    an rdflib Graph object) is outside the statement (known finding C19-F1). *)
From Coq Require Import List Ascii String ZArith Bool Permutation.
From Shexer Require Import Lib.PyStr Lib.Dict Gen.Consts Model.Determinism Proofs.DeterminismProofs.
From Shexer Require Model.Tracker Model.Selectors Proofs.DictLemmas Proofs.IntegrateOrder.
Import ListNotations.

(** "nothing in the result depends on randomness unless all four default
    shape-namespace prefixes are taken by the user": for ALL namespace
    dictionaries with a free priority prefix ([c_PRIORITY_PREFIXES_FOR_SHAPES]
    comes from the source), [find_adequate_prefix_for_shapes_namespaces]
    returns the same prefix whatever the random oracle and the fuel of its loop. *)
Theorem C19_prefix_oracle_independent : forall d : nsd,
  (exists p, In p c_PRIORITY_PREFIXES_FOR_SHAPES /\ ~ In p (values d)) ->
  forall rand rand' fuel fuel', find_prefix rand fuel d = find_prefix rand' fuel' d.
Proof. exact prefix_oracle_independent. Qed.
Print Assumptions C19_prefix_oracle_independent.

(** and the condition is sharp: with all of them taken the result IS the oracle's *)
Theorem C19_prefix_random_iff_all_taken : forall d : nsd,
  (forall p, In p c_PRIORITY_PREFIXES_FOR_SHAPES -> In p (values d)) ->
  forall rand fuel, find_prefix rand fuel d = rand_loop rand fuel 0 (values d).
Proof. exact prefix_random_when_all_taken. Qed.
Print Assumptions C19_prefix_random_iff_all_taken.

(** ClassProfiler._iteration_remove_empty_shapes ITERATES the set returned by
    _detect_shapes_to_remove (deletes key by key): the profile that results is
    the same for every iteration order. *)
Theorem C19_profile_removal_order_independent : forall (V : Type) (o o' : list str) (p : profile V),
  Permutation o o' -> remove_iteration o p = remove_iteration o' p.
Proof. intros V. exact remove_iteration_perm. Qed.
Print Assumptions C19_profile_removal_order_independent.

(** ClassShexer uses its set of empty shape names for membership tests only *)
Theorem C19_shape_removal_order_independent :
  forall (stmt : Type) (st_type : stmt -> str) (o o' : list str) (shapes : list (str * list stmt)),
  Permutation o o' -> remove_gone st_type o shapes = remove_gone st_type o' shapes.
Proof. intros stmt. exact remove_gone_perm. Qed.
Print Assumptions C19_shape_removal_order_independent.

(** SgraphFromSelectorsTripleYielder (endpoint mode): the order of the target
    nodes fixes the order in which the nodes' triples are fetched.  Only the
    MULTISET of yielded triples is independent of that order (this theorem) ...
    Since notes/proposed_fixes/C19-target-node-order.diff the order is no
    longer an oracle (insertion-ordered dict instead of a set): the site has
    left corpus/C19/sites.json and these two statements document why it had to. *)
Theorem C19_target_order_partial :
  forall (triple : Type) (po : str -> list triple) (obj_iri : triple -> option str) (cls : str -> list triple)
         (classes_at_last_level : bool) (o o' : list str),
  Permutation o o' ->
  Permutation (yield_triples triple po obj_iri cls classes_at_last_level o)
              (yield_triples triple po obj_iri cls classes_at_last_level o').
Proof. exact yield_triples_perm. Qed.
Print Assumptions C19_target_order_partial.

(** ... the SEQUENCE is not, and later stages observe it: the order in which
    property keys are first seen is the insertion order of the profile
    dictionaries, which the stable sort of equally frequent constraints keeps.
    Finding C19-F2 (the ShExC text of an endpoint extraction changed with
    PYTHONHASHSEED), fixed. *)
Definition po_w (s : str) : list (str * str) :=
  if str_eqb s (Str "a") then [(Str "a", Str "p")] else if str_eqb s (Str "b") then [(Str "b", Str "q")] else [].
Lemma C19_target_order_refuted :
  exists (po : str -> list (str * str)) (o o' : list str),
    NoDup o /\ Permutation o o' /\
    first_seen (map snd (yield_triples _ po (fun _ => None) (fun _ => []) false o)) <>
    first_seen (map snd (yield_triples _ po (fun _ => None) (fun _ => []) false o')).
Proof.
  exists po_w, [Str "a"; Str "b"], [Str "b"; Str "a"]. split; [|split].
  - repeat constructor; cbn; intuition discriminate.
  - apply perm_swap.
  - vm_compute. discriminate.
Qed.

(** MixedInstanceTracker._integrate_dicts (a shape map next to
    all_classes_mode: the dictionary of the shape-map tracker and the one of
    the class tracker are merged; [Model/Selectors.v: integrate_dicts], whose
    ORDERED result the check compares with the real function, entry
    c19_integrate).  The class profiler walks the merged dictionary, so its key
    order reaches the ShExC text (order of equally frequent constraints, shape
    examples).  That order is a function of the key orders of the two
    dictionaries -- each of them insertion-ordered, hence a function of the
    document -- and of nothing else: no set, no hash.  The function is a
    reviewed site of corpus/C19/sites.json pinned by the hash of its source:
    an edit re-opens this review. *)
Theorem C19_add_new_unfold : forall acc k,
  DictLemmas.add_new acc k = if mem_str k acc then acc else acc ++ [k].
Proof. reflexivity. Qed.

Theorem C19_integrate_dicts_key_order : forall (ref new : Tracker.insts) n,
  dkeys (fst (Selectors.integrate_dicts ref new n)) = fold_left DictLemmas.add_new (dkeys new) (dkeys ref).
Proof. exact IntegrateOrder.integrate_dicts_key_order. Qed.
Print Assumptions C19_integrate_dicts_key_order.

(** the class lists, the class names already in use and the disambiguation
    counter have no influence on it *)
Theorem C19_integrate_dicts_key_order_function : forall (ref ref' new new' : Tracker.insts) n n',
  dkeys ref = dkeys ref' -> dkeys new = dkeys new' ->
  dkeys (fst (Selectors.integrate_dicts ref new n)) = dkeys (fst (Selectors.integrate_dicts ref' new' n')).
Proof. exact IntegrateOrder.integrate_dicts_key_order_function. Qed.
Print Assumptions C19_integrate_dicts_key_order_function.

(** for a dictionary (every key once): the reference keys, then the keys only
    the second tracker knows, in the second tracker's order *)
Theorem C19_integrate_dicts_new_keys_in_order : forall (ref new : Tracker.insts) n,
  NoDup (dkeys new) ->
  dkeys (fst (Selectors.integrate_dicts ref new n)) = dkeys ref ++ filter (fun k => negb (dmem ref k)) (dkeys new).
Proof. exact IntegrateOrder.integrate_dicts_key_order_filter. Qed.
Print Assumptions C19_integrate_dicts_new_keys_in_order.

(** non-vacuity: hub selected by the shape map; g2, g0, g1 typed in that
    order in the document, g0 also selected *)
Example C19_integrate_dicts_example :
  let ref := [(Str "hub", [Str "<Hub>"]); (Str "g0", [Str "<Hub>"])] in
  let new := [(Str "g2", [Str "G"]); (Str "g0", [Str "G"]); (Str "g1", [Str "G"])] in
  NoDup (dkeys new) /\
  fst (Selectors.integrate_dicts ref new 0) =
    [(Str "hub", [Str "<Hub>"]); (Str "g0", [Str "<Hub>"; Str "G"]); (Str "g2", [Str "G"]); (Str "g1", [Str "G"])].
Proof.
  split; [|vm_compute; reflexivity].
  repeat constructor; cbn; intuition discriminate.
Qed.

(** non-vacuity: the default situation (user dictionary without the empty prefix) *)
Example C19_prefix_example :
  (exists p, In p c_PRIORITY_PREFIXES_FOR_SHAPES /\ ~ In p (values [(Str "http://ex.org/", Str "ex")])) /\
  find_prefix (fun _ => Str "zzz") 0 [(Str "http://ex.org/", Str "ex")] = Some [].
Proof.
  split; [|vm_compute; reflexivity].
  exists []. split; [vm_compute; auto | cbn; intuition discriminate].
Qed.

(** all four taken: two oracles, two answers *)
Lemma C19_all_taken_depends_on_oracle :
  exists (d : nsd) rand rand', find_prefix rand 1 d <> find_prefix rand' 1 d.
Proof.
  exists (map (fun p => (p, p)) c_PRIORITY_PREFIXES_FOR_SHAPES), (fun _ => Str "abc"), (fun _ => Str "xyz").
  vm_compute. discriminate.
Qed.
