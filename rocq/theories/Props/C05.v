(** * C05 -- produced schemas are well-formed and closed (ShExC text level)

    The Spec side is [Spec/ShexcGrammar.v]: [recognise] (lexer + automaton for
    the ShExC subset), [wellformed_closed] = [recognise] + functional prefix
    map + every used prefix declared + labels pairwise distinct + every
    reference resolves (labels and references compared as expanded IRIs).
    The theorems speak about the text the validated pipeline model prints
    ([SerialShexc.render], [Run.run_shexc]); the check ties that text to the
    real output byte for byte and runs the extracted [wellformed_closed] on
    the real text.

    [C05_dom z shapes] (Model/C05Dom.v) is the boolean domain, over what the
    serialiser receives: namespaces non-empty, made of IRIREF characters, with
    a character outside local names; prefixes valid and pairwise distinct;
    predicates / datatypes / classes are IRIs of IRIREF characters holding ':'
    whose remainder after their namespace is a PN_LOCAL (the property's
    local-name assumption); labels and shape-typed values are [%<iri>];
    statements have a type; no raw (example) comments, no line break in a
    comment token.  The list-level hypotheses [refs_closed] and [NoDup labels]
    are the conclusions of Proofs/ClosureLemmas.v (branch b-pc). *)
From Coq Require Import List Ascii String ZArith NArith Bool.
From Shexer Require Import Lib.PyStr Lib.Dict Gen.Consts Spec.Rdf Model.Tokens Model.Freq Model.FreqInst
     Model.Shexing Model.SerialShexc Model.Run Model.C05Dom Spec.ShexcGrammar
     Proofs.WellFormedTokens Proofs.WellFormedLex Proofs.WellFormedProofs.
Import ListNotations.

(** ** W1: the prefix map of the document is functional *)
Theorem C05_prefix_map_functional : forall c ns,
  full_ns c = Some ns -> NoDup (map snd (r_ns c)) -> NoDup (map snd ns).
Proof. exact full_ns_functional. Qed.
Print Assumptions C05_prefix_map_functional.

(** the random fallback (an oracle, outside the model) is taken exactly when
    the user's dictionary uses all four priority prefixes *)
Theorem C05_prefix_fallback_iff : forall ns,
  shapes_prefix ns = None <-> (forall p, In p c_PRIORITY_PREFIXES_FOR_SHAPES -> In p (map snd ns)).
Proof. exact shapes_prefix_none. Qed.
Print Assumptions C05_prefix_fallback_iff.

(** the user's dictionary already maps the shapes namespace: the assignment
    overwrites the user's prefix with the fresh one; same namespaces *)
Theorem C05_prefix_overwrite : forall c ns q,
  dget (r_ns c) (r_shapes_ns c) = Some q -> full_ns c = Some ns ->
  exists p, shapes_prefix (r_ns c) = Some p /\ p <> q /\ dget ns (r_shapes_ns c) = Some p /\
            dkeys ns = dkeys (r_ns c).
Proof. exact full_ns_overwrites. Qed.
Print Assumptions C05_prefix_overwrite.

(** ** W2: every token is <...>, a node-kind keyword, p:local with p declared,
    or '@' followed by one of these -- for all dictionaries with non-empty
    namespaces and all tokens shaped like the pipeline's *)
Theorem C05_tokens_declared : forall ns tok s,
  keys_nonempty ns -> tune_token ns tok = Some s ->
  (prefixb c_STARTING_CHAR_FOR_SHAPE_NAME tok = true ->
   exists u, tok = c_STARTING_CHAR_FOR_SHAPE_NAME ++ Str "<" ++ u ++ Str ">") ->
  (prefixb c_STARTING_CHAR_FOR_SHAPE_NAME tok = false ->
   mem_str tok [c_IRI_ELEM_TYPE; c_BNODE_ELEM_TYPE; c_NONLITERAL_ELEM_TYPE] = false ->
   contains (Str ":") tok = true) ->
  token_form ns s.
Proof. exact tune_token_form. Qed.
Print Assumptions C05_tokens_declared.

(** the prefixed form: the prefix is declared, the local part holds no '/' / '#'
    when the prefix holds none *)
Theorem C05_tokens_local_clean : forall ns u s, prefixed ns u s ->
  exists p local, In p (map snd ns) /\ s = p ++ Str ":" ++ local /\
    (forallb (not_char "/"%char) p = true -> forallb (not_char "/"%char) local = true) /\
    (forallb (not_char "#"%char) p = true -> forallb (not_char "#"%char) local = true).
Proof. exact prefixed_local_clean. Qed.
Print Assumptions C05_tokens_local_clean.

(** with the local-name assumption the printed name is a PNAME_LN token *)
Theorem C05_tokens_pname : forall ns u, ns_ok ns = true -> plain_ok ns u = true ->
  exists s, tune_token ns u = Some s /\ tokL s [iri_tok ns u].
Proof. exact tune_plain. Qed.
Print Assumptions C05_tokens_pname.

(** ** W3: every line is accepted by its production *)
Theorem C05_lines_recognised :
  (forall n p, ns_entry_ok (n, p) = true ->
     lexes (Str "PREFIX " ++ p ++ Str ": <" ++ n ++ Str ">" ++ [nlc]) [TPrefixKw; TPname p []; TIri n]) /\
  (forall z cnt s is_last, ns_ok (z_ns z) = true -> stmt_ok z s = true ->
     exists ls, statement_lines z cnt s is_last = Some ls /\ lexes (List.concat ls) (stmt_toks z s is_last) /\
                prun PBody (stmt_toks z s is_last) = Some (if is_last then after_card (s_card s) else PBody)) /\
  (forall z sh, ns_ok (z_ns z) = true -> shape_ok z sh = true ->
     exists ls, shape_lines z sh [] [] = Some ls /\ lexes (List.concat ls) (shape_toks z sh) /\
                prun PTop (shape_toks z sh) = Some PTop).
Proof.
  split; [exact prefix_line_lexes|]. split.
  - intros z cnt s b Hns Hs. destruct (statement_lexes z cnt s b Hns Hs) as [ls [H1 H2]].
    exists ls. split; [exact H1|]. split; [exact H2|]. apply (stmt_run z s b Hs).
  - intros z sh Hns Hs. destruct (shape_lexes z sh Hns Hs) as [ls [H1 H2]].
    exists ls. split; [exact H1|]. split; [exact H2|]. apply (shape_run z sh Hs).
Qed.
Print Assumptions C05_lines_recognised.

Theorem C05_document_recognised : forall z l, C05_dom z l = true ->
  exists text, render z l = Some text /\ recognise text = true.
Proof. exact document_recognised. Qed.
Print Assumptions C05_document_recognised.

(** ** W4: the text is closed when the shape list is *)
Theorem C05_closed_text : forall z l,
  C05_dom z l = true -> refs_closed l -> NoDup (map sh_name l) ->
  exists text, render z l = Some text /\ wellformed_closed text = true.
Proof. exact document_wellformed_closed. Qed.
Print Assumptions C05_closed_text.

(** the whole run, for every frequency algebra *)
Theorem C05_wellformed_closed_partial : forall fa c thr g ns shapes,
  run_shapes fa c thr g = inl (ns, shapes) -> C05_dom (z_of c ns) shapes = true ->
  refs_closed shapes -> NoDup (map sh_name shapes) ->
  exists text, run_shexc fa c thr g = inl text /\ wellformed_closed text = true.
Proof. exact run_wellformed_closed. Qed.
Print Assumptions C05_wellformed_closed_partial.

(** ** non-vacuity and refutations (vm_compute on the model) *)
Definition c05_cfg (user : nsdict) (shapes_ns : str) : rcfg :=
  {| r_tau := c_RDF_TYPE; r_targets := None; r_ns := user; r_shapes_ns := shapes_ns; r_cap := (-1)%Z;
     r_inverse := true; r_remove_empty := true; r_discard_useless := true; r_keep_less_specific := true;
     r_all_compliant := true; r_disable_or := true; r_allow_redundant_or := false; r_allow_opt := true;
     r_disable_exact := false; r_disable_comments := false; r_mode := FMixed |}.

Definition c05_iri (s : string) : node := Node Rdf.KIri (Str s).

Definition c05_graph (c d : string) : graph :=
  [T (c05_iri "http://ex.org/a") c_RDF_TYPE (ON (c05_iri c));
   T (c05_iri "http://ex.org/b") c_RDF_TYPE (ON (c05_iri d));
   T (c05_iri "http://ex.org/a") (Str "http://ex.org/p") (ON (c05_iri "http://ex.org/b"));
   T (c05_iri "http://ex.org/b") (Str "http://ex.org/q.r") (OL (Str "v") (Str "http://www.w3.org/2001/XMLSchema#string"))].

Definition c05_user : nsdict :=
  [(Str "http://ex.org/", Str "ex"); (Str "http://y/", Str ""); (Str "http://www.w3.org/2001/XMLSchema#", Str "xsd")].

(** the model's answers on the three witnesses, computed once *)
Definition c05_in1 := (c05_cfg c05_user c_SHAPES_DEFAULT_NAMESPACE, c05_graph "http://ex.org/C" "http://ex.org/D").
Definition c05_in2 := (c05_cfg c05_user (Str "http://custom.example/shapes#"), c05_graph "http://ex.org/C" "http://ex.org/D").
Definition c05_in3 := (c05_cfg c05_user c_SHAPES_DEFAULT_NAMESPACE, c05_graph "http://ex.org/C" "http://second.org/ns#C").
Definition c05_in4 := (c05_cfg c05_user c_SHAPES_DEFAULT_NAMESPACE, c05_graph "http://ex.org/-C" "http://ex.org/D").

Definition c05_text (i : rcfg * graph) : str :=
  match run_shexc BAlg (fst i) (b_ratio 0 1) (snd i) with inl t => t | inr _ => [] end.
Definition c05_shapes (i : rcfg * graph) : nsdict * list shape :=
  match run_shapes BAlg (fst i) (b_ratio 0 1) (snd i) with inl r => r | inr _ => ([], []) end.
Definition c05_toks (i : rcfg * graph) : list token :=
  match lex (c05_text i) with Some ts => ts | None => [] end.

Definition c05_text1 := Eval vm_compute in c05_text c05_in1.
Definition c05_text2 := Eval vm_compute in c05_text c05_in2.
Definition c05_text3 := Eval vm_compute in c05_text c05_in3.
Definition c05_text4 := Eval vm_compute in c05_text c05_in4.
Definition c05_shapes1 := Eval vm_compute in c05_shapes c05_in1.
Definition c05_shapes3 := Eval vm_compute in c05_shapes c05_in3.
Definition c05_toks2 := Eval vm_compute in c05_toks c05_in2.
Definition c05_toks3 := Eval vm_compute in c05_toks c05_in3.

(** a run inside the domain: all hypotheses hold, the text is well-formed and closed *)
Example C05_dom_inhabited :
  run_shapes BAlg (fst c05_in1) (b_ratio 0 1) (snd c05_in1) = inl c05_shapes1 /\
  C05_dom (z_of (fst c05_in1) (fst c05_shapes1)) (snd c05_shapes1) = true /\
  refs_closedb (snd c05_shapes1) = true /\ labels_nodupb (snd c05_shapes1) = true /\
  shape_types (snd c05_shapes1) <> [] /\
  run_shexc BAlg (fst c05_in1) (b_ratio 0 1) (snd c05_in1) = inl c05_text1 /\
  wellformed_closed c05_text1 = true.
Proof.
  split; [vm_compute; reflexivity|]. split; [vm_compute; reflexivity|]. split; [vm_compute; reflexivity|].
  split; [vm_compute; reflexivity|]. split; [vm_compute; discriminate|]. split; vm_compute; reflexivity.
Qed.

(** Known finding C05-F1: a custom shapes_namespace; the document parses but
    the reference minted in the default namespace resolves to no shape *)
Lemma C05_custom_namespace_refuted :
  exists c g text, run_shexc BAlg c (b_ratio 0 1) g = inl text /\ recognise text = true /\
    wellformed_closed text = false /\
    (exists ts, lex text = Some ts /\ prefixes_functional ts = true /\ prefixes_declared ts = true /\
                labels_distinct ts = true /\ refs_resolve ts = false).
Proof.
  exists (fst c05_in2), (snd c05_in2), c05_text2.
  split; [vm_compute; reflexivity|]. split; [vm_compute; reflexivity|]. split; [vm_compute; reflexivity|].
  exists c05_toks2. split; [vm_compute; reflexivity|]. split; [vm_compute; reflexivity|].
  split; [vm_compute; reflexivity|]. split; vm_compute; reflexivity.
Qed.

(** Known finding C05-F2: two classes sharing a local name: one label defined twice *)
Lemma C05_shared_local_name_refuted :
  exists c g text, run_shexc BAlg c (b_ratio 0 1) g = inl text /\ recognise text = true /\
    wellformed_closed text = false /\
    (exists ts, lex text = Some ts /\ labels_distinct ts = false) /\
    (exists r, run_shapes BAlg c (b_ratio 0 1) g = inl r /\ labels_nodupb (snd r) = false).
Proof.
  exists (fst c05_in3), (snd c05_in3), c05_text3.
  split; [vm_compute; reflexivity|]. split; [vm_compute; reflexivity|]. split; [vm_compute; reflexivity|].
  split.
  - exists c05_toks3. split; vm_compute; reflexivity.
  - exists c05_shapes3. split; vm_compute; reflexivity.
Qed.

(** outside the local-name assumption: a class whose local name starts with
    '-' is printed as a prefixed name that is not a PNAME_LN *)
Lemma C05_local_name_assumption_needed :
  exists c g text, run_shexc BAlg c (b_ratio 0 1) g = inl text /\ recognise text = false.
Proof.
  exists (fst c05_in4), (snd c05_in4), c05_text4. split; vm_compute; reflexivity.
Qed.

(** Known finding C05-F3 (rdflib-parsed input, outside the pipeline model):
    the real output declares the empty prefix twice; the Spec predicate
    rejects such a document on [prefixes_functional] *)
Lemma C05_parsed_prefix_collision_rejected :
  exists ts, lex (Str "PREFIX : <http://weso.es/shapes/>  PREFIX : <http://ex.org/>  :C { :p  @:D ; <http://t>  [:C] }  :D { <http://t>  [:D] }") = Some ts /\
             parses ts = true /\ prefixes_functional ts = false.
Proof. eexists. split; [vm_compute; reflexivity|]. split; vm_compute; reflexivity. Qed.

(** ** INPUT LEVEL (proofs in Proofs/InputLevel.v): no model-level hypothesis

    [c05_input_ok c g] is a boolean on the run's INPUT (configuration and
    graph); it is the property's own quantifier:
    - [valid_input c g] (Proofs/EndToEnd2.v): no typing triple has a literal
      object; no predicate / datatype / class IRI / typed subject starts with
      the label sentinel '%'; disjunctions disabled or empty shapes kept; one
      of the four priority prefixes is free;
    - [r_shapes_ns c] is the default shapes namespace (else: C05-F1);
    - the completed namespaces dictionary [full_ns c] is sane ([ns_ok]:
      namespaces non-empty, of IRIREF characters, holding a character that no
      local name holds; prefixes PN_PREFIX or empty, pairwise distinct);
    - every triple is [triple_ok]: its predicate is a plain IRI
      ([plain_ok ns u]: IRIREF characters, holds ':', does not start with '%',
      and when a namespace of the dictionary matches ([best_ns]) the remainder
      is a PN_LOCAL -- else it is printed [<u>]); a literal's datatype is a
      plain IRI; the object of a typing triple is a class IRI ([class_ok]:
      plain IRI, does not start with "@", and the label of its shape
      [%<shapes namespace + local name>] is [label_ok], i.e. the local name is
      a PN_LOCAL when the label is printed prefixed); with inverse paths the
      subject of a typing triple (printed as a value of the typing property)
      is a plain IRI; requested target classes are class IRIs;
    - the class IRIs (targets, objects of typing triples) have pairwise
      distinct labels (else: C05-F2). *)
From Shexer Require Import Model.Tracker Model.Profiler Proofs.Bin64Round Proofs.EndToEnd Proofs.EndToEnd2 Proofs.RunWitness
     Proofs.InputLevel.

Theorem C05_input_ok_unfold : forall c g, c05_input_ok c g = true ->
  valid_input c g = true /\ r_shapes_ns c = c_SHAPES_DEFAULT_NAMESPACE /\
  exists ns, full_ns c = Some ns /\ ns_ok ns = true /\
    (forall t, In t g -> triple_ok c ns t = true) /\
    (forall t, In t (match r_targets c with Some l => l | None => [] end) -> class_ok c ns t = true) /\
    NoDup (map (shape_name (r_shapes_ns c)) (input_classes c g)).
Proof. exact c05_input_ok_parts. Qed.

Theorem C05_triple_ok_unfold : forall c ns t,
  triple_ok c ns t =
  plain_ok ns (tp t) &&
  match to t with
  | OL _ dt => plain_ok ns dt
  | ON o => if str_eqb (tp t) (r_tau c)
            then class_ok c ns (nid o) && (negb (r_inverse c) || plain_ok ns (nid (ts t)))
            else true
  end.
Proof. reflexivity. Qed.

Theorem C05_class_ok_unfold : forall c ns cls,
  class_ok c ns cls = plain_ok ns cls && no_at cls && label_ok ns (shape_name (r_shapes_ns c) cls).
Proof. reflexivity. Qed.

Theorem C05_input_classes_unfold : forall c g,
  input_classes c g =
  Counts.uniq_first ((match r_targets c with Some l => l | None => [] end) ++
    flat_map (fun t => if str_eqb (tp t) (r_tau c) then match to t with ON o => [nid o] | OL _ _ => [] end else []) g).
Proof. reflexivity. Qed.

(** A1: the references of the class profile resolve, for EVERY graph without
    the sentinel where a key is taken from, any target mode, any cap, with or
    without the profile-level cleaning *)
Theorem C05_profile_refs_closed : forall c g I P C ID,
  forallb (sentinel_free (r_tau c)) g = true ->
  track (r_tau c) (mode_of c) (r_cap c) g = inl I ->
  profile (pcfg_of c) I g = inl (P, C, ID) ->
  ClosureLemmas.profile_refs_closed P.
Proof. exact run_profile_refs_closed. Qed.
Print Assumptions C05_profile_refs_closed.

Theorem C05_run_refs_closed : forall fa c thr g ns shapes,
  forallb (sentinel_free (r_tau c)) g = true -> r_shapes_ns c = c_SHAPES_DEFAULT_NAMESPACE ->
  run_shapes fa c thr g = inl (ns, shapes) -> refs_closed shapes.
Proof. exact run_refs_closed. Qed.
Print Assumptions C05_run_refs_closed.

(** A3: labels pairwise distinct, from the condition on the input *)
Theorem C05_run_labels_distinct : forall fa c thr g ns shapes,
  NoDup (map (shape_name (r_shapes_ns c)) (input_classes c g)) ->
  run_shapes fa c thr g = inl (ns, shapes) -> NoDup (map sh_name shapes).
Proof. exact run_labels_NoDup. Qed.
Print Assumptions C05_run_labels_distinct.

(** A2: the shape list is in the domain of the text-level theorems, for every
    setting of the options (disjunctions included) *)
Theorem C05_run_dom : forall fa c thr g ns shapes,
  c05_input_ok c g = true -> run_shapes fa c thr g = inl (ns, shapes) ->
  C05_dom (z_of c ns) shapes = true /\ refs_closed shapes /\ NoDup (map sh_name shapes).
Proof. exact run_C05_dom. Qed.
Print Assumptions C05_run_dom.

(** the headline: for every input inside [c05_input_ok], every frequency
    algebra and every threshold, the run succeeds and its text is recognised,
    well-formed and closed *)
Theorem C05_run_wellformed : forall c g, c05_input_ok c g = true ->
  forall fa thr, exists text,
    run_shexc fa c thr g = inl text /\ recognise text = true /\ wellformed_closed text = true.
Proof. intros c g H fa thr. exact (run_wellformed fa c thr g H). Qed.
Print Assumptions C05_run_wellformed.

(** non-vacuity: the predicate holds on the first witness (namespace ex:
    declared) and on RunWitness graphs with disjunctions enabled (a choice
    statement is produced); it rejects the three refuted witnesses (custom
    namespace, shared local name, local name starting with '-') *)
Definition c05_rw_cfg : rcfg :=
  {| r_tau := c_RDF_TYPE; r_targets := None; r_ns := [(Str "http://ex.org/", Str "ex")];
     r_shapes_ns := c_SHAPES_DEFAULT_NAMESPACE; r_cap := (-1)%Z;
     r_inverse := true; r_remove_empty := false; r_discard_useless := true; r_keep_less_specific := true;
     r_all_compliant := true; r_disable_or := false; r_allow_redundant_or := false; r_allow_opt := true;
     r_disable_exact := false; r_disable_comments := false; r_mode := FMixed |}.

Example C05_input_ok_nonvacuous :
  c05_input_ok (fst c05_in1) (snd c05_in1) = true /\
  c05_input_ok c05_rw_cfg g_reftie_1 = true /\ c05_input_ok c05_rw_cfg g_cardtie_1 = true /\
  c05_input_ok c05_rw_cfg g_split = true /\
  (exists ns l, run_shapes BAlg c05_rw_cfg (b_ratio 0 1) g_reftie_1 = inl (ns, l) /\
                existsb (fun sh => existsb (fun s => s_choice s) (sh_stmts sh)) l = true) /\
  c05_input_ok (fst c05_in2) (snd c05_in2) = false /\
  c05_input_ok (fst c05_in3) (snd c05_in3) = false /\
  c05_input_ok (fst c05_in4) (snd c05_in4) = false.
Proof.
  split; [vm_compute; reflexivity|]. split; [vm_compute; reflexivity|]. split; [vm_compute; reflexivity|].
  split; [vm_compute; reflexivity|]. split.
  - destruct (run_shapes BAlg c05_rw_cfg (b_ratio 0 1) g_reftie_1) as [[ns l]|e] eqn:E; vm_compute in E; [|discriminate E].
    injection E as <- <-. eexists; eexists. split; [reflexivity | vm_compute; reflexivity].
  - split; [vm_compute; reflexivity|]. split; vm_compute; reflexivity.
Qed.

(** the headline applied to the first witness gives the text computed above *)
Example C05_run_wellformed_applies :
  exists text, run_shexc BAlg (fst c05_in1) (b_ratio 0 1) (snd c05_in1) = inl text /\
               recognise text = true /\ wellformed_closed text = true.
Proof. apply C05_run_wellformed. vm_compute. reflexivity. Qed.

(** binary64, thresholds <= 1, fewer than 2^53 triples: ANY setting of the
    options.  [c05_input_ok_le1] is [c05_input_ok] without condition (iii) of
    [valid_input] (disjunctions disabled or empty shapes kept; the free
    prefix is implied by [full_ns c = Some _]). *)
Theorem C05_input_ok_le1_unfold : forall c g,
  (c05_input_ok c g = valid_input c g && c05_core_ok c g) /\
  (c05_input_ok_le1 c g = typing_okb (r_tau c) g && forallb (sentinel_free (r_tau c)) g && c05_core_ok c g).
Proof. split; reflexivity. Qed.

Theorem C05_run_wellformed_any_options : forall c thr g,
  c05_input_ok_le1 c g = true ->
  wf_frac thr -> fle BAlg thr (fone BAlg) = true -> (N.of_nat (List.length g) < 2 ^ 53)%N ->
  exists text, run_shexc BAlg c thr g = inl text /\ recognise text = true /\ wellformed_closed text = true.
Proof. exact run_wellformed_le1. Qed.
Print Assumptions C05_run_wellformed_any_options.

(** disjunctions enabled AND remove_empty_shapes on: outside [c05_input_ok],
    inside [c05_input_ok_le1] *)
Definition c05_rw_cfg2 : rcfg :=
  {| r_tau := c_RDF_TYPE; r_targets := None; r_ns := [(Str "http://ex.org/", Str "ex")];
     r_shapes_ns := c_SHAPES_DEFAULT_NAMESPACE; r_cap := (-1)%Z;
     r_inverse := true; r_remove_empty := true; r_discard_useless := true; r_keep_less_specific := true;
     r_all_compliant := true; r_disable_or := false; r_allow_redundant_or := false; r_allow_opt := true;
     r_disable_exact := false; r_disable_comments := false; r_mode := FMixed |}.

Example C05_any_options_nonvacuous :
  c05_input_ok c05_rw_cfg2 g_reftie_1 = false /\ c05_input_ok_le1 c05_rw_cfg2 g_reftie_1 = true.
Proof. split; vm_compute; reflexivity. Qed.

(** the sentinel hypothesis of A1 is needed: a literal whose datatype starts
    with '%' is stored as a type key that reads as a reference *)
Definition c05_g_sentinel : graph :=
  [T (c05_iri "http://ex.org/a") c_RDF_TYPE (ON (c05_iri "http://ex.org/C"));
   T (c05_iri "http://ex.org/a") (Str "http://ex.org/p") (OL (Str "v") (Str "%x"))].

Definition c05_I_sentinel : insts := [(Str "http://ex.org/a", [Str "http://ex.org/C"])].

Lemma C05_profile_refs_sentinel_needed :
  exists c g I P C ID,
    track (r_tau c) (mode_of c) (r_cap c) g = inl I /\ profile (pcfg_of c) I g = inl (P, C, ID) /\
    ~ ClosureLemmas.profile_refs_closed P.
Proof.
  destruct (profile (pcfg_of (fst c05_in1)) c05_I_sentinel c05_g_sentinel) as [[[P C] ID]|e] eqn:EP;
    vm_compute in EP; [|discriminate EP]. injection EP as <- <- <-.
  eexists (fst c05_in1), c05_g_sentinel, c05_I_sentinel, _, _, _.
  split; [vm_compute; reflexivity|]. split; [vm_compute; reflexivity|].
  intros H.
  match type of H with ClosureLemmas.profile_refs_closed ?P =>
    match P with (?cl, ?e) :: _ => specialize (H cl e (Str "%x") (or_introl eq_refl)) end end.
  destruct H as (c' & Hc' & E).
  - match goal with |- ClosureLemmas.entry_key ?e _ =>
      match eval cbv [c_direct] in (c_direct e) with
      | _ :: (?p, ?m) :: _ => match m with (?k, ?cd) :: _ => exists p, m, cd end
      end end.
    split; [left; right; left; reflexivity | left; reflexivity].
  - reflexivity.
  - destruct Hc' as [<-|[]]. vm_compute in E. discriminate E.
Qed.

(** * C05, SHACL half: the abstract RDF graph of the SHACL output

    [Model.ShaclDoc.shacl_graph ns tau shapes] lists the triples
    [ShaclSerializer] adds to its rdflib graph for a shape list (blank nodes
    identified by their position in the tree of [_add_triple] calls; faults
    are explicit errors); harness/vp/shacldoc.py checks on every run of C05
    and C11 that the real SHACL document, parsed by rdflib, is ISOMORPHIC to
    it.  The three statements below are the reference predicates of
    Spec/ShaclGraphSpec.v (every IRI spelled out there).  They need no domain
    hypothesis beyond "the serialiser returned a graph"; on C11's domain
    ([SerialShacl.C11_dom_shape]: http(s) predicates, well-formed statements)
    it does ([C05_shacl_wellformed]). *)
From Shexer Require Import Spec.ConstraintSpec Spec.ShaclGraphSpec Model.SerialShacl Model.ShaclDoc.
From Shexer Require Import Proofs.ClosureLemmas Proofs.EndToEnd2 Proofs.ShaclDocProofs Proofs.ShaclDocRun.

(** S1: every object of an [sh:node] arc is the IRI of a shape of the list
    and is typed [sh:NodeShape] -- provided the references of the list resolve *)
Theorem C05_shacl_node_objects_declared : forall ns tau shapes L g,
  shacl_graph ns tau shapes = inl g -> names_iris shapes L -> ClosureLemmas.refs_closed shapes ->
  node_objects_declared g (map fst L).
Proof. intros ns tau shapes L g. exact (shacl_gen_node_objects_declared no_patterns ns tau shapes L g). Qed.
Print Assumptions C05_shacl_node_objects_declared.

(** S2: every property shape has exactly one path in the accepted encoding
    (one [sh:path] and no nested [sh:property]; or no [sh:path] and one nested
    [sh:property] whose node has exactly one [sh:inversePath]) *)
Theorem C05_shacl_one_path : forall ns tau shapes g,
  shacl_graph ns tau shapes = inl g -> property_shapes_one_path g.
Proof. intros ns tau shapes g. exact (shacl_gen_one_path no_patterns ns tau shapes g). Qed.
Print Assumptions C05_shacl_one_path.

(** S3: the nodes typed [sh:NodeShape] are exactly the shapes' IRIs; with
    pairwise distinct labels each is typed once and has exactly one
    [sh:targetClass], the class of its shape *)
Theorem C05_shacl_node_shapes_iff : forall ns tau shapes L g,
  shacl_graph ns tau shapes = inl g -> names_iris shapes L ->
  forall n, node_shape g n <-> exists u c, In (u, c) L /\ n = TIri u.
Proof. intros ns tau shapes L g. exact (shacl_gen_node_shapes_iff no_patterns ns tau shapes L g). Qed.
Print Assumptions C05_shacl_node_shapes_iff.

(** "the class of its shape": the IRI [_add_target_class] makes of the shape's class key
    ([SerialShacl.target_class_obj]: the key itself, or -- once the method removes the corners a
    shape-map label is kept in, flag [c_shacl_target_strips_corners] -- the key without them) *)
Theorem C05_shacl_one_node_shape_per_shape : forall ns tau shapes L g,
  shacl_graph ns tau shapes = inl g -> names_iris_by target_class_obj shapes L -> NoDup (map fst L) ->
  node_shapes_exact g L.
Proof. intros ns tau shapes L g. exact (shacl_gen_node_shapes_exact_by no_patterns ns tau shapes L g). Qed.
Print Assumptions C05_shacl_one_node_shape_per_shape.

(** ... which is the class key itself for every shape list without a key in corners (every class-based
    extraction: [C05_run_classes_plain]) and for the text of the method that does not touch the key *)
Theorem C05_shacl_one_node_shape_per_shape_class : forall ns tau shapes L g,
  (forall sh, In sh shapes -> target_class_obj (sh_class sh) = sh_class sh) ->
  shacl_graph ns tau shapes = inl g -> names_iris shapes L -> NoDup (map fst L) ->
  node_shapes_exact g L.
Proof. intros ns tau shapes L g. exact (shacl_gen_node_shapes_exact no_patterns ns tau shapes L g). Qed.
Print Assumptions C05_shacl_one_node_shape_per_shape_class.

Theorem C05_target_class_obj_cases : forall c,
  (cornered c = false -> target_class_obj c = c) /\
  (c_shacl_target_strips_corners = false -> target_class_obj c = c) /\
  (c_shacl_target_strips_corners = true -> forall i, c = Str "<" ++ i ++ Str ">" -> target_class_obj c = i).
Proof.
  intros c. split; [apply ShaclProofs.target_class_obj_plain|]. split; [apply ShaclProofs.target_class_obj_old|].
  intros Hf i ->. apply ShaclProofs.target_class_obj_new. exact Hf.
Qed.
Print Assumptions C05_target_class_obj_cases.

(** the same with [detect_minimal_iri] on ([sh:pattern] arcs on the node shapes) *)
Theorem C05_shacl_any_detect : forall z ns tau shapes L g,
  shacl_graph_gen z ns tau shapes = inl g -> names_iris_by target_class_obj shapes L ->
  (ClosureLemmas.refs_closed shapes -> node_objects_declared g (map fst L)) /\
  property_shapes_one_path g /\
  (NoDup (map fst L) -> node_shapes_exact g L).
Proof.
  intros z ns tau shapes L g Hg HL. split; [|split].
  - exact (shacl_gen_node_objects_declared_by _ z ns tau shapes L g Hg HL).
  - exact (shacl_gen_one_path z ns tau shapes g Hg).
  - exact (shacl_gen_node_shapes_exact_by z ns tau shapes L g Hg HL).
Qed.
Print Assumptions C05_shacl_any_detect.

(** composition with C11: on C11's domain the serialiser returns a graph; it is
    the flattening of the document C11 relates, shape by shape, to the ShExC text *)
Theorem C05_shacl_graph_total : forall ns tau shapes,
  forallb (SerialShacl.C11_dom_shape ns tau) shapes = true ->
  exists cs d L, shex_doc_view ns tau shapes = VOk cs /\ shacl_doc tau shapes = VOk d /\
                 same_doc d (enc_doc (map retarget cs)) /\ shacl_graph ns tau shapes = inl (doc_triples 0 d) /\
                 names_iris_by target_class_obj shapes L.
Proof. exact shacl_graph_total. Qed.
Print Assumptions C05_shacl_graph_total.

Theorem C05_shacl_wellformed : forall ns tau shapes,
  forallb (SerialShacl.C11_dom_shape ns tau) shapes = true ->
  ClosureLemmas.refs_closed shapes -> NoDup (map sh_name shapes) ->
  exists g L, shacl_graph ns tau shapes = inl g /\ names_iris_by target_class_obj shapes L /\
              node_objects_declared g (map fst L) /\ property_shapes_one_path g /\ node_shapes_exact g L.
Proof. exact shacl_graph_wellformed. Qed.
Print Assumptions C05_shacl_wellformed.

(** the two statements with "the class" read as the class key itself ([names_iris], [enc_doc cs]):
    for shape lists whose keys [_add_target_class] leaves as they are *)
Theorem C05_shacl_graph_total_class : forall ns tau shapes,
  forallb (SerialShacl.C11_dom_shape ns tau) shapes = true ->
  (forall sh, In sh shapes -> target_class_obj (sh_class sh) = sh_class sh) ->
  exists cs d L, shex_doc_view ns tau shapes = VOk cs /\ shacl_doc tau shapes = VOk d /\
                 same_doc d (enc_doc cs) /\ shacl_graph ns tau shapes = inl (doc_triples 0 d) /\
                 names_iris shapes L.
Proof. exact shacl_graph_total_class. Qed.
Print Assumptions C05_shacl_graph_total_class.

Theorem C05_shacl_wellformed_class : forall ns tau shapes,
  forallb (SerialShacl.C11_dom_shape ns tau) shapes = true ->
  ClosureLemmas.refs_closed shapes -> NoDup (map sh_name shapes) ->
  (forall sh, In sh shapes -> target_class_obj (sh_class sh) = sh_class sh) ->
  exists g L, shacl_graph ns tau shapes = inl g /\ names_iris shapes L /\
              node_objects_declared g (map fst L) /\ property_shapes_one_path g /\ node_shapes_exact g L.
Proof. exact shacl_graph_wellformed_class. Qed.
Print Assumptions C05_shacl_wellformed_class.

(** S4, the whole run.  With the default shapes namespace and a graph none of
    whose property / datatype / class IRIs starts with the shape marker, the
    references of the extracted shapes resolve (no hypothesis on the shape
    list is left) ... *)
Theorem C05_run_refs_closed_default_ns : forall fa c thr g ns shapes,
  r_shapes_ns c = c_SHAPES_DEFAULT_NAMESPACE ->
  forallb (sentinel_free (r_tau c)) g = true ->
  run_shapes fa c thr g = inl (ns, shapes) -> ClosureLemmas.refs_closed shapes.
Proof. exact run_refs_closed. Qed.
Print Assumptions C05_run_refs_closed_default_ns.

(** ... and the SHACL graph of the run satisfies S1-S3 *)
Theorem C05_shacl_run : forall fa c thr g ns shapes tr L,
  r_shapes_ns c = c_SHAPES_DEFAULT_NAMESPACE ->
  forallb (sentinel_free (r_tau c)) g = true ->
  run_shapes fa c thr g = inl (ns, shapes) ->
  shacl_graph ns (r_tau c) shapes = inl tr -> names_iris_by target_class_obj shapes L ->
  node_objects_declared tr (map fst L) /\ property_shapes_one_path tr /\
  (forall n, node_shape tr n <-> exists u cl, In (u, cl) L /\ n = TIri u) /\
  (NoDup (map fst L) -> node_shapes_exact tr L).
Proof. exact run_shacl_graph. Qed.
Print Assumptions C05_shacl_run.

(** no class key of a class-based run is written in corners when no class IRI of the graph (object of an
    instantiation triple) and no requested target class is: [sh:targetClass] then names the class key,
    whichever text [_add_target_class] has, and S4 reads with [names_iris] *)
Theorem C05_run_classes_plain : forall fa c thr g ns shapes,
  classes_plain c g -> run_shapes fa c thr g = inl (ns, shapes) ->
  forall sh, In sh shapes -> target_class_obj (sh_class sh) = sh_class sh.
Proof. exact run_classes_plain. Qed.
Print Assumptions C05_run_classes_plain.

Theorem C05_shacl_run_class : forall fa c thr g ns shapes tr L,
  r_shapes_ns c = c_SHAPES_DEFAULT_NAMESPACE ->
  forallb (sentinel_free (r_tau c)) g = true -> classes_plain c g ->
  run_shapes fa c thr g = inl (ns, shapes) ->
  shacl_graph ns (r_tau c) shapes = inl tr -> names_iris shapes L ->
  node_objects_declared tr (map fst L) /\ property_shapes_one_path tr /\
  (forall n, node_shape tr n <-> exists u cl, In (u, cl) L /\ n = TIri u) /\
  (NoDup (map fst L) -> node_shapes_exact tr L).
Proof. exact run_shacl_graph_class. Qed.
Print Assumptions C05_shacl_run_class.

(** the helper-call sequence of [_add_shape] the model interprets, and the self-calls / [_add_triple]
    templates of the helpers it follows, as read from the Python source: an edit of any of these bodies
    re-opens this file *)
Example C05_shacl_tables_as_read :
  shacl_add_shape_steps =
    [Str "_generate_shape_uri"; Str "_add_shape_uri"; Str "_add_target_class"; Str "_add_min_iri";
     Str "_add_shape_constraints"] /\
  shacl_dispatch_calls =
    [(Str "serialize_shapes", [Str "_add_namespaces"; Str "_add_shapes"; Str "_produce_output"]);
     (Str "_add_shapes", [Str "_add_shape"]);
     (Str "_add_shape_constraints", [Str "_add_constraint"]);
     (Str "_add_constraint", [Str "_is_instantiation_property"; Str "_add_instantiation_constraint";
                              Str "_add_regular_constraint"]);
     (Str "_add_path", [Str "_add_direct_path"; Str "_add_inverse_path"]);
     (Str "_add_node_type", [Str "_is_macro"; Str "_add_nodeKind_macro"; Str "_is_a_shape"; Str "_add_node_shape";
                             Str "_add_dataType_literal"]);
     (Str "_add_cardinality", [Str "_min_occurs_from_cardinality"; Str "_max_occurs_from_cardinality";
                               Str "_add_min_occurs"; Str "_add_max_occurs"]);
     (Str "_add_min_iri", [Str "_add_triple"; Str "_literal_iri_pattern"])] /\
  shacl_leaf_triples =
    [(Str "_add_shape_uri", [(Str "r_shape_uri", Str "RDF.type", Str "_R_SHACL_SHAPE_URI")]);
     (Str "_add_target_class",
      [(Str "r_shape_uri", Str "_R_SHACL_TARGET_CLASS_PROP",
        if c_shacl_target_strips_corners
        then Str "URIRef(remove_corners(a_uri=shape.class_uri, raise_error_if_no_corners=False))"
        else Str "URIRef(shape.class_uri)")]);
     (Str "_add_min_iri", [(Str "r_shape_uri", Str "_R_SHACL_PATTERN_PROP", Str "self._literal_iri_pattern(shape)")]);
     (Str "_add_bnode_property", [(Str "r_shape_uri", Str "_R_SHACL_PROPERTY_PROP", Str "r_constraint_node");
                                  (Str "r_constraint_node", Str "RDF.type", Str "_R_SHACL_PROPERTY_SHAPE_URI")]);
     (Str "_add_direct_path", [(Str "r_constraint_node", Str "_R_SHACL_PATH_PROP", Str "r_property_uri")]);
     (Str "_add_inverse_path", [(Str "r_constraint_node", Str "_R_SHACL_PROPERTY_PROP", Str "inverse_path_node");
                                (Str "inverse_path_node", Str "_R_SHACL_INVERSE_PATH_PROP", Str "r_property_uri")]);
     (Str "_add_in_instance", [(Str "r_constraint_node", Str "_R_SHACL_IN_PROP", Str "list_seed_node");
                               (Str "list_seed_node", Str "RDF.first", Str "target_node");
                               (Str "list_seed_node", Str "RDF.rest", Str "RDF.nil")]);
     (Str "_add_node_shape", [(Str "r_constraint_node", Str "_R_SHACL_NODE_PROP",
                               Str "self._generate_shape_uri(shape_name=target_type)")]);
     (Str "_add_nodeKind_macro", [(Str "r_constraint_node", Str "_R_SHACL_NODEKIND_PROP", Str "type_node")]);
     (Str "_add_dataType_literal", [(Str "r_constraint_node", Str "_R_SHACL_DATATYPE_PROP", Str "URIRef(target_type)")]);
     (Str "_add_min_occurs", [(Str "r_constraint_node", Str "_R_SHACL_MIN_COUNT_PROP",
                               Str "self._generate_r_literal(value=min_occurs, l_type=_INTEGER)")]);
     (Str "_add_max_occurs", [(Str "r_constraint_node", Str "_R_SHACL_MAX_COUNT_PROP",
                               Str "self._generate_r_literal(value=max_occurs, l_type=_INTEGER)")]);
     (Str "_add_triple", [(Str "self._g_shapes", Str "add", Str "(s, p, o)")])] /\
  [c_shacl_R_SHACL_SHAPE_URI; c_shacl_R_SHACL_PROPERTY_SHAPE_URI; c_shacl_R_SHACL_TARGET_CLASS_PROP;
   c_shacl_R_SHACL_PATH_PROP; c_shacl_R_SHACL_INVERSE_PATH_PROP; c_shacl_R_SHACL_PROPERTY_PROP;
   c_shacl_R_SHACL_NODE_PROP; c_shacl_R_SHACL_PATTERN_PROP] =
  [SH "NodeShape"; SH "PropertyShape"; SH "targetClass"; SH "path"; SH "inversePath"; SH "property"; SH "node";
   SH "pattern"] /\
  (* the two texts of [_add_target_class] the model knows, and the flag that says which one was read
     (tools/gen_consts.py fails on any third text) *)
  c_shacl_target_class_texts =
    [(false, Str "URIRef(shape.class_uri)");
     (true, Str "URIRef(remove_corners(a_uri=shape.class_uri, raise_error_if_no_corners=False))")] /\
  In (c_shacl_target_strips_corners,
      match dget shacl_leaf_triples (Str "_add_target_class") with Some [(_, _, o)] => o | _ => [] end)
     c_shacl_target_class_texts /\
  (* disjunctions: the helpers that read [statement.st_type], and what it does for a choice statement *)
  shacl_steps_reading_st_type = [Str "_add_node_type"; Str "_add_in_instance"] /\
  c_choice_st_type_raises = Str "TypeError".
Proof.
  repeat split; try reflexivity.
  destruct c_shacl_target_strips_corners eqn:E; first [vm_compute in E; discriminate E | vm_compute; auto].
Qed.

(** ** non-vacuity: the run of [C05_dom_inhabited] (classes C and D, an arc a -p-> b between their
    instances, inverse paths on) *)
Definition c05_sgraph (i : rcfg * graph) : list rdf_triple :=
  match shacl_graph (fst (c05_shapes i)) (r_tau (fst i)) (snd (c05_shapes i)) with inl g => g | inr _ => [] end.
Definition c05_sgraph1 := Eval vm_compute in c05_sgraph c05_in1.
Definition c05_shapes2 := Eval vm_compute in c05_shapes c05_in2.
Definition c05_sgraph2 := Eval vm_compute in c05_sgraph c05_in2.
Definition c05_L1 : list (str * str) :=
  [(Str "http://weso.es/shapes/C", Str "http://ex.org/C"); (Str "http://weso.es/shapes/D", Str "http://ex.org/D")].
Definition c05_L2 : list (str * str) :=
  [(Str "http://custom.example/shapes#C", Str "http://ex.org/C"); (Str "http://custom.example/shapes#D", Str "http://ex.org/D")].

Example C05_shacl_inhabited :
  (* the hypotheses of [C05_shacl_run] and of [C05_shacl_wellformed] hold *)
  r_shapes_ns (fst c05_in1) = c_SHAPES_DEFAULT_NAMESPACE /\
  forallb (sentinel_free (r_tau (fst c05_in1))) (snd c05_in1) = true /\
  run_shapes BAlg (fst c05_in1) (b_ratio 0 1) (snd c05_in1) = inl c05_shapes1 /\
  forallb (SerialShacl.C11_dom_shape (fst c05_shapes1) (r_tau (fst c05_in1))) (snd c05_shapes1) = true /\
  shacl_graph (fst c05_shapes1) (r_tau (fst c05_in1)) (snd c05_shapes1) = inl c05_sgraph1 /\
  names_iris (snd c05_shapes1) c05_L1 /\ names_iris_by target_class_obj (snd c05_shapes1) c05_L1 /\
  classes_plain (fst c05_in1) (snd c05_in1) /\ NoDup (map fst c05_L1) /\
  (* the graph has two node shapes, an [sh:node] arc, direct and inverse paths *)
  List.length c05_sgraph1 = 39 /\
  objects c05_sgraph1 (TIri (Str "http://weso.es/shapes/C")) (RDFNS "type") = [TIri (SH "NodeShape")] /\
  objects c05_sgraph1 (TIri (Str "http://weso.es/shapes/D")) (SH "targetClass") = [TIri (Str "http://ex.org/D")] /\
  existsb (fun t => str_eqb (tr_pred t) (SH "node")) c05_sgraph1 = true /\
  existsb (fun t => str_eqb (tr_pred t) (SH "path")) c05_sgraph1 = true /\
  existsb (fun t => str_eqb (tr_pred t) (SH "inversePath")) c05_sgraph1 = true /\
  node_objects_declaredb c05_sgraph1 (map fst c05_L1) = true /\ property_shapes_one_pathb c05_sgraph1 = true.
Proof.
  split; [reflexivity|]. split; [vm_compute; reflexivity|]. split; [vm_compute; reflexivity|].
  split; [vm_compute; reflexivity|]. split; [vm_compute; reflexivity|].
  split; [repeat constructor|].
  split; [repeat (constructor; [split; vm_compute; reflexivity|]); constructor|].
  split.
  { split.
    - intros t o Hin _ Ho. cbn in Hin. repeat destruct Hin as [<-|Hin]; try destruct Hin; cbn in Ho;
        try discriminate Ho; injection Ho as <-; reflexivity.
    - intros l x Hl. cbn in Hl. discriminate Hl. }
  split; [repeat constructor; cbn; intros H; repeat destruct H as [H|H]; try discriminate H; exact H|].
  repeat split; vm_compute; reflexivity.
Qed.

(** Known finding C05-F1, SHACL side: with a custom shapes namespace the
    profiler still names referenced shapes in the default namespace: the
    [sh:node] object is no node shape of the document (S1 is refuted; S2 and
    S3 hold) *)
Lemma C05_shacl_custom_namespace_refuted :
  exists c g ns shapes tr L,
    r_shapes_ns c <> c_SHAPES_DEFAULT_NAMESPACE /\ forallb (sentinel_free (r_tau c)) g = true /\
    run_shapes BAlg c (b_ratio 0 1) g = inl (ns, shapes) /\
    shacl_graph ns (r_tau c) shapes = inl tr /\ names_iris shapes L /\ NoDup (map fst L) /\
    ~ ClosureLemmas.refs_closed shapes /\ ~ node_objects_declared tr (map fst L) /\
    In (TBlank [0; 3], SH "node", TIri (Str "http://weso.es/shapes/D")) tr /\
    ~ node_shape tr (TIri (Str "http://weso.es/shapes/D")) /\
    property_shapes_one_path tr /\ node_shapes_exact tr L.
Proof.
  exists (fst c05_in2), (snd c05_in2), (fst c05_shapes2), (snd c05_shapes2), c05_sgraph2, c05_L2.
  assert (Hg : shacl_graph (fst c05_shapes2) (r_tau (fst c05_in2)) (snd c05_shapes2) = inl c05_sgraph2)
    by (vm_compute; reflexivity).
  assert (HL : names_iris (snd c05_shapes2) c05_L2) by (repeat constructor).
  assert (Hnd : NoDup (map fst c05_L2)).
  { repeat constructor; cbn; intros H; repeat destruct H as [H|H]; try discriminate H; exact H. }
  split; [vm_compute; discriminate|]. split; [vm_compute; reflexivity|]. split; [vm_compute; reflexivity|].
  split; [exact Hg|]. split; [exact HL|]. split; [exact Hnd|].
  split; [intros H; apply ClosureLemmas.refs_closedb_spec in H; vm_compute in H; discriminate H|].
  split; [intros H; apply node_objects_declaredb_complete in H; vm_compute in H; discriminate H|].
  split; [vm_compute; tauto|].
  split.
  - intros H. apply (C05_shacl_node_shapes_iff _ _ _ _ _ Hg HL) in H. destruct H as [u [cl [Hin E]]].
    injection E as E. subst u. cbn in Hin. destruct Hin as [H|[H|[]]]; discriminate H.
  - split; [exact (C05_shacl_one_path _ _ _ _ Hg)|].
    assert (Hcl : forall sh, In sh (snd c05_shapes2) -> target_class_obj (sh_class sh) = sh_class sh).
    { intros sh Hin. apply ShaclProofs.target_class_obj_plain. unfold c05_shapes2 in Hin. cbn [snd In] in Hin.
      repeat destruct Hin as [<-|Hin]; try destruct Hin; reflexivity. }
    exact (C05_shacl_one_node_shape_per_shape_class _ _ _ _ _ Hcl Hg HL Hnd).
Qed.

(** Faults are explicit outcomes: a non-http(s) predicate, an ill-formed label and a missing entry of the
    examples dictionary end the serialisation (ValueError, ValueError, KeyError) *)
Example C05_shacl_faults :
  let st (p : string) := {| s_inv := false; s_prop := Str p; s_types := [Str "IRI"]; s_choice := false; s_card := CExact 1;
                 s_nocc := 1%N; s_prob := POne; s_comments := [] |} in
  let sh (n p : string) := {| sh_name := Str n; sh_class := Str "http://ex.org/C"; sh_n := 1%N; sh_stmts := [st p] |} in
  shacl_graph [] c_RDF_TYPE [sh "%<http://weso.es/shapes/C>"%string "urn:x:p"%string] = inr GValueError /\
  shacl_graph [] c_RDF_TYPE [sh "<http://weso.es/shapes/C>"%string "http://ex.org/p"%string] = inr GValueError /\
  shacl_graph_gen {| d_detect := true; d_pat := fun _ => None |} [] c_RDF_TYPE
                  [sh "%<http://weso.es/shapes/C>"%string "http://ex.org/p"%string] = inr GKeyError /\
  exists g, shacl_graph_gen {| d_detect := true; d_pat := fun _ => Some (Some (Str "http://ex.org/i")) |} [] c_RDF_TYPE
                            [sh "%<http://weso.es/shapes/C>"%string "http://ex.org/p"%string] = inl g /\
            objects g (TIri (Str "http://weso.es/shapes/C")) (SH "pattern") = [TLit (Str "^http://ex.org/i") []].
Proof. repeat split; try (vm_compute; reflexivity). eexists. split; vm_compute; reflexivity. Qed.

(** * SHACL graphs of shape-map runs ([Model.RunMapShacl]; reachable since [_add_target_class]
    removes the corners a label is kept in -- finding C04-F2, Props/C04.v).  S1-S3 hold for them as for
    class-based runs: S2 and S3 for whatever graph the serialiser builds, S1 when the references of the
    shapes resolve, which a pure shape-map run (no target classes, all_classes_mode off) guarantees on
    graphs free of the shape marker ([C05_map_pure_refs_closed]): its class keys are labels of the map,
    which the profile cleaning never removes.  For labels [<iri>] the node shape of a label is the
    label's IRI and its [sh:targetClass] is that IRI too ([label_pairs]). *)
From Shexer Require Import Model.RunMap Model.RunMapShacl Proofs.ShaclMapProofs.
From Shexer Require Model.Selectors.

Theorem C05_map_shacl_graph : forall fa c orc sp thr g ns shapes tr L,
  run_shapes_map fa c orc sp thr g = inl (ns, shapes) ->
  shacl_graph ns (tau_shaper sp) shapes = inl tr -> names_iris_by target_class_obj shapes L ->
  (ClosureLemmas.refs_closed shapes -> node_objects_declared tr (map fst L)) /\ property_shapes_one_path tr /\
  (forall n, node_shape tr n <-> exists u cl, In (u, cl) L /\ n = TIri u) /\
  (NoDup (map fst L) -> node_shapes_exact tr L).
Proof. exact map_shacl_graph. Qed.
Print Assumptions C05_map_shacl_graph.

Theorem C05_map_refs_closed : forall fa c orc sp thr g ns shapes,
  run_shapes_map fa c orc sp thr g = inl (ns, shapes) ->
  (forall I targets P C ID, Selectors.run orc sp g = Selectors.OOk I -> prof_targets orc sp = Selectors.Ok targets ->
     profile (pcfg_map c orc sp targets) I g = inl (P, C, ID) -> ClosureLemmas.profile_refs_closed P) ->
  ClosureLemmas.refs_closed shapes.
Proof. exact map_refs_closed. Qed.
Print Assumptions C05_map_refs_closed.

Theorem C05_map_pure_refs_closed : forall fa c orc sp thr g ns shapes,
  pure_map sp -> forallb (sentinel_free (Selectors.tau_of sp)) g = true ->
  run_shapes_map fa c orc sp thr g = inl (ns, shapes) -> ClosureLemmas.refs_closed shapes.
Proof. exact map_pure_refs_closed. Qed.
Print Assumptions C05_map_pure_refs_closed.

(** S1-S3 from the input alone *)
Theorem C05_map_pure_shacl_run : forall fa c orc sp thr g ns shapes tr,
  c_shacl_target_strips_corners = true -> pure_map sp -> labels_cornered orc sp ->
  forallb (sentinel_free (Selectors.tau_of sp)) g = true ->
  run_shapes_map fa c orc sp thr g = inl (ns, shapes) ->
  shacl_graph ns (tau_shaper sp) shapes = inl tr ->
  node_objects_declared tr (map fst (label_pairs shapes)) /\
  property_shapes_one_path tr /\ node_shapes_exact tr (label_pairs shapes).
Proof. exact map_pure_shacl_run. Qed.
Print Assumptions C05_map_pure_shacl_run.

(** non-vacuity: the pinned shape-map run of Proofs/RunMapWitness.v (labels <http://sh/S>, <http://sh/T>;
    T's node has no triple; remove_empty_shapes and keep_less_specific off so that both shapes are printed and the reference
    S -> T is there) *)
From Shexer Require Import Proofs.RunWitness Proofs.RunMapWitness.

Example C05_map_shacl_inhabited :
  pure_map m_spec /\ labels_cornered m_orc m_spec /\
  forallb (sentinel_free (Selectors.tau_of m_spec)) m_graph = true /\
  exists ns shapes tr,
    run_shapes_map BAlg (with_kls false (with_remove false base_rcfg)) m_orc m_spec thr0 m_graph = inl (ns, shapes) /\
    shacl_graph ns (tau_shaper m_spec) shapes = inl tr /\
    map sh_class shapes = [Str "<http://sh/S>"; Str "<http://sh/T>"] /\
    label_pairs shapes = [(Str "http://sh/S", Str "http://sh/S"); (Str "http://sh/T", Str "http://sh/T")] /\
    existsb (fun t => str_eqb (tr_pred t) (SH "node")) tr = true /\
    node_objects_declaredb tr (map fst (label_pairs shapes)) = true /\ property_shapes_one_pathb tr = true /\
    (c_shacl_target_strips_corners = true ->
     objects tr (TIri (Str "http://sh/T")) (SH "targetClass") = [TIri (Str "http://sh/T")]) /\
    (c_shacl_target_strips_corners = false ->
     objects tr (TIri (Str "http://sh/T")) (SH "targetClass") = [TIri (Str "<http://sh/T>")]).
Proof.
  split; [split; reflexivity|].
  split; [intros l Hl; vm_compute in Hl; repeat destruct Hl as [<-|Hl]; try destruct Hl;
          first [exists (Str "http://sh/S"); split; reflexivity | exists (Str "http://sh/T"); split; reflexivity]|].
  split; [vm_compute; reflexivity|].
  do 3 eexists. split; [vm_compute; reflexivity|]. split; [vm_compute; reflexivity|].
  split; [vm_compute; reflexivity|]. split; [vm_compute; reflexivity|]. split; [vm_compute; reflexivity|].
  split; [vm_compute; reflexivity|]. split; [vm_compute; reflexivity|].
  split; intros E; first [vm_compute in E; discriminate E | vm_compute; reflexivity].
Qed.
