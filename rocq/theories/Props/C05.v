(** * C05 -- produced schemas are well-formed and closed *)
From Coq Require Import List Ascii String ZArith NArith Bool.
From Shexer Require Import Lib.PyStr Spec.ShexcGrammar.
Import ListNotations.

(** the recogniser on a small document (non-vacuity of the Spec predicate) *)
Definition c05_doc_ok : str :=
  Str "PREFIX ex: <http://ex.org/>  PREFIX : <http://weso.es/shapes/>  :A   # 2 instances.  ".

Example C05_spec_accepts :
  wellformed_closed (Str "PREFIX : <http://s/> :A { <http://p> @:A * ; ^ <http://q> IRI OR BNode {2} }") = true.
Proof. vm_compute. reflexivity. Qed.

Example C05_spec_rejects_dangling :
  wellformed_closed (Str "PREFIX : <http://s/> :A { <http://p> @<http://t/A> * }") = false.
Proof. vm_compute. reflexivity. Qed.
