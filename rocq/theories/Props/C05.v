(** * C05 -- produced schemas are well-formed and closed (ShExC text level)

    The Spec side is [Spec/ShexcGrammar.v]: [recognise] (lexer + automaton for
    the ShExC subset), [wellformed_closed] = [recognise] + functional prefix
    map + every used prefix declared + labels pairwise distinct + every
    reference resolves (labels and references compared as expanded IRIs).
    The theorems speak about the text the validated pipeline model prints
    ([SerialShexc.render], [Run.run_shexc]); the check ties that text to the
    real output byte for byte and runs the extracted [wellformed_closed] on
    the real text.

    [C05_dom z shapes] (Model/C05Dom.v) is the boolean domain, over what the
    serialiser receives: namespaces non-empty, made of IRIREF characters, with
    a character outside local names; prefixes valid and pairwise distinct;
    predicates / datatypes / classes are IRIs of IRIREF characters holding ':'
    whose remainder after their namespace is a PN_LOCAL (the property's
    local-name assumption); labels and shape-typed values are [%<iri>];
    statements have a type; no raw (example) comments, no line break in a
    comment token.  The list-level hypotheses [refs_closed] and [NoDup labels]
    are the conclusions of Proofs/ClosureLemmas.v (branch b-pc). *)
From Coq Require Import List Ascii String ZArith NArith Bool.
From Shexer Require Import Lib.PyStr Lib.Dict Gen.Consts Spec.Rdf Model.Tokens Model.Freq Model.FreqInst
     Model.Shexing Model.SerialShexc Model.Run Model.C05Dom Spec.ShexcGrammar
     Proofs.WellFormedTokens Proofs.WellFormedLex Proofs.WellFormedProofs.
Import ListNotations.

(** ** W1: the prefix map of the document is functional *)
Theorem C05_prefix_map_functional : forall c ns,
  full_ns c = Some ns -> NoDup (map snd (r_ns c)) -> NoDup (map snd ns).
Proof. exact full_ns_functional. Qed.
Print Assumptions C05_prefix_map_functional.

(** the random fallback (an oracle, outside the model) is taken exactly when
    the user's dictionary uses all four priority prefixes *)
Theorem C05_prefix_fallback_iff : forall ns,
  shapes_prefix ns = None <-> (forall p, In p c_PRIORITY_PREFIXES_FOR_SHAPES -> In p (map snd ns)).
Proof. exact shapes_prefix_none. Qed.
Print Assumptions C05_prefix_fallback_iff.

(** the user's dictionary already maps the shapes namespace: the assignment
    overwrites the user's prefix with the fresh one; same namespaces *)
Theorem C05_prefix_overwrite : forall c ns q,
  dget (r_ns c) (r_shapes_ns c) = Some q -> full_ns c = Some ns ->
  exists p, shapes_prefix (r_ns c) = Some p /\ p <> q /\ dget ns (r_shapes_ns c) = Some p /\
            dkeys ns = dkeys (r_ns c).
Proof. exact full_ns_overwrites. Qed.
Print Assumptions C05_prefix_overwrite.

(** ** W2: every token is <...>, a node-kind keyword, p:local with p declared,
    or '@' followed by one of these -- for all dictionaries with non-empty
    namespaces and all tokens shaped like the pipeline's *)
Theorem C05_tokens_declared : forall ns tok s,
  keys_nonempty ns -> tune_token ns tok = Some s ->
  (prefixb c_STARTING_CHAR_FOR_SHAPE_NAME tok = true ->
   exists u, tok = c_STARTING_CHAR_FOR_SHAPE_NAME ++ Str "<" ++ u ++ Str ">") ->
  (prefixb c_STARTING_CHAR_FOR_SHAPE_NAME tok = false ->
   mem_str tok [c_IRI_ELEM_TYPE; c_BNODE_ELEM_TYPE; c_NONLITERAL_ELEM_TYPE] = false ->
   contains (Str ":") tok = true) ->
  token_form ns s.
Proof. exact tune_token_form. Qed.
Print Assumptions C05_tokens_declared.

(** the prefixed form: the prefix is declared, the local part holds no '/' / '#'
    when the prefix holds none *)
Theorem C05_tokens_local_clean : forall ns u s, prefixed ns u s ->
  exists p local, In p (map snd ns) /\ s = p ++ Str ":" ++ local /\
    (forallb (not_char "/"%char) p = true -> forallb (not_char "/"%char) local = true) /\
    (forallb (not_char "#"%char) p = true -> forallb (not_char "#"%char) local = true).
Proof. exact prefixed_local_clean. Qed.
Print Assumptions C05_tokens_local_clean.

(** with the local-name assumption the printed name is a PNAME_LN token *)
Theorem C05_tokens_pname : forall ns u, ns_ok ns = true -> plain_ok ns u = true ->
  exists s, tune_token ns u = Some s /\ tokL s [iri_tok ns u].
Proof. exact tune_plain. Qed.
Print Assumptions C05_tokens_pname.

(** ** W3: every line is accepted by its production *)
Theorem C05_lines_recognised :
  (forall n p, ns_entry_ok (n, p) = true ->
     lexes (Str "PREFIX " ++ p ++ Str ": <" ++ n ++ Str ">" ++ [nlc]) [TPrefixKw; TPname p []; TIri n]) /\
  (forall z cnt s is_last, ns_ok (z_ns z) = true -> stmt_ok z s = true ->
     exists ls, statement_lines z cnt s is_last = Some ls /\ lexes (List.concat ls) (stmt_toks z s is_last) /\
                prun PBody (stmt_toks z s is_last) = Some (if is_last then after_card (s_card s) else PBody)) /\
  (forall z sh, ns_ok (z_ns z) = true -> shape_ok z sh = true ->
     exists ls, shape_lines z sh [] [] = Some ls /\ lexes (List.concat ls) (shape_toks z sh) /\
                prun PTop (shape_toks z sh) = Some PTop).
Proof.
  split; [exact prefix_line_lexes|]. split.
  - intros z cnt s b Hns Hs. destruct (statement_lexes z cnt s b Hns Hs) as [ls [H1 H2]].
    exists ls. split; [exact H1|]. split; [exact H2|]. apply (stmt_run z s b Hs).
  - intros z sh Hns Hs. destruct (shape_lexes z sh Hns Hs) as [ls [H1 H2]].
    exists ls. split; [exact H1|]. split; [exact H2|]. apply (shape_run z sh Hs).
Qed.
Print Assumptions C05_lines_recognised.

Theorem C05_document_recognised : forall z l, C05_dom z l = true ->
  exists text, render z l = Some text /\ recognise text = true.
Proof. exact document_recognised. Qed.
Print Assumptions C05_document_recognised.

(** ** W4: the text is closed when the shape list is *)
Theorem C05_closed_text : forall z l,
  C05_dom z l = true -> refs_closed l -> NoDup (map sh_name l) ->
  exists text, render z l = Some text /\ wellformed_closed text = true.
Proof. exact document_wellformed_closed. Qed.
Print Assumptions C05_closed_text.

(** the whole run, for every frequency algebra *)
Theorem C05_wellformed_closed_partial : forall fa c thr g ns shapes,
  run_shapes fa c thr g = inl (ns, shapes) -> C05_dom (z_of c ns) shapes = true ->
  refs_closed shapes -> NoDup (map sh_name shapes) ->
  exists text, run_shexc fa c thr g = inl text /\ wellformed_closed text = true.
Proof. exact run_wellformed_closed. Qed.
Print Assumptions C05_wellformed_closed_partial.

(** ** non-vacuity and refutations (vm_compute on the model) *)
Definition c05_cfg (user : nsdict) (shapes_ns : str) : rcfg :=
  {| r_tau := c_RDF_TYPE; r_targets := None; r_ns := user; r_shapes_ns := shapes_ns; r_cap := (-1)%Z;
     r_inverse := true; r_remove_empty := true; r_discard_useless := true; r_keep_less_specific := true;
     r_all_compliant := true; r_disable_or := true; r_allow_redundant_or := false; r_allow_opt := true;
     r_disable_exact := false; r_disable_comments := false; r_mode := FMixed |}.

Definition c05_iri (s : string) : node := Node Rdf.KIri (Str s).

Definition c05_graph (c d : string) : graph :=
  [T (c05_iri "http://ex.org/a") c_RDF_TYPE (ON (c05_iri c));
   T (c05_iri "http://ex.org/b") c_RDF_TYPE (ON (c05_iri d));
   T (c05_iri "http://ex.org/a") (Str "http://ex.org/p") (ON (c05_iri "http://ex.org/b"));
   T (c05_iri "http://ex.org/b") (Str "http://ex.org/q.r") (OL (Str "v") (Str "http://www.w3.org/2001/XMLSchema#string"))].

Definition c05_user : nsdict :=
  [(Str "http://ex.org/", Str "ex"); (Str "http://y/", Str ""); (Str "http://www.w3.org/2001/XMLSchema#", Str "xsd")].

(** the model's answers on the three witnesses, computed once *)
Definition c05_in1 := (c05_cfg c05_user c_SHAPES_DEFAULT_NAMESPACE, c05_graph "http://ex.org/C" "http://ex.org/D").
Definition c05_in2 := (c05_cfg c05_user (Str "http://custom.example/shapes#"), c05_graph "http://ex.org/C" "http://ex.org/D").
Definition c05_in3 := (c05_cfg c05_user c_SHAPES_DEFAULT_NAMESPACE, c05_graph "http://ex.org/C" "http://second.org/ns#C").
Definition c05_in4 := (c05_cfg c05_user c_SHAPES_DEFAULT_NAMESPACE, c05_graph "http://ex.org/-C" "http://ex.org/D").

Definition c05_text (i : rcfg * graph) : str :=
  match run_shexc BAlg (fst i) (b_ratio 0 1) (snd i) with inl t => t | inr _ => [] end.
Definition c05_shapes (i : rcfg * graph) : nsdict * list shape :=
  match run_shapes BAlg (fst i) (b_ratio 0 1) (snd i) with inl r => r | inr _ => ([], []) end.
Definition c05_toks (i : rcfg * graph) : list token :=
  match lex (c05_text i) with Some ts => ts | None => [] end.

Definition c05_text1 := Eval vm_compute in c05_text c05_in1.
Definition c05_text2 := Eval vm_compute in c05_text c05_in2.
Definition c05_text3 := Eval vm_compute in c05_text c05_in3.
Definition c05_text4 := Eval vm_compute in c05_text c05_in4.
Definition c05_shapes1 := Eval vm_compute in c05_shapes c05_in1.
Definition c05_shapes3 := Eval vm_compute in c05_shapes c05_in3.
Definition c05_toks2 := Eval vm_compute in c05_toks c05_in2.
Definition c05_toks3 := Eval vm_compute in c05_toks c05_in3.

(** a run inside the domain: all hypotheses hold, the text is well-formed and closed *)
Example C05_dom_inhabited :
  run_shapes BAlg (fst c05_in1) (b_ratio 0 1) (snd c05_in1) = inl c05_shapes1 /\
  C05_dom (z_of (fst c05_in1) (fst c05_shapes1)) (snd c05_shapes1) = true /\
  refs_closedb (snd c05_shapes1) = true /\ labels_nodupb (snd c05_shapes1) = true /\
  shape_types (snd c05_shapes1) <> [] /\
  run_shexc BAlg (fst c05_in1) (b_ratio 0 1) (snd c05_in1) = inl c05_text1 /\
  wellformed_closed c05_text1 = true.
Proof.
  split; [vm_compute; reflexivity|]. split; [vm_compute; reflexivity|]. split; [vm_compute; reflexivity|].
  split; [vm_compute; reflexivity|]. split; [vm_compute; discriminate|]. split; vm_compute; reflexivity.
Qed.

(** Known finding C05-F1: a custom shapes_namespace; the document parses but
    the reference minted in the default namespace resolves to no shape *)
Lemma C05_custom_namespace_refuted :
  exists c g text, run_shexc BAlg c (b_ratio 0 1) g = inl text /\ recognise text = true /\
    wellformed_closed text = false /\
    (exists ts, lex text = Some ts /\ prefixes_functional ts = true /\ prefixes_declared ts = true /\
                labels_distinct ts = true /\ refs_resolve ts = false).
Proof.
  exists (fst c05_in2), (snd c05_in2), c05_text2.
  split; [vm_compute; reflexivity|]. split; [vm_compute; reflexivity|]. split; [vm_compute; reflexivity|].
  exists c05_toks2. split; [vm_compute; reflexivity|]. split; [vm_compute; reflexivity|].
  split; [vm_compute; reflexivity|]. split; vm_compute; reflexivity.
Qed.

(** Known finding C05-F2: two classes sharing a local name: one label defined twice *)
Lemma C05_shared_local_name_refuted :
  exists c g text, run_shexc BAlg c (b_ratio 0 1) g = inl text /\ recognise text = true /\
    wellformed_closed text = false /\
    (exists ts, lex text = Some ts /\ labels_distinct ts = false) /\
    (exists r, run_shapes BAlg c (b_ratio 0 1) g = inl r /\ labels_nodupb (snd r) = false).
Proof.
  exists (fst c05_in3), (snd c05_in3), c05_text3.
  split; [vm_compute; reflexivity|]. split; [vm_compute; reflexivity|]. split; [vm_compute; reflexivity|].
  split.
  - exists c05_toks3. split; vm_compute; reflexivity.
  - exists c05_shapes3. split; vm_compute; reflexivity.
Qed.

(** outside the local-name assumption: a class whose local name starts with
    '-' is printed as a prefixed name that is not a PNAME_LN *)
Lemma C05_local_name_assumption_needed :
  exists c g text, run_shexc BAlg c (b_ratio 0 1) g = inl text /\ recognise text = false.
Proof.
  exists (fst c05_in4), (snd c05_in4), c05_text4. split; vm_compute; reflexivity.
Qed.

(** Known finding C05-F3 (rdflib-parsed input, outside the pipeline model):
    the real output declares the empty prefix twice; the Spec predicate
    rejects such a document on [prefixes_functional] *)
Lemma C05_parsed_prefix_collision_rejected :
  exists ts, lex (Str "PREFIX : <http://weso.es/shapes/>  PREFIX : <http://ex.org/>  :C { :p  @:D ; <http://t>  [:C] }  :D { <http://t>  [:D] }") = Some ts /\
             parses ts = true /\ prefixes_functional ts = false.
Proof. eexists. split; [vm_compute; reflexivity|]. split; vm_compute; reflexivity. Qed.

(** ** INPUT LEVEL (proofs in Proofs/InputLevel.v): no model-level hypothesis

    [c05_input_ok c g] is a boolean on the run's INPUT (configuration and
    graph); it is the property's own quantifier:
    - [valid_input c g] (Proofs/EndToEnd2.v): no typing triple has a literal
      object; no predicate / datatype / class IRI / typed subject starts with
      the label sentinel '%'; disjunctions disabled or empty shapes kept; one
      of the four priority prefixes is free;
    - [r_shapes_ns c] is the default shapes namespace (else: C05-F1);
    - the completed namespaces dictionary [full_ns c] is sane ([ns_ok]:
      namespaces non-empty, of IRIREF characters, holding a character that no
      local name holds; prefixes PN_PREFIX or empty, pairwise distinct);
    - every triple is [triple_ok]: its predicate is a plain IRI
      ([plain_ok ns u]: IRIREF characters, holds ':', does not start with '%',
      and when a namespace of the dictionary matches ([best_ns]) the remainder
      is a PN_LOCAL -- else it is printed [<u>]); a literal's datatype is a
      plain IRI; the object of a typing triple is a class IRI ([class_ok]:
      plain IRI, does not start with "@", and the label of its shape
      [%<shapes namespace + local name>] is [label_ok], i.e. the local name is
      a PN_LOCAL when the label is printed prefixed); with inverse paths the
      subject of a typing triple (printed as a value of the typing property)
      is a plain IRI; requested target classes are class IRIs;
    - the class IRIs (targets, objects of typing triples) have pairwise
      distinct labels (else: C05-F2). *)
From Shexer Require Import Model.Tracker Model.Profiler Proofs.Bin64Round Proofs.EndToEnd Proofs.EndToEnd2 Proofs.RunWitness
     Proofs.InputLevel.

Theorem C05_input_ok_unfold : forall c g, c05_input_ok c g = true ->
  valid_input c g = true /\ r_shapes_ns c = c_SHAPES_DEFAULT_NAMESPACE /\
  exists ns, full_ns c = Some ns /\ ns_ok ns = true /\
    (forall t, In t g -> triple_ok c ns t = true) /\
    (forall t, In t (match r_targets c with Some l => l | None => [] end) -> class_ok c ns t = true) /\
    NoDup (map (shape_name (r_shapes_ns c)) (input_classes c g)).
Proof. exact c05_input_ok_parts. Qed.

Theorem C05_triple_ok_unfold : forall c ns t,
  triple_ok c ns t =
  plain_ok ns (tp t) &&
  match to t with
  | OL _ dt => plain_ok ns dt
  | ON o => if str_eqb (tp t) (r_tau c)
            then class_ok c ns (nid o) && (negb (r_inverse c) || plain_ok ns (nid (ts t)))
            else true
  end.
Proof. reflexivity. Qed.

Theorem C05_class_ok_unfold : forall c ns cls,
  class_ok c ns cls = plain_ok ns cls && no_at cls && label_ok ns (shape_name (r_shapes_ns c) cls).
Proof. reflexivity. Qed.

Theorem C05_input_classes_unfold : forall c g,
  input_classes c g =
  Counts.uniq_first ((match r_targets c with Some l => l | None => [] end) ++
    flat_map (fun t => if str_eqb (tp t) (r_tau c) then match to t with ON o => [nid o] | OL _ _ => [] end else []) g).
Proof. reflexivity. Qed.

(** A1: the references of the class profile resolve, for EVERY graph without
    the sentinel where a key is taken from, any target mode, any cap, with or
    without the profile-level cleaning *)
Theorem C05_profile_refs_closed : forall c g I P C ID,
  forallb (sentinel_free (r_tau c)) g = true ->
  track (r_tau c) (mode_of c) (r_cap c) g = inl I ->
  profile (pcfg_of c) I g = inl (P, C, ID) ->
  ClosureLemmas.profile_refs_closed P.
Proof. exact run_profile_refs_closed. Qed.
Print Assumptions C05_profile_refs_closed.

Theorem C05_run_refs_closed : forall fa c thr g ns shapes,
  forallb (sentinel_free (r_tau c)) g = true -> r_shapes_ns c = c_SHAPES_DEFAULT_NAMESPACE ->
  run_shapes fa c thr g = inl (ns, shapes) -> refs_closed shapes.
Proof. exact run_refs_closed. Qed.
Print Assumptions C05_run_refs_closed.

(** A3: labels pairwise distinct, from the condition on the input *)
Theorem C05_run_labels_distinct : forall fa c thr g ns shapes,
  NoDup (map (shape_name (r_shapes_ns c)) (input_classes c g)) ->
  run_shapes fa c thr g = inl (ns, shapes) -> NoDup (map sh_name shapes).
Proof. exact run_labels_NoDup. Qed.
Print Assumptions C05_run_labels_distinct.

(** A2: the shape list is in the domain of the text-level theorems, for every
    setting of the options (disjunctions included) *)
Theorem C05_run_dom : forall fa c thr g ns shapes,
  c05_input_ok c g = true -> run_shapes fa c thr g = inl (ns, shapes) ->
  C05_dom (z_of c ns) shapes = true /\ refs_closed shapes /\ NoDup (map sh_name shapes).
Proof. exact run_C05_dom. Qed.
Print Assumptions C05_run_dom.

(** the headline: for every input inside [c05_input_ok], every frequency
    algebra and every threshold, the run succeeds and its text is recognised,
    well-formed and closed *)
Theorem C05_run_wellformed : forall c g, c05_input_ok c g = true ->
  forall fa thr, exists text,
    run_shexc fa c thr g = inl text /\ recognise text = true /\ wellformed_closed text = true.
Proof. intros c g H fa thr. exact (run_wellformed fa c thr g H). Qed.
Print Assumptions C05_run_wellformed.

(** non-vacuity: the predicate holds on the first witness (namespace ex:
    declared) and on RunWitness graphs with disjunctions enabled (a choice
    statement is produced); it rejects the three refuted witnesses (custom
    namespace, shared local name, local name starting with '-') *)
Definition c05_rw_cfg : rcfg :=
  {| r_tau := c_RDF_TYPE; r_targets := None; r_ns := [(Str "http://ex.org/", Str "ex")];
     r_shapes_ns := c_SHAPES_DEFAULT_NAMESPACE; r_cap := (-1)%Z;
     r_inverse := true; r_remove_empty := false; r_discard_useless := true; r_keep_less_specific := true;
     r_all_compliant := true; r_disable_or := false; r_allow_redundant_or := false; r_allow_opt := true;
     r_disable_exact := false; r_disable_comments := false; r_mode := FMixed |}.

Example C05_input_ok_nonvacuous :
  c05_input_ok (fst c05_in1) (snd c05_in1) = true /\
  c05_input_ok c05_rw_cfg g_reftie_1 = true /\ c05_input_ok c05_rw_cfg g_cardtie_1 = true /\
  c05_input_ok c05_rw_cfg g_split = true /\
  (exists ns l, run_shapes BAlg c05_rw_cfg (b_ratio 0 1) g_reftie_1 = inl (ns, l) /\
                existsb (fun sh => existsb (fun s => s_choice s) (sh_stmts sh)) l = true) /\
  c05_input_ok (fst c05_in2) (snd c05_in2) = false /\
  c05_input_ok (fst c05_in3) (snd c05_in3) = false /\
  c05_input_ok (fst c05_in4) (snd c05_in4) = false.
Proof.
  split; [vm_compute; reflexivity|]. split; [vm_compute; reflexivity|]. split; [vm_compute; reflexivity|].
  split; [vm_compute; reflexivity|]. split.
  - destruct (run_shapes BAlg c05_rw_cfg (b_ratio 0 1) g_reftie_1) as [[ns l]|e] eqn:E; vm_compute in E; [|discriminate E].
    injection E as <- <-. eexists; eexists. split; [reflexivity | vm_compute; reflexivity].
  - split; [vm_compute; reflexivity|]. split; vm_compute; reflexivity.
Qed.

(** the headline applied to the first witness gives the text computed above *)
Example C05_run_wellformed_applies :
  exists text, run_shexc BAlg (fst c05_in1) (b_ratio 0 1) (snd c05_in1) = inl text /\
               recognise text = true /\ wellformed_closed text = true.
Proof. apply C05_run_wellformed. vm_compute. reflexivity. Qed.

(** binary64, thresholds <= 1, fewer than 2^53 triples: ANY setting of the
    options.  [c05_input_ok_le1] is [c05_input_ok] without condition (iii) of
    [valid_input] (disjunctions disabled or empty shapes kept; the free
    prefix is implied by [full_ns c = Some _]). *)
Theorem C05_input_ok_le1_unfold : forall c g,
  (c05_input_ok c g = valid_input c g && c05_core_ok c g) /\
  (c05_input_ok_le1 c g = typing_okb (r_tau c) g && forallb (sentinel_free (r_tau c)) g && c05_core_ok c g).
Proof. split; reflexivity. Qed.

Theorem C05_run_wellformed_any_options : forall c thr g,
  c05_input_ok_le1 c g = true ->
  wf_frac thr -> fle BAlg thr (fone BAlg) = true -> (N.of_nat (List.length g) < 2 ^ 53)%N ->
  exists text, run_shexc BAlg c thr g = inl text /\ recognise text = true /\ wellformed_closed text = true.
Proof. exact run_wellformed_le1. Qed.
Print Assumptions C05_run_wellformed_any_options.

(** disjunctions enabled AND remove_empty_shapes on: outside [c05_input_ok],
    inside [c05_input_ok_le1] *)
Definition c05_rw_cfg2 : rcfg :=
  {| r_tau := c_RDF_TYPE; r_targets := None; r_ns := [(Str "http://ex.org/", Str "ex")];
     r_shapes_ns := c_SHAPES_DEFAULT_NAMESPACE; r_cap := (-1)%Z;
     r_inverse := true; r_remove_empty := true; r_discard_useless := true; r_keep_less_specific := true;
     r_all_compliant := true; r_disable_or := false; r_allow_redundant_or := false; r_allow_opt := true;
     r_disable_exact := false; r_disable_comments := false; r_mode := FMixed |}.

Example C05_any_options_nonvacuous :
  c05_input_ok c05_rw_cfg2 g_reftie_1 = false /\ c05_input_ok_le1 c05_rw_cfg2 g_reftie_1 = true.
Proof. split; vm_compute; reflexivity. Qed.

(** the sentinel hypothesis of A1 is needed: a literal whose datatype starts
    with '%' is stored as a type key that reads as a reference *)
Definition c05_g_sentinel : graph :=
  [T (c05_iri "http://ex.org/a") c_RDF_TYPE (ON (c05_iri "http://ex.org/C"));
   T (c05_iri "http://ex.org/a") (Str "http://ex.org/p") (OL (Str "v") (Str "%x"))].

Definition c05_I_sentinel : insts := [(Str "http://ex.org/a", [Str "http://ex.org/C"])].

Lemma C05_profile_refs_sentinel_needed :
  exists c g I P C ID,
    track (r_tau c) (mode_of c) (r_cap c) g = inl I /\ profile (pcfg_of c) I g = inl (P, C, ID) /\
    ~ ClosureLemmas.profile_refs_closed P.
Proof.
  destruct (profile (pcfg_of (fst c05_in1)) c05_I_sentinel c05_g_sentinel) as [[[P C] ID]|e] eqn:EP;
    vm_compute in EP; [|discriminate EP]. injection EP as <- <- <-.
  eexists (fst c05_in1), c05_g_sentinel, c05_I_sentinel, _, _, _.
  split; [vm_compute; reflexivity|]. split; [vm_compute; reflexivity|].
  intros H.
  match type of H with ClosureLemmas.profile_refs_closed ?P =>
    match P with (?cl, ?e) :: _ => specialize (H cl e (Str "%x") (or_introl eq_refl)) end end.
  destruct H as (c' & Hc' & E).
  - match goal with |- ClosureLemmas.entry_key ?e _ =>
      match eval cbv [c_direct] in (c_direct e) with
      | _ :: (?p, ?m) :: _ => match m with (?k, ?cd) :: _ => exists p, m, cd end
      end end.
    split; [left; right; left; reflexivity | left; reflexivity].
  - reflexivity.
  - destruct Hc' as [<-|[]]. vm_compute in E. discriminate E.
Qed.
