(** * Frequency-algebra laws: the statements the pipeline properties rely on.

    [QAlg]: exact rationals, any denominator [0 < d].
    [BAlg]: the binary64 model of CPython's [float(n)/float(d)], [+], [<=],
    [==] ([Lib/Bin64.v]), denominators [0 < d < 2^53].
    No axioms: the binary64 model is integer arithmetic over [Z]. *)
From Coq Require Import ZArith NArith Bool.
From Shexer Require Import Lib.Bin64 Model.Freq Model.FreqInst Proofs.Bin64Round Proofs.FreqLaws Proofs.Bin64Sum.
Local Open Scope Z_scope.

Theorem FreqLaws_QAlg : FreqLaws QAlg (fun d => 0 < d)%N wf_frac.
Proof. exact QAlg_laws. Qed.
Print Assumptions FreqLaws_QAlg.

Theorem FreqLaws_BAlg : FreqLaws BAlg (fun d => 0 < d < 2 ^ 53)%N wf_frac.
Proof. exact BAlg_laws. Qed.
Print Assumptions FreqLaws_BAlg.

(** the binary64 facts behind [FreqLaws_BAlg], stated on [round64]/[div64] *)

Theorem Bin64_round_wf : forall x, 0 < snd x -> wf_frac (round64 x).
Proof. exact round64_wf. Qed.
Print Assumptions Bin64_round_wf.

Theorem Bin64_round_mono :
  forall x y, wf_frac x -> wf_frac y -> qle x y -> qle (round64 x) (round64 y).
Proof. exact round64_mono. Qed.
Print Assumptions Bin64_round_mono.

(** the result is [m * 2^e] with [2^52 <= m <= 2^53], [e] the binade of the
    argument, and lies within half a grid step [2^e / 2] of the argument *)
Theorem Bin64_round_nearest :
  forall n d, 0 < n -> 0 < d ->
  exists m e, round64 (n, d) = (m * PP e, QQ e) /\
              2 ^ 52 * (d * PP e) <= n * QQ e < 2 ^ 53 * (d * PP e) /\
              2 ^ 52 <= m <= 2 ^ 53 /\
              - (d * PP e) <= 2 * (m * (d * PP e) - n * QQ e) <= d * PP e.
Proof. exact round64_near. Qed.
Print Assumptions Bin64_round_nearest.

(** a value [M * 2^e] with a 53-bit significand [M] is a fixed point *)
Theorem Bin64_round_representable :
  forall n d M e, 0 < d -> 2 ^ 52 <= M < 2 ^ 53 -> n * QQ e = M * (d * PP e) ->
  round64 (n, d) = (M * PP e, QQ e).
Proof. exact round64_repr. Qed.
Print Assumptions Bin64_round_representable.

Theorem Bin64_round_idempotent : forall x, 0 < snd x -> qeq (round64 (round64 x)) (round64 x).
Proof. exact round64_idem. Qed.
Print Assumptions Bin64_round_idempotent.

Theorem Bin64_div_one : forall d, 0 < d -> div64 d d = (2 ^ 52, 2 ^ 52).
Proof. exact round64_one. Qed.

Theorem Bin64_div_zero : forall d, div64 0 d = (0, 1).
Proof. intros d. apply round64_zero. apply Z.le_refl. Qed.

Theorem Bin64_div_strict :
  forall n1 n2 d, 0 <= n1 -> n1 < n2 -> n2 <= d -> d < 2 ^ 53 -> qlt (div64 n1 d) (div64 n2 d).
Proof. exact div64_strict. Qed.
Print Assumptions Bin64_div_strict.

Theorem Bin64_div_one_iff :
  forall n d, 0 <= n -> n <= d -> 0 < d -> d < 2 ^ 53 -> (qeq (div64 n d) (1, 1) <-> n = d).
Proof. exact div64_one_iff. Qed.
Print Assumptions Bin64_div_one_iff.

(** non-vacuity: the laws speak about the values CPython computes *)
Example b_ratio_third : b_ratio 1 3 = (6004799503160661, 2 ^ 54).
Proof. vm_compute. reflexivity. Qed.   (* 0x1.5555555555555p-2 *)

Example b_sum_3_4_7 : feq64 (add64 (b_ratio 3 7) (b_ratio 4 7)) (1, 1) = true.
Proof. vm_compute. reflexivity. Qed.

(** the bound on the denominator matters for strictness: beyond 2^53 two
    different counts can give the same double *)
Example strict_needs_bound :
  exists n1 n2 d, n1 < n2 <= d /\ feq64 (div64 n1 d) (div64 n2 d) = true.
Proof. exists (2 ^ 54 - 1), (2 ^ 54), (2 ^ 54). vm_compute. split; [split; [reflexivity | discriminate] | reflexivity]. Qed.

(** ** the sum of two ratios (IRI + BNode merge): [a/d + b/d == 1 <-> a + b = d] *)

Theorem FreqSumLaws_QAlg : FreqSumLaws QAlg (fun d => 0 < d)%N.
Proof. exact QAlg_sum_laws. Qed.
Print Assumptions FreqSumLaws_QAlg.

Theorem FreqSumLaws_BAlg : FreqSumLaws BAlg (fun d => 0 < d <= 2 ^ 52)%N.
Proof. exact BAlg_sum_laws. Qed.
Print Assumptions FreqSumLaws_BAlg.

Theorem Bin64_sum_eq_one :
  forall a b d, 0 <= a -> 0 <= b -> 0 < d -> a + b = d -> qeq (add64 (div64 a d) (div64 b d)) (1, 1).
Proof. exact sum_eq_one. Qed.
Print Assumptions Bin64_sum_eq_one.

Theorem Bin64_sum_lt_one :
  forall a b d, 0 <= a -> 0 <= b -> a + b < d -> d <= 2 ^ 52 -> qlt (add64 (div64 a d) (div64 b d)) (1, 1).
Proof. exact sum_lt_one. Qed.
Print Assumptions Bin64_sum_lt_one.

(** the bound [d <= 2^52] of [Bin64_sum_lt_one] cannot be raised to [2^53]:
    CPython gives float(a)/float(d) + float(b)/float(d) == 1.0 for these counts *)
Example sum_lt_one_needs_bound :
  exists a b d, 0 <= a /\ 0 <= b /\ a + b < d /\ d < 2 ^ 53 /\
                feq64 (add64 (div64 a d) (div64 b d)) (1, 1) = true.
Proof.
  exists 3735027241743684, 4782519514342765, 8517546756086450. vm_compute.
  repeat split; discriminate.
Qed.
