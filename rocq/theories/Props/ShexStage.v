(** * The shexing stage [shex fa cfg thr P C], for an arbitrary class profile
    [P] and instance counts [C] (parts of C01, C02, C03, C12).

    Statements only; proofs are in Proofs/ShexLemmas.v and Proofs/ShexKeys.v.
    Laws of the frequency algebra appear as explicit premises ([okF]: the
    frequency values, [okN]: the class sizes on which they hold); they are
    discharged for the exact rationals [QAlg] at the end (Proofs/ShexQ.v). *)
From Coq Require Import List Ascii String ZArith NArith Bool.
From Shexer Require Import Lib.PyStr Lib.Dict Lib.Bin64 Gen.Consts Model.Profiler Model.Tokens
  Model.Freq Model.FreqInst Model.Shexing Proofs.ShexLemmas Proofs.ShexKeys Proofs.ShexQ.
Import ListNotations.

(** ** K1 (C02): shapes and keys.  [skey st = (direction, property, value
    class)]; [key_passes] = some profile entry of the key reaches the
    threshold; [pd_no_nl] = no type key is literally "NONLITERAL". *)
Theorem ShexStage_K1 : forall fa cfg (thr : F fa) P C shapes,
  x_remove_empty cfg = false -> shex fa cfg thr P C = inl shapes ->
  Forall2 (fun ce sh =>
    sh_name sh = shape_name (x_shapes_ns cfg) (fst ce) /\ sh_class sh = fst ce /\
    sh_n sh = cnt_of C (fst ce) /\
    (forall inv p vc, In (inv, p, vc) (map (skey cfg) (sh_stmts sh)) <->
                      key_passes fa cfg thr (cnt_of C (fst ce)) (class_pd cfg ce inv) p vc) /\
    (pd_no_nl cfg (class_pd cfg ce false) -> pd_no_nl cfg (class_pd cfg ce true) ->
     NoDup (map (skey cfg) (sh_stmts sh))))
    P shapes.
Proof. exact K1. Qed.
Print Assumptions ShexStage_K1.

(** corollary with monotony: a key passes iff the largest count among its
    entries does *)
Theorem ShexStage_K1_max : forall fa cfg (okF : F fa -> Prop) (okN : N -> Prop),
  (forall n N, okN N -> okF (ratio fa n N)) ->
  (forall a b c, okF a -> okF b -> okF c -> fle fa a b = true -> fle fa b c = true -> fle fa a c = true) ->
  (forall n1 n2 N, okN N -> (n1 <= n2)%N -> fle fa (ratio fa n1 N) (ratio fa n2 N) = true) ->
  forall thr cnt pd p vc, okF thr -> okN cnt ->
  (key_passes fa cfg thr cnt pd p vc <->
   exists k ck n, pd_entry pd p k ck n /\ value_class (x_tau cfg) p [k] = vc /\
     (forall k' ck' n', pd_entry pd p k' ck' n' -> value_class (x_tau cfg) p [k'] = vc -> (n' <= n)%N) /\
     fle fa thr (ratio fa n cnt) = true).
Proof. exact key_passes_max. Qed.
Print Assumptions ShexStage_K1_max.

(** with [remove_empty]: what is left are non-empty shapes of classes of the
    profile; a key that is present has an entry at or above the threshold, and
    no key occurs twice.  (The converse of presence fails exactly for
    references to removed shapes: see [ShexStage_K2_remove_key_refuted].) *)
Theorem ShexStage_K1_remove : forall fa cfg (thr : F fa) P C shapes,
  x_remove_empty cfg = true -> shex fa cfg thr P C = inl shapes ->
  forall sh, In sh shapes ->
  exists ce, In ce P /\ sh_name sh = shape_name (x_shapes_ns cfg) (fst ce) /\ sh_class sh = fst ce /\
    sh_n sh = cnt_of C (fst ce) /\ sh_stmts sh <> [] /\
    (forall inv p vc, In (inv, p, vc) (map (skey cfg) (sh_stmts sh)) ->
                      key_passes fa cfg thr (cnt_of C (fst ce)) (class_pd cfg ce inv) p vc) /\
    (pd_no_nl cfg (class_pd cfg ce false) -> pd_no_nl cfg (class_pd cfg ce true) ->
     NoDup (map (skey cfg) (sh_stmts sh))).
Proof. exact K1_remove. Qed.
Print Assumptions ShexStage_K1_remove.

(** ** K3 (C01): every figure of the output is a figure of the profile
    ([post_ok], see Proofs/ShexKeys.v); the threshold does not occur. *)
Theorem ShexStage_K3 : forall fa cfg (thr : F fa) P C shapes,
  shex fa cfg thr P C = inl shapes ->
  forall sh, In sh shapes ->
  exists ce, In ce P /\ sh_name sh = shape_name (x_shapes_ns cfg) (fst ce) /\ sh_class sh = fst ce /\
             sh_n sh = cnt_of C (fst ce) /\
             forall st, In st (sh_stmts sh) -> post_ok cfg (class_pd cfg ce (s_inv st)) st.
Proof. exact K3. Qed.
Print Assumptions ShexStage_K3.

Theorem ShexStage_K3_functional : forall pd p k n n' pr pr' c,
  pd_functional pd -> k <> c_NONLITERAL_ELEM_TYPE ->
  fig_src pd p k n pr c -> fig_src pd p k n' pr' c -> n = n' /\ pr = pr'.
Proof. exact fig_src_functional. Qed.
Print Assumptions ShexStage_K3_functional.

(** ** K2 (C12): raising the threshold only removes keys *)
Theorem ShexStage_K2_keep : forall fa cfg (okF : F fa -> Prop) (okN : N -> Prop),
  (forall n N, okN N -> okF (ratio fa n N)) ->
  (forall a b c, okF a -> okF b -> okF c -> fle fa a b = true -> fle fa b c = true -> fle fa a c = true) ->
  forall thr1 thr2 P C s1 s2,
  x_remove_empty cfg = false -> okF thr1 -> okF thr2 -> counts_ok cfg okN P C -> fle fa thr1 thr2 = true ->
  shex fa cfg thr1 P C = inl s1 -> shex fa cfg thr2 P C = inl s2 ->
  Forall2 (fun sh1 sh2 =>
    sh_name sh1 = sh_name sh2 /\ sh_class sh1 = sh_class sh2 /\ sh_n sh1 = sh_n sh2 /\
    incl (map (skey cfg) (sh_stmts sh2)) (map (skey cfg) (sh_stmts sh1))) s1 s2.
Proof. exact K2_keep. Qed.
Print Assumptions ShexStage_K2_keep.

(** with [remove_empty], on the domain where no statement of the
    lower-threshold run refers to a shape that is empty before cleaning *)
Theorem ShexStage_K2_remove_partial : forall fa cfg (okF : F fa -> Prop) (okN : N -> Prop),
  (forall n N, okN N -> okF (ratio fa n N)) ->
  (forall a b c, okF a -> okF b -> okF c -> fle fa a b = true -> fle fa b c = true -> fle fa a c = true) ->
  forall thr1 thr2 P C s1 s2,
  x_remove_empty cfg = true -> okF thr1 -> okF thr2 -> counts_ok cfg okN P C -> fle fa thr1 thr2 = true ->
  shex fa cfg thr1 P C = inl s1 -> shex fa cfg thr2 P C = inl s2 ->
  (forall l1, map_err (shex_class fa cfg thr1 C) P = inl l1 -> no_ref_to_empty l1) ->
  forall sh2, In sh2 s2 ->
  exists sh1, In sh1 s1 /\ sh_name sh1 = sh_name sh2 /\ sh_class sh1 = sh_class sh2 /\ sh_n sh1 = sh_n sh2 /\
              incl (map (skey cfg) (sh_stmts sh2)) (map (skey cfg) (sh_stmts sh1)).
Proof. exact K2_remove. Qed.
Print Assumptions ShexStage_K2_remove_partial.

(** ** K4 (C03): what [?] stands for under [keep_less_specific] *)
Theorem ShexStage_K4 : forall fa cfg (okF : F fa -> Prop) (okN : N -> Prop),
  (forall n N, okN N -> okF (ratio fa n N)) ->
  (forall a b c, okF a -> okF b -> okF c -> fle fa a b = true -> fle fa b c = true -> fle fa a c = true) ->
  (forall n1 n2 N, okN N -> (n1 <= n2)%N -> fle fa (ratio fa n1 N) (ratio fa n2 N) = true) ->
  (forall n1 n2 N, okN N -> (n1 <= N)%N -> (n2 <= N)%N ->
                   feqb fa (ratio fa n1 N) (ratio fa n2 N) = true -> n1 = n2) ->
  forall thr P C shapes,
  x_keep_less_specific cfg = true -> okF thr -> counts_ok cfg okN P C ->
  (forall ce d, In ce P -> pd_wf cfg (cnt_of C (fst ce)) (class_pd cfg ce d)) ->
  shex fa cfg thr P C = inl shapes ->
  forall sh, In sh shapes ->
  exists ce, In ce P /\ sh_class sh = fst ce /\ sh_name sh = shape_name (x_shapes_ns cfg) (fst ce) /\
    forall st, In st (sh_stmts sh) -> s_card st = COpt -> s_choice st = false ->
    let pd := class_pd cfg ce (s_inv st) in
    opt_single cfg pd (s_prop st) (s_type st) (s_nocc st) \/
    (s_type st = c_NONLITERAL_ELEM_TYPE /\
     exists nb ni, opt_single cfg pd (s_prop st) c_BNODE_ELEM_TYPE nb /\
                   opt_single cfg pd (s_prop st) c_IRI_ELEM_TYPE ni /\ s_nocc st = (nb + ni)%N).
Proof. exact K4. Qed.
Print Assumptions ShexStage_K4.

(** ** no error without [remove_empty] *)
Theorem ShexStage_total : forall fa cfg (thr : F fa) P C,
  x_remove_empty cfg = false -> (forall ce, In ce P -> tokens_ok cfg ce) ->
  exists shapes, shex fa cfg thr P C = inl shapes.
Proof. exact shex_total. Qed.
Print Assumptions ShexStage_total.

Theorem ShexStage_tune_token_none : forall ns k,
  tune_token ns k = None <->
  prefixb c_STARTING_CHAR_FOR_SHAPE_NAME k = true /\ remove_corners_strict (slice_from k 1) = None.
Proof. exact tune_token_none_iff. Qed.
Print Assumptions ShexStage_tune_token_none.

(** ** the laws hold for the exact rationals: closed instances *)
Theorem ShexStage_K2_keep_Q : forall cfg thr1 thr2 P C s1 s2,
  x_remove_empty cfg = false -> q_okF thr1 -> q_okF thr2 -> counts_ok cfg q_okN P C ->
  fle QAlg thr1 thr2 = true ->
  shex QAlg cfg thr1 P C = inl s1 -> shex QAlg cfg thr2 P C = inl s2 ->
  Forall2 (fun sh1 sh2 =>
    sh_name sh1 = sh_name sh2 /\ sh_class sh1 = sh_class sh2 /\ sh_n sh1 = sh_n sh2 /\
    incl (map (skey cfg) (sh_stmts sh2)) (map (skey cfg) (sh_stmts sh1))) s1 s2.
Proof. exact (fun cfg => K2_keep QAlg cfg q_okF q_okN q_ratio_ok q_fle_trans). Qed.
Print Assumptions ShexStage_K2_keep_Q.

Theorem ShexStage_K4_Q : forall cfg thr P C shapes,
  x_keep_less_specific cfg = true -> q_okF thr -> counts_ok cfg q_okN P C ->
  (forall ce d, In ce P -> pd_wf cfg (cnt_of C (fst ce)) (class_pd cfg ce d)) ->
  shex QAlg cfg thr P C = inl shapes ->
  forall sh, In sh shapes ->
  exists ce, In ce P /\ sh_class sh = fst ce /\ sh_name sh = shape_name (x_shapes_ns cfg) (fst ce) /\
    forall st, In st (sh_stmts sh) -> s_card st = COpt -> s_choice st = false ->
    let pd := class_pd cfg ce (s_inv st) in
    opt_single cfg pd (s_prop st) (s_type st) (s_nocc st) \/
    (s_type st = c_NONLITERAL_ELEM_TYPE /\
     exists nb ni, opt_single cfg pd (s_prop st) c_BNODE_ELEM_TYPE nb /\
                   opt_single cfg pd (s_prop st) c_IRI_ELEM_TYPE ni /\ s_nocc st = (nb + ni)%N).
Proof. exact (fun cfg => K4 QAlg cfg q_okF q_okN q_ratio_ok q_fle_trans q_ratio_mono q_feq_inj). Qed.
Print Assumptions ShexStage_K4_Q.

(** ** non-vacuity: a class S with 3 instances: property p with IRI values on
    2, BNode values on 1 and references to shape T on 2 of them; property q
    with an integer on 2 (one value: 1, two values: 1); property r with one
    string on 2; and a class T with 2 instances. *)
Local Open Scope N_scope.
Definition ex_tau := Str "http://www.w3.org/1999/02/22-rdf-syntax-ns#type".
Definition ex_cfg (re kls ac du : bool) : scfg :=
  {| x_tau := ex_tau; x_inverse := false; x_shapes_ns := Str "http://shapes/"; x_ns := [];
     x_remove_empty := re; x_discard_useless := du; x_keep_less_specific := kls; x_all_compliant := ac;
     x_disable_or := false; x_allow_redundant_or := false; x_allow_opt := true; x_disable_exact := false;
     x_disable_comments := false |}.
Definition ex_S := Str "http://e/S".
Definition ex_T := Str "http://e/T".
Definition ex_p := Str "http://e/p".
Definition ex_q := Str "http://e/q".
Definition ex_r := Str "http://e/r".
Definition ex_int := Str "http://www.w3.org/2001/XMLSchema#integer".
Definition ex_str := Str "http://www.w3.org/2001/XMLSchema#string".
Definition ex_refT := Str "%<http://shapes/T>".

Definition ex_P : cprofile :=
  [ (ex_S, {| c_direct := [ (ex_tau, [ (ex_S, [(CKn 1, 3)]) ]);
                            (ex_p, [ (c_IRI_ELEM_TYPE, [(CKn 1, 2); (CKplus, 2)]);
                                     (c_BNODE_ELEM_TYPE, [(CKn 1, 1); (CKplus, 1)]);
                                     (ex_refT, [(CKn 1, 2); (CKplus, 2)]) ]);
                            (ex_q, [ (ex_int, [(CKn 1, 1); (CKn 2, 1); (CKplus, 2)]) ]);
                            (ex_r, [ (ex_str, [(CKn 1, 2); (CKplus, 2)]) ]) ];
              c_inverse := [] |});
    (ex_T, {| c_direct := [ (ex_tau, [ (ex_T, [(CKn 1, 2)]) ]) ]; c_inverse := [] |}) ].
Definition ex_C : ccounts := [ (ex_S, 3); (ex_T, 2) ].

Definition keys_of (cfg : scfg) (shapes : list shape) := map (fun sh => map (skey cfg) (sh_stmts sh)) shapes.
Definition figs_of (shapes : list shape) :=
  map (fun sh => map (fun st => (s_types st, s_card st, s_nocc st, s_prob st, s_comments st)) (sh_stmts sh)) shapes.

Example ShexStage_K1_nonvacuous :
  exists shapes, shex QAlg (ex_cfg false true true true) (ratio QAlg 1 2) ex_P ex_C = inl shapes /\
    map sh_name shapes = [Str "%<http://shapes/S>"; Str "%<http://shapes/T>"] /\ map sh_n shapes = [3; 2] /\
    keys_of (ex_cfg false true true true) shapes =
      [ [ (false, ex_tau, VClass ex_S); (false, ex_p, VNonLit); (false, ex_q, VLit ex_int); (false, ex_r, VLit ex_str) ];
        [ (false, ex_tau, VClass ex_T) ] ].
Proof. eexists. split; [vm_compute; reflexivity|]. repeat split; vm_compute; reflexivity. Qed.

(** figures: [p @T ?] relaxed from [{1}] 2/3, [q integer *] from [+] 2/3, [r string ?] from [{1}] 2/3 *)
Example ShexStage_K3_nonvacuous :
  exists shapes, shex QAlg (ex_cfg false true true true) (ratio QAlg 1 2) ex_P ex_C = inl shapes /\
    figs_of shapes =
      [ [ ([ex_S], CExact 1, 3, PRatio 3, []);
          ([ex_refT], COpt, 2, POne, [KStmt false (PRatio 2) 2 (Str "@<http://shapes/T>") (CExact 1)]);
          ([ex_int], CStar, 2, POne, [KStmt false (PRatio 2) 2 (Str "<http://www.w3.org/2001/XMLSchema#integer>") CPlus]);
          ([ex_str], COpt, 2, POne, [KStmt false (PRatio 2) 2 (Str "<http://www.w3.org/2001/XMLSchema#string>") (CExact 1)]) ];
        [ ([ex_T], CExact 1, 2, PRatio 2, []) ] ].
Proof. eexists. split; vm_compute; reflexivity. Qed.

(** raising the threshold from 1/3 to 3/4 removes the three keys below it *)
Example ShexStage_K2_nonvacuous :
  exists s1 s2, fle QAlg (ratio QAlg 1 3) (ratio QAlg 3 4) = true /\
    shex QAlg (ex_cfg false true true true) (ratio QAlg 1 3) ex_P ex_C = inl s1 /\
    shex QAlg (ex_cfg false true true true) (ratio QAlg 3 4) ex_P ex_C = inl s2 /\
    keys_of (ex_cfg false true true true) s1 =
      [ [ (false, ex_tau, VClass ex_S); (false, ex_p, VNonLit); (false, ex_q, VLit ex_int); (false, ex_r, VLit ex_str) ];
        [ (false, ex_tau, VClass ex_T) ] ] /\
    keys_of (ex_cfg false true true true) s2 = [ [ (false, ex_tau, VClass ex_S) ]; [ (false, ex_tau, VClass ex_T) ] ].
Proof. eexists. eexists. split; [vm_compute; reflexivity|]. split; [vm_compute; reflexivity|]. repeat split; vm_compute; reflexivity. Qed.

(** an optional constraint that K4 speaks about: [r string ?], from 2 = 2 *)
Example ShexStage_K4_nonvacuous :
  exists shapes, shex QAlg (ex_cfg false true true true) (ratio QAlg 1 2) ex_P ex_C = inl shapes /\
    existsb (fun sh => existsb (fun st => card_eqb (s_card st) COpt && negb (s_choice st) &&
                                          str_eqb (s_type st) ex_str && N.eqb (s_nocc st) 2)
                               (sh_stmts sh)) shapes = true.
Proof. eexists. split; vm_compute; reflexivity. Qed.

(** ** refuted statements *)

(** C12 with [remove_empty], off the domain: S refers to T (count 1 of 3, tied
    with IRI {1}: the reference wins), T has no feature at all.  At 1/3 the
    reference is chosen, T is empty and removed, and the constraint of S is
    deleted outright; at 1/2 only [IRI +] (2/3) is left and is kept. *)
Definition w_P : cprofile :=
  [ (ex_S, {| c_direct := [ (ex_tau, [ (ex_S, [(CKn 1, 3)]) ]);
                            (ex_p, [ (c_IRI_ELEM_TYPE, [(CKn 1, 1); (CKn 2, 1); (CKplus, 2)]);
                                     (ex_refT, [(CKn 1, 1); (CKplus, 1)]) ]) ];
              c_inverse := [] |});
    (ex_T, {| c_direct := []; c_inverse := [] |}) ].

Lemma ShexStage_K2_remove_key_refuted :
  exists cfg P C thr1 thr2 s1 s2 key,
    x_remove_empty cfg = true /\ fle QAlg thr1 thr2 = true /\
    shex QAlg cfg thr1 P C = inl s1 /\ shex QAlg cfg thr2 P C = inl s2 /\
    (exists sh2, In sh2 s2 /\ In key (map (skey cfg) (sh_stmts sh2))) /\
    (forall sh1, In sh1 s1 -> ~ In key (map (skey cfg) (sh_stmts sh1))).
Proof.
  exists (ex_cfg true false false true), w_P, ex_C, (ratio QAlg 1 3), (ratio QAlg 1 2).
  eexists. eexists. exists (false, ex_p, VNonLit).
  split; [reflexivity|]. split; [vm_compute; reflexivity|].
  split; [vm_compute; reflexivity|]. split; [vm_compute; reflexivity|]. split.
  - eexists. split; [left; reflexivity|]. vm_compute. right. left. reflexivity.
  - intros sh1 [<-|[]]. vm_compute. intros [H|[]]. discriminate H.
Qed.

(** the same without the rdf:type feature of S: the whole shape of S is
    missing at the LOWER threshold *)
Definition w_P' : cprofile :=
  [ (ex_S, {| c_direct := [ (ex_p, [ (c_IRI_ELEM_TYPE, [(CKn 1, 1); (CKn 2, 1); (CKplus, 2)]);
                                     (ex_refT, [(CKn 1, 1); (CKplus, 1)]) ]) ];
              c_inverse := [] |});
    (ex_T, {| c_direct := []; c_inverse := [] |}) ].

Lemma ShexStage_K2_remove_shape_refuted :
  exists cfg P C thr1 thr2 s2,
    x_remove_empty cfg = true /\ fle QAlg thr1 thr2 = true /\
    shex QAlg cfg thr1 P C = inl [] /\ shex QAlg cfg thr2 P C = inl s2 /\ s2 <> [].
Proof.
  exists (ex_cfg true false false true), w_P', ex_C, (ratio QAlg 1 3), (ratio QAlg 1 2). eexists.
  split; [reflexivity|]. split; [vm_compute; reflexivity|].
  split; [vm_compute; reflexivity|]. split; [vm_compute; reflexivity|]. discriminate.
Qed.

(** K4: "an optional constraint never has the merged kind" is false: IRI on 1
    instance (one value), BNode on 1 instance (one value) give [p NONLITERAL ?]
    although nothing prevents one instance from having one of each *)
Definition w_P2 : cprofile :=
  [ (ex_S, {| c_direct := [ (ex_p, [ (c_IRI_ELEM_TYPE, [(CKn 1, 1); (CKplus, 1)]);
                                     (c_BNODE_ELEM_TYPE, [(CKn 1, 1); (CKplus, 1)]) ]) ];
              c_inverse := [] |}) ].

Lemma ShexStage_K4_nonliteral_opt_refuted :
  exists cfg P C thr shapes sh st,
    x_keep_less_specific cfg = true /\ shex QAlg cfg thr P C = inl shapes /\ In sh shapes /\
    In st (sh_stmts sh) /\ s_card st = COpt /\ s_choice st = false /\ s_type st = c_NONLITERAL_ELEM_TYPE.
Proof.
  exists (ex_cfg false true true true), w_P2, [(ex_S, 3)], (ratio QAlg 1 10).
  eexists. eexists. eexists.
  split; [reflexivity|]. split; [vm_compute; reflexivity|].
  split; [left; reflexivity|]. split; [left; reflexivity|]. repeat split.
Qed.

(** C12 "an alternative present at both thresholds shows the same figure" is
    false for the merged kind: the same line [p NONLITERAL +] counts 3 (of 4)
    at threshold 1/4 and 4 at threshold 1/2 *)
Definition w_P3 : cprofile :=
  [ (ex_S, {| c_direct := [ (ex_p, [ (c_BNODE_ELEM_TYPE, [(CKn 1, 1); (CKn 2, 1); (CKplus, 2)]);
                                     (c_IRI_ELEM_TYPE, [(CKn 2, 2); (CKplus, 2)]) ]) ];
              c_inverse := [] |}) ].

Lemma ShexStage_nonliteral_figure_refuted :
  exists cfg P C thr1 thr2 st1 st2,
    shex QAlg cfg thr1 P C = inl [ {| sh_name := Str "%<http://shapes/S>"; sh_class := ex_S; sh_n := 4; sh_stmts := [st1] |} ] /\
    shex QAlg cfg thr2 P C = inl [ {| sh_name := Str "%<http://shapes/S>"; sh_class := ex_S; sh_n := 4; sh_stmts := [st2] |} ] /\
    s_prop st1 = s_prop st2 /\ s_types st1 = [c_NONLITERAL_ELEM_TYPE] /\ s_types st2 = [c_NONLITERAL_ELEM_TYPE] /\
    s_card st1 = CPlus /\ s_card st2 = CPlus /\ s_nocc st1 = 3 /\ s_nocc st2 = 4.
Proof.
  exists (ex_cfg false false false true), w_P3, [(ex_S, 4)], (ratio QAlg 1 4), (ratio QAlg 1 2).
  eexists. eexists. split; [vm_compute; reflexivity|]. split; [vm_compute; reflexivity|]. repeat split.
Qed.

(** * The order of ClassShexer's stages, end to end (class mode, one document)

    /repo's [ClassShexer.shex_classes] removes the empty shapes BEFORE the
    constraints are merged since commit a3b99df ([Gen.Consts.c_clean_before_merge
    = true], stage [ShexingFix.shex_f]); the end-to-end theorems of Props/C01 ..
    C14 are stated for [Run.run_shapes] / [Run.run_shexc], which run the stage in
    the OLD order ([Shexing.shex]: merge, then [_clean_empty_shapes]).
    [RunCur.run_shapes_cur] / [run_shexc_cur] are the same pipeline with the
    stage the code has ([ShexingFix.shex_cur], flag-driven); they are what the
    correspondence runs compare with the real text ([Model/EntryPipe.v] and the
    other one-document entries; the two-stream models [Run2], [Channels] and the
    shape-map model [RunMap] call [shex_cur] themselves).

    The tie (Proofs/OrderIrrelevant.v): the two pipelines are EQUAL
    - without remove_empty_shapes (any algebra, threshold, graph), and
    - with it, for every well-formed threshold <= 1 (the Shaper rejects
      thresholds outside [0, 1]) when no class IRI -- object of an instantiation
      triple, requested target class -- starts with '%' or "@" ([class_iris_ok];
      not needed in all_classes mode), for the exact rationals without any
      bound, for binary64 with fewer than 2^53 triples.
    Nothing is assumed about the profile: the profiler has already dropped
    every class without features that is not its own "original label", a class
    with features has an instance, every instance of a class carries the class
    among the values of the instantiation property, so the typing entry counts
    the whole class and passes every threshold <= 1: no class of the profile
    is empty at the threshold, and both orders are then the per-class map.

    OUTSIDE that domain the theorems stated for [run_shapes] / [run_shexc] say
    NOTHING about the code; only those stated for [run_shapes_cur] /
    [run_shexc_cur] do.  The boundary is real: a requested target class whose
    IRI starts with "@" is its own shape label, survives the profiler without
    instances and reaches the stage as an empty shape
    ([E2E_order_at_class_order_refuted]: other statement order with
    inverse_paths; [E2E_order_at_class_typeerror_refuted]: TypeError in the old
    order, success in the code's, with disjunctions enabled).  The real Shaper
    agrees with [run_shexc_cur] on both inputs. *)
From Shexer Require Import Spec.Rdf Model.Tracker Model.ShexingFix Model.SerialShexc Model.Run Model.RunCur Spec.Counts.
From Shexer Require Import Proofs.FreqLaws Proofs.Bin64Round Proofs.ProfileChar Proofs.InverseLemmas Proofs.EndToEnd Proofs.EndToEnd2
  Proofs.OrderIrrelevant.
From Shexer Require Proofs.RestrictCompose.

Theorem E2E_class_mode_order_irrelevant : forall fa okN okF, FreqLaws fa okN okF -> forall c (thr : F fa) g,
  r_remove_empty c = false \/
  ((r_targets c = None \/ class_iris_ok c g = true) /\ okF thr /\ fle fa thr (fone fa) = true /\
   (forall n, (0 < n <= N.of_nat (List.length g))%N -> okN n)) ->
  run_shapes_cur fa c thr g = run_shapes fa c thr g.
Proof. exact class_mode_order_irrelevant. Qed.
Print Assumptions E2E_class_mode_order_irrelevant.

Theorem E2E_class_mode_order_irrelevant_shexc : forall fa okN okF, FreqLaws fa okN okF -> forall c (thr : F fa) g,
  r_remove_empty c = false \/
  ((r_targets c = None \/ class_iris_ok c g = true) /\ okF thr /\ fle fa thr (fone fa) = true /\
   (forall n, (0 < n <= N.of_nat (List.length g))%N -> okN n)) ->
  run_shexc_cur fa c thr g = run_shexc fa c thr g.
Proof. exact class_mode_order_irrelevant_shexc. Qed.
Print Assumptions E2E_class_mode_order_irrelevant_shexc.

(** the two algebras, the side conditions as one boolean on the input
    ([class_order_dom_q] / [class_order_dom_b]: remove_empty_shapes off, or
    all_classes mode / [class_iris_ok], [0 <= num], [0 < den], threshold <= 1,
    and for binary64 [|g| < 2^53]) *)
Theorem E2E_class_mode_order_irrelevant_exact : forall c thr g,
  class_order_dom_q c thr g = true ->
  run_shapes_cur QAlg c thr g = run_shapes QAlg c thr g /\ run_shexc_cur QAlg c thr g = run_shexc QAlg c thr g.
Proof. exact class_mode_order_irrelevant_exact. Qed.
Print Assumptions E2E_class_mode_order_irrelevant_exact.

Theorem E2E_class_mode_order_irrelevant_binary64 : forall c thr g,
  class_order_dom_b c thr g = true ->
  run_shapes_cur BAlg c thr g = run_shapes BAlg c thr g /\ run_shexc_cur BAlg c thr g = run_shexc BAlg c thr g.
Proof. exact class_mode_order_irrelevant_b64. Qed.
Print Assumptions E2E_class_mode_order_irrelevant_binary64.

Theorem E2E_class_order_dom_unfold : forall c thr g,
  class_order_dom_b c thr g =
  negb (r_remove_empty c) ||
  ((targets_none c || class_iris_ok c g) && wf_fracb thr && fle BAlg thr (fone BAlg) &&
   (N.of_nat (List.length g) <? 2 ^ 53)%N).
Proof. intros. reflexivity. Qed.

(** the weakest form: the computed domain [order_dom] (remove_empty_shapes off,
    or the front fails, or no class of the profile the front delivers is empty
    at the threshold), any algebra, no law needed *)
Theorem E2E_class_mode_order_irrelevant_dom : forall fa c (thr : F fa) g,
  order_dom fa c thr g = true ->
  run_shapes_cur fa c thr g = run_shapes fa c thr g /\ run_shexc_cur fa c thr g = run_shexc fa c thr g.
Proof. intros fa c thr g H. split; [exact (run_shapes_cur_eq fa c thr g H) | exact (run_shexc_cur_eq fa c thr g H)]. Qed.
Print Assumptions E2E_class_mode_order_irrelevant_dom.

(** the stage-level fact behind it, for an ARBITRARY profile *)
Theorem ShexStage_order_irrelevant : forall fa cfg (thr : F fa) P C,
  x_remove_empty cfg = false \/ no_empty_class fa cfg thr C P = true ->
  shex_cur fa cfg thr P C = shex fa cfg thr P C.
Proof. exact stage_order_irrelevant. Qed.
Print Assumptions ShexStage_order_irrelevant.

(** what the front guarantees (one document, remove_empty_shapes on) *)
Theorem E2E_front_no_empty_class : forall fa okN okF, FreqLaws fa okN okF -> forall c (thr : F fa) g ns P C,
  r_remove_empty c = true -> r_targets c = None \/ class_iris_ok c g = true ->
  okF thr -> fle fa thr (fone fa) = true ->
  (forall n, (0 < n <= N.of_nat (List.length g))%N -> okN n) ->
  front c g = inl (P, C) -> no_empty_class fa (scfg_of c ns) thr C P = true.
Proof. exact front_no_empty_class. Qed.
Print Assumptions E2E_front_no_empty_class.

(** non-vacuity: a pinned graph of Proofs/RunWitness.v, remove_empty_shapes on,
    a requested target class ("Missing") without instances, inverse_paths on:
    inside the domain, both pipelines computed, equal, three shapes *)
Example E2E_class_mode_order_irrelevant_nonvacuous :
  r_remove_empty nv_cfg = true /\ In (RunWitness.ex "Missing") (match r_targets nv_cfg with Some l => l | None => [] end) /\
  class_order_dom_b nv_cfg RunWitness.thr0 RunWitness.g_reftie_1 = true /\
  exists ns shapes,
    run_shapes_cur BAlg nv_cfg RunWitness.thr0 RunWitness.g_reftie_1 = inl (ns, shapes) /\
    run_shapes BAlg nv_cfg RunWitness.thr0 RunWitness.g_reftie_1 = inl (ns, shapes) /\
    map sh_class shapes = [RunWitness.ex "C"; RunWitness.ex "C1"; RunWitness.ex "C2"].
Proof. exact class_mode_order_irrelevant_nonvacuous. Qed.

(** the boundary: requested target classes that are their own shape label *)
Lemma E2E_order_at_class_order_refuted :
  c_clean_before_merge = true ->
  exists c thr g,
    r_remove_empty c = true /\ class_iris_ok c g = false /\ wf_frac thr /\ fle BAlg thr (fone BAlg) = true /\
    order_dom BAlg c thr g = false /\
    (exists t1 t2, run_shexc_cur BAlg c thr g = inl t1 /\ run_shexc BAlg c thr g = inl t2 /\ t1 <> t2) /\
    run_shapes_cur BAlg c thr g <> run_shapes BAlg c thr g.
Proof. exact order_at_class_order_refuted. Qed.

Lemma E2E_order_at_class_typeerror_refuted :
  c_clean_before_merge = true ->
  exists c thr g,
    r_remove_empty c = true /\ class_iris_ok c g = false /\ wf_frac thr /\ fle BAlg thr (fone BAlg) = true /\
    run_shexc BAlg c thr g = inr REType /\ exists t, run_shexc_cur BAlg c thr g = inl t.
Proof. exact order_at_class_typeerror_refuted. Qed.

(** ** how the theorems stated for [run_shapes] carry over to [run_shapes_cur]:
    rewrite with the equality (the theorem's own hypotheses imply the domain),
    then apply the theorem.  Three instances: *)

(** Props/C02.v: [C02_keys_iff_occ] *)
Theorem E2E_cur_keys_iff_occ : forall fa c (thr : F fa) g ns shapes,
  r_remove_empty c = false -> run_shapes_cur fa c thr g = inl (ns, shapes) ->
  exists I, track (r_tau c) (mode_of c) (r_cap c) g = inl I /\
    map sh_class shapes = class_keys (targets_of (pcfg_of c)) I /\
    forall sh, In sh shapes ->
      sh_n sh = class_count I (sh_class sh) /\
      (forall inv p vc, In (inv, p, vc) (map (skey (scfg_of c ns)) (sh_stmts sh)) <->
                        key_passes_occ fa c thr I g (sh_class sh) inv p vc) /\
      (no_nonliteral_datatype g -> NoDup (map (skey (scfg_of c ns)) (sh_stmts sh))).
Proof. exact cur_keys_iff_occ. Qed.
Print Assumptions E2E_cur_keys_iff_occ.

(** Props/C12.v: [C12_run_keys_monotone_valid] *)
Theorem E2E_cur_run_keys_monotone_valid : forall c thr1 thr2 g ns1 s1 ns2 s2,
  class_iris_ok c g = true -> wf_frac thr1 -> wf_frac thr2 ->
  fle BAlg thr1 thr2 = true -> fle BAlg thr2 (fone BAlg) = true ->
  (N.of_nat (List.length g) < 2 ^ 53)%N ->
  run_shapes_cur BAlg c thr1 g = inl (ns1, s1) -> run_shapes_cur BAlg c thr2 g = inl (ns2, s2) ->
  ns1 = ns2 /\
  Forall2 (fun sh1 sh2 =>
    sh_name sh1 = sh_name sh2 /\ sh_class sh1 = sh_class sh2 /\ sh_n sh1 = sh_n sh2 /\
    incl (map (skey (scfg_of c ns1)) (sh_stmts sh2)) (map (skey (scfg_of c ns1)) (sh_stmts sh1))) s1 s2.
Proof. exact cur_run_keys_monotone_valid. Qed.
Print Assumptions E2E_cur_run_keys_monotone_valid.

(** Props/C14.v: [C14_run_direct_unchanged_valid] *)
Theorem E2E_cur_run_direct_unchanged_valid : forall c thr g ns st,
  class_iris_ok c g = true -> wf_frac thr -> fle BAlg thr (fone BAlg) = true ->
  (N.of_nat (List.length g) < 2 ^ 53)%N ->
  run_shapes_cur BAlg (rwith_inverse true c) thr g = inl (ns, st) ->
  exists sf, run_shapes_cur BAlg (rwith_inverse false c) thr g = inl (ns, sf) /\
             Forall2 (fun sh_t sh_f =>
               sh_name sh_t = sh_name sh_f /\ sh_class sh_t = sh_class sh_f /\ sh_n sh_t = sh_n sh_f /\
               filter is_direct (sh_stmts sh_t) = sh_stmts sh_f) st sf.
Proof. exact cur_run_direct_unchanged_valid. Qed.
Print Assumptions E2E_cur_run_direct_unchanged_valid.

(** Props/C01.v: [C01_figures_exact] needs no domain at all for [run_shapes_cur]
    (the figure theorem of the stage holds in both orders) *)
Theorem E2E_cur_figures_exact : forall fa c (thr : F fa) g ns shapes,
  run_shapes_cur fa c thr g = inl (ns, shapes) ->
  exists I, track (r_tau c) (mode_of c) (r_cap c) g = inl I /\
    forall sh, In sh shapes ->
      In (sh_class sh) (class_keys (targets_of (pcfg_of c)) I) /\
      sh_name sh = shape_name (r_shapes_ns c) (sh_class sh) /\
      sh_n sh = class_count I (sh_class sh) /\
      forall st, In st (sh_stmts sh) ->
        (s_inv st = true -> r_inverse c = true) /\
        post_okR (scfg_of c ns) (fig_occ (r_tau c) I g (dir_of (s_inv st)) (sh_class sh) (s_prop st)) st.
Proof. exact RestrictCompose.cur_figures_exact. Qed.
Print Assumptions E2E_cur_figures_exact.
