(** * C20 -- contradictory or unsupported configurations are rejected up front *)
From Coq Require Import List Ascii String ZArith Bool.
From Shexer Require Import Lib.PyStr Gen.Consts Model.Config Spec.ConfigSpec Proofs.ConfigProofs.
Import ListNotations.

(** Constructor: on [C20_dom] (no shape map, or a shape map with a source the
    shape-map factory can load) the model of [Shaper.__init__] accepts exactly
    the configurations of the reference predicate and rejects every other one
    with [ValueError]. *)
Theorem C20_ctor_iff : forall c, C20_dom c = true ->
  (ctor c = Accept <-> valid_ctor c) /\ (ctor c = RejectValueError <-> ~ valid_ctor c).
Proof. exact ctor_iff. Qed.
Print Assumptions C20_ctor_iff.

(** Everywhere (also off [C20_dom]): nothing invalid is ever accepted. *)
Theorem C20_ctor_accept_sound : forall c, ctor c = Accept -> valid_ctor c.
Proof. exact ctor_accept_sound. Qed.
Print Assumptions C20_ctor_accept_sound.

(** [shex_graph]: threshold outside [0,1], unknown output format or no sink
    are rejected with [ValueError]; everything else is accepted. *)
Theorem C20_call_iff : forall k, (0 < thr_den k)%Z ->
  (call k = Accept <-> valid_call k) /\ (call k = RejectValueError <-> ~ valid_call k).
Proof. exact call_iff. Qed.
Print Assumptions C20_call_iff.

(** non-vacuity: a concrete accepted configuration inside the domain *)
Definition c20_example : ctor_cfg :=
  {| src_graph_file := false; src_list_of_files := false; src_raw_graph := true; src_url_graph := false;
     src_list_of_url := false; src_url_endpoint := false; src_rdflib_graph := false;
     tgt_target_classes := false; tgt_file_target_classes := false; tgt_shape_map_file := false;
     tgt_shape_map_raw := true; all_classes_mode := true;
     input_format := Str "turtle"; compression_mode := None; examples_mode := Some (Str "all");
     disable_or_statements := false; allow_redundant_or := true |}.
Example C20_dom_inhabited : C20_dom c20_example = true /\ ctor c20_example = Accept.
Proof. split; vm_compute; reflexivity. Qed.

(** Known finding (full statement refuted off the domain): a valid
    configuration -- shape map with a list-of-files source -- that the
    constructor does not accept. *)
Definition c20_witness : ctor_cfg :=
  {| src_graph_file := false; src_list_of_files := true; src_raw_graph := false; src_url_graph := false;
     src_list_of_url := false; src_url_endpoint := false; src_rdflib_graph := false;
     tgt_target_classes := false; tgt_file_target_classes := false; tgt_shape_map_file := false;
     tgt_shape_map_raw := true; all_classes_mode := false;
     input_format := Str "nt"; compression_mode := None; examples_mode := None;
     disable_or_statements := true; allow_redundant_or := false |}.
Lemma C20_full_refuted : exists c, valid_ctor c /\ ctor c <> Accept.
Proof.
  exists c20_witness. split.
  - apply ctor_checks_spec. vm_compute. reflexivity.
  - vm_compute. discriminate.
Qed.
