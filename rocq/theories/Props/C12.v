(** * C12 -- raising the acceptance threshold only removes constraints.

    Statements only.  The shexing stage is [shex fa cfg thr P C] for the class
    profile [P] and counts [C] that the profiler produced; the threshold is
    read nowhere else ([Run.run_shapes] passes it to [shex] only), so the
    theorems are stated for an arbitrary profile.  Instances: exact rationals
    ([QAlg]) and CPython's binary64 arithmetic ([BAlg], the instance the
    correspondence check runs), the latter for class sizes below 2^53. *)
From Coq Require Import List Ascii String ZArith NArith Bool.
From Shexer Require Import Lib.PyStr Lib.Dict Lib.Bin64 Gen.Consts Model.Profiler Model.Tokens
  Model.Freq Model.FreqInst Model.Shexing Model.Run Proofs.ShexLemmas Proofs.ShexKeys Proofs.ShexQ
  Proofs.Bin64Round Proofs.FreqLaws Props.ShexStage.
Import ListNotations.

Definition b_okN : N -> Prop := fun d => (0 < d < 2 ^ 53)%N.

(** keys and shapes are monotone (remove_empty_shapes off), binary64 *)
Theorem C12_keys_monotone : forall cfg thr1 thr2 P C s1 s2,
  x_remove_empty cfg = false -> wf_frac thr1 -> wf_frac thr2 -> counts_ok cfg b_okN P C ->
  fle BAlg thr1 thr2 = true ->
  shex BAlg cfg thr1 P C = inl s1 -> shex BAlg cfg thr2 P C = inl s2 ->
  Forall2 (fun sh1 sh2 =>
    sh_name sh1 = sh_name sh2 /\ sh_class sh1 = sh_class sh2 /\ sh_n sh1 = sh_n sh2 /\
    incl (map (skey cfg) (sh_stmts sh2)) (map (skey cfg) (sh_stmts sh1))) s1 s2.
Proof.
  exact (fun cfg => K2_keep BAlg cfg wf_frac b_okN
                      (fun n d H => ratio_wf _ _ _ BAlg_laws n d H)
                      (fle_trans _ _ _ BAlg_laws)).
Qed.
Print Assumptions C12_keys_monotone.

(** the same for exact rationals *)
Theorem C12_keys_monotone_exact : forall cfg thr1 thr2 P C s1 s2,
  x_remove_empty cfg = false -> q_okF thr1 -> q_okF thr2 -> counts_ok cfg q_okN P C ->
  fle QAlg thr1 thr2 = true ->
  shex QAlg cfg thr1 P C = inl s1 -> shex QAlg cfg thr2 P C = inl s2 ->
  Forall2 (fun sh1 sh2 =>
    sh_name sh1 = sh_name sh2 /\ sh_class sh1 = sh_class sh2 /\ sh_n sh1 = sh_n sh2 /\
    incl (map (skey cfg) (sh_stmts sh2)) (map (skey cfg) (sh_stmts sh1))) s1 s2.
Proof. exact ShexStage_K2_keep_Q. Qed.
Print Assumptions C12_keys_monotone_exact.

(** with remove_empty_shapes: on the domain where no statement of the
    lower-threshold run refers to a shape that is empty before cleaning
    (always the case when every class has an instance: each shape then keeps
    its 100 % typing constraint; the refuted lemmas below need a shape-map
    label without triples) *)
Theorem C12_keys_monotone_remove_partial : forall cfg thr1 thr2 P C s1 s2,
  x_remove_empty cfg = true -> wf_frac thr1 -> wf_frac thr2 -> counts_ok cfg b_okN P C ->
  fle BAlg thr1 thr2 = true ->
  shex BAlg cfg thr1 P C = inl s1 -> shex BAlg cfg thr2 P C = inl s2 ->
  (forall l1, map_err (shex_class BAlg cfg thr1 C) P = inl l1 -> no_ref_to_empty l1) ->
  forall sh2, In sh2 s2 ->
  exists sh1, In sh1 s1 /\ sh_name sh1 = sh_name sh2 /\ sh_class sh1 = sh_class sh2 /\ sh_n sh1 = sh_n sh2 /\
              incl (map (skey cfg) (sh_stmts sh2)) (map (skey cfg) (sh_stmts sh1)).
Proof.
  exact (fun cfg => K2_remove BAlg cfg wf_frac b_okN
                      (fun n d H => ratio_wf _ _ _ BAlg_laws n d H)
                      (fle_trans _ _ _ BAlg_laws)).
Qed.
Print Assumptions C12_keys_monotone_remove_partial.

(** figures do not depend on the threshold: every figure of the output is the
    count of a profile entry, and for a non-merged alternative (property, kind,
    original cardinality) the profile determines it *)
Theorem C12_figures_from_profile : forall fa cfg (thr : F fa) P C shapes,
  shex fa cfg thr P C = inl shapes ->
  forall sh, In sh shapes ->
  exists ce, In ce P /\ sh_name sh = shape_name (x_shapes_ns cfg) (fst ce) /\ sh_class sh = fst ce /\
             sh_n sh = cnt_of C (fst ce) /\
             forall st, In st (sh_stmts sh) -> post_ok cfg (class_pd cfg ce (s_inv st)) st.
Proof. exact K3. Qed.
Print Assumptions C12_figures_from_profile.

Theorem C12_figure_threshold_free : forall pd p k n n' pr pr' c,
  pd_functional pd -> k <> c_NONLITERAL_ELEM_TYPE ->
  fig_src pd p k n pr c -> fig_src pd p k n' pr' c -> n = n' /\ pr = pr'.
Proof. exact fig_src_functional. Qed.
Print Assumptions C12_figure_threshold_free.

(** the threshold reaches the pipeline only through [shex] *)
Theorem C12_threshold_only_in_shex : forall fa c thr g ns shapes,
  run_shapes fa c thr g = inl (ns, shapes) ->
  exists P C, shex fa (scfg_of c ns) thr P C = inl shapes /\
              forall thr', run_shapes fa c thr' g =
                           match shex fa (scfg_of c ns) thr' P C with
                           | inl s => inl (ns, s) | inr e => inr (rerr_of_s e) end.
Proof.
  intros fa c thr g ns shapes H. unfold run_shapes in *.
  destruct (full_ns c) as [ns0|]; [|discriminate].
  destruct (Tracker.track _ _ _ g) as [ins|]; [|discriminate].
  destruct (profile (pcfg_of c) ins g) as [[[P C] ID]|[|]]; try discriminate.
  destruct (shex fa (scfg_of c ns0) thr P C) as [s|e] eqn:E; [|discriminate].
  inversion H; subst. exists P, C. split; [exact E|]. intros thr'. reflexivity.
Qed.
Print Assumptions C12_threshold_only_in_shex.

(** ** what is false *)
(** with remove_empty_shapes a reference that wins at the lower threshold and
    points to a shape without constraints is deleted outright: the key exists
    at the higher threshold only (needs a label whose nodes have no triples) *)
Definition C12_remove_key_refuted := ShexStage_K2_remove_key_refuted.

(** the figure of the merged NONLITERAL alternative depends on the threshold
    (finding C12-F1 / C01-F3) *)
Definition C12_nonliteral_figure_refuted := ShexStage_nonliteral_figure_refuted.

(** non-vacuity: a concrete profile and two thresholds meeting the hypotheses *)
Definition C12_nonvacuous := ShexStage_K2_nonvacuous.
