(** * C12 -- raising the acceptance threshold only removes constraints.

    Statements only.  The shexing stage is [shex fa cfg thr P C] for the class
    profile [P] and counts [C] that the profiler produced; the threshold is
    read nowhere else ([Run.run_shapes] passes it to [shex] only), so the
    theorems are stated for an arbitrary profile.  Instances: exact rationals
    ([QAlg]) and CPython's binary64 arithmetic ([BAlg], the instance the
    correspondence check runs), the latter for class sizes below 2^53. *)
From Coq Require Import List Ascii String ZArith NArith Bool.
From Shexer Require Import Lib.PyStr Lib.Dict Lib.Bin64 Gen.Consts Model.Profiler Model.Tokens
  Model.Freq Model.FreqInst Model.Shexing Model.Run Proofs.ShexLemmas Proofs.ShexKeys Proofs.ShexQ
  Proofs.Bin64Round Proofs.FreqLaws Props.ShexStage.
Import ListNotations.

Definition b_okN : N -> Prop := fun d => (0 < d < 2 ^ 53)%N.

(** keys and shapes are monotone (remove_empty_shapes off), binary64 *)
Theorem C12_keys_monotone : forall cfg thr1 thr2 P C s1 s2,
  x_remove_empty cfg = false -> wf_frac thr1 -> wf_frac thr2 -> counts_ok cfg b_okN P C ->
  fle BAlg thr1 thr2 = true ->
  shex BAlg cfg thr1 P C = inl s1 -> shex BAlg cfg thr2 P C = inl s2 ->
  Forall2 (fun sh1 sh2 =>
    sh_name sh1 = sh_name sh2 /\ sh_class sh1 = sh_class sh2 /\ sh_n sh1 = sh_n sh2 /\
    incl (map (skey cfg) (sh_stmts sh2)) (map (skey cfg) (sh_stmts sh1))) s1 s2.
Proof.
  exact (fun cfg => K2_keep BAlg cfg wf_frac b_okN
                      (fun n d H => ratio_wf _ _ _ BAlg_laws n d H)
                      (fle_trans _ _ _ BAlg_laws)).
Qed.
Print Assumptions C12_keys_monotone.

(** the same for exact rationals *)
Theorem C12_keys_monotone_exact : forall cfg thr1 thr2 P C s1 s2,
  x_remove_empty cfg = false -> q_okF thr1 -> q_okF thr2 -> counts_ok cfg q_okN P C ->
  fle QAlg thr1 thr2 = true ->
  shex QAlg cfg thr1 P C = inl s1 -> shex QAlg cfg thr2 P C = inl s2 ->
  Forall2 (fun sh1 sh2 =>
    sh_name sh1 = sh_name sh2 /\ sh_class sh1 = sh_class sh2 /\ sh_n sh1 = sh_n sh2 /\
    incl (map (skey cfg) (sh_stmts sh2)) (map (skey cfg) (sh_stmts sh1))) s1 s2.
Proof. exact ShexStage_K2_keep_Q. Qed.
Print Assumptions C12_keys_monotone_exact.

(** with remove_empty_shapes: on the domain where no statement of the
    lower-threshold run refers to a shape that is empty before cleaning
    (always the case when every class has an instance: each shape then keeps
    its 100 % typing constraint; the refuted lemmas below need a shape-map
    label without triples) *)
Theorem C12_keys_monotone_remove_partial : forall cfg thr1 thr2 P C s1 s2,
  x_remove_empty cfg = true -> wf_frac thr1 -> wf_frac thr2 -> counts_ok cfg b_okN P C ->
  fle BAlg thr1 thr2 = true ->
  shex BAlg cfg thr1 P C = inl s1 -> shex BAlg cfg thr2 P C = inl s2 ->
  (forall l1, map_err (shex_class BAlg cfg thr1 C) P = inl l1 -> no_ref_to_empty l1) ->
  forall sh2, In sh2 s2 ->
  exists sh1, In sh1 s1 /\ sh_name sh1 = sh_name sh2 /\ sh_class sh1 = sh_class sh2 /\ sh_n sh1 = sh_n sh2 /\
              incl (map (skey cfg) (sh_stmts sh2)) (map (skey cfg) (sh_stmts sh1)).
Proof.
  exact (fun cfg => K2_remove BAlg cfg wf_frac b_okN
                      (fun n d H => ratio_wf _ _ _ BAlg_laws n d H)
                      (fle_trans _ _ _ BAlg_laws)).
Qed.
Print Assumptions C12_keys_monotone_remove_partial.

(** figures do not depend on the threshold: every figure of the output is the
    count of a profile entry, and for a non-merged alternative (property, kind,
    original cardinality) the profile determines it *)
Theorem C12_figures_from_profile : forall fa cfg (thr : F fa) P C shapes,
  shex fa cfg thr P C = inl shapes ->
  forall sh, In sh shapes ->
  exists ce, In ce P /\ sh_name sh = shape_name (x_shapes_ns cfg) (fst ce) /\ sh_class sh = fst ce /\
             sh_n sh = cnt_of C (fst ce) /\
             forall st, In st (sh_stmts sh) -> post_ok cfg (class_pd cfg ce (s_inv st)) st.
Proof. exact K3. Qed.
Print Assumptions C12_figures_from_profile.

Theorem C12_figure_threshold_free : forall pd p k n n' pr pr' c,
  pd_functional pd -> k <> c_NONLITERAL_ELEM_TYPE ->
  fig_src pd p k n pr c -> fig_src pd p k n' pr' c -> n = n' /\ pr = pr'.
Proof. exact fig_src_functional. Qed.
Print Assumptions C12_figure_threshold_free.

(** the threshold reaches the pipeline only through [shex] *)
Theorem C12_threshold_only_in_shex : forall fa c thr g ns shapes,
  run_shapes fa c thr g = inl (ns, shapes) ->
  exists P C, shex fa (scfg_of c ns) thr P C = inl shapes /\
              forall thr', run_shapes fa c thr' g =
                           match shex fa (scfg_of c ns) thr' P C with
                           | inl s => inl (ns, s) | inr e => inr (rerr_of_s e) end.
Proof.
  intros fa c thr g ns shapes H. unfold run_shapes in *.
  destruct (full_ns c) as [ns0|]; [|discriminate].
  destruct (Tracker.track _ _ _ g) as [ins|]; [|discriminate].
  destruct (profile (pcfg_of c) ins g) as [[[P C] ID]|[|]]; try discriminate.
  destruct (shex fa (scfg_of c ns0) thr P C) as [s|e] eqn:E; [|discriminate].
  inversion H; subst. exists P, C. split; [exact E|]. intros thr'. reflexivity.
Qed.
Print Assumptions C12_threshold_only_in_shex.

(** ** what is false *)
(** with remove_empty_shapes a reference that wins at the lower threshold and
    points to a shape without constraints is deleted outright: the key exists
    at the higher threshold only (needs a label whose nodes have no triples) *)
Definition C12_remove_key_refuted := ShexStage_K2_remove_key_refuted.

(** the figure of the merged NONLITERAL alternative depends on the threshold
    (finding C12-F1 / C01-F3) *)
Definition C12_nonliteral_figure_refuted := ShexStage_nonliteral_figure_refuted.

(** non-vacuity: a concrete profile and two thresholds meeting the hypotheses *)
Definition C12_nonvacuous := ShexStage_K2_nonvacuous.

(** ** End to end: the two thresholds on the same graph and configuration.

    [C12_threshold_only_in_shex] composed with [C12_keys_monotone]; the
    premise [counts_ok] is discharged from P1: a class that has a profile
    entry has an instance, its size is the number of its listings in the
    instance dictionary, which is at most the number of triples of the graph
    (Proofs/EndToEnd2.v: [front_entry_count], [class_count_le_graph]).  A
    requested target class without instances has size 0 but no entry, hence no
    constraint at any threshold.  Hypotheses left: remove_empty_shapes off,
    well-formed thresholds, fewer than 2^53 triples (binary64 only). *)
From Shexer Require Import Spec.Rdf Model.SerialShexc Proofs.EndToEnd2 Proofs.RunWitness.

Theorem C12_run_keys_monotone : forall c thr1 thr2 g ns1 s1 ns2 s2,
  r_remove_empty c = false -> wf_frac thr1 -> wf_frac thr2 -> fle BAlg thr1 thr2 = true ->
  (N.of_nat (List.length g) < 2 ^ 53)%N ->
  run_shapes BAlg c thr1 g = inl (ns1, s1) -> run_shapes BAlg c thr2 g = inl (ns2, s2) ->
  ns1 = ns2 /\
  Forall2 (fun sh1 sh2 =>
    sh_name sh1 = sh_name sh2 /\ sh_class sh1 = sh_class sh2 /\ sh_n sh1 = sh_n sh2 /\
    incl (map (skey (scfg_of c ns1)) (sh_stmts sh2)) (map (skey (scfg_of c ns1)) (sh_stmts sh1))) s1 s2.
Proof. exact run_keys_monotone. Qed.
Print Assumptions C12_run_keys_monotone.

(** exact rationals: no bound on the graph *)
Theorem C12_run_keys_monotone_exact : forall c thr1 thr2 g ns1 s1 ns2 s2,
  r_remove_empty c = false -> wf_frac thr1 -> wf_frac thr2 -> fle QAlg thr1 thr2 = true ->
  run_shapes QAlg c thr1 g = inl (ns1, s1) -> run_shapes QAlg c thr2 g = inl (ns2, s2) ->
  ns1 = ns2 /\
  Forall2 (fun sh1 sh2 =>
    sh_name sh1 = sh_name sh2 /\ sh_class sh1 = sh_class sh2 /\ sh_n sh1 = sh_n sh2 /\
    incl (map (skey (scfg_of c ns1)) (sh_stmts sh2)) (map (skey (scfg_of c ns1)) (sh_stmts sh1))) s1 s2.
Proof. exact run_keys_monotone_exact. Qed.
Print Assumptions C12_run_keys_monotone_exact.

(** the discharged premise, for any profile the front produces *)
Theorem C12_run_counts_ok : forall c g ns P C,
  front c g = inl (P, C) -> (N.of_nat (List.length g) < 2 ^ 53)%N ->
  counts_ok (scfg_of c ns) b_okN P C.
Proof. exact front_counts_ok. Qed.
Print Assumptions C12_run_counts_ok.

(** non-vacuity: thresholds 0 and 1/2 on a graph where one instance
    of three has property q (remove_empty_shapes off): both runs succeed and a key is lost *)
Definition c12_rcfg : rcfg :=
  {| r_tau := tau; r_targets := None; r_ns := []; r_shapes_ns := c_SHAPES_DEFAULT_NAMESPACE; r_cap := (-1)%Z;
     r_inverse := false; r_remove_empty := false; r_discard_useless := true; r_keep_less_specific := true;
     r_all_compliant := true; r_disable_or := true; r_allow_redundant_or := false; r_allow_opt := true;
     r_disable_exact := false; r_disable_comments := false; r_mode := FMixed |}.

Definition g_third : graph := [ty "a" "C"; ty "b" "C"; ty "c" "C"; lit "a" "q" "x"].

Example C12_run_nonvacuous :
  wf_frac thr0 /\ wf_frac (b_ratio 1 2) /\ fle BAlg thr0 (b_ratio 1 2) = true /\
  (N.of_nat (List.length g_third) < 2 ^ 53)%N /\
  exists ns s1 s2, run_shapes BAlg c12_rcfg thr0 g_third = inl (ns, s1) /\
                   run_shapes BAlg c12_rcfg (b_ratio 1 2) g_third = inl (ns, s2) /\
                   map (fun sh => List.length (sh_stmts sh)) s1 <> map (fun sh => List.length (sh_stmts sh)) s2.
Proof.
  split; [vm_compute; split; [discriminate | reflexivity]|].
  split; [vm_compute; split; [discriminate | reflexivity]|].
  split; [vm_compute; reflexivity|]. split; [vm_compute; reflexivity|].
  do 3 eexists. split; [vm_compute; reflexivity|]. split; [vm_compute; reflexivity|].
  vm_compute. discriminate.
Qed.

(** all_classes mode (no target classes), both thresholds <= 1:
    remove_empty_shapes may be on -- every shape keeps the constraint on the
    instantiation property (Props/C14.v, [C14_no_empty_shape_all_classes]), so
    the shape-level cleaning removes nothing and the shapes still correspond
    one to one *)
Theorem C12_run_keys_monotone_all_classes : forall c thr1 thr2 g ns1 s1 ns2 s2,
  r_targets c = None -> wf_frac thr1 -> wf_frac thr2 ->
  fle BAlg thr1 thr2 = true -> fle BAlg thr2 (fone BAlg) = true ->
  (N.of_nat (List.length g) < 2 ^ 53)%N ->
  run_shapes BAlg c thr1 g = inl (ns1, s1) -> run_shapes BAlg c thr2 g = inl (ns2, s2) ->
  ns1 = ns2 /\
  Forall2 (fun sh1 sh2 =>
    sh_name sh1 = sh_name sh2 /\ sh_class sh1 = sh_class sh2 /\ sh_n sh1 = sh_n sh2 /\
    incl (map (skey (scfg_of c ns1)) (sh_stmts sh2)) (map (skey (scfg_of c ns1)) (sh_stmts sh1))) s1 s2.
Proof. exact run_keys_monotone_all_classes. Qed.
Print Assumptions C12_run_keys_monotone_all_classes.

Example C12_run_all_classes_nonvacuous :
  r_targets base_rcfg = None /\ r_remove_empty base_rcfg = true /\
  fle BAlg (b_ratio 1 2) (fone BAlg) = true /\
  exists ns s1 s2, run_shapes BAlg base_rcfg thr0 g_third = inl (ns, s1) /\
                   run_shapes BAlg base_rcfg (b_ratio 1 2) g_third = inl (ns, s2) /\
                   map (fun sh => List.length (sh_stmts sh)) s1 <> map (fun sh => List.length (sh_stmts sh)) s2.
Proof.
  split; [reflexivity|]. split; [reflexivity|]. split; [vm_compute; reflexivity|].
  do 3 eexists. split; [vm_compute; reflexivity|]. split; [vm_compute; reflexivity|].
  vm_compute. discriminate.
Qed.

(** any mode, remove_empty_shapes on or off, both thresholds <= 1, no class
    IRI starting with '%' or "@" ([class_iris_ok]) *)
Theorem C12_run_keys_monotone_valid : forall c thr1 thr2 g ns1 s1 ns2 s2,
  class_iris_ok c g = true -> wf_frac thr1 -> wf_frac thr2 ->
  fle BAlg thr1 thr2 = true -> fle BAlg thr2 (fone BAlg) = true ->
  (N.of_nat (List.length g) < 2 ^ 53)%N ->
  run_shapes BAlg c thr1 g = inl (ns1, s1) -> run_shapes BAlg c thr2 g = inl (ns2, s2) ->
  ns1 = ns2 /\
  Forall2 (fun sh1 sh2 =>
    sh_name sh1 = sh_name sh2 /\ sh_class sh1 = sh_class sh2 /\ sh_n sh1 = sh_n sh2 /\
    incl (map (skey (scfg_of c ns1)) (sh_stmts sh2)) (map (skey (scfg_of c ns1)) (sh_stmts sh1))) s1 s2.
Proof. exact run_keys_monotone_valid. Qed.
Print Assumptions C12_run_keys_monotone_valid.

(** ** SHAPE-MAP runs ([Model.RunMap.run_shapes_map]).  The threshold reaches
    the run only through [shex] ([C12_map_threshold_only_in_shex]); without
    remove_empty_shapes raising it only removes keys, shape by shape
    ([C12_map_keys_monotone], binary64 for class sizes below 2^53;
    [_exact] for rationals, no bound).  With remove_empty_shapes the statement
    is FALSE on shape-map runs ([C12_remove_key_run_refuted], finding C12-F2):
    the model-level refutation [C12_remove_key_refuted] made real -- the pinned
    input shows it on the real Shaper. *)
From Shexer Require Import Spec.Counts Lib.Dict Model.ShexingFix Model.RunMap Proofs.RunMapProofs Proofs.RunMapWitness.
From Shexer Require Model.Selectors.

Theorem C12_map_threshold_only_in_shex : forall fa c orc sp thr g ns shapes,
  run_shapes_map fa c orc sp thr g = inl (ns, shapes) ->
  exists P C, shex_cur fa (scfg_map c sp ns) thr P C = inl shapes /\
              forall thr', run_shapes_map fa c orc sp thr' g =
                           match shex_cur fa (scfg_map c sp ns) thr' P C with
                           | inl s => inl (ns, s) | inr e => inr (MERun (rerr_of_s e)) end.
Proof. exact map_threshold_only_in_shex. Qed.
Print Assumptions C12_map_threshold_only_in_shex.

Theorem C12_map_keys_monotone : forall c orc sp thr1 thr2 g ns1 s1 ns2 s2,
  r_remove_empty c = false -> wf_frac thr1 -> wf_frac thr2 -> fle BAlg thr1 thr2 = true ->
  (forall I cls, Selectors.run orc sp g = Selectors.OOk I -> (class_count I cls < 2 ^ 53)%N) ->
  run_shapes_map BAlg c orc sp thr1 g = inl (ns1, s1) -> run_shapes_map BAlg c orc sp thr2 g = inl (ns2, s2) ->
  ns1 = ns2 /\ Forall2 (keys_shrink_m (scfg_map c sp ns1)) s1 s2.
Proof. exact map_keys_monotone_B. Qed.
Print Assumptions C12_map_keys_monotone.

Theorem C12_map_keys_monotone_exact : forall c orc sp thr1 thr2 g ns1 s1 ns2 s2,
  r_remove_empty c = false -> wf_frac thr1 -> wf_frac thr2 -> fle QAlg thr1 thr2 = true ->
  run_shapes_map QAlg c orc sp thr1 g = inl (ns1, s1) -> run_shapes_map QAlg c orc sp thr2 g = inl (ns2, s2) ->
  ns1 = ns2 /\ Forall2 (keys_shrink_m (scfg_map c sp ns1)) s1 s2.
Proof. exact map_keys_monotone_Q. Qed.
Print Assumptions C12_map_keys_monotone_exact.

(** non-vacuity: remove_empty_shapes off, 1/3 <= 1/2 on the pinned run: the key (ex:p, non-literal) at both *)
Example C12_map_nonvacuous :
  fle BAlg (b_ratio 1 3) (b_ratio 1 2) = true /\
  map_keys (with_remove false (with_kls false base_rcfg)) (b_ratio 1 3) =
    Some [(lab_S, [(false, ex "name", VLit c_STRING_TYPE); (false, ex "p", VNonLit)]); (lab_T, [])] /\
  map_keys (with_remove false (with_kls false base_rcfg)) (b_ratio 1 2) =
    Some [(lab_S, [(false, ex "name", VLit c_STRING_TYPE); (false, ex "p", VNonLit)]); (lab_T, [])].
Proof. repeat split; vm_compute; reflexivity. Qed.

(** C12-F2 on the run: remove_empty_shapes on (the default), thresholds 1/3 <= 1/2:
    the key (ex:p, non-literal) of shape S is present at 1/2 and absent at 1/3 *)
Lemma C12_remove_key_run_refuted :
  c_clean_before_merge = false ->
  exists c orc sp g thr1 thr2 ns1 s1 ns2 s2 key,
    r_remove_empty c = true /\ fle BAlg thr1 thr2 = true /\
    run_shapes_map BAlg c orc sp thr1 g = inl (ns1, s1) /\ run_shapes_map BAlg c orc sp thr2 g = inl (ns2, s2) /\
    (exists sh2, In sh2 s2 /\ In key (map (skey (scfg_map c sp ns2)) (sh_stmts sh2))) /\
    (forall sh1, In sh1 s1 -> ~ In key (map (skey (scfg_map c sp ns1)) (sh_stmts sh1))).
Proof.
  flag_or ltac:(
    exists (with_kls false base_rcfg), m_orc, m_spec, m_graph, (b_ratio 1 3), (b_ratio 1 2);
    eexists; eexists; eexists; eexists; exists (false, ex "p", VNonLit);
    split; [reflexivity|]; split; [vm_compute; reflexivity|];
    split; [vm_compute; reflexivity|]; split; [vm_compute; reflexivity|]; split;
    [ eexists; split; [left; reflexivity|]; vm_compute; right; left; reflexivity
    | intros sh1 [<-|[]]; vm_compute; intros [H|[]]; discriminate H ]).
Qed.

(** once ClassShexer removes the empty shapes before the merges (C12-F2 repaired): the key at both thresholds *)
Example C12_remove_key_run_fixed :
  c_clean_before_merge = true ->
  map_keys (with_kls false base_rcfg) (b_ratio 1 3) =
    Some [(lab_S, [(false, ex "name", VLit c_STRING_TYPE); (false, ex "p", VNonLit)])] /\
  map_keys (with_kls false base_rcfg) (b_ratio 1 2) =
    Some [(lab_S, [(false, ex "name", VLit c_STRING_TYPE); (false, ex "p", VNonLit)])].
Proof. intros E. split; [exact (m_keys_third_fixed E) | exact m_keys_half]. Qed.

(** ** Documents with repeated statements.  The run takes a LIST of triples, so
    a statement written twice is inside every theorem above (keys, shapes and
    figures are monotone on such documents too).  What a repeated TYPING
    statement does to the counts is Q7 of Spec/Counts.v / finding C10-F7: both
    the class size and the occurrences of the features of that node are counted
    once per statement, consistently, so the two anchors of the property still
    hold there (the check recounts them on the set of triples).  With
    [instances_cap] it is different (finding C12-F3): InstanceCapMode counts
    typing STATEMENTS against the cap, so the repeated statement of node a takes
    the place of node b -- the class has two nodes, the cap is 2, yet b is not
    profiled: at threshold 0 the feature (ex:q, xsd:string) observed on b has no
    key, and at threshold 1 the feature (ex:p, xsd:string) that only one node of
    the two has is kept. *)
Definition typed_nodes (g : graph) (c : str) : list str :=
  fold_left (fun acc t =>
               match to t with
               | ON o => if str_eqb (tp t) tau && str_eqb (nid o) c && negb (existsb (str_eqb (nid (ts t))) acc)
                         then acc ++ [nid (ts t)] else acc
               | _ => acc
               end) g [].

Definition with_cap (k : Z) (c : rcfg) : rcfg :=
  {| r_tau := r_tau c; r_targets := r_targets c; r_ns := r_ns c; r_shapes_ns := r_shapes_ns c; r_cap := k;
     r_inverse := r_inverse c; r_remove_empty := r_remove_empty c; r_discard_useless := r_discard_useless c;
     r_keep_less_specific := r_keep_less_specific c; r_all_compliant := r_all_compliant c; r_disable_or := r_disable_or c;
     r_allow_redundant_or := r_allow_redundant_or c; r_allow_opt := r_allow_opt c;
     r_disable_exact := r_disable_exact c; r_disable_comments := r_disable_comments c; r_mode := r_mode c |}.

Definition g_rep_cap : graph := [ty "a" "C"; ty "a" "C"; ty "b" "C"; lit "a" "p" "x"; lit "b" "q" "y"].

Lemma C12_repeated_typing_cap_refuted :
  exists c g,
    r_cap c = 2%Z /\ typed_nodes g (ex "C") = [ex "a"; ex "b"] /\ In (lit "b" "q" "y") g /\
    (exists ns s, run_shapes BAlg c thr0 g = inl (ns, s) /\
       forall sh, In sh s -> ~ In (false, ex "q", VLit c_STRING_TYPE) (map (skey (scfg_of c ns)) (sh_stmts sh))) /\
    (exists ns s sh, run_shapes BAlg c (fone BAlg) g = inl (ns, s) /\ In sh s /\ sh_n sh = 2%N /\
       In (false, ex "p", VLit c_STRING_TYPE) (map (skey (scfg_of c ns)) (sh_stmts sh))).
Proof.
  exists (with_cap 2 base_rcfg), g_rep_cap.
  split; [reflexivity|]. split; [vm_compute; reflexivity|].
  split; [right; right; right; right; left; reflexivity|]. split.
  - eexists; eexists. split; [vm_compute; reflexivity|].
    intros sh [<-|[]]. vm_compute. intros [H|[H|[]]]; discriminate H.
  - eexists; eexists; eexists. split; [vm_compute; reflexivity|].
    split; [left; reflexivity|]. split; [vm_compute; reflexivity|].
    vm_compute. right; left; reflexivity.
Qed.
Print Assumptions C12_repeated_typing_cap_refuted.

(** the same document without the cap: both anchors hold (the repeated statement of a is counted
    twice in the class size AND in the occurrences: 3 "instances", ex:p on 2 of them) *)
Example C12_repeated_typing_nocap :
  (exists ns s sh, run_shapes BAlg base_rcfg thr0 g_rep_cap = inl (ns, s) /\ In sh s /\ sh_n sh = 3%N /\
     In (false, ex "q", VLit c_STRING_TYPE) (map (skey (scfg_of base_rcfg ns)) (sh_stmts sh))) /\
  (exists ns s, run_shapes BAlg base_rcfg (fone BAlg) g_rep_cap = inl (ns, s) /\
     forall sh, In sh s -> ~ In (false, ex "p", VLit c_STRING_TYPE) (map (skey (scfg_of base_rcfg ns)) (sh_stmts sh))).
Proof.
  split.
  - eexists; eexists; eexists. split; [vm_compute; reflexivity|].
    split; [left; reflexivity|]. split; [vm_compute; reflexivity|]. vm_compute. auto.
  - eexists; eexists. split; [vm_compute; reflexivity|].
    intros sh [<-|[]]. vm_compute. intros [H|[]]; discriminate H.
Qed.
Print Assumptions C12_repeated_typing_nocap.
