(** * C04 -- extraction never crashes on a valid graph and configuration.

    Statements only.  The model turns every unguarded dereference / index /
    key lookup / raise of the modelled Python code into an explicit error
    outcome, so "no crash" is "the result is not an error".  Proved here: the
    shexing stage is total with disjunctions disabled (the default) whenever
    every type key of the class profile can be rendered by [tune_token]
    ([tok_ok]); the only strings it cannot render start with the shape-name
    sentinel '%' without being of the form %<...> ([C04_tune_token_none]),
    which no IRI / datatype of a valid document does.  With disjunctions
    enabled the stage can raise ([C04_clean_error_iff], [C04_choice_prune_run_refuted] -- before the repair a3b99df --: a disjunction
    next to an empty shape under remove_empty_shapes -- reachable only through
    a shape-map label whose node has no triples). *)
From Coq Require Import List Ascii String ZArith NArith Bool.
From Shexer Require Import Lib.PyStr Lib.Dict Gen.Consts Model.Profiler Model.Tokens
  Model.Freq Model.FreqInst Model.Shexing Proofs.TotalShex Proofs.ShexLemmas Proofs.ShexKeys Proofs.ClosureLemmas.
Import ListNotations.

Theorem C04_shex_total : forall fa cfg (thr : F fa) P C,
  x_disable_or cfg = true ->
  Forall (centry_ok cfg) P ->
  exists shapes, shex fa cfg thr P C = inl shapes /\ Forall (shape_good cfg) shapes.
Proof. intros fa cfg thr P C Hor HP. exact (TotalShex.shex_total fa cfg Hor thr P C HP). Qed.
Print Assumptions C04_shex_total.

(** without remove_empty_shapes also with disjunctions enabled *)
Theorem C04_shex_total_keep_empty : forall fa cfg (thr : F fa) P C,
  x_remove_empty cfg = false -> (forall ce, In ce P -> tokens_ok cfg ce) ->
  exists shapes, shex fa cfg thr P C = inl shapes.
Proof. exact ShexKeys.shex_total. Qed.
Print Assumptions C04_shex_total_keep_empty.

Theorem C04_tune_token_none : forall ns k,
  tune_token ns k = None <->
  prefixb c_STARTING_CHAR_FOR_SHAPE_NAME k = true /\ remove_corners_strict (slice_from k 1) = None.
Proof. exact tune_token_none_iff. Qed.
Print Assumptions C04_tune_token_none.

(** the only failure of the cleaning loop: an empty shape exists while a surviving
    shape holds a disjunction *)
Theorem C04_clean_error_iff : forall fuel l e, shapes_wf l -> refs_closed l ->
  (clean_shapes (S fuel) l = inr e <-> e = SEType /\ clean_crash l).
Proof. intros fuel l e. exact (clean_shapes_error fuel l e). Qed.
Print Assumptions C04_clean_error_iff.

(** ** End to end: [Run.run_shapes] / [Run.run_shexc] (tracker, profiler,
    shexing stage, serialiser).  Proofs: Proofs/EndToEnd2.v.

    Every error outcome of the model is a place where the Python code raises:
    [RERandom] = no priority prefix is free (the code then draws random
    prefixes: outside the model), [REAttr] = [Literal] has no [.iri],
    [REType]/[REValue] = the shexing stage / the serialiser.  So "the result is
    [inl _]" is "no exception".

    [valid_input c g] (a boolean, Proofs/EndToEnd2.v):
    (i)   every instantiation triple has an IRI or blank-node object
          ([typing_okb]; see [C04_literal_class_refuted]);
    (ii)  no string a token is made of starts with the shape-name sentinel '%'
          ([sentinel_free]: predicates, literal datatypes, subject and object of
          instantiation triples) -- no IRI and no blank-node label of an RDF
          document does;
    (iii) disjunctions disabled (the default) or empty shapes kept ([options_ok];
          dropped further below for thresholds <= 1: [C04_run_total_any_options]);
    (iv)  one of the priority prefixes for the shapes namespace is free
          ([prefix_free], i.e. [shapes_prefix (r_ns c) <> None]).
    For the text ([valid_input_text]) also: no class IRI (object of an
    instantiation triple, requested target class) starts with "@" (its shape
    label would be the IRI itself and [remove_corners] raises ValueError). *)
From Shexer Require Import Lib.Bin64 Spec.Rdf Model.Tracker Model.SerialShexc Model.Run
  Proofs.EndToEnd2 Proofs.RunWitness.

(** first with the hypothesis on the profile's tokens left explicit ... *)
Theorem C04_run_total_tokens : forall fa c (thr : F fa) g ns ins P C ID,
  r_disable_or c = true \/ r_remove_empty c = false ->
  full_ns c = Some ns ->
  track (r_tau c) (match r_targets c with Some l => TClasses l | None => TAll end) (r_cap c) g = inl ins ->
  profile (pcfg_of c) ins g = inl (P, C, ID) ->
  (forall ce, In ce P -> tokens_ok (scfg_of c ns) ce) ->
  exists shapes, run_shapes fa c thr g = inl (ns, shapes).
Proof. exact run_total_tokens. Qed.
Print Assumptions C04_run_total_tokens.

Theorem C04_run_shexc_total_tokens : forall fa c (thr : F fa) g ns ins P C ID,
  r_disable_or c = true \/ r_remove_empty c = false ->
  full_ns c = Some ns ->
  track (r_tau c) (match r_targets c with Some l => TClasses l | None => TAll end) (r_cap c) g = inl ins ->
  profile (pcfg_of c) ins g = inl (P, C, ID) ->
  (forall ce, In ce P -> entries_ok (scfg_of c ns) ce /\ prefixb (Str "@") (fst ce) = false) ->
  exists text, run_shexc fa c thr g = inl text.
Proof. exact run_shexc_total_tokens. Qed.
Print Assumptions C04_run_shexc_total_tokens.

(** ... then from the predicate on the input alone: every frequency algebra,
    every threshold, every value of the other options (instances cap, target
    classes, inverse paths, all_compliant, ...) *)
Theorem C04_run_total : forall fa c (thr : F fa) g,
  valid_input c g = true -> exists ns shapes, run_shapes fa c thr g = inl (ns, shapes).
Proof. exact run_total. Qed.
Print Assumptions C04_run_total.

Theorem C04_run_shexc_total : forall fa c (thr : F fa) g,
  valid_input_text c g = true -> exists text, run_shexc fa c thr g = inl text.
Proof. exact run_shexc_total. Qed.
Print Assumptions C04_run_shexc_total.

(** the front (tracker + profiler) needs (i) only, and its profile is
    renderable under (ii) *)
Theorem C04_front_total : forall c g,
  typing_ok (r_tau c) g ->
  exists ins P C ID,
    track (r_tau c) (match r_targets c with Some l => TClasses l | None => TAll end) (r_cap c) g = inl ins /\
    profile (pcfg_of c) ins g = inl (P, C, ID).
Proof. exact front_total. Qed.
Print Assumptions C04_front_total.

Theorem C04_profile_entries_renderable : forall c g ns ins P C ID,
  forallb (sentinel_free (r_tau c)) g = true ->
  track (r_tau c) (match r_targets c with Some l => TClasses l | None => TAll end) (r_cap c) g = inl ins ->
  profile (pcfg_of c) ins g = inl (P, C, ID) ->
  forall ce, In ce P -> entries_ok (scfg_of c ns) ce.
Proof. exact profile_entries_renderable. Qed.
Print Assumptions C04_profile_entries_renderable.

(** every error outcome violates one of the conditions: [RERandom] (iv),
    [REAttr] from tracker/profiler (i), an error of the shexing stage (ii) or (iii) *)
Theorem C04_errors_characterised : forall fa c (thr : F fa) g e,
  run_shapes fa c thr g = inr e ->
  (e = RERandom /\ shapes_prefix (r_ns c) = None) \/
  (e = REAttr /\ exists t, In t g /\ tp t = r_tau c /\ is_node (to t) = false) \/
  ((exists se, e = rerr_of_s se) /\
   (options_ok c = false \/ forallb (sentinel_free (r_tau c)) g = false)).
Proof. exact run_errors_characterised. Qed.
Print Assumptions C04_errors_characterised.

Theorem C04_text_errors_characterised : forall fa c (thr : F fa) g e,
  run_shexc fa c thr g = inr e ->
  run_shapes fa c thr g = inr e \/
  (e = REValue /\ exists ns shapes, run_shapes fa c thr g = inl (ns, shapes) /\
                                     render (zcfg_of c ns) shapes = None).
Proof. exact run_shexc_errors_characterised. Qed.
Print Assumptions C04_text_errors_characterised.

(** *** non-vacuity: the pinned graphs of Proofs/RunWitness.v are valid inputs
    for the default configuration (and the runs indeed produce text) *)
Example C04_valid_inputs :
  valid_input_text base_rcfg g_overlap = true /\ valid_input_text base_rcfg g_mixed = true /\
  valid_input_text base_rcfg g_shared = true /\ valid_input_text base_rcfg g_reftie_1 = true /\
  valid_input_text (rwith_inverse true base_rcfg) g_reftie_1 = true /\
  exists text, run_shexc BAlg base_rcfg thr0 g_mixed = inl text.
Proof. repeat (split; [vm_compute; reflexivity|]). eexists. vm_compute. reflexivity. Qed.

(** *** (i) is needed: a typing triple with a literal object.  It is
    syntactically valid RDF ([<s> rdf:type "x"]); the real code raises
    AttributeError ([Literal] has no [.iri]) -- this is the model's account of
    a genuine crash on a malformed (not ill-formed) document. *)
Definition g_literal_class : graph := [T (iri "s") tau (OL (Str "x") c_STRING_TYPE)].

Lemma C04_literal_class_refuted :
  forallb (sentinel_free (r_tau base_rcfg)) g_literal_class = true /\
  options_ok base_rcfg = true /\ prefix_free base_rcfg = true /\
  typing_okb (r_tau base_rcfg) g_literal_class = false /\
  run_shapes BAlg base_rcfg thr0 g_literal_class = inr REAttr.
Proof. repeat split; vm_compute; reflexivity. Qed.

(** (ii) is needed by the model (a datatype starting with '%' is no IRI): the
    serialiser cannot print the token *)
Definition g_sentinel : graph := [ty "a" "C"; T (iri "a") (ex "p") (OL (Str "x") (Str "%dt"))].

Lemma C04_sentinel_witness :
  typing_okb (r_tau base_rcfg) g_sentinel = true /\
  forallb (sentinel_free (r_tau base_rcfg)) g_sentinel = false /\
  run_shexc BAlg base_rcfg thr0 g_sentinel = inr REValue.
Proof. repeat split; vm_compute; reflexivity. Qed.

(** (iv) is needed: the four priority prefixes taken *)
Definition ns_all_taken : nsdict :=
  [(Str "http://a/", Str ""); (Str "http://b/", Str "weso-s"); (Str "http://c/", Str "shapes");
   (Str "http://d/", Str "w-shapes")].

Lemma C04_no_prefix_witness :
  run_shapes BAlg (OptionLemmas.with_rns ns_all_taken base_rcfg) thr0 g_mixed = inr RERandom.
Proof. vm_compute. reflexivity. Qed.

(** *** condition (iii) is not needed in all_classes mode with a threshold <= 1
    (binary64, fewer than 2^53 triples): every class of the profile then has an
    instance, every instance has its class among the values of the
    instantiation property, so each shape keeps that constraint (frequency
    100 %) and [_clean_empty_shapes] -- the only place where a disjunction can
    raise -- finds nothing to remove.  (With target classes a requested class
    without instances yields an empty shape: (iii) stays.) *)
From Shexer Require Import Proofs.Bin64Round.

Theorem C04_run_total_all_classes : forall c thr g,
  r_targets c = None -> wf_frac thr -> fle BAlg thr (fone BAlg) = true ->
  (N.of_nat (List.length g) < 2 ^ 53)%N ->
  typing_okb (r_tau c) g && forallb (sentinel_free (r_tau c)) g && prefix_free c = true ->
  exists ns shapes, run_shapes BAlg c thr g = inl (ns, shapes).
Proof. exact run_total_all_classes. Qed.
Print Assumptions C04_run_total_all_classes.

Theorem C04_run_shexc_total_all_classes : forall c thr g,
  r_targets c = None -> wf_frac thr -> fle BAlg thr (fone BAlg) = true ->
  (N.of_nat (List.length g) < 2 ^ 53)%N ->
  typing_okb (r_tau c) g && forallb (sentinel_free (r_tau c)) g && prefix_free c &&
  forallb (class_iri_ok (r_tau c)) g = true ->
  exists text, run_shexc BAlg c thr g = inl text.
Proof. exact run_shexc_total_all_classes. Qed.
Print Assumptions C04_run_shexc_total_all_classes.

(** non-vacuity: disjunctions enabled together with remove_empty_shapes *)
Example C04_all_classes_nonvacuous :
  let c := rwith_disable_or false base_rcfg in
  options_ok c = false /\ r_targets c = None /\ wf_frac thr0 /\ fle BAlg thr0 (fone BAlg) = true /\
  typing_okb (r_tau c) g_reftie_1 && forallb (sentinel_free (r_tau c)) g_reftie_1 && prefix_free c &&
  forallb (class_iri_ok (r_tau c)) g_reftie_1 = true /\
  exists text, run_shexc BAlg c thr0 g_reftie_1 = inl text.
Proof.
  cbv zeta. split; [reflexivity|]. split; [reflexivity|].
  split; [vm_compute; split; [discriminate | reflexivity]|].
  split; [vm_compute; reflexivity|]. split; [vm_compute; reflexivity|]. eexists. vm_compute. reflexivity.
Qed.

(** *** ... and not in target-classes mode either, when no class IRI (object
    of an instantiation triple, requested target class) starts with '%' or "@"
    ([class_iris_ok]): with remove_empty_shapes on, the profile-level cleaning
    keeps only classes that have features -- hence an instance -- or whose key
    is an "original label", which no such class IRI is; with it off (iii)
    holds.  So for binary64, thresholds <= 1 and fewer than 2^53 triples the
    run never raises on (i), (ii), (iv) + [class_iris_ok], whatever the options. *)
Theorem C04_run_total_any_options : forall c thr g,
  wf_frac thr -> fle BAlg thr (fone BAlg) = true -> (N.of_nat (List.length g) < 2 ^ 53)%N ->
  typing_okb (r_tau c) g && forallb (sentinel_free (r_tau c)) g && prefix_free c && class_iris_ok c g = true ->
  exists ns shapes, run_shapes BAlg c thr g = inl (ns, shapes).
Proof. exact run_total_valid. Qed.
Print Assumptions C04_run_total_any_options.

Theorem C04_run_shexc_total_any_options : forall c thr g,
  wf_frac thr -> fle BAlg thr (fone BAlg) = true -> (N.of_nat (List.length g) < 2 ^ 53)%N ->
  typing_okb (r_tau c) g && forallb (sentinel_free (r_tau c)) g && prefix_free c && class_iris_ok c g = true ->
  exists text, run_shexc BAlg c thr g = inl text.
Proof. exact run_shexc_total_valid. Qed.
Print Assumptions C04_run_shexc_total_any_options.

(** non-vacuity: target classes (one without instances), disjunctions enabled,
    remove_empty_shapes on *)
Definition c04_targets_rcfg : rcfg :=
  {| r_tau := tau; r_targets := Some [ex "C"; ex "C1"; ex "C2"; ex "D"]; r_ns := [];
     r_shapes_ns := c_SHAPES_DEFAULT_NAMESPACE; r_cap := (-1)%Z;
     r_inverse := true; r_remove_empty := true; r_discard_useless := true; r_keep_less_specific := true;
     r_all_compliant := true; r_disable_or := false; r_allow_redundant_or := false; r_allow_opt := true;
     r_disable_exact := false; r_disable_comments := false; r_mode := FMixed |}.

Example C04_any_options_nonvacuous :
  options_ok c04_targets_rcfg = false /\
  typing_okb (r_tau c04_targets_rcfg) g_reftie_1 && forallb (sentinel_free (r_tau c04_targets_rcfg)) g_reftie_1 &&
  prefix_free c04_targets_rcfg && class_iris_ok c04_targets_rcfg g_reftie_1 = true /\
  exists text, run_shexc BAlg c04_targets_rcfg thr0 g_reftie_1 = inl text.
Proof. split; [reflexivity|]. split; [vm_compute; reflexivity|]. eexists. vm_compute. reflexivity. Qed.

(** ** SHAPE-MAP runs ([Model.RunMap.run_shapes_map] / [run_shexc_map]: C10's
    tracker model, then the frozen profiler, shexing and serialiser models).
    Error outcomes name the stage: [MECtor] = raised by Shaper(...), [METrack]
    = by the instance trackers, [MERun] = profiler / shexing stage /
    serialiser ([RERandom] = no priority prefix free: outside the model).
    - [C04_map_errors_characterised]: which stage failed, exactly;
    - [C04_map_run_total_tokens]: constructor, trackers and profiler having
      succeeded with a profile whose type keys are renderable, the shapes are
      produced for every threshold and every algebra -- whatever the options
      once ClassShexer removes the empty shapes before the merges
      ([c_clean_before_merge = true]: notes/proposed_fixes/C04-choice-prune.diff),
      before that provided disjunctions are disabled (the default) or empty
      shapes are kept;
    - [C04_choice_prune_run_refuted] (finding C04-F1, old order): both switched
      the other way, a label whose node has no triples makes the run raise TypeError.
      The real Shaper raises the same exception on this input (pinned
      reproducer); the hypothesis of the theorem above is therefore needed. *)
From Shexer Require Import Model.ShexingFix Model.RunMap Proofs.RunMapProofs Proofs.RunMapWitness.
From Shexer Require Model.Selectors.

Theorem C04_map_errors_characterised : forall fa c orc sp thr g e,
  run_shapes_map fa c orc sp thr g = inr e <-> map_failure fa c orc sp thr g e.
Proof. exact run_shapes_map_err_iff. Qed.
Print Assumptions C04_map_errors_characterised.

Theorem C04_map_run_total_tokens : forall fa c orc sp thr g I targets P C ID,
  c_clean_before_merge = true \/ r_disable_or c = true \/ r_remove_empty c = false ->
  r_disable_or c && r_allow_redundant_or c = false ->
  Selectors.find_adequate_prefix (Selectors.sp_ns sp) <> None ->
  Selectors.run orc sp g = Selectors.OOk I ->
  prof_targets orc sp = Selectors.Ok targets ->
  profile (pcfg_map c orc sp targets) I g = inl (P, C, ID) ->
  (forall ce, In ce P -> tokens_ok (scfg_map c sp (Selectors.ns_with_shapes orc sp)) ce) ->
  exists shapes, run_shapes_map fa c orc sp thr g = inl (Selectors.ns_with_shapes orc sp, shapes).
Proof. exact map_run_total_tokens. Qed.
Print Assumptions C04_map_run_total_tokens.

(** the only failure left after a successful front is the shexing stage's *)
Theorem C04_map_failure_after_front : forall fa c orc sp thr g I targets P C ID e,
  Selectors.run orc sp g = Selectors.OOk I -> prof_targets orc sp = Selectors.Ok targets ->
  profile (pcfg_map c orc sp targets) I g = inl (P, C, ID) ->
  r_disable_or c && r_allow_redundant_or c = false ->
  Selectors.find_adequate_prefix (Selectors.sp_ns sp) <> None ->
  run_shapes_map fa c orc sp thr g = inr e ->
  exists se, e = MERun (rerr_of_s se) /\
             shex_cur fa (scfg_map c sp (Selectors.ns_with_shapes orc sp)) thr P C = inr se.
Proof. exact map_failure_after_front. Qed.
Print Assumptions C04_map_failure_after_front.

(** non-vacuity: the pinned shape-map run with the default options *)
Example C04_map_nonvacuous :
  exists text, run_shexc_map BAlg base_rcfg m_orc m_spec thr0 m_graph = inl text.
Proof. eexists. vm_compute. reflexivity. Qed.

(** C04-F1 on the run: a valid graph, a valid shape map, an accepted configuration
    (disable_or_statements=False, allow_redundant_or=True, remove_empty_shapes on) *)
Lemma C04_choice_prune_run_refuted :
  c_clean_before_merge = false ->
  exists c orc sp g thr I,
    r_disable_or c = false /\ r_remove_empty c = true /\
    Selectors.run orc sp g = Selectors.OOk I /\
    run_shapes_map BAlg c orc sp thr g = inr (MERun REType) /\
    run_shexc_map BAlg c orc sp thr g = inr (MERun REType) /\
    (* the same run with empty shapes kept succeeds *)
    (exists text, run_shexc_map BAlg (with_remove false c) orc sp thr g = inl text).
Proof.
  flag_or ltac:(
    exists (with_or false true base_rcfg), m_orc, m_spec, m_graph, thr0; eexists;
    split; [reflexivity|]; split; [reflexivity|]; split; [vm_compute; reflexivity|];
    split; [vm_compute; reflexivity|]; split; [vm_compute; reflexivity|]; eexists; vm_compute; reflexivity).
Qed.

(** once ClassShexer removes the empty shapes before the merges (C04-F1 repaired) the same run succeeds *)
Example C04_choice_prune_run_fixed :
  c_clean_before_merge = true ->
  exists text, run_shexc_map BAlg (with_or false true base_rcfg) m_orc m_spec thr0 m_graph = inl text.
Proof. intros E. exact (proj2 (m_choice_fixed E)). Qed.

(** * SHACL output of shape-map runs ([Model.RunMapShacl.run_shacl_map] =
    [run_shapes_map] followed by [ShaclDoc.shacl_output]: [_add_shapes], then rdflib's writer in
    [_produce_output], which raises [Exception] on an IRI holding one of the characters of
    [ShaclDoc.rdflib_invalid_uri_chars], the corners among them).

    Finding C04-F2: the class key of the shape of a label is the label as the shape map has it,
    [<iri>]; [_add_target_class] handed it to [URIRef] with its corners, so that EVERY SHACL output
    of a shape-map extraction raised ([C04_map_shacl_fails_old], for the text of the method that keeps
    the key: [c_shacl_target_strips_corners = false]).  The repaired text removes the corners
    ([SerialShacl.target_class_obj]): no failure is left that comes from the target class
    ([C04_map_shacl_total]: the output exists wherever the serialiser builds its graph -- C11's domain,
    as for class-based runs -- and the shape IRIs and statement IRIs are printable).  S1-S3 of C05 for
    these graphs: Props/C05.v ([C05_map_shacl_graph], [C05_map_pure_shacl_run]). *)
From Shexer Require Import Spec.ConstraintSpec Spec.ShaclGraphSpec Model.SerialShacl Model.ShaclDoc Model.RunMapShacl.
From Shexer Require Proofs.ShaclMapProofs.

Theorem C04_map_shacl_ok_iff : forall fa c orc sp thr g tr,
  run_shacl_map fa c orc sp thr g = inl tr <->
  exists ns shapes, run_shapes_map fa c orc sp thr g = inl (ns, shapes) /\
                    shacl_output ns (tau_shaper sp) shapes = inl tr.
Proof. exact ShaclMapProofs.map_shacl_ok_iff. Qed.
Print Assumptions C04_map_shacl_ok_iff.

(** the serialiser returns exactly when it builds the graph and rdflib accepts every IRI of it *)
Theorem C04_shacl_output_ok_iff : forall z ns tau shapes tr,
  shacl_output_gen z ns tau shapes = inl tr <->
  shacl_graph_gen z ns tau shapes = inl tr /\ forallb triple_printable tr = true.
Proof. exact ShaclMapProofs.shacl_output_gen_ok. Qed.
Print Assumptions C04_shacl_output_ok_iff.

(** on C11's domain with printable shape IRIs, statement IRIs ([ShaclMapProofs.shape_printable]) and
    target IRIs, whatever the class keys are *)
Theorem C04_shacl_output_total : forall ns tau shapes,
  forallb (C11_dom_shape ns tau) shapes = true ->
  forallb ShaclMapProofs.shape_printable shapes = true ->
  forallb ShaclMapProofs.target_printable shapes = true ->
  exists g, shacl_output ns tau shapes = inl g /\ shacl_graph ns tau shapes = inl g.
Proof. exact ShaclMapProofs.shacl_output_total. Qed.
Print Assumptions C04_shacl_output_total.

(** the class keys of a pure shape-map run (no target classes, all_classes_mode off) are labels of the map *)
Theorem C04_map_pure_classes_labels : forall fa c orc sp thr g ns shapes,
  ShaclMapProofs.pure_map sp -> run_shapes_map fa c orc sp thr g = inl (ns, shapes) ->
  forall sh, In sh shapes -> In (sh_class sh) (map_labels orc sp).
Proof. exact ShaclMapProofs.map_pure_classes_labels. Qed.
Print Assumptions C04_map_pure_classes_labels.

(** (a) labels [<iri>] with an IRI rdflib accepts ([labels_cornered]), repaired [_add_target_class] *)
Theorem C04_map_shacl_total : forall fa c orc sp thr g ns shapes,
  c_shacl_target_strips_corners = true ->
  ShaclMapProofs.pure_map sp -> ShaclMapProofs.labels_cornered orc sp ->
  run_shapes_map fa c orc sp thr g = inl (ns, shapes) ->
  forallb (C11_dom_shape ns (tau_shaper sp)) shapes = true ->
  forallb ShaclMapProofs.shape_printable shapes = true ->
  exists tr, run_shacl_map fa c orc sp thr g = inl tr /\ shacl_graph ns (tau_shaper sp) shapes = inl tr.
Proof. exact ShaclMapProofs.map_shacl_total. Qed.
Print Assumptions C04_map_shacl_total.

(** the old behaviour (C04-F2), stated for the text that keeps the key: one class key in corners and the
    serialiser never returns; every pure shape-map run that yields a shape fails in rdflib's writer *)
Theorem C04_shacl_cornered_key_fails : forall z ns tau shapes sh,
  c_shacl_target_strips_corners = false -> In sh shapes -> cornered (sh_class sh) = true ->
  forall g, shacl_output_gen z ns tau shapes <> inl g.
Proof. exact ShaclMapProofs.shacl_output_cornered_never. Qed.
Print Assumptions C04_shacl_cornered_key_fails.

Theorem C04_map_shacl_fails_old : forall fa c orc sp thr g ns shapes,
  c_shacl_target_strips_corners = false ->
  ShaclMapProofs.pure_map sp -> ShaclMapProofs.labels_cornered orc sp ->
  run_shapes_map fa c orc sp thr g = inl (ns, shapes) -> shapes <> [] ->
  forallb (C11_dom_shape ns (tau_shaper sp)) shapes = true ->
  run_shacl_map fa c orc sp thr g = inr (MSShacl OException).
Proof. exact ShaclMapProofs.map_shacl_fails_old. Qed.
Print Assumptions C04_map_shacl_fails_old.

(** the pinned shape-map run (labels <http://sh/S>, <http://sh/T>; default options) under both texts *)
Definition c04_sh_S : term := TIri (Str "http://sh/S").

Lemma C04_map_shacl_refuted :
  c_shacl_target_strips_corners = false ->
  exists c orc sp g thr ns shapes tr,
    ShaclMapProofs.pure_map sp /\ ShaclMapProofs.labels_cornered orc sp /\
    run_shapes_map BAlg c orc sp thr g = inl (ns, shapes) /\
    (* the graph is built, the object of sh:targetClass keeps its corners ... *)
    shacl_graph ns (tau_shaper sp) shapes = inl tr /\
    objects tr c04_sh_S (SH "targetClass") = [TIri (Str "<http://sh/S>")] /\
    (* ... and rdflib's writer raises *)
    run_shacl_map BAlg c orc sp thr g = inr (MSShacl OException).
Proof.
  flag_or ltac:(
    exists base_rcfg, m_orc, m_spec, m_graph, thr0; do 3 eexists;
    split; [split; reflexivity|];
    split; [intros l Hl; vm_compute in Hl; repeat destruct Hl as [<-|Hl]; try destruct Hl;
           first [exists (Str "http://sh/S"); split; reflexivity | exists (Str "http://sh/T"); split; reflexivity]|];
    split; [vm_compute; reflexivity|]; split; [vm_compute; reflexivity|];
    split; vm_compute; reflexivity).
Qed.
Print Assumptions C04_map_shacl_refuted.

Example C04_map_shacl_fixed :
  c_shacl_target_strips_corners = true ->
  exists tr, run_shacl_map BAlg base_rcfg m_orc m_spec thr0 m_graph = inl tr /\
             objects tr c04_sh_S (SH "targetClass") = [c04_sh_S] /\
             objects tr c04_sh_S (RDFNS "type") = [TIri (SH "NodeShape")] /\
             List.length tr = 12.
Proof.
  flag_or ltac:(eexists; split; [vm_compute; reflexivity|]; repeat split; vm_compute; reflexivity).
Qed.

(** the hypotheses of [C04_map_shacl_total] hold on that run *)
Example C04_map_shacl_total_nonvacuous :
  ShaclMapProofs.pure_map m_spec /\ ShaclMapProofs.labels_cornered m_orc m_spec /\
  exists ns shapes, run_shapes_map BAlg base_rcfg m_orc m_spec thr0 m_graph = inl (ns, shapes) /\
                    forallb (C11_dom_shape ns (tau_shaper m_spec)) shapes = true /\
                    forallb ShaclMapProofs.shape_printable shapes = true /\ shapes <> [].
Proof.
  split; [split; reflexivity|].
  split; [intros l Hl; vm_compute in Hl; repeat destruct Hl as [<-|Hl]; try destruct Hl;
           first [exists (Str "http://sh/S"); split; reflexivity | exists (Str "http://sh/T"); split; reflexivity]|].
  do 2 eexists. split; [vm_compute; reflexivity|]. split; [vm_compute; reflexivity|].
  split; [vm_compute; reflexivity | discriminate].
Qed.

(** * SHACL output with disjunctions enabled (finding C04-F3).  [disable_or_statements=False] is an
    accepted configuration; a shape list that holds a disjunction is never serialised as SHACL:
    [_add_node_type] (or [_add_in_instance]) reads [statement.st_type], which raises TypeError for a
    FixedPropChoiceStatement.  The ShExC output of the same run exists. *)
Theorem C04_shacl_choice_never : forall z ns tau shapes sh st,
  In sh shapes -> In st (sh_stmts sh) -> s_choice st = true ->
  forall g, shacl_graph_gen z ns tau shapes <> inl g.
Proof. exact ShaclMapProofs.shacl_graph_choice_fails. Qed.
Print Assumptions C04_shacl_choice_never.

Theorem C04_shacl_choice_type_error : forall z ns tau sh st rest_st rest,
  generate_shape_uri (sh_name sh) <> None ->
  (d_detect z = true -> exists o, d_pat z (sh_class sh) = Some o) ->
  sh_stmts sh = st :: rest_st -> s_choice st = true -> str_eqb (s_prop st) tau = false ->
  shacl_graph_gen z ns tau (sh :: rest) = inr GTypeError.
Proof. exact ShaclMapProofs.shacl_graph_choice_type_error. Qed.
Print Assumptions C04_shacl_choice_type_error.

(** two instances of C; ex:p leads one to an instance of D, the other to an untyped IRI: with
    allow_redundant_or the statement is [ex:p IRI OR @:D] *)
Definition g_choice : graph :=
  [ty "a1" "C"; ty "a2" "C"; ty "b" "D"; lnk "a1" "p" (iri "b"); lnk "a2" "p" (iri "x")].

Lemma C04_shacl_choice_refuted :
  exists c g ns shapes,
    r_disable_or c = false /\ r_allow_redundant_or c = true /\
    run_shapes BAlg c thr0 g = inl (ns, shapes) /\
    (exists sh st, In sh shapes /\ In st (sh_stmts sh) /\ s_choice st = true) /\
    (exists text, run_shexc BAlg c thr0 g = inl text) /\
    shacl_output ns (r_tau c) shapes = inr (OGraph GTypeError).
Proof.
  exists (with_or false true base_rcfg), g_choice. do 2 eexists.
  split; [reflexivity|]. split; [reflexivity|].
  split; [vm_compute; reflexivity|].
  split; [do 2 eexists; split; [left; reflexivity|]; split; [right; left; reflexivity | reflexivity]|].
  split; [eexists; vm_compute; reflexivity | vm_compute; reflexivity].
Qed.
Print Assumptions C04_shacl_choice_refuted.

(** ** profile_graph: the text of the profile never fails to come out
    (Model/ProfileJson.v, Model/RunProfile.v; proofs in Proofs/ProfileJsonProofs.v).

    [run_profile_json k c g] = [Shaper(...).profile_graph] on sink [k]: the
    front (tracker + profiler) and [json.dumps] / [json.dump].  The renderer's
    only error outcome is the TypeError of [sorted()] under [sort_keys=True]
    (mixed int / str cardinality keys); the code passes no [sort_keys]: the
    generated constants say so and the statements below depend on them. *)
From Shexer Require Import Gen.ConstsProfile Model.ProfileJson Model.RunProfile Proofs.ProfileJsonProofs.

(** the arguments of the two json calls, as read from the source *)
Theorem C04_profile_json_arguments : forall k,
  j_sort_keys (sink_cfg k) = false /\ j_indent (sink_cfg k) = c_profile_json_indent.
Proof. intros k. split; [apply sink_no_sort | apply sink_indent]. Qed.
Print Assumptions C04_profile_json_arguments.

(** rendering is total: every profile object, both sinks *)
Theorem C04_profile_rendering_total : forall k inverse P,
  profile_text k inverse P = Some (render_json c_profile_json_indent 0 (profile_json inverse P)).
Proof. exact profile_text_render. Qed.
Print Assumptions C04_profile_rendering_total.

(** a text comes out on exactly the inputs on which the front succeeds ... *)
Theorem C04_profile_json_total_iff : forall k c g,
  (exists t, run_profile_json k c g = inl t) <->
  (exists ins P C ID,
     track (r_tau c) (match r_targets c with Some l => TClasses l | None => TAll end) (r_cap c) g = inl ins /\
     profile (pcfg_of c) ins g = inl (P, C, ID)).
Proof. exact run_profile_json_total_iff. Qed.
Print Assumptions C04_profile_json_total_iff.

(** ... in particular on [C04_front_total]'s domain: every typing triple has a
    node object; every other option, cap, target mode, inverse paths *)
Theorem C04_profile_json_total : forall k c g,
  typing_ok (r_tau c) g -> exists t, run_profile_json k c g = inl t.
Proof. exact run_profile_json_total. Qed.
Print Assumptions C04_profile_json_total.

(** the failures are the front's: AttributeError, from the tracker or from the
    feature pass on a bad triple ([E2E_profile_error]) -- never the serialiser *)
Theorem C04_profile_json_errors : forall k c g e,
  run_profile_json k c g = inr e <->
  e = REAttr /\
  ((exists te, track (r_tau c) (match r_targets c with Some l => TClasses l | None => TAll end) (r_cap c) g = inr te) \/
   (exists ins t, track (r_tau c) (match r_targets c with Some l => TClasses l | None => TAll end) (r_cap c) g = inl ins /\
                  In t g /\ Counts.bad_triple (r_tau c) ins t)).
Proof. exact run_profile_json_err_iff. Qed.
Print Assumptions C04_profile_json_errors.

Theorem C04_profile_json_error_triple : forall k c g e,
  run_profile_json k c g = inr e ->
  e = REAttr /\ exists t, In t g /\ tp t = r_tau c /\ is_node (to t) = false.
Proof. exact run_profile_json_err_triple. Qed.
Print Assumptions C04_profile_json_error_triple.

(** non-vacuity: texts on the pinned valid inputs (with and without inverse
    paths), AttributeError on the literal-class graph; and what [sort_keys=True]
    would do to a profile with an ordinary property (the seeded change C04-m2) *)
Example C04_profile_json_nonvacuous :
  (exists t, run_profile_json PString base_rcfg g_mixed = inl t) /\
  (exists t, run_profile_json PFile (rwith_inverse true base_rcfg) g_reftie_1 = inl t) /\
  run_profile_json PString base_rcfg g_literal_class = inr REAttr /\
  dumps {| j_indent := 2; j_sort_keys := true |} (cdict_json [(CKn 1, 1%N); (CKplus, 1%N)]) = None /\
  dumps {| j_indent := 2; j_sort_keys := true |} (cdict_json [(CKn 10, 1%N); (CKn 9, 2%N)])
  = dumps {| j_indent := 2; j_sort_keys := false |} (cdict_json [(CKn 9, 2%N); (CKn 10, 1%N)]).
Proof.
  split; [eexists; vm_compute; reflexivity|]. split; [eexists; vm_compute; reflexivity|].
  repeat split; vm_compute; reflexivity.
Qed.
