(** * C04 -- extraction never crashes on a valid graph and configuration.

    Statements only.  The model turns every unguarded dereference / index /
    key lookup / raise of the modelled Python code into an explicit error
    outcome, so "no crash" is "the result is not an error".  Proved here: the
    shexing stage is total with disjunctions disabled (the default) whenever
    every type key of the class profile can be rendered by [tune_token]
    ([tok_ok]); the only strings it cannot render start with the shape-name
    sentinel '%' without being of the form %<...> ([C04_tune_token_none]),
    which no IRI / datatype of a valid document does.  With disjunctions
    enabled the stage can raise ([C04_choice_prune_refuted]: a disjunction
    next to an empty shape under remove_empty_shapes -- reachable only through
    a shape-map label whose node has no triples). *)
From Coq Require Import List Ascii String ZArith NArith Bool.
From Shexer Require Import Lib.PyStr Lib.Dict Gen.Consts Model.Profiler Model.Tokens
  Model.Freq Model.FreqInst Model.Shexing Proofs.TotalShex Proofs.ShexLemmas Proofs.ShexKeys Proofs.ClosureLemmas.
Import ListNotations.

Theorem C04_shex_total : forall fa cfg (thr : F fa) P C,
  x_disable_or cfg = true ->
  Forall (centry_ok cfg) P ->
  exists shapes, shex fa cfg thr P C = inl shapes /\ Forall (shape_good cfg) shapes.
Proof. intros fa cfg thr P C Hor HP. exact (TotalShex.shex_total fa cfg Hor thr P C HP). Qed.
Print Assumptions C04_shex_total.

(** without remove_empty_shapes also with disjunctions enabled *)
Theorem C04_shex_total_keep_empty : forall fa cfg (thr : F fa) P C,
  x_remove_empty cfg = false -> (forall ce, In ce P -> tokens_ok cfg ce) ->
  exists shapes, shex fa cfg thr P C = inl shapes.
Proof. exact ShexKeys.shex_total. Qed.
Print Assumptions C04_shex_total_keep_empty.

Theorem C04_tune_token_none : forall ns k,
  tune_token ns k = None <->
  prefixb c_STARTING_CHAR_FOR_SHAPE_NAME k = true /\ remove_corners_strict (slice_from k 1) = None.
Proof. exact tune_token_none_iff. Qed.
Print Assumptions C04_tune_token_none.

(** the only failure of the cleaning loop: an empty shape exists while a surviving
    shape holds a disjunction *)
Theorem C04_clean_error_iff : forall fuel l e, shapes_wf l -> refs_closed l ->
  (clean_shapes (S fuel) l = inr e <-> e = SEType /\ clean_crash l).
Proof. intros fuel l e. exact (clean_shapes_error fuel l e). Qed.
Print Assumptions C04_clean_error_iff.
