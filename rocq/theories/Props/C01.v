(** * C01 -- every reported instance count and frequency is exact.

    Statements only.  Two halves: (i) the class profile holds the counts the
    data defines (Props/P1.v: [P1_profile_counts], proved for all graphs), and
    (ii) every figure of the output -- header count, constraint lines,
    comments, direct and inverse -- is the count of ONE profile entry of the
    same direction, property, kind and ORIGINAL cardinality, whatever the
    threshold and the switches ([C01_figures_from_profile], below), except the
    merged IRI+BNode 'NONLITERAL' alternative, whose figure is the SUM of two
    entries ([FS_merge]) -- unsound, see the refuted lemmas (findings
    C01-F1, C01-F3).  [post_ok] (Proofs/ShexKeys.v) also records that a line
    rewritten {k>1} -> '+' keeps the figure of {k}, and that a relaxed line
    carries its original figure in its first comment.

    END TO END (second part of the file; proofs in Proofs/EndToEnd.v): the two
    halves composed into statements about [run_shapes fa c thr g] itself.
    [I] is always the tracker's own result ([track ... g = inl I]); there is
    NO hypothesis on [I], on the profile or on the graph: P1's side condition
    [NoDup (dkeys I)] is discharged by [track_insts_ok].  (P1's counts count a
    triple that is repeated in [g] twice -- as the code does; the property
    quantifies over duplicate-free graphs, but no theorem below needs
    [NoDup g].)
    - [E2E_run_shapes_decompose] / [E2E_run_shapes_errors]: a run is the
      composition of the three stages; which stage failed.
    - [C01_header_counts_exact]: [sh_n] = [class_count I (sh_class sh)].
    - [C01_figures_exact]: every line and every [KStmt] comment carries a
      figure [fig_occ]: ONE [occ] (same class, direction, property, type key,
      ORIGINAL cardinality key), or for the merged kind NONLITERAL the SUM
      [occ .. BNode ckb + occ .. IRI cki] -- that sum is what the code
      prints, not the number of instances with a non-literal value: the
      exactness claim exempts the merged kind, and what goes wrong there is
      [C01_nonliteral_overlap_refuted] (an instance with both kinds counted
      twice, C01-F1) and [C01_nonliteral_mixed_cards_refuted] (the sum of
      two different cardinality variants, C01-F3) below.
    - [C01_line_exact] / [C01_comment_exact]: the same spelled out.
    - [C01_ratio_at_most_one_e2e], [C01_line_ratio_at_most_one].
    - [C01_header_is_number_of_instances]: the one statement with a graph
      hypothesis (no repeated typing statement), and without instance cap. *)
From Coq Require Import List Ascii String ZArith NArith Bool.
From Shexer Require Import Lib.PyStr Lib.Dict Lib.Bin64 Gen.Consts Spec.Rdf Model.Tracker Model.Profiler Model.Tokens
  Model.Freq Model.FreqInst Model.Shexing Model.Run Spec.Counts Proofs.ProfileChar Proofs.ShexLemmas Proofs.ShexKeys
  Proofs.Bin64Round Proofs.FreqLaws Proofs.RunWitness Proofs.EndToEnd.
Import ListNotations.

Theorem C01_figures_from_profile : forall fa cfg (thr : F fa) P C shapes,
  shex fa cfg thr P C = inl shapes ->
  forall sh, In sh shapes ->
  exists ce, In ce P /\ sh_name sh = shape_name (x_shapes_ns cfg) (fst ce) /\ sh_class sh = fst ce /\
             sh_n sh = cnt_of C (fst ce) /\
             forall st, In st (sh_stmts sh) -> post_ok cfg (class_pd cfg ce (s_inv st)) st.
Proof. exact K3. Qed.
Print Assumptions C01_figures_from_profile.

(** a non-merged alternative has one figure: the profile determines it *)
Theorem C01_figure_unique : forall pd p k n n' pr pr' c,
  pd_functional pd -> k <> c_NONLITERAL_ELEM_TYPE ->
  fig_src pd p k n pr c -> fig_src pd p k n' pr' c -> n = n' /\ pr = pr'.
Proof. exact fig_src_functional. Qed.
Print Assumptions C01_figure_unique.

(** no reported ratio of a single entry exceeds 100 %: n <= N gives n/N <= 1
    in binary64 (class sizes below 2^53) *)
Theorem C01_ratio_at_most_one : forall n d, (0 < d < 2 ^ 53)%N -> (n <= d)%N ->
  fle BAlg (ratio BAlg n d) (fone BAlg) = true.
Proof. exact (ratio_le_one _ _ _ BAlg_laws). Qed.
Print Assumptions C01_ratio_at_most_one.

(** ** end to end: statements about [run_shapes] *)

(** a successful run is exactly a successful tracker, profiler and shexing
    stage, chained ([mode_of c] = all-classes mode or the target classes) *)
Theorem E2E_run_shapes_decompose : forall fa c (thr : F fa) g ns shapes,
  run_shapes fa c thr g = inl (ns, shapes) <->
  exists I P C ID,
    full_ns c = Some ns /\
    track (r_tau c) (mode_of c) (r_cap c) g = inl I /\
    profile (pcfg_of c) I g = inl (P, C, ID) /\
    shex fa (scfg_of c ns) thr P C = inl shapes.
Proof. exact run_shapes_ok_iff. Qed.
Print Assumptions E2E_run_shapes_decompose.

(** a failed run: [run_failure] names the stage (no free prefix: RERandom;
    tracker: REAttr; profiler: its error; shexing: its error) *)
Theorem E2E_run_shapes_errors : forall fa c (thr : F fa) g e,
  run_shapes fa c thr g = inr e <-> run_failure fa c thr g e.
Proof. exact run_shapes_err_iff. Qed.
Print Assumptions E2E_run_shapes_errors.

(** the profiler stage fails exactly on a typing triple with a literal object
    whose subject is a tracked instance (AttributeError) *)
Theorem E2E_profile_error : forall c (I : insts) g e,
  profile (pcfg_of c) I g = inr e <->
  e = PEAttr /\ exists t, In t g /\ bad_triple (r_tau c) I t.
Proof. exact run_profile_err. Qed.
Print Assumptions E2E_profile_error.

(** header: the count of every output shape is the number of listings of its
    class in the tracker's dictionary; the shapes' classes are pairwise
    distinct class keys (requested targets, then the classes of the
    instances in first-occurrence order) -- all of them, in that order, when
    empty shapes are kept *)
Theorem C01_header_counts_exact : forall fa c (thr : F fa) g ns shapes,
  run_shapes fa c thr g = inl (ns, shapes) ->
  exists I, track (r_tau c) (mode_of c) (r_cap c) g = inl I /\
    (forall sh, In sh shapes ->
       In (sh_class sh) (class_keys (targets_of (pcfg_of c)) I) /\
       sh_n sh = class_count I (sh_class sh)) /\
    NoDup (map sh_class shapes) /\
    (r_remove_empty c = false -> map sh_class shapes = class_keys (targets_of (pcfg_of c)) I).
Proof. exact e2e_header. Qed.
Print Assumptions C01_header_counts_exact.

(** [class_count] is the number of instances listing the class when no
    instance lists a class twice (QUIRK Q7 of Spec/Counts.v otherwise) *)
Theorem C01_class_count_as_length : forall (I : insts) cls,
  (forall i cs, In (i, cs) I -> NoDup cs) ->
  class_count I cls = N.of_nat (List.length (filter (fun ie : str * list str => mem_str cls (snd ie)) I)).
Proof. exact class_count_as_length. Qed.
Print Assumptions C01_class_count_as_length.

(** figures: [post_okR cfg R st] is [post_ok] with the figure source [R]:
    line and comments carry (type key, count, probability, ORIGINAL
    cardinality) related by [R] = [fig_occ ...] *)
Theorem C01_figures_exact : forall fa c (thr : F fa) g ns shapes,
  run_shapes fa c thr g = inl (ns, shapes) ->
  exists I, track (r_tau c) (mode_of c) (r_cap c) g = inl I /\
    forall sh, In sh shapes ->
      In (sh_class sh) (class_keys (targets_of (pcfg_of c)) I) /\
      sh_name sh = shape_name (r_shapes_ns c) (sh_class sh) /\
      sh_n sh = class_count I (sh_class sh) /\
      forall st, In st (sh_stmts sh) ->
        (s_inv st = true -> r_inverse c = true) /\
        post_okR (scfg_of c ns) (fig_occ (r_tau c) I g (dir_of (s_inv st)) (sh_class sh) (s_prop st)) st.
Proof. exact e2e_figures. Qed.
Print Assumptions C01_figures_exact.

(** what a [fig_occ] says: a single entry (always, when the type key is not
    "NONLITERAL") or the NONLITERAL sum *)
Theorem C01_fig_occ_cases : forall tau I g dir cls p ty n pr c0,
  fig_occ tau I g dir cls p ty n pr c0 ->
  (exists ck, c0 = card_of_key ck /\ n = occ dir tau I g cls p ty ck /\ pr = PRatio n /\ (0 < n)%N) \/
  (ty = c_NONLITERAL_ELEM_TYPE /\
   exists ckb cki,
     n = (occ dir tau I g cls p c_BNODE_ELEM_TYPE ckb + occ dir tau I g cls p c_IRI_ELEM_TYPE cki)%N /\
     pr = PSum (occ dir tau I g cls p c_BNODE_ELEM_TYPE ckb) (occ dir tau I g cls p c_IRI_ELEM_TYPE cki) /\
     c0 = most_general_card (card_of_key ckb) (card_of_key cki) /\
     (0 < occ dir tau I g cls p c_BNODE_ELEM_TYPE ckb)%N /\ (0 < occ dir tau I g cls p c_IRI_ELEM_TYPE cki)%N).
Proof. exact fig_occ_cases. Qed.
Print Assumptions C01_fig_occ_cases.

(** a constraint line that is neither an OR nor the merged kind *)
Theorem C01_line_exact : forall fa c (thr : F fa) g ns shapes,
  run_shapes fa c thr g = inl (ns, shapes) ->
  exists I, track (r_tau c) (mode_of c) (r_cap c) g = inl I /\
    forall sh st, In sh shapes -> In st (sh_stmts sh) ->
      s_choice st = false -> s_type st <> c_NONLITERAL_ELEM_TYPE ->
      exists ck,
        s_nocc st = occ (dir_of (s_inv st)) (r_tau c) I g (sh_class sh) (s_prop st) (s_type st) ck /\
        (0 < s_nocc st)%N /\ (s_nocc st <= sh_n sh)%N /\ sh_n sh = class_count I (sh_class sh) /\
        ((s_prob st = PRatio (s_nocc st) /\ card_tuned (scfg_of c ns) (card_of_key ck) (s_card st)) \/
         (r_all_compliant c = true /\ s_prob st = POne /\
          s_card st = relax_card (scfg_of c ns) (card_of_key ck))).
Proof. exact e2e_line_exact. Qed.
Print Assumptions C01_line_exact.

(** a comment: [ty] is the type key its token was rendered from *)
Theorem C01_comment_exact : forall fa c (thr : F fa) g ns shapes,
  run_shapes fa c thr g = inl (ns, shapes) ->
  exists I, track (r_tau c) (mode_of c) (r_cap c) g = inl I /\
    forall sh st ch pr n tk c0, In sh shapes -> In st (sh_stmts sh) ->
      In (KStmt ch pr n tk c0) (s_comments st) ->
      let o := occ (dir_of (s_inv st)) (r_tau c) I g (sh_class sh) (s_prop st) in
      exists ty, (ch = false -> tune_token ns ty = Some tk) /\
        ((exists ck, c0 = card_of_key ck /\ n = o ty ck /\ pr = PRatio n /\ (0 < n)%N /\
                     (ty <> c_NONLITERAL_ELEM_TYPE -> (n <= sh_n sh)%N)) \/
         (ty = c_NONLITERAL_ELEM_TYPE /\
          exists ckb cki, n = (o c_BNODE_ELEM_TYPE ckb + o c_IRI_ELEM_TYPE cki)%N /\
                          pr = PSum (o c_BNODE_ELEM_TYPE ckb) (o c_IRI_ELEM_TYPE cki) /\
                          c0 = most_general_card (card_of_key ckb) (card_of_key cki))).
Proof. exact e2e_comment_exact. Qed.
Print Assumptions C01_comment_exact.

(** a single-entry figure is at most the header count ([occ_le_class_count]),
    so its binary64 ratio is at most one for class sizes below 2^53 *)
Theorem C01_ratio_at_most_one_e2e : forall tau I g dir cls p ty n pr c0,
  fig_occ tau I g dir cls p ty n pr c0 -> ty <> c_NONLITERAL_ELEM_TYPE ->
  (class_count I cls < 2 ^ 53)%N ->
  (n <= class_count I cls)%N /\
  fle BAlg (ratio BAlg n (class_count I cls)) (fone BAlg) = true.
Proof. exact e2e_ratio_le_one. Qed.
Print Assumptions C01_ratio_at_most_one_e2e.

(** the same for the printed ratio of a plain constraint line (binary64 run) *)
Theorem C01_line_ratio_at_most_one : forall c thr g ns shapes,
  run_shapes BAlg c thr g = inl (ns, shapes) ->
  forall sh st, In sh shapes -> In st (sh_stmts sh) ->
    s_choice st = false -> s_type st <> c_NONLITERAL_ELEM_TYPE -> (sh_n sh < 2 ^ 53)%N ->
    (s_nocc st <= sh_n sh)%N /\ fle BAlg (ratio BAlg (s_nocc st) (sh_n sh)) (fone BAlg) = true.
Proof. exact e2e_line_ratio_le_one. Qed.
Print Assumptions C01_line_ratio_at_most_one.

(** the header count is the NUMBER OF INSTANCES the tracker selected for the
    class -- here a graph hypothesis is really needed: no typing statement
    [i tau cls] relevant to the tracker occurs twice (otherwise [cls] is
    listed twice for [i] and counted twice, QUIRK Q7); [typing_pair t] =
    (subject identifier, object identifier); no instance cap *)
Theorem C01_header_is_number_of_instances : forall fa c (thr : F fa) g ns shapes,
  (r_cap c <= 0)%Z -> NoDup (map typing_pair (filter (relevant (r_tau c) (mode_of c)) g)) ->
  run_shapes fa c thr g = inl (ns, shapes) ->
  exists I, track (r_tau c) (mode_of c) (r_cap c) g = inl I /\
    forall sh, In sh shapes ->
      sh_n sh = N.of_nat (List.length (filter (fun ie : str * list str => mem_str (sh_class sh) (snd ie)) I)).
Proof. exact e2e_header_instances. Qed.
Print Assumptions C01_header_is_number_of_instances.

(** non-vacuity on [g_mixed] (a, b, c : C; a p u1, u2; b p u1; c p _:x): the
    run's figures, and the declarative counts they are *)
Definition I_mixed : insts := [(ex "a", [ex "C"]); (ex "b", [ex "C"]); (ex "c", [ex "C"])].

Example C01_e2e_nonvacuous :
  track (r_tau base_rcfg) (mode_of base_rcfg) (r_cap base_rcfg) g_mixed = inl I_mixed /\
  n_instances base_rcfg thr0 g_mixed (ex "C") = Some 3%N /\ class_count I_mixed (ex "C") = 3%N /\
  option_map figures (stmts_of base_rcfg thr0 g_mixed (ex "C")) =
    Some [ (tau, ex "C", CExact 1, 3%N); (ex "p", c_NONLITERAL_ELEM_TYPE, CPlus, 3%N);
           (ex "p", Str "BNode", CExact 1, 1%N); (ex "p", Str "IRI", CPlus, 2%N) ] /\
  occ Direct tau I_mixed g_mixed (ex "C") tau (ex "C") (CKn 1) = 3%N /\
  occ Direct tau I_mixed g_mixed (ex "C") (ex "p") c_BNODE_ELEM_TYPE (CKn 1) = 1%N /\
  occ Direct tau I_mixed g_mixed (ex "C") (ex "p") c_IRI_ELEM_TYPE CKplus = 2%N.
Proof. vm_compute. repeat split; reflexivity. Qed.

(** ** what is false *)
Definition has_nonlit (g : graph) (i : node) (p : str) : bool :=
  existsb (fun t => node_eqb (ts t) i && str_eqb (tp t) p && is_node (to t)) g.

(** F1: one instance, an IRI and a blank-node value: "2 instances" *)
Lemma C01_nonliteral_overlap_refuted :
  n_instances base_rcfg thr0 g_overlap (ex "C") = Some 1%N /\
  option_map (fun l => existsb (fun f => match f with (p, k, c, n) =>
                str_eqb k c_NONLITERAL_ELEM_TYPE && N.ltb 1 n end) (figures l))
             (stmts_of base_rcfg thr0 g_overlap (ex "C")) = Some true.
Proof. vm_compute. split; reflexivity. Qed.

(** F3: three instances with a non-literal value, no instance with both kinds,
    keep_less_specific = false: "NONLITERAL + : 2 instances" *)
Lemma C01_nonliteral_mixed_cards_refuted :
  forallb (fun i => has_nonlit g_mixed i (ex "p")) [iri "a"; iri "b"; iri "c"] = true /\
  n_instances (with_kls false base_rcfg) thr0 g_mixed (ex "C") = Some 3%N /\
  option_map (fun l => existsb (fun f => match f with (p, k, c, n) =>
                str_eqb k c_NONLITERAL_ELEM_TYPE && is_plus c && N.eqb n 2 end) (figures l))
             (stmts_of (with_kls false base_rcfg) thr0 g_mixed (ex "C")) = Some true.
Proof. vm_compute. repeat split. Qed.

(** F2: one value typed with two classes sharing a local name: "@:C1 {2}" *)
Lemma C01_shared_label_refuted :
  option_map (fun l => existsb (fun f => match f with (p, k, c, n) =>
                str_eqb p (ex "p") && card_eqb c (CExact 2) end) (figures l))
             (stmts_of base_rcfg thr0 g_shared (ex "C0")) = Some true.
Proof. vm_compute. reflexivity. Qed.

(** ** SHAPE-MAP runs ([Model.RunMap.run_shapes_map]: targets given by a shape
    map, alone or next to all_classes_mode -- or by any other specification of
    C10).  [I] is the dictionary C10's tracker model [Selectors.run] returns on
    the specification, the oracles and the graph: [node -> keys], a key being a
    class IRI or a label [<iri>].  NO hypothesis on the specification, the
    oracles (rdflib's identifiers and answers) or the graph: P1's side
    condition [NoDup (dkeys I)] holds for every dictionary the trackers build
    ([C01_map_dictionary_keys_unique]).  Header count of the shape of key [K] =
    [class_count I K] (number of listings of [K]: = number of nodes when no
    node lists [K] twice, which C10 proves for labels: [C10_labels_once]);
    every figure = [occ] w.r.t. [I] ([fig_occ], the NONLITERAL sum included,
    as for class runs). *)
From Shexer Require Import Model.ShexingFix Model.RunMap Proofs.RunMapProofs.
From Shexer Require Model.Selectors.

Theorem C01_map_dictionary_keys_unique : forall orc sp g I,
  Selectors.run orc sp g = Selectors.OOk I -> NoDup (dkeys I).
Proof. exact run_keys_nodup. Qed.
Print Assumptions C01_map_dictionary_keys_unique.

Theorem C01_map_run_decompose : forall fa c orc sp thr g ns shapes,
  run_shapes_map fa c orc sp thr g = inl (ns, shapes) <->
  exists I targets P C ID,
    r_disable_or c && r_allow_redundant_or c = false /\
    Selectors.find_adequate_prefix (Selectors.sp_ns sp) <> None /\
    ns = Selectors.ns_with_shapes orc sp /\
    Selectors.run orc sp g = Selectors.OOk I /\
    prof_targets orc sp = Selectors.Ok targets /\
    profile (pcfg_map c orc sp targets) I g = inl (P, C, ID) /\
    shex_cur fa (scfg_map c sp ns) thr P C = inl shapes.
Proof. exact run_shapes_map_ok_iff. Qed.
Print Assumptions C01_map_run_decompose.

Theorem C01_map_figures_exact : forall fa c orc sp thr g ns shapes,
  run_shapes_map fa c orc sp thr g = inl (ns, shapes) ->
  exists I targets,
    Selectors.run orc sp g = Selectors.OOk I /\ NoDup (dkeys I) /\ prof_targets orc sp = Selectors.Ok targets /\
    forall sh, In sh shapes ->
      In (sh_class sh) (class_keys (targets_of (pcfg_map c orc sp targets)) I) /\
      sh_name sh = shape_name dflt_shapes_namespace (sh_class sh) /\
      sh_n sh = class_count I (sh_class sh) /\
      forall st, In st (sh_stmts sh) ->
        (s_inv st = true -> r_inverse c = true) /\
        post_okR (scfg_map c sp ns)
                 (fig_occ (Selectors.tau_of sp) I g (dir_of (s_inv st)) (sh_class sh) (s_prop st)) st.
Proof. exact map_figures. Qed.
Print Assumptions C01_map_figures_exact.

(** non-vacuity: the pinned shape-map run (Proofs/RunMapWitness.v) *)
From Shexer Require Import Proofs.RunMapWitness.
Example C01_map_nonvacuous :
  exists ns shapes, run_shapes_map BAlg (with_kls false base_rcfg) m_orc m_spec (b_ratio 1 2) m_graph = inl (ns, shapes) /\
                    map (fun sh => (sh_class sh, sh_n sh)) shapes = [(lab_S, 3%N)].
Proof. eexists. eexists. split; vm_compute; reflexivity. Qed.

(** ** profile_graph: the figures of the profile TEXT (Model/ProfileJson.v,
    Model/RunProfile.v; proofs in Proofs/ProfileJsonProofs.v).

    [run_profile_json k c g] is [Shaper(...).profile_graph] on sink [k]
    (string / file): tracker, profiler (the front of [run_shapes]) and CPython's
    [json.dumps(profile, indent=c_profile_json_indent)] on the profiler's object.
    [leaves j] lists every number of a JSON object with the path of keys /
    list positions leading to it; [profile_path inverse cls d p k card] is where
    the profile keeps the count of (class, direction, property, type key,
    cardinality): [cls / p / k / card] without inverse paths, [cls / 0|1 / p /
    k / card] with them (0 = direct, 1 = inverse features). *)
From Shexer Require Import Gen.ConstsProfile Model.ProfileJson Model.RunProfile Proofs.ProfileJsonProofs.
From Shexer Require Proofs.EndToEnd2.

(** every number printed is the [occ] its path names, for ALL graphs and
    configurations (no hypothesis on the graph: [I] is the tracker's own
    dictionary); the top-level keys are pairwise distinct class keys: the
    requested targets, then the classes of the instances in first-occurrence
    order, minus the keys [ks] the profiler's cleaning removed (none when empty
    shapes are kept) *)
Theorem C01_profile_json_figures : forall k c g t,
  run_profile_json k c g = inl t ->
  exists I P,
    track (r_tau c) (mode_of c) (r_cap c) g = inl I /\
    t = render_json c_profile_json_indent 0 (profile_json (r_inverse c) P) /\
    NoDup (top_keys (profile_json (r_inverse c) P)) /\
    (exists ks, top_keys (profile_json (r_inverse c) P)
                = filter (not_in ks) (class_keys (targets_of (pcfg_of c)) I) /\
                (r_remove_empty c = false -> ks = [])) /\
    forall path n, In (path, n) (leaves (profile_json (r_inverse c) P)) ->
      exists cls d p ky card,
        path = profile_path (r_inverse c) cls d p ky card /\
        In cls (top_keys (profile_json (r_inverse c) P)) /\
        (d = PInverse -> r_inverse c = true) /\
        n = occ (dir_of_pdir d) (r_tau c) I g cls p ky card /\ (0 < n)%N.
Proof. exact profile_json_figures. Qed.
Print Assumptions C01_profile_json_figures.

(** conversely every positive count of a listed class is printed, at its path
    (except under a type key that is a class key the cleaning removed) *)
Theorem C01_profile_json_complete : forall k c g t,
  run_profile_json k c g = inl t ->
  exists I P,
    track (r_tau c) (mode_of c) (r_cap c) g = inl I /\
    t = render_json c_profile_json_indent 0 (profile_json (r_inverse c) P) /\
    forall cls d p ky card,
      In cls (dkeys P) -> (d = PInverse -> r_inverse c = true) ->
      (In ky (class_keys (targets_of (pcfg_of c)) I) -> In ky (dkeys P)) ->
      (0 < occ (dir_of_pdir d) (r_tau c) I g cls p ky card)%N ->
      In (profile_path (r_inverse c) cls d p ky card, occ (dir_of_pdir d) (r_tau c) I g cls p ky card)
         (leaves (profile_json (r_inverse c) P)).
Proof. exact profile_json_complete. Qed.
Print Assumptions C01_profile_json_complete.

(** ROUND TRIP.  [parse_profile_json] is a total parser for the JSON fragment
    (objects with string keys, lists, non-negative integers).  For every object
    whose string keys are well-formed UTF-8 ([keys_ok]) and every indent, the
    printed text is read back as the object with its keys as strings
    ([stringify_keys]: int key [n] -> "n"): the text loses nothing. *)
Theorem C01_profile_round_trip : forall ind j,
  keys_ok j = true -> parse_profile_json (render_json ind 0 j) = Some (stringify_keys j).
Proof. exact parse_render_text. Qed.
Print Assumptions C01_profile_round_trip.

Theorem C01_profile_text_determines_object : forall ind j1 j2,
  keys_ok j1 = true -> keys_ok j2 = true ->
  render_json ind 0 j1 = render_json ind 0 j2 -> stringify_keys j1 = stringify_keys j2.
Proof. exact render_determines. Qed.
Print Assumptions C01_profile_text_determines_object.

(** ... and [stringify_keys] merges no two cardinality keys: an int key [n]
    and a string key "n" would collide, but the cardinality keys are ints and
    [c_ONE_TO_MANY] = "+", and a decimal numeral is made of digits *)
Theorem C01_profile_card_keys_distinct : forall a b : ckey, ckey_str a = ckey_str b -> a = b.
Proof. exact ckey_str_inj. Qed.
Print Assumptions C01_profile_card_keys_distinct.

(** the string layer: a string that is well-formed UTF-8 ([utf8_ok]: its bytes
    decode, strictly, to Unicode scalar values -- what every Python str without
    lone surrogates is) is printed with [ensure_ascii] escapes from which the
    parser recovers exactly its bytes; decoding loses nothing *)
Theorem C01_profile_strings_exact : forall s r,
  utf8_ok s = true ->
  utf8_encode (utf8_decode s) = s /\ parse_string (json_string s ++ r) = Some (s, r).
Proof. intros s r H. split; [exact (utf8_roundtrip s H) | exact (parse_json_string s r H)]. Qed.
Print Assumptions C01_profile_strings_exact.

(** read off the TEXT: when the profile's keys are well-formed UTF-8 the text
    parses, its top-level keys are exactly the class keys of the profile (in
    order), and every figure in it is the [occ] its path names *)
Theorem C01_profile_text_figures : forall k c g t,
  run_profile_json k c g = inl t ->
  exists I P,
    track (r_tau c) (mode_of c) (r_cap c) g = inl I /\
    (profile_keys_ok (r_inverse c) P = true ->
     exists j, parse_profile_json t = Some j /\
       j = stringify_keys (profile_json (r_inverse c) P) /\
       top_keys j = dkeys P /\
       forall path n, In (path, n) (leaves j) ->
         exists cls d p ky card,
           path = profile_path (r_inverse c) cls d p ky card /\ In cls (top_keys j) /\
           (d = PInverse -> r_inverse c = true) /\
           n = occ (dir_of_pdir d) (r_tau c) I g cls p ky card /\ (0 < n)%N).
Proof. exact profile_text_figures. Qed.
Print Assumptions C01_profile_text_figures.

(** non-vacuity: the profile texts of two pinned graphs of Proofs/RunWitness.v
    -- the literal texts are what the real [profile_graph(string_output=True)]
    returns on these documents -- parse back, and one of their figures *)
Definition profile_text_mixed : str :=
(Str "{
  ""http://ex.org/C"": {
    ""http://www.w3.org/1999/02/22-rdf-syntax-ns#type"": {
      ""http://ex.org/C"": {
        ""1"": 3
      }
    },
    ""http://ex.org/p"": {
      ""IRI"": {
        ""2"": 1,
        ""+"": 2,
        ""1"": 1
      },
      ""BNode"": {
        ""1"": 1,
        ""+"": 1
      }
    }
  }
}").

Definition profile_text_reftie_inverse : str :=
(Str "{
  ""http://ex.org/C"": [
    {
      ""http://www.w3.org/1999/02/22-rdf-syntax-ns#type"": {
        ""http://ex.org/C"": {
          ""1"": 1
        }
      },
      ""http://ex.org/p"": {
        ""IRI"": {
          ""1"": 1,
          ""+"": 1
        },
        ""%<http://weso.es/shapes/C1>"": {
          ""1"": 1,
          ""+"": 1
        },
        ""%<http://weso.es/shapes/C2>"": {
          ""1"": 1,
          ""+"": 1
        }
      }
    },
    {}
  ],
  ""http://ex.org/C1"": [
    {
      ""http://www.w3.org/1999/02/22-rdf-syntax-ns#type"": {
        ""http://ex.org/C1"": {
          ""1"": 1
        },
        ""http://ex.org/C2"": {
          ""1"": 1
        }
      }
    },
    {
      ""http://ex.org/p"": {
        ""IRI"": {
          ""1"": 1,
          ""+"": 1
        },
        ""%<http://weso.es/shapes/C>"": {
          ""1"": 1,
          ""+"": 1
        }
      }
    }
  ],
  ""http://ex.org/C2"": [
    {
      ""http://www.w3.org/1999/02/22-rdf-syntax-ns#type"": {
        ""http://ex.org/C1"": {
          ""1"": 1
        },
        ""http://ex.org/C2"": {
          ""1"": 1
        }
      }
    },
    {
      ""http://ex.org/p"": {
        ""IRI"": {
          ""1"": 1,
          ""+"": 1
        },
        ""%<http://weso.es/shapes/C>"": {
          ""1"": 1,
          ""+"": 1
        }
      }
    }
  ]
}").

Example C01_profile_text_nonvacuous :
  run_profile_json PString base_rcfg g_mixed = inl profile_text_mixed /\
  run_profile_json PString (EndToEnd2.rwith_inverse true base_rcfg) g_reftie_1 = inl profile_text_reftie_inverse /\
  (exists j, parse_profile_json profile_text_mixed = Some j /\ top_keys j = [ex "C"] /\
             In ([SKey (ex "C"); SKey (ex "p"); SKey c_IRI_ELEM_TYPE; SKey (Str "2")], 1%N) (leaves j) /\
             In ([SKey (ex "C"); SKey (ex "p"); SKey c_IRI_ELEM_TYPE; SKey (Str "+")], 2%N) (leaves j)) /\
  (exists j, parse_profile_json profile_text_reftie_inverse = Some j /\ top_keys j = [ex "C"; ex "C1"; ex "C2"] /\
             In ([SKey (ex "C1"); SIdx 1; SKey (ex "p"); SKey (Str "%<http://weso.es/shapes/C>"); SKey (Str "1")], 1%N)
                (leaves j)) /\
  occ Direct tau [(ex "a", [ex "C"]); (ex "b", [ex "C"]); (ex "c", [ex "C"])] g_mixed (ex "C") (ex "p") c_IRI_ELEM_TYPE (CKn 2) = 1%N /\
  utf8_ok (Str "http://ex.org/C") = true /\ utf8_ok [ascii_of_nat 195; ascii_of_nat 169] = true /\
  utf8_ok [ascii_of_nat 195] = false /\
  json_string [ascii_of_nat 240; ascii_of_nat 159; ascii_of_nat 152; ascii_of_nat 128] = Str """\ud83d\ude00""".
Proof.
  split; [vm_compute; reflexivity|]. split; [vm_compute; reflexivity|].
  split; [eexists; split; [vm_compute; reflexivity|]; split; [reflexivity|]; split; vm_compute; tauto|].
  split; [eexists; split; [vm_compute; reflexivity|]; split; [reflexivity|]; vm_compute; tauto|].
  repeat split; vm_compute; reflexivity.
Qed.
