(** * C01 -- every reported instance count and frequency is exact.

    Statements only.  Two halves: (i) the class profile holds the counts the
    data defines (Props/P1.v: [P1_profile_counts], proved for all graphs), and
    (ii) every figure of the output -- header count, constraint lines,
    comments, direct and inverse -- is the count of ONE profile entry of the
    same direction, property, kind and ORIGINAL cardinality, whatever the
    threshold and the switches ([C01_figures_from_profile], below), except the
    merged IRI+BNode 'NONLITERAL' alternative, whose figure is the SUM of two
    entries ([FS_merge]) -- unsound, see the refuted lemmas (findings
    C01-F1, C01-F3).  [post_ok] (Proofs/ShexKeys.v) also records that a line
    rewritten {k>1} -> '+' keeps the figure of {k}, and that a relaxed line
    carries its original figure in its first comment. *)
From Coq Require Import List Ascii String ZArith NArith Bool.
From Shexer Require Import Lib.PyStr Lib.Dict Lib.Bin64 Gen.Consts Spec.Rdf Model.Profiler Model.Tokens
  Model.Freq Model.FreqInst Model.Shexing Model.Run Proofs.ShexLemmas Proofs.ShexKeys
  Proofs.Bin64Round Proofs.FreqLaws Proofs.RunWitness.
Import ListNotations.

Theorem C01_figures_from_profile : forall fa cfg (thr : F fa) P C shapes,
  shex fa cfg thr P C = inl shapes ->
  forall sh, In sh shapes ->
  exists ce, In ce P /\ sh_name sh = shape_name (x_shapes_ns cfg) (fst ce) /\ sh_class sh = fst ce /\
             sh_n sh = cnt_of C (fst ce) /\
             forall st, In st (sh_stmts sh) -> post_ok cfg (class_pd cfg ce (s_inv st)) st.
Proof. exact K3. Qed.
Print Assumptions C01_figures_from_profile.

(** a non-merged alternative has one figure: the profile determines it *)
Theorem C01_figure_unique : forall pd p k n n' pr pr' c,
  pd_functional pd -> k <> c_NONLITERAL_ELEM_TYPE ->
  fig_src pd p k n pr c -> fig_src pd p k n' pr' c -> n = n' /\ pr = pr'.
Proof. exact fig_src_functional. Qed.
Print Assumptions C01_figure_unique.

(** no reported ratio of a single entry exceeds 100 %: n <= N gives n/N <= 1
    in binary64 (class sizes below 2^53) *)
Theorem C01_ratio_at_most_one : forall n d, (0 < d < 2 ^ 53)%N -> (n <= d)%N ->
  fle BAlg (ratio BAlg n d) (fone BAlg) = true.
Proof. exact (ratio_le_one _ _ _ BAlg_laws). Qed.
Print Assumptions C01_ratio_at_most_one.

(** ** what is false *)
Definition has_nonlit (g : graph) (i : node) (p : str) : bool :=
  existsb (fun t => node_eqb (ts t) i && str_eqb (tp t) p && is_node (to t)) g.

(** F1: one instance, an IRI and a blank-node value: "2 instances" *)
Lemma C01_nonliteral_overlap_refuted :
  n_instances base_rcfg thr0 g_overlap (ex "C") = Some 1%N /\
  option_map (fun l => existsb (fun f => match f with (p, k, c, n) =>
                str_eqb k c_NONLITERAL_ELEM_TYPE && N.ltb 1 n end) (figures l))
             (stmts_of base_rcfg thr0 g_overlap (ex "C")) = Some true.
Proof. vm_compute. split; reflexivity. Qed.

(** F3: three instances with a non-literal value, no instance with both kinds,
    keep_less_specific = false: "NONLITERAL + : 2 instances" *)
Lemma C01_nonliteral_mixed_cards_refuted :
  forallb (fun i => has_nonlit g_mixed i (ex "p")) [iri "a"; iri "b"; iri "c"] = true /\
  n_instances (with_kls false base_rcfg) thr0 g_mixed (ex "C") = Some 3%N /\
  option_map (fun l => existsb (fun f => match f with (p, k, c, n) =>
                str_eqb k c_NONLITERAL_ELEM_TYPE && is_plus c && N.eqb n 2 end) (figures l))
             (stmts_of (with_kls false base_rcfg) thr0 g_mixed (ex "C")) = Some true.
Proof. vm_compute. repeat split. Qed.

(** F2: one value typed with two classes sharing a local name: "@:C1 {2}" *)
Lemma C01_shared_label_refuted :
  option_map (fun l => existsb (fun f => match f with (p, k, c, n) =>
                str_eqb p (ex "p") && card_eqb c (CExact 2) end) (figures l))
             (stmts_of base_rcfg thr0 g_shared (ex "C0")) = Some true.
Proof. vm_compute. reflexivity. Qed.
