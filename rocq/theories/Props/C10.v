(** C10 -- placeholder while the harness is brought up; theorems follow. *)
From Shexer Require Import Spec.Selectors Model.Selectors Model.SelectorsDom.
