(** * C10 -- shapes are computed from exactly the nodes the user selected.

    Vocabulary: [Spec/Selectors.v] (what a target specification denotes and how
    it is written down), [Model/Selectors.v] (the code: target-class tuning,
    shape-map parsers, selector evaluation, the three instance trackers),
    [Model/SelectorsDom.v] ([to_tspec] = the arguments handed to Shaper for a
    specification, [C10_dom] = where the current code is right, the root
    causes outside it).

    The theorems quantify over ALL graphs, namespaces dictionaries and
    specifications of the domain; [orc] stands for the external code (rdflib's
    blank-node identifiers, [sparql.prepareQuery], rdflib's answers to SPARQL
    selectors, the global disambiguation counter), each monitored by the check. *)
From Coq Require Import List Ascii String ZArith NArith Bool.
From Shexer Require Import Lib.PyStr Lib.Dict Gen.Consts Spec.Rdf Spec.Selectors
     Model.Tracker Model.Profiler Model.Selectors Model.SelectorsDom
     Proofs.SelectorParse Proofs.SelectorProofs.
Import ListNotations.

(** For every specification of the domain, written down as class names /
    a shape map in the fixed or JSON syntax and run through the code's parsers
    and trackers, the run succeeds and the instances dictionary holds key [S]
    for node [n] exactly when the specification denotes [n] for [S]: classes by
    the tau-subjects, labels by the union of their items' selectors, both side
    by side under all_classes_mode + shape map.  (Partial: the property text
    also covers blank-node / literal answers, prefixed labels, '@' inside IRIs
    and literal objects of tau -- see the _refuted lemmas.  Prefixed names whose
    local part repeats their own 'prefix:' are inside [C10_dom] exactly where the
    code expands them with the count 1, see C10-F9 below.) *)
Theorem C10_instances_denote_partial :
  forall tg cs fmt orc G,
    C10_dom tg orc G = true ->
    exists d, run orc (to_tspec tg cs fmt) G = OOk d /\
              forall S n, wf_key S = true -> wf_node n = true ->
                          (In (key_of S) (labels_of d (node_key n)) <-> denote tg (o_ans orc) G S (ON n)).
Proof. exact instances_denote. Qed.
Print Assumptions C10_instances_denote_partial.

(** "exactly": nothing else is in the dictionary. *)
Theorem C10_only_denoted_partial :
  forall tg cs fmt orc G,
    C10_dom tg orc G = true ->
    forall d, run orc (to_tspec tg cs fmt) G = OOk d ->
    forall k key, In key (labels_of d k) ->
      exists S n, wf_key S = true /\ wf_node n = true /\ key = key_of S /\ k = node_key n /\
                  denote tg (o_ans orc) G S (ON n).
Proof. exact no_junk. Qed.
Print Assumptions C10_only_denoted_partial.

(** Counts ('# N instances.'): for a document without repeated statements
    ([C10_dom_count]) every node carries a key at most once, so the number of
    instances counted for a shape is the number of distinct nodes it denotes ... *)
Theorem C10_each_once_partial :
  forall tg cs fmt orc G,
    C10_dom_count tg orc G = true ->
    exists d, run orc (to_tspec tg cs fmt) G = OOk d /\
              forall S n, wf_key S = true -> wf_node n = true ->
                          (count_str (key_of S) (labels_of d (node_key n)) <= 1)%nat.
Proof. exact each_once. Qed.
Print Assumptions C10_each_once_partial.

(** ... and a label of the shape map is never repeated, whatever the document
    and however often a selector answers the node (wildcard patterns,
    overlapping items). *)
Theorem C10_labels_once :
  forall tg cs fmt orc G,
    C10_dom tg orc G = true ->
    exists d, run orc (to_tspec tg cs fmt) G = OOk d /\
              forall l k, (count_str (Str "<" ++ l ++ Str ">") (labels_of d k) <= 1)%nat.
Proof. exact labels_once. Qed.
Print Assumptions C10_labels_once.

(** On the domain no literal is denoted (so the statement above, which speaks
    of nodes, covers every denoted term). *)
Theorem C10_no_literal_instances :
  forall tg orc G S c dt, C10_dom tg orc G = true -> ~ denote tg (o_ans orc) G S (OL c dt).
Proof. exact no_literal_instances. Qed.
Print Assumptions C10_no_literal_instances.

(** A literal is never a class: what makes [s] an instance of class [c] is a
    statement [s tau c] whose object is the IRI node [c]; a literal spelled like
    the class IRI ("http://e/C0", plain or typed) denotes nothing, for any
    specification and graph (no domain hypothesis: this is the Spec layer). *)
Theorem C10_class_instance_by_iri_object :
  forall tg ans G c x,
    denote tg ans G (KClass c) x ->
    exists tau s, resolve (t_ns tg) (t_tau tg) = Some tau /\ x = ON s /\ In (T s tau (ON (iri_node c))) G.
Proof.
  intros tg ans G c x [tau [s [H1 [H2 [H3 _]]]]]. exists tau, s. repeat split; assumption.
Qed.
Print Assumptions C10_class_instance_by_iri_object.

(** The computable denotation the check reports ([denote_list], evaluated by
    the model binary and compared with the independent Python oracle) is the
    specification's. *)
Theorem C10_denote_list_spec :
  forall tg ans G S x, In x (denote_list tg ans G S) <-> denote tg ans G S x.
Proof. exact denote_list_spec. Qed.
Print Assumptions C10_denote_list_spec.

(** With a non-default instantiation property, rdf:type triples are irrelevant
    to instance tracking (any mode) ... *)
Theorem C10_tau_ordinary :
  forall tau m G,
    tau <> c_RDF_TYPE ->
    forall d, track_plain tau m G d =
              track_plain tau m (filter (fun t => negb (str_eqb (tp t) c_RDF_TYPE)) G) d.
Proof. exact tau_ordinary_tracker. Qed.
Print Assumptions C10_tau_ordinary.

(** ... and the profiler types their objects like those of any other predicate
    (node kind / datatype, never the class-valued reading reserved for tau). *)
Theorem C10_tau_ordinary_profile :
  forall tau p o,
    tau <> c_RDF_TYPE -> p <> tau ->
    type_of_obj tau c_RDF_TYPE o = type_of_obj tau p o.
Proof.
  intros tau p o H1 H2. unfold type_of_obj.
  assert (E1 : str_eqb c_RDF_TYPE tau = false) by (apply str_eqb_neq; congruence).
  assert (E2 : str_eqb p tau = false) by (apply str_eqb_neq; congruence).
  rewrite E1, E2. reflexivity.
Qed.
Print Assumptions C10_tau_ordinary_profile.

(** ** non-vacuity: a mixed specification of the domain *)

Definition ex_ns : nsdict := [(Str "http://e/", Str "ex"); (Str "http://sh/", Str "sh")].
Definition ex_orc : oracles :=
  {| o_rid := fun _ => Str "N0"; o_wf := fun _ => true;
     o_ans := fun _ => [ON (iri_node (Str "http://e/n1"))]; o_dis0 := 0%N; o_rand_prefix := [] |}.
Definition n0 := iri_node (Str "http://e/n0").
Definition n1 := iri_node (Str "http://e/n1").
Definition b0 := Node KBnode (Str "_:b0").
Definition C0 := ON (iri_node (Str "http://e/C0")).
Definition xsd_string := Str "http://www.w3.org/2001/XMLSchema#string".
Definition u_at := iri_node (Str "http://e/u@h").
Definition ex_graph : graph :=
  [T n0 c_RDF_TYPE C0; T n1 (Str "http://e/kind") C0; T b0 (Str "http://e/kind") C0;
   T n0 (Str "http://e/p0") (ON n1); T n0 (Str "http://e/p0") (ON n0);
   T n1 (Str "http://e/p0") (OL (Str "v") xsd_string)].
(** a wildcard pattern answering n0 twice, a prefixed label, two items with one
    label, an IRI with '@', a SPARQL selector -- and all_classes_mode *)
Definition ex_target : target :=
  {| t_ns := ex_ns; t_tau := Pref (Str "ex") (Str "kind"); t_classes := None; t_all := true;
     t_items := Some [ {| it_sel := SelFocusSubj (FIri (Pref (Str "ex") (Str "p0"))) FWild;
                          it_label := Angle (Str "http://sh/S0") |};
                       {| it_sel := SelNode (Angle (Str "http://e/n0")); it_label := Pref (Str "sh") (Str "S1") |};
                       {| it_sel := SelFocusObj (FIri (Angle (Str "http://e/n0"))) (FIri (Pref (Str "ex") (Str "p0")));
                          it_label := Angle (Str "http://sh/S1") |};
                       {| it_sel := SelSparql (Str "select ?x where { ?x ex:kind ex:C0 }");
                          it_label := Angle (Str "http://sh/S2") |};
                       {| it_sel := SelNode (Angle (Str "http://e/u@h")); it_label := Pref (Str "sh") (Str "S3") |} ] |}.

Example C10_dom_inhabited :
  C10_dom_count ex_target ex_orc ex_graph = true /\
  run ex_orc (to_tspec ex_target ClsList FmtFixed) ex_graph =
  OOk [(Str "http://e/n0", [Str "<http://sh/S0>"; Str "<http://sh/S1>"]);
       (Str "http://e/n1", [Str "<http://sh/S0>"; Str "<http://sh/S1>"; Str "<http://sh/S2>"; Str "http://e/C0"]);
       (Str "http://e/u@h", [Str "<http://sh/S3>"]);
       (Str "_:b0", [Str "http://e/C0"])] /\
  sp_smap (to_tspec ex_target ClsList FmtFixed) =
  SMFixed (Str "{FOCUS ex:p0 _}@<http://sh/S0>," ++ nl ++ Str "<http://e/n0>@sh:S1," ++ nl ++
           Str "{<http://e/n0> ex:p0 FOCUS}@<http://sh/S1>," ++ nl ++
           Str "SPARQL 'select ?x where { ?x ex:kind ex:C0 }'@<http://sh/S2>," ++ nl ++
           Str "<http://e/u@h>@sh:S3").
Proof. vm_compute. repeat split; reflexivity. Qed.

Definition cls_target : target :=
  {| t_ns := ex_ns; t_tau := Full c_RDF_TYPE;
     t_classes := Some [Pref (Str "ex") (Str "C0"); Angle (Str "http://e/C1"); Full (Str "http://e/C2")];
     t_all := false; t_items := None |}.

Example C10_dom_inhabited_classes :
  C10_dom cls_target ex_orc ex_graph = true /\
  run ex_orc (to_tspec cls_target ClsFile FmtFixed) ex_graph = OOk [(Str "http://e/n0", [Str "http://e/C0"])].
Proof. vm_compute. split; reflexivity. Qed.

(** target-classes mode: a literal object of the instantiation property whose
    lexical form is a requested class IRI is inside the domain and selects nothing
    (in all_classes_mode such a statement is finding C10-F6) *)
Example C10_literal_spelled_like_a_class :
  let G := [T n0 c_RDF_TYPE (OL (Str "http://e/C0") xsd_string);
            T n1 c_RDF_TYPE C0;
            T b0 c_RDF_TYPE (OL (Str "http://e/C1") (Str "http://www.w3.org/2001/XMLSchema#anyURI"))] in
  C10_dom_count cls_target ex_orc G = true /\
  run ex_orc (to_tspec cls_target ClsList FmtFixed) G = OOk [(Str "http://e/n1", [Str "http://e/C0"])] /\
  denote_list cls_target (o_ans ex_orc) G (KClass (Str "http://e/C0")) = [ON n1] /\
  denote_list cls_target (o_ans ex_orc) G (KClass (Str "http://e/C1")) = [].
Proof. vm_compute. repeat split; reflexivity. Qed.

(** ** known findings: inputs outside the domain on which the full statement fails *)

Definition one_item (sel : selector) (lab : iriref) (all : bool) : target :=
  {| t_ns := ex_ns; t_tau := Full c_RDF_TYPE; t_classes := None; t_all := all;
     t_items := Some [ {| it_sel := sel; it_label := lab |} ] |}.

(** C10-F1: a blank node answered by {FOCUS a ex:C0} is keyed by rdflib's identifier *)
Lemma C10_bnode_answer_refuted :
  exists tg cs fmt orc G, rc_nonIri_answer tg orc G = true /\ ~ C10_statement tg cs fmt orc G.
Proof.
  exists (one_item (SelFocusSubj FA (FIri (Pref (Str "ex") (Str "C0")))) (Angle (Str "http://sh/S0")) false),
         ClsList, FmtFixed, ex_orc,
         [T b0 c_RDF_TYPE C0; T b0 (Str "http://e/p0") (OL (Str "v") xsd_string)].
  split; [vm_compute; reflexivity|].
  eapply (refute_by_missing _ _ _ _ _ _ (KLabel (Str "http://sh/S0")) b0); vm_compute; reflexivity.
Qed.

(** formerly C10-F2, F3, F4 (fixed; now inside the domain -- regression examples) *)
Example C10_prefixed_label_fixed :
  let tg := one_item (SelNode (Angle (Str "http://e/n0"))) (Pref (Str "sh") (Str "S0")) false in
  C10_dom_count tg ex_orc [T n0 c_RDF_TYPE C0] = true /\
  run ex_orc (to_tspec tg ClsList FmtJson) [T n0 c_RDF_TYPE C0] = OOk [(Str "http://e/n0", [Str "<http://sh/S0>"])].
Proof. vm_compute. split; reflexivity. Qed.

Example C10_at_in_iri_fixed :
  let tg := one_item (SelNode (Angle (Str "http://e/u@h"))) (Angle (Str "http://sh/S0")) false in
  C10_dom_count tg ex_orc [T u_at c_RDF_TYPE C0] = true /\
  run ex_orc (to_tspec tg ClsList FmtFixed) [T u_at c_RDF_TYPE C0] = OOk [(Str "http://e/u@h", [Str "<http://sh/S0>"])].
Proof. vm_compute. split; reflexivity. Qed.

Example C10_repeated_answer_fixed :
  let tg := one_item (SelFocusSubj (FIri (Pref (Str "ex") (Str "p0"))) FWild) (Angle (Str "http://sh/S0")) false in
  let G := [T n0 (Str "http://e/p0") (OL (Str "v") xsd_string); T n0 (Str "http://e/p0") (OL (Str "w") xsd_string)] in
  C10_dom_count tg ex_orc G = true /\
  run ex_orc (to_tspec tg ClsList FmtFixed) G = OOk [(Str "http://e/n0", [Str "<http://sh/S0>"])].
Proof. vm_compute. split; reflexivity. Qed.

(** C10-F7 (what is left of F4): inside C10_dom a repeated statement makes a
    class tracker record the class twice *)
Lemma C10_repeated_statement_refuted :
  exists tg cs fmt orc G d,
    C10_dom tg orc G = true /\ rc_repeated_statement G = true /\
    run orc (to_tspec tg cs fmt) G = OOk d /\
    count_str (Str "http://e/C0") (labels_of d (Str "http://e/n0")) = 2%nat.
Proof.
  exists {| t_ns := ex_ns; t_tau := Full c_RDF_TYPE; t_classes := None; t_all := true; t_items := None |},
         ClsList, FmtFixed, ex_orc, [T n0 c_RDF_TYPE C0; T n0 c_RDF_TYPE C0].
  eexists. vm_compute. repeat split; reflexivity.
Qed.

(** C10-F8 (what is left of F3): fixed syntax, '@' inside a label: the constructor raises ValueError *)
Lemma C10_at_in_label_refuted :
  exists tg cs orc G, rc_at_in_label tg FmtFixed = true /\
                      run orc (to_tspec tg cs FmtFixed) G = OCtorErr ExValue /\
                      ~ C10_statement tg cs FmtFixed orc G.
Proof.
  exists (one_item (SelNode (Angle (Str "http://e/n0"))) (Angle (Str "http://sh/a@b")) false),
         ClsList, ex_orc, [T n0 c_RDF_TYPE C0].
  split; [vm_compute; reflexivity|]. split; [vm_compute; reflexivity|].
  apply refute_by_fault. intros d. vm_compute. discriminate.
Qed.

(** C10-F9: a local name containing its own prefix again (here the empty prefix and
    a ':' in the local name).  Two copies of the expanding line in the code
    (NodeSelectorParser._unprefix_uri for selectors, utils.uri.unprefixize_uri_if_possible
    for class names and the instantiation property); tools/gen_consts.py tells for each
    whether it is [str.replace(prefix + ":", namespace)] -- every occurrence is replaced by
    the namespace: the statement fails -- or [str.replace(prefix + ":", namespace, 1)] --
    such names are inside [C10_dom] and the theorems above cover them. *)
Definition f9_ns : nsdict := [(Str "http://e/", []); (Str "http://sh/", Str "sh")].
Definition f9_node := iri_node (Str "http://e/tax:9606").
Definition f9_sel_target : target :=
  {| t_ns := f9_ns; t_tau := Full c_RDF_TYPE; t_classes := None; t_all := false;
     t_items := Some [ {| it_sel := SelNode (Pref [] (Str "tax:9606")); it_label := Angle (Str "http://sh/S0") |} ] |}.
Definition f9_cls_target : target :=
  {| t_ns := f9_ns; t_tau := Full c_RDF_TYPE; t_classes := Some [Pref [] (Str "K:1")]; t_all := false;
     t_items := None |}.
Definition f9_cls_graph : graph := [T f9_node c_RDF_TYPE (ON (iri_node (Str "http://e/K:1")))].

Lemma C10_prefix_in_local_refuted :
  c_unprefix_sel_once = false ->
  exists tg cs fmt orc G, rc_prefix_in_local tg = true /\ ~ C10_statement tg cs fmt orc G.
Proof.
  intros E.
  first [ vm_compute in E; discriminate E      (* this copy of the line carries the count: nothing to refute *)
        | exists f9_sel_target, ClsList, FmtFixed, ex_orc, [T f9_node c_RDF_TYPE C0];
          split; [vm_compute; reflexivity|];
          eapply (refute_by_missing _ _ _ _ _ _ (KLabel (Str "http://sh/S0")) f9_node);
          vm_compute; reflexivity ].
Qed.

Lemma C10_prefix_in_local_class_refuted :
  c_unprefix_ifp_once = false ->
  exists tg cs fmt orc G, rc_prefix_in_local tg = true /\ ~ C10_statement tg cs fmt orc G.
Proof.
  intros E.
  first [ vm_compute in E; discriminate E
        | exists f9_cls_target, ClsList, FmtFixed, ex_orc, f9_cls_graph;
          split; [vm_compute; reflexivity|];
          eapply (refute_by_missing _ _ _ _ _ _ (KClass (Str "http://e/K:1")) f9_node);
          vm_compute; reflexivity ].
Qed.

(** the same inputs once the line carries the count 1 (regression examples):
    inside the domain, and the dictionary is the denoted one *)
Example C10_prefix_in_local_fixed :
  c_unprefix_sel_once = true ->
  C10_dom_count f9_sel_target ex_orc [T f9_node c_RDF_TYPE C0] = true /\
  rc_prefix_in_local f9_sel_target = false /\
  run ex_orc (to_tspec f9_sel_target ClsList FmtFixed) [T f9_node c_RDF_TYPE C0] =
  OOk [(Str "http://e/tax:9606", [Str "<http://sh/S0>"])].
Proof.
  intros E. first [ vm_compute in E; discriminate E | vm_compute; repeat split; reflexivity ].
Qed.

Example C10_prefix_in_local_class_fixed :
  c_unprefix_ifp_once = true ->
  C10_dom_count f9_cls_target ex_orc f9_cls_graph = true /\
  rc_prefix_in_local f9_cls_target = false /\
  run ex_orc (to_tspec f9_cls_target ClsFile FmtFixed) f9_cls_graph =
  OOk [(Str "http://e/tax:9606", [Str "http://e/K:1"])].
Proof.
  intros E. first [ vm_compute in E; discriminate E | vm_compute; repeat split; reflexivity ].
Qed.

(** what the two flags mean for the domain: with the count in place a local part
    is only asked to be blank-free and not to end in '>' (FOCUS tokens), and the
    root cause F9 is empty *)
Theorem C10_prefix_in_local_domain :
  forall once p l,
    ok_local once p l =
    nospace l && (once || negb (contains (p ++ Str ":") l)) && negb (suffixb (Str ">") (Str ":" ++ l)).
Proof. reflexivity. Qed.
Print Assumptions C10_prefix_in_local_domain.

Theorem C10_prefix_in_local_no_root_cause :
  c_unprefix_ifp_once = true -> c_unprefix_sel_once = true -> forall tg, rc_prefix_in_local tg = false.
Proof. intros E1 E2 tg. unfold rc_prefix_in_local. rewrite E1, E2. reflexivity. Qed.
Print Assumptions C10_prefix_in_local_no_root_cause.

(** C10-F10: the query of a SPARQL selector holds the keyword [SPARQL] itself
    (here inside a predicate IRI).  [NodeSelectorParser._parse_sparql_expression]
    removes the keyword with [raw_selector.replace("SPARQL", "")] -- every
    occurrence: the query silently becomes one about [<http://e/status>], whose
    answer (here: nothing) is taken for the selector's -- or with
    [replace("SPARQL", "", 1)] -- the leading keyword only: such queries are
    inside [C10_dom].  tools/gen_consts.py tells which ([c_sel_sparql_strip_once]). *)
Definition f10_query : str := Str "select ?s where { ?s <http://e/SPARQLstatus> ?o }".
Definition f10_mangled : str := Str "select ?s where { ?s <http://e/status> ?o }".
Definition f10_orc : oracles :=
  {| o_rid := fun _ => Str "N0"; o_wf := fun _ => true;
     o_ans := fun q => if str_eqb q f10_query then [ON n0] else [];
     o_dis0 := 0%N; o_rand_prefix := [] |}.
Definition f10_target : target := one_item (SelSparql f10_query) (Angle (Str "http://sh/S0")) false.
Definition f10_graph : graph := [T n0 (Str "http://e/SPARQLstatus") (ON n1)].

Lemma C10_sparql_kw_in_query_refuted :
  c_sel_sparql_strip_once = false ->
  exists tg cs fmt orc G, rc_sparql_kw_in_query tg = true /\ C10_dom tg orc G = false /\
                          ~ C10_statement tg cs fmt orc G.
Proof.
  intros E.
  first [ vm_compute in E; discriminate E      (* only the leading keyword is removed: nothing to refute *)
        | exists f10_target, ClsList, FmtFixed, f10_orc, f10_graph;
          split; [vm_compute; reflexivity|]; split; [vm_compute; reflexivity|];
          eapply (refute_by_missing _ _ _ _ _ _ (KLabel (Str "http://sh/S0")) n0);
          vm_compute; reflexivity ].
Qed.

(** the same input once the line carries the count 1 (regression example) *)
Example C10_sparql_kw_in_query_fixed :
  c_sel_sparql_strip_once = true ->
  C10_dom_count f10_target f10_orc f10_graph = true /\
  rc_sparql_kw_in_query f10_target = false /\
  run f10_orc (to_tspec f10_target ClsList FmtFixed) f10_graph = OOk [(Str "http://e/n0", [Str "<http://sh/S0>"])].
Proof.
  intros E. first [ vm_compute in E; discriminate E | vm_compute; repeat split; reflexivity ].
Qed.

Theorem C10_sparql_kw_domain :
  forall wf q,
    ok_query wf q =
    nochar (ascii_of_nat 10) q && (c_sel_sparql_strip_once || negb (contains c_sel_sparql_kw q)) && wf q &&
    (let head := slice_to q (find (Str "{") q) in
     contains (Str "select") (lower head) && Nat.eqb (count_char "?"%char head) 1).
Proof. reflexivity. Qed.
Print Assumptions C10_sparql_kw_domain.

Theorem C10_sparql_kw_no_root_cause :
  c_sel_sparql_strip_once = true -> forall tg, rc_sparql_kw_in_query tg = false.
Proof. intros E tg. unfold rc_sparql_kw_in_query. rewrite E. reflexivity. Qed.
Print Assumptions C10_sparql_kw_no_root_cause.

(** ... while a ':' in the local name of any other prefix is inside the domain *)
Example C10_colon_in_local_name :
  let tg := one_item (SelFocusSubj FA (FIri (Pref (Str "ex") (Str "K:1")))) (Pref (Str "sh") (Str "S:0")) false in
  let G := [T (iri_node (Str "http://e/tax:9606")) c_RDF_TYPE (ON (iri_node (Str "http://e/K:1")));
            T (iri_node (Str "http://e/tax")) c_RDF_TYPE (ON (iri_node (Str "http://e/K")))] in
  C10_dom_count tg ex_orc G = true /\
  run ex_orc (to_tspec tg ClsList FmtFixed) G = OOk [(Str "http://e/tax:9606", [Str "<http://sh/S:0>"])].
Proof. vm_compute. split; reflexivity. Qed.

(** C10-F5: two keys of one specification get one shape name (the dictionary is right) *)
Lemma C10_same_shape_name_witness :
  exists tg orc G,
    C10_dom_count tg orc G = true /\ rc_same_shape_name tg G = true /\
    shape_name dflt_shapes_namespace (key_of (KClass (Str "http://e/C0"))) =
    shape_name dflt_shapes_namespace (key_of (KLabel (Str "http://weso.es/shapes/C0"))).
Proof.
  exists (one_item (SelNode (Angle (Str "http://e/n1"))) (Angle (Str "http://weso.es/shapes/C0")) true),
         ex_orc, [T n0 c_RDF_TYPE C0].
  vm_compute. repeat split; reflexivity.
Qed.

(** C10-F6: all_classes_mode and a literal object of tau: AttributeError *)
Lemma C10_tau_literal_refuted :
  exists tg cs fmt orc G, rc_tau_literal tg G = true /\
                          run orc (to_tspec tg cs fmt) G = OTrackErr ExAttr /\
                          ~ C10_statement tg cs fmt orc G.
Proof.
  exists {| t_ns := ex_ns; t_tau := Full c_RDF_TYPE; t_classes := None; t_all := true; t_items := None |},
         ClsList, FmtFixed, ex_orc, [T n0 c_RDF_TYPE C0; T n0 c_RDF_TYPE (OL (Str "lit") xsd_string)].
  split; [vm_compute; reflexivity|]. split; [vm_compute; reflexivity|].
  apply refute_by_fault. intros d. vm_compute. discriminate.
Qed.

(** the key-collision branch of _integrate_dicts mints a fresh label per
    occurrence ('class_1...', 'class_2...'): unreachable on the domain, shown
    here on the model for a class IRI that equals a label key *)
Lemma C10_disambiguation_splits :
  fst (integrate_dicts [(Str "a", [Str "<L>"])]
                       [(Str "b", [Str "<L>"]); (Str "c", [Str "<L>"])] 0%N) =
  [(Str "a", [Str "<L>"]); (Str "b", [Str "class_1<L>"]); (Str "c", [Str "class_2<L>"])].
Proof. vm_compute. reflexivity. Qed.
