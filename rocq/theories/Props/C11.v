(** * C11 -- ShExC and SHACL outputs state the same constraints *)
From Coq Require Import List Ascii String ZArith NArith Bool Permutation.
From Shexer Require Import Lib.PyStr Lib.Dict Gen.Consts Model.Tokens Model.Freq Model.Shexing
     Spec.ConstraintSpec Model.SerialShacl Proofs.ShaclProofs.
Import ListNotations.

(** Statement level.  For every statement of [C11_dom] -- all namespaces
    dictionaries with distinct, readable prefixes; every http(s) predicate;
    every cardinality [{k}] (k >= 1), [+], [*], [?]; direct and inverse; value
    kinds IRI / BNode / NONLITERAL / shape reference / datatype, and
    instantiation constraints (class value) of any cardinality and direction --
    the ShExC tokens read as a constraint [c] and the property shape the SHACL
    serialiser builds is [enc c] up to the order of its arcs.  [C11_dom] is the
    whole well-formed domain of the property (what the extraction produces
    with [disable_or_statements] at its default); the four statement forms that
    were excluded before the fixes 3370abe / 48b7fcb are now inside (see the
    regression examples below). *)
Theorem C11_views_agree : forall ns tau st, C11_dom ns tau st = true ->
  exists c r, shex_view ns tau st = VOk c /\ shacl_view tau st = VOk r /\ same_pshape r (enc c).
Proof.
  intros ns tau st H. destruct (views_agree ns tau st H) as [c [arcs [H1 [H2 H3]]]].
  exists c, (RBlank arcs). split; [exact H1|]. split; [apply shacl_view_arcs, H2 | exact H3].
Qed.
Print Assumptions C11_views_agree.

(** The same, read from the SHACL side: decoding the property shape gives
    back exactly the constraint ShExC states. *)
Theorem C11_read_back : forall ns tau st, C11_dom ns tau st = true ->
  exists c r, shex_view ns tau st = VOk c /\ shacl_view tau st = VOk r /\ dec r = Some c.
Proof. exact read_back. Qed.
Print Assumptions C11_read_back.

(** Shape and document level: one node shape per shape, in order, with the
    IRI the ShExC label denotes, [sh:targetClass] = the IRI [_add_target_class]
    makes of the shape's class key ([retarget]: [target_class_obj] of the key --
    the key itself, or, once the method removes the corners a shape-map label
    is kept in (flag [c_shacl_target_strips_corners], finding C04-F2), the key
    without them), and one property shape per statement, in order. *)
Theorem C11_shapes_agree : forall ns tau shapes,
  forallb (C11_dom_shape ns tau) shapes = true ->
  exists cs d, shex_doc_view ns tau shapes = VOk cs /\ shacl_doc tau shapes = VOk d /\
               same_doc d (enc_doc (map retarget cs)).
Proof. exact docs_agree. Qed.
Print Assumptions C11_shapes_agree.

Theorem C11_shape_agree : forall ns tau sh, C11_dom_shape ns tau sh = true ->
  exists cs d, shex_shape_view ns tau sh = VOk cs /\ shacl_shape tau sh = VOk d /\
               same_nshape d (enc_shape (retarget cs)) /\
               cs_class cs = sh_class sh /\ List.length (cs_constraints cs) = List.length (sh_stmts sh).
Proof. exact shapes_agree. Qed.
Print Assumptions C11_shape_agree.

(** [sh:targetClass] = the class (the class key itself) for every shape whose key is not written in
    corners -- every shape of a class-based extraction (Props/C05.v: [C05_run_classes_plain]) -- and
    for every shape when [_add_target_class] does not touch the key *)
Theorem C11_shapes_agree_class : forall ns tau shapes,
  forallb (C11_dom_shape ns tau) shapes = true ->
  (forall sh, In sh shapes -> target_class_obj (sh_class sh) = sh_class sh) ->
  exists cs d, shex_doc_view ns tau shapes = VOk cs /\ shacl_doc tau shapes = VOk d /\
               same_doc d (enc_doc cs).
Proof. exact docs_agree_class. Qed.
Print Assumptions C11_shapes_agree_class.

Theorem C11_shape_agree_class : forall ns tau sh, C11_dom_shape ns tau sh = true ->
  target_class_obj (sh_class sh) = sh_class sh ->
  exists cs d, shex_shape_view ns tau sh = VOk cs /\ shacl_shape tau sh = VOk d /\
               same_nshape d (enc_shape cs) /\
               cs_class cs = sh_class sh /\ List.length (cs_constraints cs) = List.length (sh_stmts sh).
Proof. exact shapes_agree_class. Qed.
Print Assumptions C11_shape_agree_class.

Theorem C11_target_class_key : forall c,
  (cornered c = false -> target_class_obj c = c) /\
  (c_shacl_target_strips_corners = false -> target_class_obj c = c) /\
  (c_shacl_target_strips_corners = true -> forall i, target_class_obj (Str "<" ++ i ++ Str ">") = i).
Proof.
  intros c. split; [apply target_class_obj_plain|]. split; [apply target_class_obj_old|].
  intros Hf i. apply target_class_obj_new. exact Hf.
Qed.
Print Assumptions C11_target_class_key.

(** The cardinality table holds for every cardinality the extraction can
    produce, whatever the statement kind (all k >= 1):
    {k} -> k..k, '+' -> 1.., '*' -> no counts, '?' -> ..1, absent -> 1..1. *)
Theorem C11_cardinality_table : forall c, card_pos c = true ->
  exists sc, read_card (cardinality_representation true (card_value c)) = Some sc /\
             add_cardinality (card_value c) = Some (enc_counts (fst (card_range sc)) (snd (card_range sc))).
Proof. exact card_views. Qed.
Print Assumptions C11_cardinality_table.

(** the tables the theorems depend on, as read from the Python source *)
Example C11_tables_as_read :
  shacl_macro_mapping_iri =
    [(Str "IRI", Some (SH "IRI")); (Str "LITERAL", Some (SH "Literal")); (Str ".", None);
     (Str "BNode", Some (SH "BlankNode")); (Str "NONLITERAL", Some (SH "BlankNodeOrIRI"))] /\
  shacl_min_occurs_none = [Str "*"; Str "?"] /\ shacl_min_occurs_eq = Str "+" /\ shacl_min_occurs_eq_val = 1%Z /\
  shacl_max_occurs_none = [Str "*"; Str "+"] /\ shacl_max_occurs_eq = Str "?" /\ shacl_max_occurs_eq_val = 1%Z /\
  shexc_card_symbols = [Str "+"; Str "*"; Str "?"] /\ c_ONE_TO_MANY = c_POSITIVE_CLOSURE /\
  (* the sentinels the shexing stage assigns (model/statement.py) are the ones the ShExC serialiser
     tests for (io/shex/formater/consts.py) *)
  [c_fmt_POSITIVE_CLOSURE; c_fmt_KLEENE_CLOSURE; c_fmt_OPT_CARDINALITY] =
  [c_POSITIVE_CLOSURE; c_KLEENE_CLOSURE; c_OPT_CARDINALITY] /\
  (* the keyword list of tune_token, as Model/Tokens.v spells it *)
  shexc_macro_tokens = [c_IRI_ELEM_TYPE; c_BNODE_ELEM_TYPE; c_NONLITERAL_ELEM_TYPE] /\
  shexc_card_omitted = 1%Z /\ c_INVERSE_SENSE_SHEXC = Str "^" /\
  shacl_instantiation_steps =
    [Str "_generate_bnode"; Str "_add_bnode_property"; Str "_add_path"; Str "_add_cardinality"; Str "_add_in_instance"] /\
  shacl_regular_steps =
    [Str "_generate_bnode"; Str "_add_bnode_property"; Str "_add_node_type"; Str "_add_cardinality"; Str "_add_path"] /\
  shacl_uri_schemes = [Str "http://"; Str "https://"].
Proof. repeat split. Qed.

(** ** non-vacuity *)
Definition ns_ex : nsdict := [(Str "http://example.org/", Str "ex"); (Str "http://weso.es/shapes/", [])].
Definition tau_ex : str := c_RDF_TYPE_STR.
Definition mk (inv : bool) (p ty : string) (c : card) : stmt :=
  {| s_inv := inv; s_prop := Str p; s_types := [Str ty]; s_choice := false; s_card := c;
     s_nocc := 1%N; s_prob := POne; s_comments := [] |}.

Definition ex_stmts : list stmt :=
  [mk false "http://www.w3.org/1999/02/22-rdf-syntax-ns#type" "http://example.org/Person" (CExact 1);
   mk false "http://example.org/name" "http://www.w3.org/2001/XMLSchema#string" CPlus;
   mk false "http://example.org/age" "http://www.w3.org/2001/XMLSchema#integer" COpt;
   mk false "http://example.org/knows" "%<http://weso.es/shapes/Person>" CStar;
   mk true "http://example.org/knows" "%<http://weso.es/shapes/Person>" (CExact 12);
   mk true "http://xmlns.com/foaf/0.1/page" "IRI" (CExact 1)].
Definition ex_shape : shape :=
  {| sh_name := Str "%<http://weso.es/shapes/Person>"; sh_class := Str "http://example.org/Person"; sh_n := 3%N;
     sh_stmts := ex_stmts |}.

Example C11_dom_inhabited :
  forallb (C11_dom_shape ns_ex tau_ex) [ex_shape] = true /\
  map (fun st => match shexc_tokens ns_ex tau_ex st with
                 | VOk t => (t_sense t, t_pred t, t_value t, t_card t) | _ => ([], [], [], []) end) ex_stmts =
  [([], Str "<http://www.w3.org/1999/02/22-rdf-syntax-ns#type>", Str "[ex:Person]", []);
   ([], Str "ex:name", Str "<http://www.w3.org/2001/XMLSchema#string>", Str "+");
   ([], Str "ex:age", Str "<http://www.w3.org/2001/XMLSchema#integer>", Str "?");
   ([], Str "ex:knows", Str "@:Person", Str "*");
   (Str "^", Str "ex:knows", Str "@:Person", Str "{12}");
   (Str "^", Str "<http://xmlns.com/foaf/0.1/page>", Str "IRI", [])] /\
  shex_view ns_ex tau_ex (mk true "http://example.org/knows" "%<http://weso.es/shapes/Person>" (CExact 12)) =
  VOk {| c_inv := true; c_pred := Str "http://example.org/knows"; c_restr := Ref (Str "http://weso.es/shapes/Person");
         c_min := 12; c_max := Some 12%N |} /\
  shacl_view tau_ex (mk true "http://example.org/knows" "%<http://weso.es/shapes/Person>" (CExact 12)) =
  VOk (RBlank [(RDFNS "type", RIri (SH "PropertyShape"));
               (SH "node", RIri (Str "http://weso.es/shapes/Person"));
               (SH "minCount", RLit (Str "12") xsd_integer); (SH "maxCount", RLit (Str "12") xsd_integer);
               (SH "property", RBlank [(SH "inversePath", RIri (Str "http://example.org/knows"))])]).
Proof. repeat split; vm_compute; reflexivity. Qed.

(** ** regression examples: the four statement forms for which the full
    statement was false before the fixes 3370abe (node-kind table) and 48b7fcb
    (instantiation constraint) -- former witnesses of [C11_bnode_refuted],
    [C11_nonliteral_refuted], [C11_type_cardinality_refuted],
    [C11_type_inverse_refuted] -- are inside [C11_dom] and agree. *)
Definition former_witnesses : list stmt :=
  [mk false "http://example.org/p" "BNode" (CExact 1);
   mk false "http://example.org/p" "NONLITERAL" CStar;
   mk false "http://www.w3.org/1999/02/22-rdf-syntax-ns#type" "http://example.org/B" COpt;
   mk true "http://www.w3.org/1999/02/22-rdf-syntax-ns#type" "http://example.org/a1" (CExact 1)].

Example C11_fixed_forms_agree :
  forallb (C11_dom ns_ex tau_ex) former_witnesses = true /\
  map (fun st => match shex_view ns_ex tau_ex st, shacl_view tau_ex st with
                 | VOk c, VOk r => match dec r with Some c' => Some (c_restr c', c_inv c', c_min c', c_max c') | None => None end
                 | _, _ => None end) former_witnesses =
  [Some (KindBnode, false, 1%N, Some 1%N);
   Some (KindNonLiteral, false, 0%N, None);
   Some (ClassValue (Str "http://example.org/B"), false, 0%N, Some 1%N);
   Some (ClassValue (Str "http://example.org/a1"), true, 1%N, Some 1%N)] /\
  map (fun st => match shex_view ns_ex tau_ex st with
                 | VOk c => Some (c_restr c, c_inv c, c_min c, c_max c) | _ => None end) former_witnesses =
  [Some (KindBnode, false, 1%N, Some 1%N);
   Some (KindNonLiteral, false, 0%N, None);
   Some (ClassValue (Str "http://example.org/B"), false, 0%N, Some 1%N);
   Some (ClassValue (Str "http://example.org/a1"), true, 1%N, Some 1%N)].
Proof. repeat split; vm_compute; reflexivity. Qed.

Ltac refute_witness :=
  repeat split; try (vm_compute; reflexivity);
  let HP := fresh in intros HP; apply dec_sound in HP; vm_compute in HP; discriminate HP.

(** Not reachable with [disable_or_statements] at its default (only the
    hierarchy tree of the OR machinery creates them), hence outside
    [C11_dom]: the macro keys '.' and 'LITERAL', which ShExC would print as
    the shape references [@<.>] / [@<LITERAL>]. *)
Lemma C11_dot_macro_disagrees : exists ns tau st c arcs,
  shex_view ns tau st = VOk c /\ shacl_arcs tau st = VOk arcs /\ ~ Permutation arcs (enc_arcs c).
Proof.
  exists ns_ex, tau_ex, (mk false "http://example.org/p" "." (CExact 1)).
  eexists. eexists. refute_witness.
Qed.

(** Faults are explicit outcomes: a non-http(s) predicate and a blank-node
    class value make the SHACL side raise while ShExC prints the constraint. *)
Example C11_value_errors :
  shacl_view tau_ex (mk false "urn:x:p" "http://www.w3.org/2001/XMLSchema#string" (CExact 1)) = VValueError /\
  (exists c, shex_view ns_ex tau_ex (mk false "urn:x:p" "http://www.w3.org/2001/XMLSchema#string" (CExact 1)) = VOk c) /\
  shacl_view tau_ex (mk false "http://www.w3.org/1999/02/22-rdf-syntax-ns#type" "_:c" (CExact 1)) = VValueError.
Proof. split; [|split]; [| eexists |]; vm_compute; reflexivity. Qed.
