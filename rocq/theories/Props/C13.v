(** * C13 — each option changes only what it documents (model level).

    One theorem per option, comparing the runs of two configurations that
    differ in exactly that field ([with_X v cfg]), for every frequency algebra,
    profile, counts, threshold and configuration.  [map_res f r] maps [f] over
    a successful result and keeps an error as it is, so an equation
    [run1 = map_res f run2] also says that the two runs fail together, with
    the same error.  Proofs: Proofs/OptionLemmas.v. *)
From Coq Require Import List Ascii String ZArith NArith Bool.
From Shexer Require Import Lib.PyStr Lib.Dict Lib.Bin64 Gen.Consts Spec.Rdf Model.Profiler Model.Tokens
     Model.Freq Model.FreqInst Model.Shexing Model.SerialShexc Model.Run.
From Shexer Require Import Proofs.ShexBasics Proofs.ClosureLemmas Proofs.OptionLemmas Proofs.ShexExamples.
Import ListNotations.

(** ** O1 disable_comments: all comments dropped, nothing else *)
Theorem C13_disable_comments : forall fa cfg thr P C,
  shex fa (with_disable_comments true cfg) thr P C =
  map_res (map_shapes drop_comments) (shex fa (with_disable_comments false cfg) thr P C).
Proof. exact O1_disable_comments. Qed.
Print Assumptions C13_disable_comments.

Example C13_disable_comments_acts :
  obs_ncomments (shex QAlg (with_disable_comments true ex_cfg) ex_thr ex_P ex_C) <>
  obs_ncomments (shex QAlg (with_disable_comments false ex_cfg) ex_thr ex_P ex_C).
Proof. vm_compute. discriminate. Qed.

(** ** O2 allow_opt_cardinality: [?] becomes [*], nothing else *)
Theorem C13_allow_opt_cardinality : forall fa cfg thr P C,
  shex fa (with_allow_opt false cfg) thr P C =
  map_res (map_shapes opt_to_star) (shex fa (with_allow_opt true cfg) thr P C).
Proof. exact O2_allow_opt. Qed.
Print Assumptions C13_allow_opt_cardinality.

Example C13_allow_opt_cardinality_acts :
  obs_cards (shex QAlg (with_allow_opt false ex_cfg) ex_thr ex_P ex_C) <>
  obs_cards (shex QAlg (with_allow_opt true ex_cfg) ex_thr ex_P ex_C).
Proof. vm_compute. discriminate. Qed.

(** ** O3 disable_exact_cardinality: [{k}], k > 1, becomes [+], nothing else *)
Theorem C13_disable_exact_cardinality : forall fa cfg thr P C,
  shex fa (with_disable_exact true cfg) thr P C =
  map_res (map_shapes generalize_exact) (shex fa (with_disable_exact false cfg) thr P C).
Proof. exact O3_disable_exact. Qed.
Print Assumptions C13_disable_exact_cardinality.

Example C13_disable_exact_cardinality_acts :
  obs_cards (shex QAlg (with_disable_exact true (with_all_compliant false ex_cfg)) ex_thr ex_P ex_C) <>
  obs_cards (shex QAlg (with_disable_exact false (with_all_compliant false ex_cfg)) ex_thr ex_P ex_C).
Proof. vm_compute. discriminate. Qed.

(** ** O4 all_compliant_mode: the statement-wise relaxation [relax_post] of
    the non-compliant run, in the same order.  [O4_dom]: exact cardinalities
    kept, or comments disabled (otherwise the relaxed statement's first
    comment still shows the cardinality from before the generalisation:
    [C13_all_compliant_comment_refuted]). *)
Theorem C13_all_compliant : forall fa cfg thr P C L1,
  O4_dom cfg ->
  shex fa (with_all_compliant true cfg) thr P C = inl L1 ->
  exists L0, shex fa (with_all_compliant false cfg) thr P C = inl L0 /\
             map_err (relax_shape fa cfg) L0 = inl L1.
Proof. exact O4_all_compliant. Qed.
Print Assumptions C13_all_compliant.

Theorem C13_all_compliant_failure_mono : forall fa cfg thr P C e,
  O4_dom cfg ->
  shex fa (with_all_compliant false cfg) thr P C = inr e ->
  exists e', shex fa (with_all_compliant true cfg) thr P C = inr e'.
Proof. exact O4_failure_mono. Qed.
Print Assumptions C13_all_compliant_failure_mono.

Theorem C13_all_compliant_failure_cause : forall fa cfg thr P C L0 e,
  O4_dom cfg ->
  shex fa (with_all_compliant false cfg) thr P C = inl L0 ->
  shex fa (with_all_compliant true cfg) thr P C = inr e ->
  exists M0 sh st e', map_err (shex_class fa (with_all_compliant false cfg) thr C) P = inl M0 /\
                      In sh M0 /\ In st (sh_stmts sh) /\ relax_post fa cfg (sh_n sh) st = inr e'.
Proof. exact O4_failure_cause. Qed.
Print Assumptions C13_all_compliant_failure_cause.

Example C13_all_compliant_acts :
  obs_cards (shex QAlg (with_all_compliant true ex_cfg) ex_thr ex_P ex_C) <>
  obs_cards (shex QAlg (with_all_compliant false ex_cfg) ex_thr ex_P ex_C).
Proof. vm_compute. discriminate. Qed.

Lemma C13_all_compliant_comment_refuted :
  exists cfg L0 L1,
    ~ O4_dom cfg /\
    shex QAlg (with_all_compliant true cfg) ex_thr ex_P ex_C = inl L1 /\
    shex QAlg (with_all_compliant false cfg) ex_thr ex_P ex_C = inl L0 /\
    map_err (relax_shape QAlg cfg) L0 <> inl L1.
Proof.
  exists (with_disable_exact true ex_cfg). eexists. eexists.
  split; [intros [H|H]; discriminate H|].
  split; [vm_compute; reflexivity|]. split; [vm_compute; reflexivity|].
  vm_compute. discriminate.
Qed.

(** ** O5 disable_or_statements: when both runs succeed, shape by shape and
    statement by statement, either the same statement or a merged non-literal
    statement turned into a disjunction ([or_rel]) *)
Theorem C13_disable_or_statements : forall fa cfg thr P C L_t L_f,
  shex fa (with_disable_or true cfg) thr P C = inl L_t ->
  shex fa (with_disable_or false cfg) thr P C = inl L_f ->
  Forall2 (shape_rel (fun _ => or_rel)) L_t L_f.
Proof. exact O5_disable_or. Qed.
Print Assumptions C13_disable_or_statements.

Example C13_disable_or_statements_acts :
  obs_ntypes (shex QAlg (with_disable_or false ex_cfg) ex_thr ex_P ex_C) <>
  obs_ntypes (shex QAlg (with_disable_or true ex_cfg) ex_thr ex_P ex_C).
Proof. vm_compute. discriminate. Qed.

(** the run with disjunctions can fail alone: cleaning an empty shape reads
    [st_type] of a choice statement (TypeError in the real code too) *)
Lemma C13_disable_or_crash_witness :
  shex QAlg (with_disable_or false ex_cfg) ex_thr ex_PZ ex_CZ = inr SEType /\
  exists L, shex QAlg (with_disable_or true ex_cfg) ex_thr ex_PZ ex_CZ = inl L.
Proof. split; [vm_compute; reflexivity | eexists; vm_compute; reflexivity]. Qed.

(** ** O6 presentation options at run level.  [decimals] does not occur in
    the model: figures are placeholders filled in by the harness. *)
Theorem C13_instances_report_mode : forall fa m c thr g,
  run_shapes fa (with_mode m c) thr g = run_shapes fa c thr g.
Proof. exact O6_mode. Qed.
Print Assumptions C13_instances_report_mode.

Theorem C13_namespaces : forall fa ns' c thr g ns1 ns2,
  full_ns (with_rns ns' c) = Some ns1 -> full_ns c = Some ns2 ->
  res_rel (fun x y => fst x = ns1 /\ fst y = ns2 /\
                      map_shapes erase_tokens (snd x) = map_shapes erase_tokens (snd y))
          (run_shapes fa (with_rns ns' c) thr g) (run_shapes fa c thr g).
Proof. exact O6_namespaces. Qed.
Print Assumptions C13_namespaces.

Example C13_namespaces_acts :
  obs_comments (run_shapes QAlg (with_rns ex_user_ns ex_rcfg) ex_thr ex_graph) <>
  obs_comments (run_shapes QAlg ex_rcfg ex_thr ex_graph).
Proof. vm_compute. discriminate. Qed.

Example C13_mode_acts :
  run_shexc QAlg (with_mode FAbs ex_rcfg) ex_thr ex_graph <> run_shexc QAlg ex_rcfg ex_thr ex_graph.
Proof. vm_compute. discriminate. Qed.

(** ** End to end: the same statements for [Run.run_shapes].

    The options of the shexing stage reach the run only through [scfg_of];
    the choice of the shapes prefix, the tracker and the profiler read
    [front_agree]'s fields only (Proofs/EndToEnd2.v: [run_shapes_post],
    [run_shapes_rel]).  [rwith_X v c] changes field X of the run configuration.
    An equation [run1 = map_res f run2] also says that the two runs fail
    together, with the same error. *)
From Shexer Require Import Model.Tracker Proofs.EndToEnd2 Proofs.RunWitness.

(** generic: two run configurations that agree on what is read before the
    shexing stage, and whose shexing stages are related by [f] *)
Theorem C13_run_generic : forall fa c1 c2 (thr : F fa) g (f : list shape -> list shape),
  front_agree c1 c2 ->
  (forall ns P C, shex fa (scfg_of c1 ns) thr P C = map_res f (shex fa (scfg_of c2 ns) thr P C)) ->
  run_shapes fa c1 thr g =
  map_res (fun x : nsdict * list shape => let '(ns, l) := x in (ns, f l)) (run_shapes fa c2 thr g).
Proof. exact run_shapes_post. Qed.
Print Assumptions C13_run_generic.

Theorem C13_run_disable_comments : forall fa c (thr : F fa) g,
  run_shapes fa (rwith_disable_comments true c) thr g =
  map_res (fun x : nsdict * list shape => let '(ns, l) := x in (ns, map_shapes drop_comments l))
          (run_shapes fa (rwith_disable_comments false c) thr g).
Proof. exact run_disable_comments. Qed.
Print Assumptions C13_run_disable_comments.

Theorem C13_run_allow_opt_cardinality : forall fa c (thr : F fa) g,
  run_shapes fa (rwith_allow_opt false c) thr g =
  map_res (fun x : nsdict * list shape => let '(ns, l) := x in (ns, map_shapes opt_to_star l))
          (run_shapes fa (rwith_allow_opt true c) thr g).
Proof. exact run_allow_opt. Qed.
Print Assumptions C13_run_allow_opt_cardinality.

Theorem C13_run_disable_exact_cardinality : forall fa c (thr : F fa) g,
  run_shapes fa (rwith_disable_exact true c) thr g =
  map_res (fun x : nsdict * list shape => let '(ns, l) := x in (ns, map_shapes generalize_exact l))
          (run_shapes fa (rwith_disable_exact false c) thr g).
Proof. exact run_disable_exact. Qed.
Print Assumptions C13_run_disable_exact_cardinality.

(** O4 on its domain ([rO4_dom c]: exact cardinalities kept or comments disabled) *)
Theorem C13_run_all_compliant : forall fa c (thr : F fa) g ns L1,
  rO4_dom c ->
  run_shapes fa (rwith_all_compliant true c) thr g = inl (ns, L1) ->
  exists L0, run_shapes fa (rwith_all_compliant false c) thr g = inl (ns, L0) /\
             map_err (relax_shape fa (scfg_of c ns)) L0 = inl L1.
Proof. exact run_all_compliant. Qed.
Print Assumptions C13_run_all_compliant.

Theorem C13_run_all_compliant_failure_mono : forall fa c (thr : F fa) g e,
  rO4_dom c ->
  run_shapes fa (rwith_all_compliant false c) thr g = inr e ->
  exists e', run_shapes fa (rwith_all_compliant true c) thr g = inr e'.
Proof. exact run_all_compliant_failure_mono. Qed.
Print Assumptions C13_run_all_compliant_failure_mono.

(** O5 when both runs succeed *)
Theorem C13_run_disable_or_statements : forall fa c (thr : F fa) g ns_t L_t ns_f L_f,
  run_shapes fa (rwith_disable_or true c) thr g = inl (ns_t, L_t) ->
  run_shapes fa (rwith_disable_or false c) thr g = inl (ns_f, L_f) ->
  ns_t = ns_f /\ Forall2 (shape_rel (fun _ => or_rel)) L_t L_f.
Proof. exact run_disable_or. Qed.
Print Assumptions C13_run_disable_or_statements.

(** non-vacuity at run level (default configuration): three instances, one
    with property q, all with two values of property r *)
Definition g_opts : graph :=
  [ty "a" "C"; ty "b" "C"; ty "c" "C"; lit "a" "q" "x";
   lit "a" "r" "x"; lit "a" "r" "y"; lit "b" "r" "x"; lit "b" "r" "y"; lit "c" "r" "x"; lit "c" "r" "y"].

Example C13_run_options_act :
  run_shapes BAlg (rwith_disable_comments true base_rcfg) thr0 g_opts <>
  run_shapes BAlg (rwith_disable_comments false base_rcfg) thr0 g_opts /\
  run_shapes BAlg (rwith_allow_opt false base_rcfg) thr0 g_opts <>
  run_shapes BAlg (rwith_allow_opt true base_rcfg) thr0 g_opts /\
  run_shapes BAlg (rwith_all_compliant false base_rcfg) thr0 g_opts <>
  run_shapes BAlg (rwith_all_compliant true base_rcfg) thr0 g_opts /\
  run_shapes BAlg (rwith_disable_exact true base_rcfg) thr0 g_opts <>
  run_shapes BAlg (rwith_disable_exact false base_rcfg) thr0 g_opts /\
  run_shapes BAlg (rwith_disable_or false base_rcfg) thr0 g_reftie_1 <>
  run_shapes BAlg (rwith_disable_or true base_rcfg) thr0 g_reftie_1 /\
  rO4_dom base_rcfg.
Proof. repeat split; try (vm_compute; discriminate). left. reflexivity. Qed.

(** ** The options at the level of the TEXT (Proofs/TextOptions.v).

    [render_slines] is the ShExC serialiser with the structure of every line kept:
    [LCode code trail] = the line [code ++ trail ++ "\n"], [trail] empty or blanks followed
    by a ["# ..."] comment (frequency of a constraint, instance count of a shape);
    [LNote text] = a whole-line comment.  [flat] / [flat_text] give the bytes back.
    [uncomment] drops every [LNote] and empties every trail; [skeleton] forgets what the
    comment segments say and keeps where they are.  [run_slines] is [run_shexc] with the
    structure kept. *)
From Shexer Require Import Proofs.TextOptions.

(** the structured serialiser IS the serialiser: same lines, byte for byte, same failures,
    for every configuration and shape list *)
Theorem C13_text_lines_structure : forall z l,
  render_lines z l = option_map (map flat) (render_slines z l) /\
  render z l = option_map flat_text (render_slines z l).
Proof. intros. split; [apply render_lines_flat | apply render_flat]. Qed.
Print Assumptions C13_text_lines_structure.

Theorem C13_run_shexc_structure : forall fa c (thr : F fa) g,
  run_shexc fa c thr g = map_res flat_text (run_slines fa c thr g).
Proof. exact run_shexc_flat. Qed.
Print Assumptions C13_run_shexc_structure.

(** O1 [disable_comments], text: rendering the comment-free shapes with [disable_comments]
    gives the document rendered with comments, every comment removed -- whole-line comments
    gone, trailing comments cut, every code part and every other line untouched; the two
    renderings fail together.  ([z'] renders tokens like [z]; its report mode is free.) *)
Theorem C13_text_disable_comments : forall z z' l,
  same_tokens z z' -> z_disable_comments z' = true ->
  render_slines z' (map_shapes drop_comments l) = option_map uncomment (render_slines z l) /\
  render z' (map_shapes drop_comments l) = option_map (fun sl => flat_text (uncomment sl)) (render_slines z l) /\
  render z l = option_map flat_text (render_slines z l).
Proof.
  intros z z' l Ht Hd. split; [now apply render_slines_disable_comments | now apply text_disable_comments].
Qed.
Print Assumptions C13_text_disable_comments.

(** ... combined with [C13_run_disable_comments]: the TEXT of the run with
    [disable_comments=True] is the text of the run with [disable_comments=False] with every
    comment removed; the two runs fail together, with the same error *)
Theorem C13_run_shexc_disable_comments : forall fa c (thr : F fa) g,
  run_slines fa (rwith_disable_comments true c) thr g =
    map_res uncomment (run_slines fa (rwith_disable_comments false c) thr g) /\
  run_shexc fa (rwith_disable_comments true c) thr g =
    map_res (fun sl => flat_text (uncomment sl)) (run_slines fa (rwith_disable_comments false c) thr g) /\
  run_shexc fa (rwith_disable_comments false c) thr g =
    map_res flat_text (run_slines fa (rwith_disable_comments false c) thr g).
Proof.
  intros. split; [apply run_slines_disable_comments | apply run_shexc_disable_comments].
Qed.
Print Assumptions C13_run_shexc_disable_comments.

(** O6 [instances_report_mode], text: two renderings of the same shapes that render tokens
    alike (report mode and [disable_comments] free) have the same lines, the same code on
    every line, whole-line comments at the same places: they differ only INSIDE comment
    segments.  At run level the shapes are the same ([C13_instances_report_mode]). *)
Theorem C13_text_report_mode_structure : forall z1 z2 l,
  same_tokens z1 z2 ->
  option_map skeleton (render_slines z1 l) = option_map skeleton (render_slines z2 l).
Proof. exact render_slines_skeleton. Qed.
Print Assumptions C13_text_report_mode_structure.

Theorem C13_run_shexc_report_mode_structure : forall fa m c (thr : F fa) g,
  map_res skeleton (run_slines fa (with_mode m c) thr g) = map_res skeleton (run_slines fa c thr g).
Proof. exact run_slines_report_mode. Qed.
Print Assumptions C13_run_shexc_report_mode_structure.

(** with comments disabled the report mode is invisible: the two texts are EQUAL *)
Theorem C13_run_shexc_report_mode_no_comments : forall fa m c (thr : F fa) g,
  run_shexc fa (with_mode m (rwith_disable_comments true c)) thr g =
  run_shexc fa (rwith_disable_comments true c) thr g.
Proof. exact run_shexc_report_mode_no_comments. Qed.
Print Assumptions C13_run_shexc_report_mode_no_comments.

(** *** the same on BYTES.  [code_lines t] is a comment stripper defined on the raw text (cut
    at newlines; the comment of a line starts at the first '#' outside an IRI reference
    [<...>]; trailing blanks go; a comment-only line disappears).  [scannable sl] (decidable,
    evaluated on the rendered document; a PREMISE, not derived from the graph): no token holds
    a newline or a '#' outside [<...>], every [<] is closed, comment segments start with '#'. *)
Theorem C13_code_lines_read_structure : forall sl,
  scannable sl = true ->
  code_lines (flat_text sl) = map line_code (uncomment sl) ++ [[]] /\
  code_lines (flat_text (uncomment sl)) = code_lines (flat_text sl).
Proof. intros sl H. split; [now apply code_lines_flat | now apply code_lines_uncomment]. Qed.
Print Assumptions C13_code_lines_read_structure.

Theorem C13_run_shexc_disable_comments_bytes : forall fa c (thr : F fa) g sl,
  run_slines fa (rwith_disable_comments false c) thr g = inl sl -> scannable sl = true ->
  exists t t', run_shexc fa (rwith_disable_comments false c) thr g = inl t /\
               run_shexc fa (rwith_disable_comments true c) thr g = inl t' /\
               t = flat_text sl /\ t' = flat_text (uncomment sl) /\
               code_lines t' = code_lines t.
Proof. exact run_shexc_disable_comments_bytes. Qed.
Print Assumptions C13_run_shexc_disable_comments_bytes.

Theorem C13_run_shexc_report_mode_bytes : forall fa m c (thr : F fa) g sl1 sl2,
  run_slines fa (with_mode m c) thr g = inl sl1 -> run_slines fa c thr g = inl sl2 ->
  scannable sl1 = true -> scannable sl2 = true ->
  exists t1 t2, run_shexc fa (with_mode m c) thr g = inl t1 /\ run_shexc fa c thr g = inl t2 /\
                code_lines t1 = code_lines t2.
Proof. exact run_shexc_report_mode_bytes. Qed.
Print Assumptions C13_run_shexc_report_mode_bytes.

(** non-vacuity on [g_opts] (IRIs with '#' inside [<...>], trailing and whole-line comments):
    the documents are scannable, the options change the text, the code lines agree *)
Definition sl_of (c : rcfg) : list sline :=
  match run_slines BAlg c thr0 g_opts with inl sl => sl | inr _ => [] end.
Definition text_of (c : rcfg) : str :=
  match run_shexc BAlg c thr0 g_opts with inl t => t | inr _ => [] end.

Example C13_text_options_act :
  (exists sl, run_slines BAlg (rwith_disable_comments false base_rcfg) thr0 g_opts = inl sl /\
              scannable sl = true /\ existsb (fun l => match l with LNote _ => true | _ => false end) sl = true) /\
  scannable (sl_of (with_mode FAbs base_rcfg)) = true /\
  scannable (sl_of (with_mode FRatio base_rcfg)) = true /\
  text_of (rwith_disable_comments true base_rcfg) <> text_of (rwith_disable_comments false base_rcfg) /\
  text_of (with_mode FAbs base_rcfg) <> text_of base_rcfg /\
  text_of (with_mode FRatio base_rcfg) <> text_of base_rcfg /\
  code_lines (text_of (rwith_disable_comments true base_rcfg)) = code_lines (text_of base_rcfg) /\
  code_lines (text_of (with_mode FAbs base_rcfg)) = code_lines (text_of base_rcfg) /\
  List.length (code_lines (text_of base_rcfg)) = 11%nat.
Proof.
  split; [eexists; split; [vm_compute; reflexivity | split; vm_compute; reflexivity]|].
  split; [vm_compute; reflexivity|]. split; [vm_compute; reflexivity|].
  split; [vm_compute; discriminate|]. split; [vm_compute; discriminate|]. split; [vm_compute; discriminate|].
  split; [vm_compute; reflexivity|]. split; vm_compute; reflexivity.
Qed.

(** *** the same through the SPEC lexer of ShExC ([Spec/ShexcGrammar.v], written for C05 from
    the ShEx 2.1 grammar; it skips blanks and comments).  On C05's domain -- a condition on the
    namespaces and the shapes the serialiser receives, not on the text -- both runs succeed and
    their texts are the SAME token stream: [disable_comments] and [instances_report_mode]
    change comments only, never the schema the document denotes. *)
From Shexer Require Model.C05Dom Spec.ShexcGrammar.

Theorem C13_text_lex_disable_comments : forall fa c (thr : F fa) g ns shapes,
  run_shapes fa (rwith_disable_comments false c) thr g = inl (ns, shapes) ->
  C05Dom.C05_dom (sercfg_of (rwith_disable_comments false c) ns) shapes = true ->
  exists t t', run_shexc fa (rwith_disable_comments false c) thr g = inl t /\
               run_shexc fa (rwith_disable_comments true c) thr g = inl t' /\
               ShexcGrammar.lex t = ShexcGrammar.lex t' /\ ShexcGrammar.lex t <> None.
Proof. exact run_shexc_lex_disable_comments. Qed.
Print Assumptions C13_text_lex_disable_comments.

Theorem C13_text_lex_report_mode : forall fa m c (thr : F fa) g ns shapes,
  run_shapes fa c thr g = inl (ns, shapes) -> C05Dom.C05_dom (sercfg_of c ns) shapes = true ->
  exists t1 t2, run_shexc fa (with_mode m c) thr g = inl t1 /\ run_shexc fa c thr g = inl t2 /\
                ShexcGrammar.lex t1 = ShexcGrammar.lex t2 /\ ShexcGrammar.lex t1 <> None.
Proof. exact run_shexc_lex_report_mode. Qed.
Print Assumptions C13_text_lex_report_mode.

Example C13_text_lex_inhabited :
  exists ns shapes, run_shapes BAlg base_rcfg thr0 g_opts = inl (ns, shapes) /\
                    C05Dom.C05_dom (sercfg_of base_rcfg ns) shapes = true /\
                    ShexcGrammar.lex (text_of base_rcfg) = ShexcGrammar.lex (text_of (rwith_disable_comments true base_rcfg)) /\
                    ShexcGrammar.lex (text_of base_rcfg) <> None.
Proof.
  eexists _, _. split; [vm_compute; reflexivity|]. split; [vm_compute; reflexivity|].
  split; [vm_compute; reflexivity | vm_compute; discriminate].
Qed.

(** *** [namespaces_dict], text.  Under two dictionaries (each leaving a priority prefix free for
    the shapes namespace: both runs succeed) the documents spell IRIs differently and declare
    different prefixes.  [expand_text] acts on the Spec lexer's token stream: it drops the
    leading PREFIX directives and replaces every prefixed name by the IRI it denotes under the
    document's OWN declarations.  On C05's domain for both runs the two expanded streams are
    EQUAL: the two texts state the same constraints. *)
Theorem C13_text_namespaces : forall fa ns' c (thr : F fa) g ns1 l1 ns2 l2,
  run_shapes fa (with_rns ns' c) thr g = inl (ns1, l1) -> run_shapes fa c thr g = inl (ns2, l2) ->
  C05Dom.C05_dom (sercfg_of (with_rns ns' c) ns1) l1 = true -> C05Dom.C05_dom (sercfg_of c ns2) l2 = true ->
  exists t1 t2 ts1 ts2, run_shexc fa (with_rns ns' c) thr g = inl t1 /\ run_shexc fa c thr g = inl t2 /\
                        ShexcGrammar.lex t1 = Some ts1 /\ ShexcGrammar.lex t2 = Some ts2 /\
                        expand_text ts1 = expand_text ts2.
Proof. exact run_shexc_lex_namespaces. Qed.
Print Assumptions C13_text_namespaces.

Definition ns_user : nsdict := [(Str "http://ex.org/", Str "ex"); (Str "http://www.w3.org/2001/XMLSchema#", Str "xsd")].

Example C13_text_namespaces_acts :
  (exists ns1 l1 ns2 l2,
     run_shapes BAlg (with_rns ns_user base_rcfg) thr0 g_opts = inl (ns1, l1) /\
     run_shapes BAlg base_rcfg thr0 g_opts = inl (ns2, l2) /\
     C05Dom.C05_dom (sercfg_of (with_rns ns_user base_rcfg) ns1) l1 = true /\
     C05Dom.C05_dom (sercfg_of base_rcfg ns2) l2 = true) /\
  ShexcGrammar.lex (text_of (with_rns ns_user base_rcfg)) <> ShexcGrammar.lex (text_of base_rcfg) /\
  option_map expand_text (ShexcGrammar.lex (text_of (with_rns ns_user base_rcfg))) =
  option_map expand_text (ShexcGrammar.lex (text_of base_rcfg)) /\
  ShexcGrammar.lex (text_of base_rcfg) <> None.
Proof.
  split.
  - eexists _, _, _, _. split; [vm_compute; reflexivity|]. split; [vm_compute; reflexivity|].
    split; vm_compute; reflexivity.
  - split; [vm_compute; discriminate|]. split; [vm_compute; reflexivity | vm_compute; discriminate].
Qed.

(** ** Known finding C13-F2: [shapes_namespace] is NOT a pure relabelling.

    Root cause of C05-F1 (the profiler mints shape references in the DEFAULT
    shapes namespace whatever [shapes_namespace] says), seen from C13: the
    cleaning of empty shapes deletes the candidates that refer to a removed
    shape by comparing NAMES, so under a custom namespace the reference to a
    shape removed as empty survives the cleaning and wins the node-kind merge,
    where under the default namespace the constraint falls back to [IRI].
    The shape of K1 is empty here because [namespaces_to_ignore] covers the
    instantiation property (no typing constraint) and its only property is
    held by half of its instances (threshold 1).  Same graph, same options,
    two shapes namespaces: [ex:p IRI] against [ex:p @<http://weso.es/shapes/K1>]. *)
From Shexer Require Model.NsFilter Model.Run2.

Definition c13_sn_cfg (shapes_ns : str) : rcfg :=
  {| r_tau := c_RDF_TYPE; r_targets := None; r_ns := []; r_shapes_ns := shapes_ns; r_cap := (-1)%Z;
     r_inverse := false; r_remove_empty := true; r_discard_useless := true; r_keep_less_specific := true;
     r_all_compliant := true; r_disable_or := true; r_allow_redundant_or := false; r_allow_opt := true;
     r_disable_exact := false; r_disable_comments := false; r_mode := FMixed |}.

Definition c13_sn_iri (s : string) : node := Node Rdf.KIri (Str s).

Definition c13_sn_graph : graph :=
  [T (c13_sn_iri "http://ex.org/a") c_RDF_TYPE (ON (c13_sn_iri "http://ex.org/K0"));
   T (c13_sn_iri "http://ex.org/b") c_RDF_TYPE (ON (c13_sn_iri "http://ex.org/K1"));
   T (c13_sn_iri "http://ex.org/c") c_RDF_TYPE (ON (c13_sn_iri "http://ex.org/K1"));
   T (c13_sn_iri "http://ex.org/a") (Str "http://ex.org/p") (ON (c13_sn_iri "http://ex.org/b"));
   T (c13_sn_iri "http://ex.org/b") (Str "http://ex.org/q") (OL (Str "v") (Str "http://www.w3.org/2001/XMLSchema#string"))].

Definition c13_sn_ign : list str := [Str "http://www.w3.org/1999/02/22-rdf-syntax-ns#"].

(** per shape: its name and the value types of its constraints *)
Definition c13_sn_types (c : rcfg) : list (str * list (list str)) :=
  match Run2.run_shapes2 BAlg c (b_ratio 1 1) c13_sn_graph (NsFilter.filter_ns c13_sn_ign c13_sn_graph) with
  | inl (_, l) => map (fun s => (sh_name s, map s_types (sh_stmts s))) l
  | inr _ => []
  end.

Lemma C13_shapes_namespace_refuted :
  c_clean_before_merge = true ->     (* the order of ClassShexer.shex_classes since a3b99df (generated flag) *)
  c13_sn_types (c13_sn_cfg c_SHAPES_DEFAULT_NAMESPACE) =
    [(Str "%<http://weso.es/shapes/K0>", [[Str "IRI"]])] /\
  c13_sn_types (c13_sn_cfg (Str "http://my.shapes/ns#")) =
    [(Str "%<http://my.shapes/ns#K0>", [[Str "%<http://weso.es/shapes/K1>"]])].
Proof. intros E; first [ vm_compute in E; discriminate E | split; vm_compute; reflexivity ]. Qed.
