(** * C18 -- results depend only on the arguments, not on output channel or call history
    (state of the code AFTER notes/proposed_fixes/C18-*.diff) *)
From Coq Require Import List Ascii String ZArith Bool.
From Shexer Require Import Lib.PyStr Lib.Dict Gen.Consts Model.Determinism Model.ShaperApi Model.ApiFree
     Model.EntryC18 Spec.ApiSpec Proofs.ApiProofs.
Import ListNotations.

(** (a) Channel.  The ShExC serialiser buffers lines and flushes every
    [fs] lines ([c_flush_size] = the constant in [_write_line], taken from the
    source) and once more at the end.  For EVERY list of lines, of any length,
    every flush size (also the degenerate ones) and whatever the target file
    held before: the file ends up holding byte for byte the string that
    [string_output=True] returns, which is the concatenation of the lines. *)
Theorem C18_file_eq_string : forall (fs : Z) (old_file : str) (lines : list str),
  file_content fs old_file lines = string_result fs lines /\
  string_result fs lines = List.concat lines.
Proof. intros. split; [apply file_eq_string | apply string_result_concat]. Qed.
Print Assumptions C18_file_eq_string.

(** (b) History -- the property's full statement.  For every pipeline (the
    stage functions are universally quantified), every well-formed history of
    ANY length over any number of Shapers -- calls name existing Shapers,
    [DShared] names an existing caller dictionary, no constructor needs the
    random prefix -- every call returns / writes [pure] of its own arguments
    and of its Shaper's constructor arguments ([Spec/ApiSpec.v]), on either
    channel: later thresholds and formats are honoured, repeated calls agree,
    Shapers sharing a caller dictionary do not see each other.
    Hypotheses: [thr_eqb] (the code's [!=] on thresholds) only answers "equal"
    for equal thresholds; the SHACL serialiser ignores example comments
    (external stage, monitored). *)
Theorem C18_pure :
  forall (args tcd prof shapes thr : Type)
         (a_shapes_ns : args -> str) (a_examples : args -> option str)
         (st_track : args -> nsd -> tcd) (st_reader_ns : args -> nsd -> nsd)
         (st_profile : args -> nsd -> tcd -> prof) (st_shex : args -> nsd -> prof -> thr -> shapes)
         (st_add_examples : args -> nsd -> shapes -> shapes)
         (st_shexc_lines : args -> nsd -> shapes -> list str)
         (st_shacl_text : args -> nsd -> shapes -> str) (st_profile_text : prof -> str)
         (rand : nat -> str) (fuel : nat) (thr_eqb : thr -> thr -> bool),
    (forall a b, thr_eqb a b = true -> a = b) ->
    (forall a d d' s, st_shacl_text a d (st_add_examples a d' s) = st_shacl_text a d s) ->
    forall h : list (op args thr),
      C18_dom args thr h = true ->
      run args tcd prof shapes thr a_shapes_ns a_examples st_track st_reader_ns st_profile st_shex
          st_add_examples st_shexc_lines st_shacl_text st_profile_text rand fuel thr_eqb h
      = spec args tcd prof shapes thr a_shapes_ns a_examples st_track st_reader_ns st_profile st_shex
             st_add_examples st_shexc_lines st_shacl_text st_profile_text rand fuel h.
Proof. exact history_pure. Qed.
Print Assumptions C18_pure.

(** the same for the free instance the correspondence check runs *)
Theorem C18_free_pure : forall h : list fop, f_dom h = true -> f_run h = f_spec h.
Proof.
  intros h H. apply (history_pure fargs str str fshapes str) with (thr_eqb := str_eqb); auto.
  intros a b E. now apply str_eqb_eq.
Qed.
Print Assumptions C18_free_pure.

(** ** concrete histories (free instance) *)
Definition nsW : str := Str "http://weso.es/shapes/".
Definition argsA : fargs := mkFargs (Str "A") nsW None [].
Definition argsB : fargs := mkFargs (Str "B") nsW None [].
Definition argsE : fargs := mkFargs (Str "A") nsW (Some (Str "all")) [].
Definition dEx : nsd := [(Str "http://ex.org/", Str "ex")].
Definition t0 : str := Str "0".
Definition t1 : str := Str "1".

(** non-vacuity: eight operations on two Shapers *)
Definition c18_example : list fop :=
  [New argsA (DNew dEx); Profile 0 SString; Shex 0 ShExC SFile t1; New argsE (DShared 0);
   Shex 0 SHACL SString t0; Shex 1 ShExC SString t0; Shex 0 ShExC SFile t1; Shex 1 ShExC SString t1].
Example C18_dom_inhabited : f_dom c18_example = true /\ f_run c18_example = f_spec c18_example.
Proof. split; vm_compute; reflexivity. Qed.

(** regression: the four histories that refuted the statement before the
    repairs (findings C18-F1..F4, now fixed) *)
Definition h_threshold : list fop := [New argsA DNone; Shex 0 ShExC SString t0; Shex 0 ShExC SString t1].
Definition h_shacl : list fop := [New argsA DNone; Shex 0 SHACL SString t0; Shex 0 ShExC SString t0].
Definition h_shared : list fop :=
  [New argsA (DNew dEx); Shex 0 ShExC SString t0; New argsB (DShared 0); Shex 0 ShExC SString t0].
Definition h_examples : list fop := [New argsE DNone; Shex 0 ShExC SString t0; Shex 0 ShExC SString t0].
Example C18_former_witnesses :
  f_run h_threshold = f_spec h_threshold /\ f_run h_shacl = f_spec h_shacl /\
  f_run h_shared = f_spec h_shared /\ f_run h_examples = f_spec h_examples.
Proof. repeat split; vm_compute; reflexivity. Qed.
