(** * C18 -- results depend only on the arguments, not on output channel or call history
    (state of the code AFTER notes/proposed_fixes/C18-*.diff) *)
From Coq Require Import List Ascii String ZArith Bool.
From Shexer Require Import Lib.PyStr Lib.Dict Gen.Consts Model.Determinism Model.ShaperApi Model.ApiFree
     Model.EntryC18 Spec.ApiSpec Proofs.ApiProofs.
Import ListNotations.

(** (a) Channel.  The ShExC serialiser buffers lines and flushes every
    [fs] lines ([c_flush_size] = the constant in [_write_line], taken from the
    source) and once more at the end.  For EVERY list of lines, of any length,
    every flush size (also the degenerate ones) and whatever the target file
    held before: the file ends up holding byte for byte the string that
    [string_output=True] returns, which is the concatenation of the lines. *)
Theorem C18_file_eq_string : forall (fs : Z) (old_file : str) (lines : list str),
  file_content fs old_file lines = string_result fs lines /\
  string_result fs lines = List.concat lines.
Proof. intros. split; [apply file_eq_string | apply string_result_concat]. Qed.
Print Assumptions C18_file_eq_string.

(** (b) History -- the property's full statement.  For every pipeline (the
    stage functions are universally quantified), every well-formed history of
    ANY length over any number of Shapers -- calls name existing Shapers,
    [DShared] names an existing caller dictionary, no constructor needs the
    random prefix -- every call returns / writes [pure] of its own arguments
    and of its Shaper's constructor arguments ([Spec/ApiSpec.v]), on either
    channel: later thresholds and formats are honoured, repeated calls agree,
    Shapers sharing a caller dictionary do not see each other.
    Hypotheses: [thr_eqb] (the code's [!=] on thresholds) only answers "equal"
    for equal thresholds; the SHACL serialiser ignores example comments
    (external stage, monitored). *)
Theorem C18_pure :
  forall (args tcd prof shapes thr : Type)
         (a_shapes_ns : args -> str) (a_examples : args -> option str)
         (st_track : args -> nsd -> tcd) (st_reader_ns : args -> nsd -> nsd)
         (st_profile : args -> nsd -> tcd -> prof) (st_shex : args -> nsd -> prof -> thr -> shapes)
         (st_add_examples : args -> nsd -> shapes -> shapes)
         (st_shexc_lines : args -> nsd -> shapes -> list str)
         (st_shacl_text : args -> nsd -> shapes -> str) (st_profile_text : prof -> str)
         (rand : nat -> str) (fuel : nat) (thr_eqb : thr -> thr -> bool),
    (forall a b, thr_eqb a b = true -> a = b) ->
    (forall a d d' s, st_shacl_text a d (st_add_examples a d' s) = st_shacl_text a d s) ->
    forall h : list (op args thr),
      C18_dom args thr h = true ->
      run args tcd prof shapes thr a_shapes_ns a_examples st_track st_reader_ns st_profile st_shex
          st_add_examples st_shexc_lines st_shacl_text st_profile_text rand fuel thr_eqb h
      = spec args tcd prof shapes thr a_shapes_ns a_examples st_track st_reader_ns st_profile st_shex
             st_add_examples st_shexc_lines st_shacl_text st_profile_text rand fuel h.
Proof. exact history_pure. Qed.
Print Assumptions C18_pure.

(** the same for the free instance the correspondence check runs *)
Theorem C18_free_pure : forall h : list fop, f_dom h = true -> f_run h = f_spec h.
Proof.
  intros h H. apply (history_pure fargs str str fshapes str) with (thr_eqb := str_eqb); auto.
  intros a b E. now apply str_eqb_eq.
Qed.
Print Assumptions C18_free_pure.

(** ** concrete histories (free instance) *)
Definition nsW : str := Str "http://weso.es/shapes/".
Definition argsA : fargs := mkFargs (Str "A") nsW None [].
Definition argsB : fargs := mkFargs (Str "B") nsW None [].
Definition argsE : fargs := mkFargs (Str "A") nsW (Some (Str "all")) [].
Definition dEx : nsd := [(Str "http://ex.org/", Str "ex")].
Definition t0 : str := Str "0".
Definition t1 : str := Str "1".

(** non-vacuity: eight operations on two Shapers *)
Definition c18_example : list fop :=
  [New argsA (DNew dEx); Profile 0 SString; Shex 0 ShExC SFile t1; New argsE (DShared 0);
   Shex 0 SHACL SString t0; Shex 1 ShExC SString t0; Shex 0 ShExC SFile t1; Shex 1 ShExC SString t1].
Example C18_dom_inhabited : f_dom c18_example = true /\ f_run c18_example = f_spec c18_example.
Proof. split; vm_compute; reflexivity. Qed.

(** regression: the four histories that refuted the statement before the
    repairs (findings C18-F1..F4, now fixed) *)
Definition h_threshold : list fop := [New argsA DNone; Shex 0 ShExC SString t0; Shex 0 ShExC SString t1].
Definition h_shacl : list fop := [New argsA DNone; Shex 0 SHACL SString t0; Shex 0 ShExC SString t0].
Definition h_shared : list fop :=
  [New argsA (DNew dEx); Shex 0 ShExC SString t0; New argsB (DShared 0); Shex 0 ShExC SString t0].
Definition h_examples : list fop := [New argsE DNone; Shex 0 ShExC SString t0; Shex 0 ShExC SString t0].
Example C18_former_witnesses :
  f_run h_threshold = f_spec h_threshold /\ f_run h_shacl = f_spec h_shacl /\
  f_run h_shared = f_spec h_shared /\ f_run h_examples = f_spec h_examples.
Proof. repeat split; vm_compute; reflexivity. Qed.

(** ** (c) The API machine over the CONCRETE pipeline (Proofs/ApiPipeline.v).

    The abstract stages of (b) are instantiated with the validated pipeline model:
    tracker := [Tracker.track], profiler := [Profiler.profile], shexing :=
    [Shexing.shex BAlg], ShExC lines := [SerialShexc.render_lines], constructor
    dictionary = [Run.full_ns]; the reader pass leaves the dictionary alone (line
    readers), examples_mode is off.  The SHACL text, the profile text, the random
    oracle with its fuel and the threshold test stay universally quantified.  An
    exception of a stage is an error value delivered as a reserved one-line text
    that no rendering can be ([C18_result_read_back]).

    [cfg_of a d] = the run configuration of constructor arguments [a] with the
    VALUE [d] of the dictionary argument; [shapers_of h] = the (arguments,
    dictionary value) of the Shapers the history creates, in order. *)
From Shexer Require Import Lib.Bin64 Spec.Rdf Model.Tracker Model.Tokens Model.Freq Model.FreqInst
     Model.Shexing Model.SerialShexc Model.Run Proofs.ShexBasics Proofs.ApiPipeline Proofs.RunWitness.

(** For every well-formed history -- any length, any number of Shapers, shared
    dictionaries, SHACL and profile calls anywhere in between -- the text returned
    by / the file written by EVERY [shex_graph(ShExC, sink k, threshold t)] call
    is [Run.run_shexc BAlg] of the configuration of ITS Shaper's constructor
    arguments, ITS threshold and the graph: the history-free pipeline model is
    what every call computes (an error of the pipeline is the same error). *)
Theorem C18_shex_calls_are_run_shexc :
  forall (shacl_text : cargs -> nsd -> cshapes -> str) (profile_text : cprof -> str)
         (rand : nat -> str) (fuel : nat) (thr_eqb : F BAlg -> F BAlg -> bool),
    (forall x y, thr_eqb x y = true -> x = y) ->
    forall h : list (op cargs (F BAlg)),
      C18_dom cargs (F BAlg) h = true ->
      forall n i k t, nth_error h n = Some (Shex i ShExC k t) ->
      exists a d, nth_error (shapers_of BAlg h) i = Some (a, d) /\
                  nth_error (run_conc BAlg shacl_text profile_text rand fuel thr_eqb h) n
                  = Some (deliver k (run_shexc BAlg (cfg_of a d) t (ca_graph a))).
Proof. exact (shex_calls_are_run_shexc BAlg). Qed.
Print Assumptions C18_shex_calls_are_run_shexc.

(** the outcome determines the [str + rerr] result of the pipeline model *)
Theorem C18_result_read_back : forall c t g k,
  result_of (deliver k (run_shexc BAlg c t g)) = Some (run_shexc BAlg c t g).
Proof. exact (result_of_deliver BAlg). Qed.
Print Assumptions C18_result_read_back.

(** [run_shexc] is the composition of exactly the stage functions handed to the machine *)
Theorem C18_run_shexc_is_the_stages : forall a d t,
  run_shexc BAlg (cfg_of a d) t (ca_graph a) =
  match full_ns (cfg_of a d) with
  | None => inr RERandom
  | Some d1 => map_res (@List.concat ascii)
                 (cs_lines_res a d1 (cs_shex BAlg a d1 (cs_profile a d1 (cs_track a d1)) t))
  end.
Proof. exact (run_shexc_stages BAlg). Qed.
Print Assumptions C18_run_shexc_is_the_stages.

(** a repeated call -- same Shaper, same threshold, either channel, whatever happened in
    between -- yields the same text *)
Theorem C18_repeat_call_same_text :
  forall (shacl_text : cargs -> nsd -> cshapes -> str) (profile_text : cprof -> str)
         (rand : nat -> str) (fuel : nat) (thr_eqb : F BAlg -> F BAlg -> bool),
    (forall x y, thr_eqb x y = true -> x = y) ->
    forall h : list (op cargs (F BAlg)),
      C18_dom cargs (F BAlg) h = true ->
      forall n1 n2 i k1 k2 t,
        nth_error h n1 = Some (Shex i ShExC k1 t) -> nth_error h n2 = Some (Shex i ShExC k2 t) ->
        exists o1 o2,
          nth_error (run_conc BAlg shacl_text profile_text rand fuel thr_eqb h) n1 = Some o1 /\
          nth_error (run_conc BAlg shacl_text profile_text rand fuel thr_eqb h) n2 = Some o2 /\
          outcome_text o1 = outcome_text o2 /\ result_of o1 = result_of o2.
Proof. exact (repeat_call_same_text BAlg). Qed.
Print Assumptions C18_repeat_call_same_text.

(** the threshold of each call is honoured: two calls on one Shaper with thresholds [t1] and
    [t2] return the two [run_shexc] texts of the same configuration and graph *)
Theorem C18_threshold_honoured :
  forall (shacl_text : cargs -> nsd -> cshapes -> str) (profile_text : cprof -> str)
         (rand : nat -> str) (fuel : nat) (thr_eqb : F BAlg -> F BAlg -> bool),
    (forall x y, thr_eqb x y = true -> x = y) ->
    forall h : list (op cargs (F BAlg)),
      C18_dom cargs (F BAlg) h = true ->
      forall n1 n2 i k1 k2 t1 t2,
        nth_error h n1 = Some (Shex i ShExC k1 t1) -> nth_error h n2 = Some (Shex i ShExC k2 t2) ->
        exists a d, nth_error (shapers_of BAlg h) i = Some (a, d) /\
          nth_error (run_conc BAlg shacl_text profile_text rand fuel thr_eqb h) n1
          = Some (deliver k1 (run_shexc BAlg (cfg_of a d) t1 (ca_graph a))) /\
          nth_error (run_conc BAlg shacl_text profile_text rand fuel thr_eqb h) n2
          = Some (deliver k2 (run_shexc BAlg (cfg_of a d) t2 (ca_graph a))).
Proof. exact (threshold_honoured BAlg). Qed.
Print Assumptions C18_threshold_honoured.

(** non-vacuity: a concrete history over the concrete pipeline (two Shapers sharing the
    caller's dictionary, two thresholds, both channels, a SHACL call in between); the two
    thresholds give two different texts *)
Definition frac_eqb (x y : F BAlg) : bool := Z.eqb (fst x) (fst y) && Z.eqb (snd x) (snd y).
Lemma frac_eqb_eq x y : frac_eqb x y = true -> x = y.
Proof.
  destruct x, y. unfold frac_eqb. cbn. intros H. apply andb_true_iff in H as [H1 H2].
  apply Z.eqb_eq in H1, H2. now subst.
Qed.

Definition g18 : graph :=
  [ty "a" "C"; ty "b" "C"; ty "c" "C"; lit "a" "q" "x"; lit "a" "r" "x"; lit "b" "r" "x"; lit "c" "r" "x"].
Definition a18 : cargs := mkCargs base_rcfg g18.
Definition thr1 : F BAlg := b_ratio 1 1.
Definition h18 : list (op cargs (F BAlg)) :=
  [New a18 (DNew dEx); Shex 0 ShExC SString thr0; Shex 0 ShExC SFile thr1; New a18 (DShared 0);
   Shex 0 ShExC SFile thr0; Shex 1 ShExC SString thr1; Shex 0 SHACL SString thr0; Shex 0 ShExC SString thr0].

Example C18_pipeline_inhabited :
  C18_dom cargs (F BAlg) h18 = true /\
  run_conc BAlg (fun _ _ _ => []) (fun _ => []) (fun _ => []) 0 frac_eqb h18 =
  [ONew;
   deliver SString (run_shexc BAlg (cfg_of a18 dEx) thr0 g18);
   deliver SFile (run_shexc BAlg (cfg_of a18 dEx) thr1 g18);
   ONew;
   deliver SFile (run_shexc BAlg (cfg_of a18 dEx) thr0 g18);
   deliver SString (run_shexc BAlg (cfg_of a18 dEx) thr1 g18);
   OText [];
   deliver SString (run_shexc BAlg (cfg_of a18 dEx) thr0 g18)] /\
  (exists s0 s1, run_shexc BAlg (cfg_of a18 dEx) thr0 g18 = inl s0 /\
                 run_shexc BAlg (cfg_of a18 dEx) thr1 g18 = inl s1 /\ s0 <> s1).
Proof.
  split; [vm_compute; reflexivity|]. split; [vm_compute; reflexivity|].
  eexists _, _. split; [vm_compute; reflexivity|]. split; [vm_compute; reflexivity|]. discriminate.
Qed.

(** ** (d) the profile channel (Model/ProfileJson.v, Model/RunProfile.v; proofs in
    Proofs/ProfileJsonProofs.v).

    [AbstractProfileSerializer] has no buffer of its own: the string sink is
    [json.dumps(obj, indent=..)] (the chunks of the encoder joined), the file
    sink [json.dump(obj, stream, indent=..)] (the same chunks written in order
    into a file opened with mode [c_profile_json_file_mode] = "w", i.e.
    truncated first).  Both calls carry the same arguments -- read from the
    source into Gen/ConstsProfile.v; the proofs below compute with them -- so
    for EVERY profile object the file holds byte for byte the returned string
    (every byte of it is ASCII: [ensure_ascii]). *)
From Shexer Require Import Gen.ConstsProfile Model.ProfileJson Model.RunProfile Proofs.ProfileJsonProofs.

Theorem C18_profile_file_eq_string : forall inverse P,
  profile_text PFile inverse P = profile_text PString inverse P.
Proof. exact profile_sinks_agree. Qed.
Print Assumptions C18_profile_file_eq_string.

Theorem C18_profile_run_file_eq_string : forall c g,
  run_profile_json PFile c g = run_profile_json PString c g.
Proof. exact run_sinks_agree. Qed.
Print Assumptions C18_profile_run_file_eq_string.

(** the arguments the two sinks are called with *)
Example C18_profile_sink_arguments :
  sink_cfg PFile = sink_cfg PString /\ c_profile_json_file_mode = Str "w" /\
  c_profile_json_str_fn = Str "dumps" /\ c_profile_json_file_fn = Str "dump".
Proof. repeat split; reflexivity. Qed.

(** ** (e) profile_graph inside call histories (Proofs/ProfileApi.v).

    The API machine of (b) with the CONCRETE front -- tracker := [Tracker.track],
    profiler := [Profiler.profile], profile text := [ProfileJson.profile_text] --
    and everything behind the profile left universally quantified (the types of
    shapes and thresholds, the shexing stage, example annotation, ShExC lines,
    SHACL text, the random oracle, the threshold test).  In every well-formed
    history every [profile_graph] call returns / writes [run_profile_json] of the
    constructor arguments of its own Shaper: no earlier or interleaved call
    (shex_graph in any format, on any channel, with any threshold; other
    Shapers sharing the dictionary) changes the profile text, and the two
    channels agree.  That a profile call does not disturb later [shex_graph]
    calls is [C18_shex_calls_are_run_shexc] above (stated for EVERY profile
    text function, so also for this one). *)
From Shexer Require Import Proofs.ProfileApi.

Theorem C18_profile_calls_are_run_profile_json :
  forall (shapes thr : Type) (a_examples : cargs -> option str)
         (st_shex : cargs -> nsd -> pprof -> thr -> shapes)
         (st_add_examples : cargs -> nsd -> shapes -> shapes)
         (st_shexc_lines : cargs -> nsd -> shapes -> list str)
         (st_shacl_text : cargs -> nsd -> shapes -> str)
         (rand : nat -> str) (fuel : nat) (thr_eqb : thr -> thr -> bool),
    (forall x y, thr_eqb x y = true -> x = y) ->
    (forall a d d' s, st_shacl_text a d (st_add_examples a d' s) = st_shacl_text a d s) ->
    forall h : list (op cargs thr),
      C18_dom cargs thr h = true ->
      forall n i k, nth_error h n = Some (Profile i k) ->
      exists a d, nth_error (pshapers_of thr h) i = Some (a, d) /\
                  nth_error (run_prof shapes thr a_examples st_shex st_add_examples st_shexc_lines st_shacl_text
                                      rand fuel thr_eqb h) n
                  = Some (on_channel k (Some (encode (run_profile_json (psink_of k) (cfg_of a d) (ca_graph a))))).
Proof. exact profile_calls_are_run_profile_json. Qed.
Print Assumptions C18_profile_calls_are_run_profile_json.

(** the delivered text determines the [str + rerr] result (a profile text starts with '{') *)
Theorem C18_profile_result_read_back : forall k c g,
  decode (encode (run_profile_json k c g)) = run_profile_json k c g.
Proof. exact profile_result_read_back. Qed.
Print Assumptions C18_profile_result_read_back.

(** non-vacuity: profile calls before, between and after shex_graph calls of two thresholds on
    two Shapers sharing the caller's dictionary; the shexing side is a dummy *)
Definition h18p : list (op cargs unit) :=
  [New a18 (DNew dEx); Profile 0 SFile; Shex 0 ShExC SString tt; New a18 (DShared 0); Profile 1 SString;
   Shex 0 SHACL SFile tt; Profile 0 SString].

Example C18_profile_history_inhabited :
  C18_dom cargs unit h18p = true /\
  exists t, run_profile_json PString (cfg_of a18 dEx) g18 = inl t /\
    run_prof unit unit (fun _ => None) (fun _ _ _ _ => tt) (fun _ _ s => s) (fun _ _ _ => []) (fun _ _ _ => [])
             (fun _ => []) 0 (fun _ _ => true) h18p
    = [ONew; OFile t; OText []; ONew; OText t; OFile []; OText t].
Proof. split; [vm_compute; reflexivity|]. eexists. split; vm_compute; reflexivity. Qed.
