(** * C18 -- results depend only on the arguments, not on output channel or call history *)
From Coq Require Import List Ascii String ZArith Bool.
From Shexer Require Import Lib.PyStr Lib.Dict Gen.Consts Model.Determinism Model.ShaperApi Model.ApiFree
     Model.EntryC18 Spec.ApiSpec Proofs.ApiProofs.
Import ListNotations.

(** (a) Channel.  The ShExC serialiser buffers lines and flushes every
    [fs] lines ([c_flush_size] = the constant in [_write_line], taken from the
    source) and once more at the end.  For EVERY list of lines, of any length,
    every flush size (also the degenerate ones) and whatever the target file
    held before: the file ends up holding byte for byte the string that
    [string_output=True] returns, which is the concatenation of the lines. *)
Theorem C18_file_eq_string : forall (fs : Z) (old_file : str) (lines : list str),
  file_content fs old_file lines = string_result fs lines /\
  string_result fs lines = List.concat lines.
Proof. intros. split; [apply file_eq_string | apply string_result_concat]. Qed.
Print Assumptions C18_file_eq_string.

(** (b) History.  For every pipeline (the stage functions are universally
    quantified), every history of ANY length inside [C18_dom] -- no dictionary
    object handed to two constructors, no random prefix needed, one threshold
    per Shaper, no ShExC call after a SHACL call on one Shaper, at most one
    ShExC call per Shaper when examples_mode mutates the statements -- every
    call returns / writes [pure] of its own arguments and of its Shaper's
    constructor arguments ([Spec/ApiSpec.v]), on either channel.
    Hypotheses: threshold equality is decidable by [thr_eqb]; the SHACL
    serialiser ignores example comments (external stage, monitored).
    PARTIAL: the property claims this for all histories; see the four
    [..._refuted] lemmas below for why that is false of the code as it is. *)
Theorem C18_history_partial :
  forall (args tcd prof shapes thr : Type)
         (a_shapes_ns : args -> str) (a_examples : args -> option str)
         (st_track : args -> nsd -> tcd) (st_reader_ns : args -> nsd -> nsd)
         (st_profile : args -> nsd -> tcd -> prof) (st_shex : args -> nsd -> prof -> thr -> shapes)
         (st_add_examples : args -> nsd -> shapes -> shapes)
         (st_shexc_lines : args -> nsd -> shapes -> list str)
         (st_shacl_text : args -> nsd -> shapes -> str) (st_profile_text : prof -> str)
         (rand : nat -> str) (fuel : nat) (thr_eqb : thr -> thr -> bool),
    (forall a b, thr_eqb a b = true -> a = b) ->
    (forall a d d' s, st_shacl_text a d (st_add_examples a d' s) = st_shacl_text a d s) ->
    forall h : list (op args thr),
      C18_dom args thr a_examples thr_eqb h = true ->
      run args tcd prof shapes thr a_shapes_ns a_examples st_track st_reader_ns st_profile st_shex
          st_add_examples st_shexc_lines st_shacl_text st_profile_text rand fuel h
      = spec args tcd prof shapes thr a_shapes_ns a_examples st_track st_reader_ns st_profile st_shex
             st_add_examples st_shexc_lines st_shacl_text st_profile_text rand fuel h.
Proof. exact history_partial. Qed.
Print Assumptions C18_history_partial.

(** the same for the free instance the correspondence check runs *)
Theorem C18_free_partial : forall h : list fop, f_dom h = true -> f_run h = f_spec h.
Proof.
  intros h H. apply (history_partial fargs str str fshapes str) with (thr_eqb := str_eqb); auto.
  intros a b E. now apply str_eqb_eq.
Qed.
Print Assumptions C18_free_partial.

(** ** concrete histories (free instance) *)
Definition nsW : str := Str "http://weso.es/shapes/".
Definition argsA : fargs := mkFargs (Str "A") nsW None [].
Definition argsB : fargs := mkFargs (Str "B") nsW None [].
Definition argsE : fargs := mkFargs (Str "A") nsW (Some (Str "all")) [].
Definition dEx : nsd := [(Str "http://ex.org/", Str "ex")].
Definition t0 : str := Str "0".
Definition t1 : str := Str "1".

(** non-vacuity: a history of five operations on two Shapers inside the domain,
    with profile, ShExC to a file, SHACL, SHACL again *)
Definition c18_example : list fop :=
  [New argsA (DNew dEx); Profile 0 SString; Shex 0 ShExC SFile t1; New argsE DNone;
   Shex 0 SHACL SString t1; Shex 1 ShExC SString t0; Shex 0 SHACL SFile t1; Shex 1 SHACL SString t0].
Example C18_dom_inhabited : f_dom c18_example = true /\ f_run c18_example = f_spec c18_example.
Proof. split; vm_compute; reflexivity. Qed.

(** ** Known findings: the full statement is false of the code as it is.
    Each witness is a well-formed history whose only departure from [C18_dom]
    is the named root cause. *)

(** a later call's acceptance_threshold is ignored: [_shape_list] is memoised *)
Definition h_threshold : list fop := [New argsA DNone; Shex 0 ShExC SString t0; Shex 0 ShExC SString t1].
Lemma C18_threshold_refuted :
  exists h, f_run h <> f_spec h /\
            nth 2 (f_run h) OErr = nth 1 (f_run h) OErr /\       (* the answer to threshold 1 is the answer to threshold 0 *)
            nth 2 (f_spec h) OErr <> nth 1 (f_spec h) OErr.
Proof.
  exists h_threshold. repeat split; vm_compute; try reflexivity; intro H; discriminate H.
Qed.

(** after a SHACL call the ShExC text gains the SHACL prefix: the serialiser
    writes its namespace into the Shaper's (the caller's) dictionary *)
Definition h_shacl : list fop := [New argsA DNone; Shex 0 SHACL SString t0; Shex 0 ShExC SString t0].
Lemma C18_shacl_prefix_refuted :
  exists h, f_run h <> f_spec h /\
            f_dom (firstn 2 h) = true /\
            nth 0 (final_store fargs str str fshapes str fa_ns fa_ex f_track f_reader_ns f_profile f_shex
                               f_add_examples f_shexc_lines f_shacl_text f_profile_text f_rand f_fuel h) []
            = [(nsW, []); (c18_SHACL_NAMESPACE, Str "sh")].
Proof.
  exists h_shacl. repeat split; vm_compute; try reflexivity; intro H; discriminate H.
Qed.

(** two Shapers built on one caller dictionary: constructing the second
    changes what the first one answers to the very same call *)
Definition h_shared : list fop :=
  [New argsA (DNew dEx); Shex 0 ShExC SString t0; New argsB (DShared 0); Shex 0 ShExC SString t0].
Lemma C18_shared_dict_refuted :
  exists h, f_run h <> f_spec h /\
            nth 3 (f_spec h) OErr = nth 1 (f_spec h) OErr /\
            nth 3 (f_run h) OErr <> nth 1 (f_run h) OErr.
Proof.
  exists h_shared. repeat split; vm_compute; try reflexivity; intro H; discriminate H.
Qed.

(** examples_mode: the example comments are appended to the memoised statement
    objects on every ShExC serialisation, the second text has them twice *)
Definition h_examples : list fop := [New argsE DNone; Shex 0 ShExC SString t0; Shex 0 ShExC SString t0].
Lemma C18_examples_refuted :
  exists h, f_run h <> f_spec h /\
            nth 2 (f_spec h) OErr = nth 1 (f_spec h) OErr /\
            nth 2 (f_run h) OErr <> nth 1 (f_run h) OErr.
Proof.
  exists h_examples. repeat split; vm_compute; try reflexivity; intro H; discriminate H.
Qed.
