(** * C08 -- the extracted shapes do not depend on how the graph is delivered

    The layer proved here is the plumbing that turns a *source* into the two
    triple streams of the two passes (Model/Channels.v).  The character-level
    readers are external: the N-Triples document reader enters as a hypothesis
    ([line_compositional], C06's theorem), the TSV reader is modelled and
    proved here, rdflib is an oracle (a permutation and a blank-node renaming
    per pass). *)
From Coq Require Import List Ascii String ZArith NArith Bool.
From Shexer Require Import Lib.PyStr Lib.Dict Gen.Consts Spec.Rdf Model.Tracker Model.Profiler
     Model.Freq Model.FreqInst Model.SerialShexc Model.Run Model.RunCur Model.Channels Spec.ChannelSpec Proofs.ChannelProofs.
From Coq Require Import Permutation.
From Shexer Require Import Spec.Counts Proofs.EndToEnd Proofs.ChannelCompose.
Import ListNotations.

(** ** (a) the partition of the lines into files / zip members is invisible.

    For a line-based format whose document reader is line-compositional
    (N-Triples: hypothesis; TSV: proved below), ANY partition [lss] of the
    lines into files, read in list order through the multi-file yielder, plain
    or gz / xz compressed (codec = identity on content: [stored_as]), delivers
    the triple stream of the single raw string -- provided blank lines are
    harmless: the reader is blank-silent (N-Triples: hypothesis; TSV: proved
    below, since the fix of C08-F5) or there is no blank line. *)
Theorem C08_partition_invisible :
  forall pyfloat read_nt read_ttl gunzip unxz unzip rdf_parse fmt read o o' cm lss stored,
    line_family pyfloat read_nt fmt read -> line_compositional read ->
    blanks_harmless read (List.concat lss) -> cm_plain cm ->
    Forall (Forall line_ok) lss ->
    Forall2 (stored_as gunzip unxz cm) (map render_lines lss) stored ->
    rd_stream (channel pyfloat read_nt read_ttl gunzip unxz unzip rdf_parse o fmt cm (SFiles stored))
    = rd_stream (channel pyfloat read_nt read_ttl gunzip unxz unzip rdf_parse o' fmt None
                         (SRaw (render_lines (List.concat lss)))).
Proof. exact partition_invisible_files. Qed.
Print Assumptions C08_partition_invisible.

(** one file, plain or compressed *)
Theorem C08_partition_invisible_file :
  forall pyfloat read_nt read_ttl gunzip unxz unzip rdf_parse fmt read o o' cm ls st,
    line_family pyfloat read_nt fmt read -> line_compositional read -> blanks_harmless read ls -> cm_plain cm ->
    Forall line_ok ls -> stored_as gunzip unxz cm (render_lines ls) st ->
    rd_stream (channel pyfloat read_nt read_ttl gunzip unxz unzip rdf_parse o fmt cm (SFile st))
    = rd_stream (channel pyfloat read_nt read_ttl gunzip unxz unzip rdf_parse o' fmt None (SRaw (render_lines ls))).
Proof. exact partition_invisible_file. Qed.
Print Assumptions C08_partition_invisible_file.

(** the members of one zip archive, in [namelist()] order *)
Theorem C08_partition_invisible_zip :
  forall pyfloat read_nt read_ttl gunzip unxz unzip rdf_parse fmt read o o' archive lss,
    line_family pyfloat read_nt fmt read -> line_compositional read -> blanks_harmless read (List.concat lss) ->
    Forall (Forall line_ok) lss -> archive_holds unzip archive lss ->
    rd_stream (channel pyfloat read_nt read_ttl gunzip unxz unzip rdf_parse o fmt (Some c_ZIP) (SFile archive))
    = rd_stream (channel pyfloat read_nt read_ttl gunzip unxz unzip rdf_parse o' fmt None
                         (SRaw (render_lines (List.concat lss)))).
Proof. exact partition_invisible_zip. Qed.
Print Assumptions C08_partition_invisible_zip.

(** any number of zip archives, each with any number of members *)
Theorem C08_partition_invisible_zips :
  forall pyfloat read_nt read_ttl gunzip unxz unzip rdf_parse fmt read o o' archives lsss,
    line_family pyfloat read_nt fmt read -> line_compositional read ->
    blanks_harmless read (List.concat (List.concat lsss)) ->
    Forall (Forall (Forall line_ok)) lsss -> Forall2 (archive_holds unzip) archives lsss ->
    rd_stream (channel pyfloat read_nt read_ttl gunzip unxz unzip rdf_parse o fmt (Some c_ZIP) (SFiles archives))
    = rd_stream (channel pyfloat read_nt read_ttl gunzip unxz unzip rdf_parse o' fmt None
                         (SRaw (render_lines (List.concat (List.concat lsss))))).
Proof. exact partition_invisible_zips. Qed.
Print Assumptions C08_partition_invisible_zips.

(** the hypothesis on the reader, discharged for the TSV reader modelled here *)
Theorem C08_tsv_line_compositional : forall pyfloat, line_compositional (read_tsv pyfloat).
Proof. exact read_tsv_compositional. Qed.
Print Assumptions C08_tsv_line_compositional.

(** the TSV reader discards a blank line (counted, no triple, no exception):
    this is the repaired [log_msg] call, [Gen.Consts.c08_tsv_discard_log_fits] *)
Theorem C08_tsv_blank_silent : forall pyfloat, blank_silent (read_tsv pyfloat).
Proof. exact read_tsv_blank_silent. Qed.
Print Assumptions C08_tsv_blank_silent.

(** hence, for TSV, with no hypothesis on any reader and blank lines allowed *)
Theorem C08_partition_invisible_tsv :
  forall pyfloat read_nt read_ttl gunzip unxz unzip rdf_parse o o' cm lss stored,
    cm_plain cm -> Forall (Forall line_ok) lss ->
    Forall2 (stored_as gunzip unxz cm) (map render_lines lss) stored ->
    rd_stream (channel pyfloat read_nt read_ttl gunzip unxz unzip rdf_parse o (Str "tsv_spo") cm (SFiles stored))
    = rd_stream (channel pyfloat read_nt read_ttl gunzip unxz unzip rdf_parse o' (Str "tsv_spo") None
                         (SRaw (render_lines (List.concat lss)))).
Proof.
  intros pyfloat read_nt read_ttl gunzip unxz unzip rdf_parse o o' cm lss stored.
  exact (partition_invisible_files pyfloat read_nt read_ttl gunzip unxz unzip rdf_parse _ _ o o' cm lss stored
                                   (Fam_tsv pyfloat read_nt) (read_tsv_compositional pyfloat)
                                   (or_introl (read_tsv_blank_silent pyfloat))).
Qed.
Print Assumptions C08_partition_invisible_tsv.

(** ** (b) the graph is read twice, by two independently built yielders.

    Line-based channels (nt, tsv_spo, turtle_iter over a raw string, a file,
    several files, compressed or not): whatever rdflib's choices [o1], [o2]
    would be on the two passes, both passes deliver the same result, so the
    single-graph form applies ([run_shapes2_same]): [RunCur.run_shapes_cur], i.e.
    [Run.run_shapes] with the shexing stage in the order the code has
    ([ShexingFix.shex_cur], as in [Channels.run_shapes2]); it IS [Run.run_shapes]
    where the order of ClassShexer's stages is irrelevant
    ([C08_same_stream_single_graph_modelled]; Props/ShexStage.v:
    [E2E_class_mode_order_irrelevant]).  With two different streams it is not
    ([C08_two_streams_order_refuted]). *)
Theorem C08_both_passes_same :
  forall pyfloat read_nt read_ttl gunzip unxz unzip rdf_parse (o1 o2 : porc) fmt cm src,
    line_fmt fmt -> In cm documented_compressions -> local_source src ->
    let p := passes pyfloat read_nt read_ttl gunzip unxz unzip rdf_parse o1 o2 fmt cm src in
    fst p = snd p.
Proof.
  intros. unfold p, passes. cbn [fst snd]. apply line_channels_oracle_free; assumption.
Qed.
Print Assumptions C08_both_passes_same.

Theorem C08_same_stream_single_graph :
  forall fa c thr g, run_shapes2 fa c thr g g = run_shapes_cur fa c thr g.
Proof. exact run_shapes2_same. Qed.
Print Assumptions C08_same_stream_single_graph.

From Shexer Require Proofs.OrderIrrelevant Proofs.Bin64Round Proofs.EndToEnd2.

(** the modelled single-graph run, on the domain where the stage order is
    irrelevant: remove_empty_shapes off, or no class of the profile empty at the
    threshold ([order_dom], computed from the input; it holds for thresholds in
    [0, 1] when no class IRI starts with '%' or "@": [class_order_dom_b_sound]) *)
Theorem C08_same_stream_single_graph_modelled :
  forall fa c thr g, OrderIrrelevant.order_dom fa c thr g = true ->
    run_shapes2 fa c thr g g = run_shapes fa c thr g.
Proof. intros fa c thr g H. rewrite run_shapes2_same. exact (OrderIrrelevant.run_shapes_cur_eq fa c thr g H). Qed.
Print Assumptions C08_same_stream_single_graph_modelled.

(** Why [Channels.run_shapes2] follows the flag: an rdflib channel re-labels
    blank nodes on every pass, so a blank-node instance has no features in the
    feature pass.  C0 has two instances (_:b and n1) and only n1 has its typing
    constraint there: [rdf:type [C0]] at 1/2 < 51/100, C0 is EMPTY although it has
    instances, and D references it ([p @:C0]).  The code (new order, a3b99df)
    drops the reference before the merge and keeps [p IRI]; the old order
    ([OrderIrrelevant.run_shexc2_old]) deletes the constraint.  Minimal form of
    the input a correspondence run found (work/replays/C08-viol-5e127f3f4108.json). *)
Definition g_two_inst : graph :=
  [ T (Node KBnode (Str "_:b")) c_RDF_TYPE (ON (Node KIri (Str "http://e/C0")));
    T (Node KIri (Str "http://e/n1")) c_RDF_TYPE (ON (Node KIri (Str "http://e/C0")));
    T (Node KIri (Str "http://e/s")) c_RDF_TYPE (ON (Node KIri (Str "http://e/D")));
    T (Node KIri (Str "http://e/s")) (Str "http://e/p") (ON (Node KIri (Str "http://e/n1"))) ].

Definition two_cfg : rcfg :=
  {| r_tau := c_RDF_TYPE; r_targets := None; r_ns := []; r_shapes_ns := c_SHAPES_DEFAULT_NAMESPACE; r_cap := (-1)%Z;
     r_inverse := false; r_remove_empty := true; r_discard_useless := true; r_keep_less_specific := true;
     r_all_compliant := true; r_disable_or := true; r_allow_redundant_or := false; r_allow_opt := true;
     r_disable_exact := false; r_disable_comments := false; r_mode := FAbs |}.

Lemma C08_two_streams_order_refuted :
  c_clean_before_merge = true ->
  exists c thr g f1 f2,
    Bin64Round.wf_frac thr /\ fle BAlg thr (fone BAlg) = true /\ EndToEnd2.class_iris_ok c g = true /\
    exists t1 t2, run_shexc2 BAlg c thr (rename f1 g) (rename f2 g) = inl t1 /\
                  OrderIrrelevant.run_shexc2_old BAlg c thr (rename f1 g) (rename f2 g) = inl t2 /\ t1 <> t2.
Proof.
  intros E; first [ vm_compute in E; discriminate E |
    exists two_cfg, (b_ratio 51 100), g_two_inst, (fun s => s ++ Str "1"), (fun s => s ++ Str "2");
    split; [vm_compute; split; [discriminate | reflexivity]|]; split; [vm_compute; reflexivity|];
    split; [vm_compute; reflexivity|];
    do 2 eexists; split; [vm_compute; reflexivity|]; split; [vm_compute; reflexivity|]; discriminate ].
Qed.

(** rdflib channels deliver [rename f1 g1] to the instance pass and
    [rename f2 g2] to the feature pass ([g1], [g2] permutations of the graph,
    [f1], [f2] chosen independently).  Partial: proved for graphs whose typing
    triples involve no blank node (no blank-node instance, no blank-node
    class) and whose blank-node labels are not instance ids -- then the shapes
    do not depend on the renamings at all.  The dependence on the two
    permutations is C09's subject.  Blank-node instances with [f1 <> f2] are
    refuted below (the property's own exclusion). *)
Theorem C08_renamings_invisible_partial :
  forall fa c thr g1 g2 f1 f2,
    typing_iri (r_tau c) g1 -> typing_iri (r_tau c) g2 ->
    (forall ins b, track (r_tau c) (tmode_of c) (r_cap c) g1 = inl ins ->
                   In b (bnode_ids g2) -> dmem ins b = false /\ dmem ins (f2 b) = false) ->
    run_shapes2 fa c thr (rename f1 g1) (rename f2 g2) = run_shapes2 fa c thr g1 g2.
Proof. exact renamings_invisible. Qed.
Print Assumptions C08_renamings_invisible_partial.

(** everywhere: the feature pass attaches features only to the node ids the
    instance pass recorded (it never adds or removes an instance) *)
Theorem C08_feature_pass_same_ids :
  forall c I g P C ID, profile c I g = inl (P, C, ID) -> dkeys ID = dkeys I.
Proof. exact profile_same_ids. Qed.
Print Assumptions C08_feature_pass_same_ids.

(** ** (c) every accepted (format, compression, source kind) combination
    reaches the documented yielder -- on [dispatch_dom]; the excluded family
    (a URL with a format rdflib does not parse) is refuted below; a
    compression mode given with a raw string or an rdflib graph is ignored
    (since the fix of C08-F3).  The proof evaluates the dispatch tables
    [Gen.Consts.c08_chain], [c08_helpers], ... regenerated from
    triple_yielders_factory.py. *)
Theorem C08_dispatch_total :
  forall fmt cm k,
    accepted fmt cm k -> dispatch_dom fmt cm k = true ->
    exists d, dispatch fmt cm k = inl d /\ class_name d = expected_class fmt cm k.
Proof. exact dispatch_total. Qed.
Print Assumptions C08_dispatch_total.

(** ** rdflib channels type a literal as the N-Triples reader does, for every
    lexical form (since the fix of C08-F1: the literal's own language and
    datatype decide, not a text search in the content) *)
Theorem C08_rdflib_literal_typing :
  forall lex k, exists content, turn_literal (rlit_of lex k) = inl (MLit content (dt_of k)).
Proof. exact turn_literal_kinded. Qed.
Print Assumptions C08_rdflib_literal_typing.

(** ** (d) the TSV channel reads N-Triples semantics *)
Theorem C08_tsv_reads_nt_semantics :
  forall pyfloat g,
    tsv_dom g = true ->
    read_tsv pyfloat (map tsv_line_of g) = inl (Res (map m_of g) (List.length g) 0)
    /\ graph_of_m (map m_of g) = Some (kinded g).
Proof. exact tsv_reads_nt_semantics. Qed.
Print Assumptions C08_tsv_reads_nt_semantics.

Theorem C08_tsv_channel_kinded :
  forall pyfloat read_nt read_ttl gunzip unxz unzip rdf_parse o g,
    tsv_dom g = true -> Forall line_ok (map tsv_line_of g) ->
    rd_stream (channel pyfloat read_nt read_ttl gunzip unxz unzip rdf_parse o (Str "tsv_spo") None (SRaw (tsv_doc g)))
    = inl (map m_of g)
    /\ graph_of_m (map m_of g) = Some (kinded g).
Proof. exact tsv_channel_kinded. Qed.
Print Assumptions C08_tsv_channel_kinded.

(** ** non-vacuity *)

Definition ex_graph : agraph :=
  [ AT (AIri (Str "http://ex.org/a")) (Str "http://www.w3.org/1999/02/22-rdf-syntax-ns#type")
       (AN (AIri (Str "http://ex.org/C")));
    AT (AIri (Str "http://ex.org/a")) (Str "http://ex.org/name") (ALit (Str "two words") LPlain);
    AT (AIri (Str "http://ex.org/a")) (Str "http://ex.org/age")
       (ALit (Str "23") (LTyped (Str "http://www.w3.org/2001/XMLSchema#integer")));
    AT (ABn (Str "b0")) (Str "http://ex.org/label") (ALit (Str "chat") (LLang (Str "fr")));
    AT (AIri (Str "http://ex.org/a")) (Str "http://ex.org/knows") (AN (ABn (Str "b0"))) ].

Example C08_tsv_dom_inhabited :
  tsv_dom ex_graph = true /\ Forall line_ok (map tsv_line_of ex_graph).
Proof. split; [vm_compute; reflexivity | apply lines_okb_ok; vm_compute; reflexivity]. Qed.

(** a concrete instance of the model (no codec, no NT/TTL reader, no rdflib) *)
Definition no_float (_ : str) : option bool := None.
Definition no_reader (_ : list str) : rd := inr CESource.
Definition no_codec (_ : str) : option str := None.
Definition no_unzip (_ : str) : option (list (str * str)) := None.
Definition no_parse (_ _ : str) : option (list rtriple) := None.
Definition no_orc : porc := fun _ _ => {| o_perm := fun g => g; o_sigma := fun s => s |}.
Definition ex_chan := channel no_float no_reader no_reader no_codec no_codec no_unzip no_parse no_orc.

(** the five TSV lines split 2 | 0 | 3 over three files: hypotheses hold, and
    both sides evaluate to the five triples of [kinded ex_graph] *)
Definition ex_lss : list (list str) :=
  [ firstn 2 (map tsv_line_of ex_graph); []; skipn 2 (map tsv_line_of ex_graph) ].

Example C08_partition_inhabited :
  Forall (Forall line_ok) ex_lss
  /\ Forall2 (stored_as no_codec no_codec None) (map render_lines ex_lss) (map render_lines ex_lss)
  /\ rd_stream (ex_chan (Str "tsv_spo") None (SFiles (map render_lines ex_lss))) = inl (map m_of ex_graph)
  /\ rd_stream (ex_chan (Str "tsv_spo") None (SRaw (tsv_doc ex_graph))) = inl (map m_of ex_graph).
Proof.
  split; [|split; [|split]].
  - repeat constructor; apply line_okb_ok; vm_compute; reflexivity.
  - repeat constructor.
  - vm_compute. reflexivity.
  - vm_compute. reflexivity.
Qed.

Example C08_dispatch_inhabited :
  accepted (Str "nt") (Some (Str "zip")) (KFiles 3)
  /\ dispatch_dom (Str "nt") (Some (Str "zip")) (KFiles 3) = true
  /\ dispatch (Str "nt") (Some (Str "zip")) (KFiles 3)
     = inl (YZipMany (Str "MultiZipTriplesYielder") (Str "MultiNtTriplesYielder")).
Proof.
  split; [|split]; [unfold accepted; cbn; repeat split; auto; intros _; reflexivity | reflexivity | reflexivity].
Qed.

(** ** the two passes: a concrete configuration and graphs *)

Definition ex_cfg : rcfg :=
  {| r_tau := c_RDF_TYPE; r_targets := None; r_ns := []; r_shapes_ns := c_SHAPES_DEFAULT_NAMESPACE;
     r_cap := (-1)%Z; r_inverse := false; r_remove_empty := true; r_discard_useless := true;
     r_keep_less_specific := true; r_all_compliant := true; r_disable_or := true;
     r_allow_redundant_or := false; r_allow_opt := true; r_disable_exact := false;
     r_disable_comments := false; r_mode := FMixed |}.

Definition ex_thr : F BAlg := b_ratio 0 1.

(** IRI instance with a blank-node value: inside the domain of
    [C08_renamings_invisible_partial], with two different renamings *)
Definition g_iri_inst : graph :=
  [ T (Node KIri (Str "http://e/a")) c_RDF_TYPE (ON (Node KIri (Str "http://e/C")));
    T (Node KIri (Str "http://e/a")) (Str "http://e/p") (ON (Node KBnode (Str "_:x")));
    T (Node KBnode (Str "_:x")) (Str "http://e/q") (OL (Str "v") c_STRING_TYPE) ].

Definition f_one (s : str) : str := s ++ Str "1".
Definition f_two (s : str) : str := s ++ Str "2".

Example C08_renamings_inhabited :
  typing_iri (r_tau ex_cfg) g_iri_inst
  /\ (forall ins b, track (r_tau ex_cfg) (tmode_of ex_cfg) (r_cap ex_cfg) g_iri_inst = inl ins ->
                    In b (bnode_ids g_iri_inst) -> dmem ins b = false /\ dmem ins (f_two b) = false)
  /\ exists text, run_shexc2 BAlg ex_cfg ex_thr (rename f_one g_iri_inst) (rename f_two g_iri_inst) = inl text
                  /\ run_shexc BAlg ex_cfg ex_thr g_iri_inst = inl text.
Proof.
  split; [|split].
  - intros t Hin Htau. cbn [g_iri_inst In] in Hin.
    destruct Hin as [<-|[<-|[<-|[]]]]; try (vm_compute in Htau; discriminate Htau); split; reflexivity.
  - intros ins b Hins Hb. vm_compute in Hins. inversion Hins; subst ins. vm_compute in Hb.
    destruct Hb as [<-|[<-|[]]]; split; vm_compute; reflexivity.
  - eexists. split; vm_compute; reflexivity.
Qed.

(** ** known findings (each with a pinned reproducer in known_findings.json) *)

(** C08-F2: a blank-node INSTANCE delivered through a channel that re-labels
    blank nodes on every pass (rdflib re-parsing the document): the instance
    pass records the instance under one label, the feature pass sees its
    triples under another -- the shape loses its constraints.  Here both the
    profile and the final ShExC text differ from the single-graph run. *)
Definition g_bnode_inst : graph :=
  [ T (Node KBnode (Str "_:a")) c_RDF_TYPE (ON (Node KIri (Str "http://e/C")));
    T (Node KBnode (Str "_:a")) (Str "http://e/p") (OL (Str "v") c_STRING_TYPE) ].

Definition shexc_differ (a b : str + rerr) : bool :=
  match a, b with inl x, inl y => negb (str_eqb x y) | _, _ => false end.

Lemma C08_bnode_relabel_refuted :
  exists fa c thr g f1 f2,
    shexc_differ (run_shexc2 fa c thr (rename f1 g) (rename f2 g)) (run_shexc fa c thr g) = true.
Proof.
  exists BAlg, ex_cfg, ex_thr, g_bnode_inst, f_one, f_two. vm_compute. reflexivity.
Qed.

(** with one renaming for both passes (channels with stable labels) the same graph is fine *)
Example C08_bnode_stable_labels_fine :
  shexc_differ (run_shexc2 BAlg ex_cfg ex_thr (rename f_one g_bnode_inst) (rename f_one g_bnode_inst))
               (run_shexc BAlg ex_cfg ex_thr (rename f_one g_bnode_inst)) = false.
Proof. vm_compute. reflexivity. Qed.

(** C08-F1 (fixed): a plain literal holding an at-sign is xsd:string on the rdflib channels too *)
Example C08_at_sign_plain_literal_regression :
  turn_literal (RL (Str "user@example.org") None None) = inl (MLit (Str "user@example.org") c_STRING_TYPE)
  /\ parse_literal (Q :: Str "user@example.org" ++ [Q]) = inl (MLit (Str "user@example.org") c_STRING_TYPE).
Proof. split; vm_compute; reflexivity. Qed.

(** C08-F5 (fixed): a TSV text with a blank line is the same stream as a file and as a raw string *)
Example C08_tsv_blank_line_regression :
  let doc := render_lines [tsv_line_of (AT (AIri (Str "http://e/a")) (Str "http://e/p") (AN (AIri (Str "http://e/b")))); []] in
  rd_stream (ex_chan (Str "tsv_spo") None (SFile doc)) = rd_stream (ex_chan (Str "tsv_spo") None (SRaw doc))
  /\ exists ms, rd_stream (ex_chan (Str "tsv_spo") None (SFile doc)) = inl ms /\ ms <> [].
Proof. split; [vm_compute; reflexivity|]. eexists. split; [vm_compute; reflexivity | discriminate]. Qed.

(** C08-F3 (fixed): compression_mode zip with a raw string or an rdflib graph has nothing to unzip *)
Example C08_dispatch_zip_nonfile_regression :
  accepted (Str "nt") (Some (Str "zip")) KRaw
  /\ dispatch (Str "nt") (Some (Str "zip")) KRaw = inl (YPlain (Str "NtTriplesYielder"))
  /\ dispatch (Str "nt") (Some (Str "zip")) KGraph = inl (YPlain (Str "RdflibTripleYielder")).
Proof. split; [exact accepted_zip_raw | split; reflexivity]. Qed.

(** C08-F4: a URL source with a format rdflib does not parse is accepted by
    the constructor and fails at the first extraction with ValueError *)
Lemma C08_dispatch_url_format_refuted :
  exists fmt cm k, accepted fmt cm k /\ dispatch fmt cm k = inr CEValue.
Proof. exists (Str "tsv_spo"), None, KUrl. split; [exact accepted_url_tsv | reflexivity]. Qed.

(** ** the property's own form, line-based channels: relative to the raw
    string (the reference channel), every partition / compression yields the
    same extracted shapes -- over the two independently built yielders *)
Theorem C08_channel_independent_lines :
  forall pyfloat read_nt read_ttl gunzip unxz unzip rdf_parse fa c thr fmt read (o o1 o2 : porc) cm lss stored ms G,
    line_family pyfloat read_nt fmt read -> line_compositional read ->
    blanks_harmless read (List.concat lss) -> cm_plain cm ->
    Forall (Forall line_ok) lss ->
    Forall2 (stored_as gunzip unxz cm) (map render_lines lss) stored ->
    rd_stream (channel pyfloat read_nt read_ttl gunzip unxz unzip rdf_parse o fmt None
                       (SRaw (render_lines (List.concat lss)))) = inl ms ->
    graph_of_m ms = Some G ->
    run_over_passes fa c thr (passes pyfloat read_nt read_ttl gunzip unxz unzip rdf_parse o1 o2 fmt cm (SFiles stored))
    = Some (run_shapes_cur fa c thr G).
Proof. exact channel_independent_files. Qed.
Print Assumptions C08_channel_independent_lines.

(** closed form for the TSV channel (reader modelled here): the shapes are those of [kinded g] *)
Theorem C08_tsv_channel_independent :
  forall pyfloat read_nt read_ttl gunzip unxz unzip rdf_parse fa c thr (o1 o2 : porc) cm g lss stored,
    tsv_dom g = true -> Forall line_ok (map tsv_line_of g) ->
    List.concat lss = map tsv_line_of g -> cm_plain cm ->
    Forall2 (stored_as gunzip unxz cm) (map render_lines lss) stored ->
    run_over_passes fa c thr (passes pyfloat read_nt read_ttl gunzip unxz unzip rdf_parse o1 o2 (Str "tsv_spo") cm (SFiles stored))
    = Some (run_shapes_cur fa c thr (kinded g)).
Proof. exact tsv_channel_independent. Qed.
Print Assumptions C08_tsv_channel_independent.

(** ** rdflib channels, composed with C09 (Proofs/EndToEnd.v): the passes see
    [rename f1 G1] and [rename f2 G2], [G1] and [G2] permutations of [G].
    Without instance cap and with IRI instances / classes: the instance pass
    yields a dictionary equivalent to that of [G], the feature pass does not
    see its renaming, and every count [occ] / [class_count] over what the two
    passes saw is the count over [G] (by P1 these are all the numbers the
    class profile holds; which of two tied candidates is then chosen is C09's
    tie findings). *)
Theorem C08_rdflib_counts_invariant :
  forall c (G G1 G2 : graph) (f1 f2 : str -> str) (I : insts),
    (r_cap c <= 0)%Z -> Permutation G G1 -> Permutation G G2 ->
    typing_iri (r_tau c) G ->
    (forall b, In b (bnode_ids G) -> dmem I b = false /\ dmem I (f2 b) = false) ->
    track (r_tau c) (mode_of c) (r_cap c) G = inl I ->
    exists I1,
      track (r_tau c) (mode_of c) (r_cap c) (rename f1 G1) = inl I1 /\
      insts_equiv I I1 /\
      profile (pcfg_of c) I1 (rename f2 G2) = profile (pcfg_of c) I1 G2 /\
      (forall cls, class_count I1 cls = class_count I cls) /\
      (forall dir cls p k card, occ dir (r_tau c) I1 G2 cls p k card = occ dir (r_tau c) I G cls p k card).
Proof. exact rdflib_counts_invariant. Qed.
Print Assumptions C08_rdflib_counts_invariant.

Example C08_rdflib_counts_inhabited :
  (r_cap ex_cfg <= 0)%Z /\ Permutation g_iri_inst (rev g_iri_inst) /\ typing_iri (r_tau ex_cfg) g_iri_inst
  /\ exists I, track (r_tau ex_cfg) (mode_of ex_cfg) (r_cap ex_cfg) g_iri_inst = inl I
               /\ forall b, In b (bnode_ids g_iri_inst) -> dmem I b = false /\ dmem I (f_two b) = false.
Proof.
  split; [intros H; discriminate H|]. split; [apply Permutation_rev|]. split.
  - exact (proj1 C08_renamings_inhabited).
  - eexists. split; [vm_compute; reflexivity|].
    intros b Hb. vm_compute in Hb. destruct Hb as [<-|[<-|[]]]; split; vm_compute; reflexivity.
Qed.

(** ** (e) the readers plugged in: channel independence stated from the TEXT.

    [Proofs/ChannelReaders.v] instantiates the Section variables [read_nt],
    [read_ttl] of [Model/Channels.v] with the reader models of C06
    ([nt_reader allow] = [NtReader.run_lines], converted by [rd_of_doc]) and
    C07 ([ttl_reader] = [TtlReader.process_lines] from the initial state + the
    end-of-input check).  Nothing but the codecs (gunzip, unxz, unzip), rdflib
    and CPython's [float()] on the TSV channel stays abstract.

    Abnormal outcomes of a reader are [inr] of an injective encoding
    ([C08_reader_outcomes_kept_apart]); a hang of the N-Triples loop is one of
    them: for the extraction it is [None] ("nothing is delivered"), as an
    exception is. *)
From Shexer Require Import Proofs.ChannelReaders.
From Shexer Require Model.NtReader Spec.NtSyntax Spec.NtDom Model.TtlReader Spec.TtlSyntax Spec.TtlDomain.
From Shexer Require Proofs.ShexKeys Proofs.EndToEnd2 Proofs.EndToEnd3 Proofs.Bin64Round.

Theorem C08_reader_outcomes_kept_apart :
  (forall a b, nt_abort a = nt_abort b -> a = b) /\ (forall a b, ttl_abort a = ttl_abort b -> a = b).
Proof. exact (conj nt_abort_inj ttl_abort_inj). Qed.
Print Assumptions C08_reader_outcomes_kept_apart.

(** the conversion commutes with C06's document loop: reading is a fold of
    one-line results ([rd_of_nt_line]) *)
Theorem C08_nt_reader_is_fold : forall allow ls, nt_reader allow ls = nt_fold allow ls.
Proof. exact nt_reader_fold. Qed.
Print Assumptions C08_nt_reader_is_fold.

(** the hypotheses of (a), discharged for the N-Triples reader of C06, for
    ALL lines (valid or not): a line that is not three tokens bumps the error
    counter, a line on which the reader raises or hangs ends the document at
    that line on every channel alike, a blank line is a discarded line
    (counted, no triple) -- so [blanks_harmless] needs no side condition *)
Theorem C08_nt_line_compositional : forall allow, line_compositional (nt_reader allow).
Proof. exact nt_reader_compositional. Qed.
Print Assumptions C08_nt_line_compositional.

Theorem C08_nt_blank_silent : forall allow, blank_silent (nt_reader allow).
Proof. exact nt_reader_blank_silent. Qed.
Print Assumptions C08_nt_blank_silent.

Theorem C08_nt_blanks_harmless : forall allow ls, blanks_harmless (nt_reader allow) ls.
Proof. exact nt_reader_blanks_harmless. Qed.
Print Assumptions C08_nt_blanks_harmless.

(** the N-Triples channel over a raw string IS C06's [read_raw_string] *)
Theorem C08_nt_channel_is_C06 :
  forall pyfloat read_ttl gunzip unxz unzip rdf_parse allow o doc,
    channel pyfloat (nt_reader allow) read_ttl gunzip unxz unzip rdf_parse o (Str "nt") None (SRaw doc)
    = rd_of_doc (NtReader.read_raw_string allow doc).
Proof. exact nt_chan_raw. Qed.
Print Assumptions C08_nt_channel_is_C06.

(** (a) for N-Triples, no hypothesis on the reader left: any lines, any
    partition into plain / gz / xz files *)
Theorem C08_partition_invisible_nt :
  forall pyfloat allow read_ttl gunzip unxz unzip rdf_parse o o' cm lss stored,
    cm_plain cm -> Forall (Forall line_ok) lss ->
    Forall2 (stored_as gunzip unxz cm) (map render_lines lss) stored ->
    rd_stream (channel pyfloat (nt_reader allow) read_ttl gunzip unxz unzip rdf_parse o (Str "nt") cm (SFiles stored))
    = rd_stream (channel pyfloat (nt_reader allow) read_ttl gunzip unxz unzip rdf_parse o' (Str "nt") None
                         (SRaw (render_lines (List.concat lss)))).
Proof. exact partition_invisible_nt_files. Qed.
Print Assumptions C08_partition_invisible_nt.

Theorem C08_partition_invisible_nt_file :
  forall pyfloat allow read_ttl gunzip unxz unzip rdf_parse o o' cm ls st,
    cm_plain cm -> Forall line_ok ls -> stored_as gunzip unxz cm (render_lines ls) st ->
    rd_stream (channel pyfloat (nt_reader allow) read_ttl gunzip unxz unzip rdf_parse o (Str "nt") cm (SFile st))
    = rd_stream (channel pyfloat (nt_reader allow) read_ttl gunzip unxz unzip rdf_parse o' (Str "nt") None
                         (SRaw (render_lines ls))).
Proof. exact partition_invisible_nt_file. Qed.
Print Assumptions C08_partition_invisible_nt_file.

Theorem C08_partition_invisible_nt_zip :
  forall pyfloat allow read_ttl gunzip unxz unzip rdf_parse o o' archive lss,
    Forall (Forall line_ok) lss -> archive_holds unzip archive lss ->
    rd_stream (channel pyfloat (nt_reader allow) read_ttl gunzip unxz unzip rdf_parse o (Str "nt") (Some c_ZIP) (SFile archive))
    = rd_stream (channel pyfloat (nt_reader allow) read_ttl gunzip unxz unzip rdf_parse o' (Str "nt") None
                         (SRaw (render_lines (List.concat lss)))).
Proof. exact partition_invisible_nt_zip. Qed.
Print Assumptions C08_partition_invisible_nt_zip.

Theorem C08_partition_invisible_nt_zips :
  forall pyfloat allow read_ttl gunzip unxz unzip rdf_parse o o' archives lsss,
    Forall (Forall (Forall line_ok)) lsss -> Forall2 (archive_holds unzip) archives lsss ->
    rd_stream (channel pyfloat (nt_reader allow) read_ttl gunzip unxz unzip rdf_parse o (Str "nt") (Some c_ZIP) (SFiles archives))
    = rd_stream (channel pyfloat (nt_reader allow) read_ttl gunzip unxz unzip rdf_parse o' (Str "nt") None
                         (SRaw (render_lines (List.concat (List.concat lsss))))).
Proof. exact partition_invisible_nt_zips. Qed.
Print Assumptions C08_partition_invisible_nt_zips.

(** the property's own form for N-Triples: for EVERY document text (any
    lines) every partition into files / zip members / archives and every
    documented compression gives the same outcome of the extraction -- the
    shapes, an error of the pipeline, or [None] when the reader aborts -- as
    the single raw string, over two independently built yielders *)
Theorem C08_channel_independent_nt :
  forall pyfloat allow read_ttl gunzip unxz unzip rdf_parse fa c thr (o1 o2 o1' o2' : porc),
    let P := passes pyfloat (nt_reader allow) read_ttl gunzip unxz unzip rdf_parse in
    (forall cm lss stored,
        cm_plain cm -> Forall (Forall line_ok) lss ->
        Forall2 (stored_as gunzip unxz cm) (map render_lines lss) stored ->
        run_over_passes fa c thr (P o1 o2 (Str "nt") cm (SFiles stored))
        = run_over_passes fa c thr (P o1' o2' (Str "nt") None (SRaw (render_lines (List.concat lss))))) /\
    (forall cm ls st,
        cm_plain cm -> Forall line_ok ls -> stored_as gunzip unxz cm (render_lines ls) st ->
        run_over_passes fa c thr (P o1 o2 (Str "nt") cm (SFile st))
        = run_over_passes fa c thr (P o1' o2' (Str "nt") None (SRaw (render_lines ls)))) /\
    (forall archive lss,
        Forall (Forall line_ok) lss -> archive_holds unzip archive lss ->
        run_over_passes fa c thr (P o1 o2 (Str "nt") (Some c_ZIP) (SFile archive))
        = run_over_passes fa c thr (P o1' o2' (Str "nt") None (SRaw (render_lines (List.concat lss))))) /\
    (forall archives lsss,
        Forall (Forall (Forall line_ok)) lsss -> Forall2 (archive_holds unzip) archives lsss ->
        run_over_passes fa c thr (P o1 o2 (Str "nt") (Some c_ZIP) (SFiles archives))
        = run_over_passes fa c thr (P o1' o2' (Str "nt") None (SRaw (render_lines (List.concat (List.concat lsss)))))).
Proof. exact channel_independent_nt. Qed.
Print Assumptions C08_channel_independent_nt.

(** ** (f) the pipeline sees a literal through its datatype only: two graphs
    that differ in lexical forms give the same shapes (and ShExC text).  This
    is what lets C06 / C07 -- which compare node kinds, identifiers and
    datatypes, not lexical forms -- be composed with the pipeline. *)
Theorem C08_run_shapes_erase_lex :
  forall fa c thr g, run_shapes fa c thr (map erase_lex g) = run_shapes fa c thr g.
Proof. exact run_shapes_erase_lex. Qed.
Print Assumptions C08_run_shapes_erase_lex.

Theorem C08_run_shapes2_erase_lex :
  forall fa c thr g1 g2, run_shapes2 fa c thr (map erase_lex g1) (map erase_lex g2) = run_shapes2 fa c thr g1 g2.
Proof. exact run_shapes2_erase_lex. Qed.
Print Assumptions C08_run_shapes2_erase_lex.

Theorem C08_run_shexc_erase_lex :
  forall fa c thr g, run_shexc fa c thr (map erase_lex g) = run_shexc fa c thr g.
Proof. exact run_shexc_erase_lex. Qed.
Print Assumptions C08_run_shexc_erase_lex.

Theorem C08_track_profile_erase_lex :
  (forall tau m cap g, track tau m cap (map erase_lex g) = track tau m cap g) /\
  (forall c I g, profile c I (map erase_lex g) = profile c I g).
Proof. exact (conj track_erase_lex profile_erase_lex). Qed.
Print Assumptions C08_track_profile_erase_lex.

(** ** (g) from the TEXT to the abstract graph, N-Triples: C06 ; C08 ; pipeline.
    [nt_graph ts] is C06's [kinded] of every statement as a [Spec.Rdf.triple]
    ([C08_nt_graph_is_kinded]), lexical forms erased. *)
Theorem C08_nt_graph_is_kinded : forall t, triple_of_k (NtSyntax.kinded t) = Some (nt_triple t).
Proof. exact triple_of_kinded. Qed.
Print Assumptions C08_nt_graph_is_kinded.

Theorem C08_nt_text_to_graph :
  forall pyfloat allow read_ttl gunzip unxz unzip rdf_parse fa c thr (o1 o2 : porc)
         (ts : list (NtSyntax.striple * NtSyntax.layout)),
    Forall (fun x => NtSyntax.valid_triple (fst x) = true /\ NtSyntax.valid_layout (snd x) = true /\
                     NtDom.C06_dom (fst x) (snd x) = true) ts ->
    run_over_passes fa c thr (passes pyfloat (nt_reader allow) read_ttl gunzip unxz unzip rdf_parse o1 o2
                                     (Str "nt") None (SRaw (NtSyntax.nt_doc ts)))
    = Some (run_shapes_cur fa c thr (nt_graph ts)).
Proof. exact nt_text_to_graph. Qed.
Print Assumptions C08_nt_text_to_graph.

(** ... and over every partition of the document's lines *)
Theorem C08_nt_text_channel_independent :
  forall pyfloat allow read_ttl gunzip unxz unzip rdf_parse fa c thr (o1 o2 : porc)
         (ts : list (NtSyntax.striple * NtSyntax.layout)),
    let P := passes pyfloat (nt_reader allow) read_ttl gunzip unxz unzip rdf_parse in
    Forall nt_ok_case ts -> Forall line_ok (nt_lines ts) ->
    (forall cm lss stored,
        List.concat lss = nt_lines ts -> cm_plain cm ->
        Forall2 (stored_as gunzip unxz cm) (map render_lines lss) stored ->
        run_over_passes fa c thr (P o1 o2 (Str "nt") cm (SFiles stored)) = Some (run_shapes_cur fa c thr (nt_graph ts))) /\
    (forall cm st,
        cm_plain cm -> stored_as gunzip unxz cm (render_lines (nt_lines ts)) st ->
        run_over_passes fa c thr (P o1 o2 (Str "nt") cm (SFile st)) = Some (run_shapes_cur fa c thr (nt_graph ts))) /\
    (forall archive lss,
        List.concat lss = nt_lines ts -> archive_holds unzip archive lss ->
        run_over_passes fa c thr (P o1 o2 (Str "nt") (Some c_ZIP) (SFile archive)) = Some (run_shapes_cur fa c thr (nt_graph ts))) /\
    (forall archives lsss,
        List.concat (List.concat lsss) = nt_lines ts -> Forall2 (archive_holds unzip) archives lsss ->
        run_over_passes fa c thr (P o1 o2 (Str "nt") (Some c_ZIP) (SFiles archives)) = Some (run_shapes_cur fa c thr (nt_graph ts))).
Proof. exact nt_text_channel_independent. Qed.
Print Assumptions C08_nt_text_channel_independent.

(** the same for TSV_SPO (reader modelled in C08; the multi-file form is [C08_tsv_channel_independent]) *)
Theorem C08_tsv_text_to_graph :
  forall pyfloat read_ttl gunzip unxz unzip rdf_parse fa read_nt c thr (o1 o2 : porc) g,
    tsv_dom g = true -> Forall line_ok (map tsv_line_of g) ->
    run_over_passes fa c thr (passes pyfloat read_nt read_ttl gunzip unxz unzip rdf_parse o1 o2 (Str "tsv_spo") None (SRaw (tsv_doc g)))
    = Some (run_shapes_cur fa c thr (kinded g)).
Proof. exact tsv_text_to_graph. Qed.
Print Assumptions C08_tsv_text_to_graph.

Theorem C08_tsv_file_to_graph :
  forall pyfloat read_ttl gunzip unxz unzip rdf_parse fa read_nt c thr (o1 o2 : porc) cm g st,
    tsv_dom g = true -> Forall line_ok (map tsv_line_of g) -> cm_plain cm ->
    stored_as gunzip unxz cm (tsv_doc g) st ->
    run_over_passes fa c thr (passes pyfloat read_nt read_ttl gunzip unxz unzip rdf_parse o1 o2 (Str "tsv_spo") cm (SFile st))
    = Some (run_shapes_cur fa c thr (kinded g)).
Proof. exact tsv_file_to_graph. Qed.
Print Assumptions C08_tsv_file_to_graph.

(** ** (h) TURTLE_ITER: C07 ; C08 ; pipeline.  For every document [d] of the
    dialect inside [C07_dom] and every layout [ls] of it, the extraction over
    the raw-string channel of the document's text is the extraction over the
    triples [sem d] the document denotes. *)
Theorem C08_turtle_iter_channel_is_C07 :
  forall pyfloat read_nt gunzip unxz unzip rdf_parse o doc,
    channel pyfloat read_nt ttl_reader gunzip unxz unzip rdf_parse o (Str "turtle_iter") None (SRaw doc)
    = rd_of_ttl (TtlReader.read_ttl doc).
Proof. exact ttl_chan_raw. Qed.
Print Assumptions C08_turtle_iter_channel_is_C07.

Theorem C08_turtle_iter_text_to_graph :
  forall pyfloat read_nt gunzip unxz unzip rdf_parse fa c thr (o1 o2 : porc) ls d ts,
    TtlSyntax.lays_out ls d -> TtlDomain.C07_dom ls d = true -> TtlSyntax.sem d = Some ts ->
    run_over_passes fa c thr (passes pyfloat read_nt ttl_reader gunzip unxz unzip rdf_parse o1 o2
                                     (Str "turtle_iter") None (SRaw (TtlSyntax.render_doc ls)))
    = Some (run_shapes_cur fa c thr ts).
Proof. exact turtle_iter_text_to_graph. Qed.
Print Assumptions C08_turtle_iter_text_to_graph.

(** a single file (plain, gz, xz) holding complete lines is read exactly as
    the raw string, for ANY lines: a line terminator does not show
    ([_clean_line]) and blank lines are skipped without touching the state *)
Theorem C08_turtle_iter_file_is_raw :
  forall pyfloat read_nt gunzip unxz unzip rdf_parse o o' cm ls st,
    cm_plain cm -> Forall line_ok ls -> stored_as gunzip unxz cm (render_lines ls) st ->
    channel pyfloat read_nt ttl_reader gunzip unxz unzip rdf_parse o (Str "turtle_iter") cm (SFile st)
    = channel pyfloat read_nt ttl_reader gunzip unxz unzip rdf_parse o' (Str "turtle_iter") None (SRaw (render_lines ls)).
Proof. exact ttl_file_is_raw. Qed.
Print Assumptions C08_turtle_iter_file_is_raw.

Theorem C08_turtle_iter_file_to_graph :
  forall pyfloat read_nt gunzip unxz unzip rdf_parse fa c thr (o1 o2 : porc) cm ls d ts st,
    TtlSyntax.lays_out ls d -> TtlDomain.C07_dom ls d = true -> TtlSyntax.sem d = Some ts ->
    cm_plain cm -> Forall line_ok (ttl_text_lines ls) ->
    stored_as gunzip unxz cm (render_lines (ttl_text_lines ls)) st ->
    run_over_passes fa c thr (passes pyfloat read_nt ttl_reader gunzip unxz unzip rdf_parse o1 o2 (Str "turtle_iter") cm (SFile st))
    = Some (run_shapes_cur fa c thr ts).
Proof. exact turtle_iter_file_to_graph. Qed.
Print Assumptions C08_turtle_iter_file_to_graph.

(** several Turtle files are NOT a partition of one document: one fresh
    reader per file (prefixes, base and an open statement do not carry over;
    the end-of-input check applies per file).  What the channel delivers: *)
Theorem C08_turtle_iter_files_are_documents :
  forall pyfloat read_nt gunzip unxz unzip rdf_parse o cm lss stored,
    cm_plain cm -> Forall (Forall line_ok) lss ->
    Forall2 (stored_as gunzip unxz cm) (map render_lines lss) stored ->
    rd_stream (channel pyfloat read_nt ttl_reader gunzip unxz unzip rdf_parse o (Str "turtle_iter") cm (SFiles stored))
    = sconcat (map (fun ls => rd_stream (ttl_reader (filter nonblank ls))) lss).
Proof. exact ttl_files_stream. Qed.
Print Assumptions C08_turtle_iter_files_are_documents.

(** ** (i) N-Triples against TURTLE_ITER *)
Theorem C08_nt_vs_turtle_iter :
  forall pyfloat allow gunzip unxz unzip rdf_parse fa c thr (o1 o2 o1' o2' : porc) ts ls d G,
    Forall nt_ok_case ts ->
    TtlSyntax.lays_out ls d -> TtlDomain.C07_dom ls d = true -> TtlSyntax.sem d = Some G ->
    map erase_lex G = nt_graph ts ->
    nt_run pyfloat allow gunzip unxz unzip rdf_parse fa c thr o1 o2 ts
    = ttl_run pyfloat allow gunzip unxz unzip rdf_parse fa c thr o1' o2' ls.
Proof. exact nt_vs_turtle_iter. Qed.
Print Assumptions C08_nt_vs_turtle_iter.

(** the same triples in a different order: with C09
    ([C09_keys_permutation_invariant_valid]) both extractions succeed, same
    classes, shape names, instance counts and key sets *)
Theorem C08_nt_vs_turtle_iter_permuted :
  forall pyfloat allow gunzip unxz unzip rdf_parse fa c thr (o1 o2 o1' o2' : porc) ts ls d G,
    Forall nt_ok_case ts ->
    TtlSyntax.lays_out ls d -> TtlDomain.C07_dom ls d = true -> TtlSyntax.sem d = Some G ->
    Permutation (nt_graph ts) (map erase_lex G) ->
    (r_cap c <= 0)%Z -> r_remove_empty c = false -> EndToEnd2.valid_input c (nt_graph ts) = true ->
    exists ns shapes shapes',
      nt_run pyfloat allow gunzip unxz unzip rdf_parse fa c thr o1 o2 ts = Some (inl (ns, shapes)) /\
      ttl_run pyfloat allow gunzip unxz unzip rdf_parse fa c thr o1' o2' ls = Some (inl (ns, shapes')) /\
      (forall cls, In cls (map Shexing.sh_class shapes) <-> In cls (map Shexing.sh_class shapes')) /\
      forall sh sh', In sh shapes -> In sh' shapes' -> Shexing.sh_class sh = Shexing.sh_class sh' ->
        Shexing.sh_name sh = Shexing.sh_name sh' /\ Shexing.sh_n sh = Shexing.sh_n sh' /\
        forall key, In key (map (ShexKeys.skey (scfg_of c ns)) (Shexing.sh_stmts sh)) <->
                    In key (map (ShexKeys.skey (scfg_of c ns)) (Shexing.sh_stmts sh')).
Proof. exact nt_vs_turtle_iter_permuted. Qed.
Print Assumptions C08_nt_vs_turtle_iter_permuted.

(** binary64, any setting of remove_empty_shapes ([C09_keys_permutation_invariant_valid_any]) *)
Theorem C08_nt_vs_turtle_iter_permuted_any :
  forall pyfloat allow gunzip unxz unzip rdf_parse c thr (o1 o2 o1' o2' : porc) ts ls d G,
    Forall nt_ok_case ts ->
    TtlSyntax.lays_out ls d -> TtlDomain.C07_dom ls d = true -> TtlSyntax.sem d = Some G ->
    Permutation (nt_graph ts) (map erase_lex G) ->
    (r_cap c <= 0)%Z -> EndToEnd3.valid_input_le1 c (nt_graph ts) = true ->
    Bin64Round.wf_frac thr -> fle BAlg thr (fone BAlg) = true -> (N.of_nat (List.length ts) < 2 ^ 53)%N ->
    exists ns shapes shapes',
      nt_run pyfloat allow gunzip unxz unzip rdf_parse BAlg c thr o1 o2 ts = Some (inl (ns, shapes)) /\
      ttl_run pyfloat allow gunzip unxz unzip rdf_parse BAlg c thr o1' o2' ls = Some (inl (ns, shapes')) /\
      (forall cls, In cls (map Shexing.sh_class shapes) <-> In cls (map Shexing.sh_class shapes')) /\
      forall sh sh', In sh shapes -> In sh' shapes' -> Shexing.sh_class sh = Shexing.sh_class sh' ->
        Shexing.sh_name sh = Shexing.sh_name sh' /\ Shexing.sh_n sh = Shexing.sh_n sh' /\
        forall key, In key (map (ShexKeys.skey (scfg_of c ns)) (Shexing.sh_stmts sh)) <->
                    In key (map (ShexKeys.skey (scfg_of c ns)) (Shexing.sh_stmts sh')).
Proof. exact nt_vs_turtle_iter_permuted_any. Qed.
Print Assumptions C08_nt_vs_turtle_iter_permuted_any.

(** ** non-vacuity of (e)-(i): the model with both readers, no codec, no rdflib *)

Definition rpasses := closed_passes no_float false no_codec no_codec no_unzip no_parse no_orc no_orc.
Definition rchan := channel no_float (nt_reader false) ttl_reader no_codec no_codec no_unzip no_parse no_orc.

Definition nic (s : string) : list NtSyntax.item := map NtSyntax.IChar (list_ascii_of_string s).
Definition nlay (s1 s2 pd : string) (c : option (string * string)) : NtSyntax.layout :=
  NtSyntax.Layout (Str s1) (Str s2) (Str pd) (match c with Some (w, t) => Some (Str w, Str t) | None => None end).
Definition XSD_INT : str := Str "http://www.w3.org/2001/XMLSchema#integer".

(** an N-Triples document: a typing triple, a tagged literal on a line with
    doubled separators and a trailing comment, a blank node with a typed literal *)
Definition nt_ex : list (NtSyntax.striple * NtSyntax.layout) :=
  [ (NtSyntax.STriple (NtSyntax.NIri (Str "http://e/a")) c_RDF_TYPE (NtSyntax.ONode (NtSyntax.NIri (Str "http://e/C"))),
     nlay " " " " " " None);
    (NtSyntax.STriple (NtSyntax.NIri (Str "http://e/a")) (Str "http://e/p")
                      (NtSyntax.OLit (nic "v #1") (NtSyntax.SufLang (Str "en"))),
     nlay "  " " " " " (Some (" "%string, " a comment"%string)));
    (NtSyntax.STriple (NtSyntax.NBn (Str "b1")) (Str "http://e/q") (NtSyntax.OLit (nic "5") (NtSyntax.SufType XSD_INT)),
     nlay " " " " " " None) ].

(** its three lines split 1 | 0 | 2 over three files *)
Definition nt_lss : list (list str) := [firstn 1 (nt_lines nt_ex); []; skipn 1 (nt_lines nt_ex)].

Definition shapes_found (r : option ((Tokens.nsdict * list Shexing.shape) + rerr)) : list (str * nat) :=
  match r with
  | Some (inl (_, l)) => map (fun s => (Shexing.sh_class s, List.length (Shexing.sh_stmts s))) l
  | _ => []
  end.

Example C08_nt_text_inhabited :
  Forall nt_ok_case nt_ex /\ Forall line_ok (nt_lines nt_ex) /\ List.concat nt_lss = nt_lines nt_ex
  /\ run_over_passes BAlg ex_cfg ex_thr (rpasses (Str "nt") None (SRaw (NtSyntax.nt_doc nt_ex)))
     = Some (run_shapes_cur BAlg ex_cfg ex_thr (nt_graph nt_ex))
  /\ run_over_passes BAlg ex_cfg ex_thr (rpasses (Str "nt") None (SFiles (map render_lines nt_lss)))
     = Some (run_shapes_cur BAlg ex_cfg ex_thr (nt_graph nt_ex))
  /\ shapes_found (Some (run_shapes_cur BAlg ex_cfg ex_thr (nt_graph nt_ex))) = [(Str "http://e/C", 2%nat)].
Proof.
  split; [repeat constructor; vm_compute; reflexivity|].
  split; [apply lines_okb_ok; vm_compute; reflexivity|].
  split; [reflexivity|]. split; [vm_compute; reflexivity|]. split; vm_compute; reflexivity.
Qed.

(** lines that are not statements: a blank line, a line with two tokens
    (both counted as errors), and a line on which the reader raises
    RuntimeError (C06-F3).  The streams agree; the error counter does not (the
    raw-string line reader drops the blank line before the reader counts it:
    1 against 2), which is why (a) is stated on [rd_stream]. *)
Definition nt_bad_lines : list str :=
  [ Str "<http://e/a> <http://e/p> <http://e/b> ."; Str "  "; Str "<http://e/a> <http://e/p> .";
    Str "_:x <http://e/q> ""w"" ." ].
Definition nt_raising_line : str := Str "<http://e/a> <http://e/p> ""^^"" .".

Example C08_nt_any_lines_inhabited :
  rd_stream (rchan (Str "nt") None (SFiles (map render_lines [firstn 2 nt_bad_lines; skipn 2 nt_bad_lines])))
  = rd_stream (rchan (Str "nt") None (SRaw (render_lines nt_bad_lines)))
  /\ (exists ms, rchan (Str "nt") None (SRaw (render_lines nt_bad_lines)) = inl (Res ms 2 1) /\ List.length ms = 2%nat)
  /\ (exists ms, rchan (Str "nt") None (SFile (render_lines nt_bad_lines)) = inl (Res ms 2 2))
  /\ rd_stream (rchan (Str "nt") None (SFiles (map render_lines [nt_bad_lines; [nt_raising_line]; nt_bad_lines]))) = inr CERuntime
  /\ rd_stream (rchan (Str "nt") None (SRaw (render_lines (nt_bad_lines ++ [nt_raising_line] ++ nt_bad_lines)))) = inr CERuntime.
Proof.
  split; [vm_compute; reflexivity|]. split; [eexists; split; vm_compute; reflexivity|].
  split; [eexists; vm_compute; reflexivity|]. split; vm_compute; reflexivity.
Qed.

(** a Turtle document denoting the same triples: prefixes, [a], [;], a
    whole-line and a trailing comment, a statement cut over two lines *)
Definition tsp : str := Str " ".
Definition ttoks (ts : list TtlSyntax.atok) : TtlSyntax.line := TtlSyntax.LToks [] (map (fun t => (t, tsp)) ts) None.
Definition tprefix (p ns : string) : TtlSyntax.line :=
  TtlSyntax.LDir [] (TtlSyntax.DPrefix (Str p) (TtlSyntax.IAbs (Str ns))) [tsp; tsp; tsp; []] None.
Definition texr (l : string) : TtlSyntax.iri_ref := TtlSyntax.IPre (Str "ex") (Str l).
Definition t_xsd_int : TtlSyntax.iri_ref := TtlSyntax.IPre (Str "xsd") (Str "integer").

Definition ttl_g_a : TtlSyntax.group :=
  TtlSyntax.Group (TtlSyntax.SIri (texr "a"))
    [(TtlSyntax.PA, [TtlSyntax.OIri (texr "C")]);
     (TtlSyntax.PIri (texr "p"), [TtlSyntax.OLit (Str "v #1") (TtlSyntax.LLang (Str "en"))])].
Definition ttl_g_b : TtlSyntax.group :=
  TtlSyntax.Group (TtlSyntax.SBn (Str "b1"))
    [(TtlSyntax.PIri (TtlSyntax.IAbs (Str "http://e/q")), [TtlSyntax.OLit (Str "5") (TtlSyntax.LTyped t_xsd_int)])].
Definition ttl_dirs : list TtlSyntax.item :=
  [ TtlSyntax.IDir (TtlSyntax.DPrefix (Str "ex") (TtlSyntax.IAbs (Str "http://e/")));
    TtlSyntax.IDir (TtlSyntax.DPrefix (Str "xsd") (TtlSyntax.IAbs TtlSyntax.xsd_ns)) ].
Definition ttl_dir_lines : list TtlSyntax.line :=
  [ tprefix "ex" "http://e/"; tprefix "xsd" "http://www.w3.org/2001/XMLSchema#" ].
Definition ttl_a_lines : list TtlSyntax.line :=
  [ TtlSyntax.LToks [] [] (Some (Str " a comment"));
    ttoks [TtlSyntax.ASubj (TtlSyntax.SIri (texr "a")); TtlSyntax.APred TtlSyntax.PA; TtlSyntax.AObj (TtlSyntax.OIri (texr "C"));
           TtlSyntax.ASemi];
    TtlSyntax.LToks (Str "  ")
      [(TtlSyntax.APred (TtlSyntax.PIri (texr "p")), tsp);
       (TtlSyntax.AObj (TtlSyntax.OLit (Str "v #1") (TtlSyntax.LLang (Str "en"))), tsp); (TtlSyntax.ADot, tsp)]
      (Some (Str " trailing")) ].
Definition ttl_b_lines : list TtlSyntax.line :=
  [ ttoks [TtlSyntax.ASubj (TtlSyntax.SBn (Str "b1")); TtlSyntax.APred (TtlSyntax.PIri (TtlSyntax.IAbs (Str "http://e/q")))];
    ttoks [TtlSyntax.AObj (TtlSyntax.OLit (Str "5") (TtlSyntax.LTyped t_xsd_int)); TtlSyntax.ADot] ].

Definition ttl_ex : TtlSyntax.doc := ttl_dirs ++ [TtlSyntax.IGrp ttl_g_a; TtlSyntax.IGrp ttl_g_b].
Definition ttl_ex_lines : list TtlSyntax.line := ttl_dir_lines ++ ttl_a_lines ++ ttl_b_lines.
(** the same statements, the blank-node group first *)
Definition ttl_ex2 : TtlSyntax.doc := ttl_dirs ++ [TtlSyntax.IGrp ttl_g_b; TtlSyntax.IGrp ttl_g_a].
Definition ttl_ex2_lines : list TtlSyntax.line := ttl_dir_lines ++ ttl_b_lines ++ ttl_a_lines.

Example C08_turtle_iter_text_inhabited :
  TtlSyntax.lays_out ttl_ex_lines ttl_ex /\ TtlDomain.C07_dom ttl_ex_lines ttl_ex = true
  /\ Forall line_ok (ttl_text_lines ttl_ex_lines)
  /\ exists G, TtlSyntax.sem ttl_ex = Some G /\ List.length G = 3%nat
     /\ run_over_passes BAlg ex_cfg ex_thr (rpasses (Str "turtle_iter") None (SRaw (TtlSyntax.render_doc ttl_ex_lines)))
        = Some (run_shapes_cur BAlg ex_cfg ex_thr G)
     /\ run_over_passes BAlg ex_cfg ex_thr
          (rpasses (Str "turtle_iter") None (SFile (render_lines (ttl_text_lines ttl_ex_lines))))
        = Some (run_shapes_cur BAlg ex_cfg ex_thr G)
     /\ shapes_found (Some (run_shapes_cur BAlg ex_cfg ex_thr G)) = [(Str "http://e/C", 2%nat)].
Proof.
  split; [repeat split; vm_compute; reflexivity|]. split; [vm_compute; reflexivity|].
  split; [apply lines_okb_ok; vm_compute; reflexivity|].
  eexists. split; [vm_compute; reflexivity|]. split; [reflexivity|].
  split; [vm_compute; reflexivity|]. split; vm_compute; reflexivity.
Qed.

(** C08-T1 (by design of the multi-file yielder, stated here so that nobody
    reads (a) as covering TURTLE_ITER): the two @prefix lines in a first file,
    the statements in a second one.  The single raw string delivers the three
    triples; the two files end in ValueError (undeclared prefix). *)
Definition ttl_split : list (list str) :=
  [ttl_text_lines ttl_dir_lines; ttl_text_lines (ttl_a_lines ++ ttl_b_lines)].

Lemma C08_turtle_iter_partition_refuted :
  exists lss,
    Forall (Forall line_ok) lss /\
    Forall2 (stored_as no_codec no_codec None) (map render_lines lss) (map render_lines lss) /\
    rd_stream (rchan (Str "turtle_iter") None (SFiles (map render_lines lss)))
    <> rd_stream (rchan (Str "turtle_iter") None (SRaw (render_lines (List.concat lss)))).
Proof.
  exists ttl_split. split; [|split].
  - repeat constructor; apply line_okb_ok; vm_compute; reflexivity.
  - repeat constructor.
  - vm_compute. discriminate.
Qed.

Example C08_turtle_iter_partition_witness :
  List.concat ttl_split = ttl_text_lines ttl_ex_lines
  /\ rd_stream (rchan (Str "turtle_iter") None (SFiles (map render_lines ttl_split))) = inr CEValue
  /\ exists ms, rd_stream (rchan (Str "turtle_iter") None (SRaw (render_lines (List.concat ttl_split)))) = inl ms
                /\ List.length ms = 3%nat.
Proof. split; [reflexivity|]. split; [vm_compute; reflexivity|]. eexists. split; vm_compute; reflexivity. Qed.

(** the N-Triples and the Turtle document denote the same triples up to
    lexical forms, in the same order / in another order: every hypothesis of
    (i) holds *)
Lemma perm_rot3 {A} (a b c : A) : Permutation [a; b; c] [c; a; b].
Proof. apply Permutation_sym. change [a; b; c] with ([a; b] ++ [c]). apply Permutation_cons_append. Qed.

Example C08_nt_vs_turtle_iter_inhabited :
  (exists G, TtlSyntax.sem ttl_ex = Some G /\ map erase_lex G = nt_graph nt_ex)
  /\ TtlSyntax.lays_out ttl_ex2_lines ttl_ex2 /\ TtlDomain.C07_dom ttl_ex2_lines ttl_ex2 = true
  /\ (exists G, TtlSyntax.sem ttl_ex2 = Some G /\ Permutation (nt_graph nt_ex) (map erase_lex G)
                /\ map erase_lex G <> nt_graph nt_ex)
  /\ (r_cap ex_cfg <= 0)%Z /\ EndToEnd3.valid_input_le1 ex_cfg (nt_graph nt_ex) = true
  /\ Bin64Round.wf_frac ex_thr /\ fle BAlg ex_thr (fone BAlg) = true /\ (N.of_nat (List.length nt_ex) < 2 ^ 53)%N
  /\ shapes_found (ttl_run no_float false no_codec no_codec no_unzip no_parse BAlg ex_cfg ex_thr no_orc no_orc ttl_ex2_lines)
     = [(Str "http://e/C", 2%nat)].
Proof.
  split; [eexists; split; vm_compute; reflexivity|].
  split; [repeat split; vm_compute; reflexivity|]. split; [vm_compute; reflexivity|].
  split.
  { eexists. split; [vm_compute; reflexivity|]. split.
    - vm_compute. apply perm_rot3.
    - vm_compute. discriminate. }
  split; [intros H; discriminate H|]. split; [vm_compute; reflexivity|].
  split; [vm_compute; split; [discriminate | reflexivity]|].
  split; [vm_compute; reflexivity|]. split; vm_compute; reflexivity.
Qed.
