(** * C08 -- the extracted shapes do not depend on how the graph is delivered

    The layer proved here is the plumbing that turns a *source* into the two
    triple streams of the two passes (Model/Channels.v).  The character-level
    readers are external: the N-Triples document reader enters as a hypothesis
    ([line_compositional], C06's theorem), the TSV reader is modelled and
    proved here, rdflib is an oracle (a permutation and a blank-node renaming
    per pass). *)
From Coq Require Import List Ascii String ZArith NArith Bool.
From Shexer Require Import Lib.PyStr Lib.Dict Gen.Consts Spec.Rdf Model.Tracker Model.Profiler
     Model.Freq Model.FreqInst Model.SerialShexc Model.Run Model.Channels Spec.ChannelSpec Proofs.ChannelProofs.
From Coq Require Import Permutation.
From Shexer Require Import Spec.Counts Proofs.EndToEnd Proofs.ChannelCompose.
Import ListNotations.

(** ** (a) the partition of the lines into files / zip members is invisible.

    For a line-based format whose document reader is line-compositional
    (N-Triples: hypothesis; TSV: proved below), ANY partition [lss] of the
    lines into files, read in list order through the multi-file yielder, plain
    or gz / xz compressed (codec = identity on content: [stored_as]), delivers
    the triple stream of the single raw string -- provided blank lines are
    harmless: the reader is blank-silent (N-Triples: hypothesis; TSV: proved
    below, since the fix of C08-F5) or there is no blank line. *)
Theorem C08_partition_invisible :
  forall pyfloat read_nt read_ttl gunzip unxz unzip rdf_parse fmt read o o' cm lss stored,
    line_family pyfloat read_nt fmt read -> line_compositional read ->
    blanks_harmless read (List.concat lss) -> cm_plain cm ->
    Forall (Forall line_ok) lss ->
    Forall2 (stored_as gunzip unxz cm) (map render_lines lss) stored ->
    rd_stream (channel pyfloat read_nt read_ttl gunzip unxz unzip rdf_parse o fmt cm (SFiles stored))
    = rd_stream (channel pyfloat read_nt read_ttl gunzip unxz unzip rdf_parse o' fmt None
                         (SRaw (render_lines (List.concat lss)))).
Proof. exact partition_invisible_files. Qed.
Print Assumptions C08_partition_invisible.

(** one file, plain or compressed *)
Theorem C08_partition_invisible_file :
  forall pyfloat read_nt read_ttl gunzip unxz unzip rdf_parse fmt read o o' cm ls st,
    line_family pyfloat read_nt fmt read -> line_compositional read -> blanks_harmless read ls -> cm_plain cm ->
    Forall line_ok ls -> stored_as gunzip unxz cm (render_lines ls) st ->
    rd_stream (channel pyfloat read_nt read_ttl gunzip unxz unzip rdf_parse o fmt cm (SFile st))
    = rd_stream (channel pyfloat read_nt read_ttl gunzip unxz unzip rdf_parse o' fmt None (SRaw (render_lines ls))).
Proof. exact partition_invisible_file. Qed.
Print Assumptions C08_partition_invisible_file.

(** the members of one zip archive, in [namelist()] order *)
Theorem C08_partition_invisible_zip :
  forall pyfloat read_nt read_ttl gunzip unxz unzip rdf_parse fmt read o o' archive lss,
    line_family pyfloat read_nt fmt read -> line_compositional read -> blanks_harmless read (List.concat lss) ->
    Forall (Forall line_ok) lss -> archive_holds unzip archive lss ->
    rd_stream (channel pyfloat read_nt read_ttl gunzip unxz unzip rdf_parse o fmt (Some c_ZIP) (SFile archive))
    = rd_stream (channel pyfloat read_nt read_ttl gunzip unxz unzip rdf_parse o' fmt None
                         (SRaw (render_lines (List.concat lss)))).
Proof. exact partition_invisible_zip. Qed.
Print Assumptions C08_partition_invisible_zip.

(** any number of zip archives, each with any number of members *)
Theorem C08_partition_invisible_zips :
  forall pyfloat read_nt read_ttl gunzip unxz unzip rdf_parse fmt read o o' archives lsss,
    line_family pyfloat read_nt fmt read -> line_compositional read ->
    blanks_harmless read (List.concat (List.concat lsss)) ->
    Forall (Forall (Forall line_ok)) lsss -> Forall2 (archive_holds unzip) archives lsss ->
    rd_stream (channel pyfloat read_nt read_ttl gunzip unxz unzip rdf_parse o fmt (Some c_ZIP) (SFiles archives))
    = rd_stream (channel pyfloat read_nt read_ttl gunzip unxz unzip rdf_parse o' fmt None
                         (SRaw (render_lines (List.concat (List.concat lsss))))).
Proof. exact partition_invisible_zips. Qed.
Print Assumptions C08_partition_invisible_zips.

(** the hypothesis on the reader, discharged for the TSV reader modelled here *)
Theorem C08_tsv_line_compositional : forall pyfloat, line_compositional (read_tsv pyfloat).
Proof. exact read_tsv_compositional. Qed.
Print Assumptions C08_tsv_line_compositional.

(** the TSV reader discards a blank line (counted, no triple, no exception):
    this is the repaired [log_msg] call, [Gen.Consts.c08_tsv_discard_log_fits] *)
Theorem C08_tsv_blank_silent : forall pyfloat, blank_silent (read_tsv pyfloat).
Proof. exact read_tsv_blank_silent. Qed.
Print Assumptions C08_tsv_blank_silent.

(** hence, for TSV, with no hypothesis on any reader and blank lines allowed *)
Theorem C08_partition_invisible_tsv :
  forall pyfloat read_nt read_ttl gunzip unxz unzip rdf_parse o o' cm lss stored,
    cm_plain cm -> Forall (Forall line_ok) lss ->
    Forall2 (stored_as gunzip unxz cm) (map render_lines lss) stored ->
    rd_stream (channel pyfloat read_nt read_ttl gunzip unxz unzip rdf_parse o (Str "tsv_spo") cm (SFiles stored))
    = rd_stream (channel pyfloat read_nt read_ttl gunzip unxz unzip rdf_parse o' (Str "tsv_spo") None
                         (SRaw (render_lines (List.concat lss)))).
Proof.
  intros pyfloat read_nt read_ttl gunzip unxz unzip rdf_parse o o' cm lss stored.
  exact (partition_invisible_files pyfloat read_nt read_ttl gunzip unxz unzip rdf_parse _ _ o o' cm lss stored
                                   (Fam_tsv pyfloat read_nt) (read_tsv_compositional pyfloat)
                                   (or_introl (read_tsv_blank_silent pyfloat))).
Qed.
Print Assumptions C08_partition_invisible_tsv.

(** ** (b) the graph is read twice, by two independently built yielders.

    Line-based channels (nt, tsv_spo, turtle_iter over a raw string, a file,
    several files, compressed or not): whatever rdflib's choices [o1], [o2]
    would be on the two passes, both passes deliver the same result, so the
    single-graph form [Run.run_shapes] applies ([run_shapes2_same]). *)
Theorem C08_both_passes_same :
  forall pyfloat read_nt read_ttl gunzip unxz unzip rdf_parse (o1 o2 : porc) fmt cm src,
    line_fmt fmt -> In cm documented_compressions -> local_source src ->
    let p := passes pyfloat read_nt read_ttl gunzip unxz unzip rdf_parse o1 o2 fmt cm src in
    fst p = snd p.
Proof.
  intros. unfold p, passes. cbn [fst snd]. apply line_channels_oracle_free; assumption.
Qed.
Print Assumptions C08_both_passes_same.

Theorem C08_same_stream_single_graph :
  forall fa c thr g, run_shapes2 fa c thr g g = run_shapes fa c thr g.
Proof. exact run_shapes2_same. Qed.
Print Assumptions C08_same_stream_single_graph.

(** rdflib channels deliver [rename f1 g1] to the instance pass and
    [rename f2 g2] to the feature pass ([g1], [g2] permutations of the graph,
    [f1], [f2] chosen independently).  Partial: proved for graphs whose typing
    triples involve no blank node (no blank-node instance, no blank-node
    class) and whose blank-node labels are not instance ids -- then the shapes
    do not depend on the renamings at all.  The dependence on the two
    permutations is C09's subject.  Blank-node instances with [f1 <> f2] are
    refuted below (the property's own exclusion). *)
Theorem C08_renamings_invisible_partial :
  forall fa c thr g1 g2 f1 f2,
    typing_iri (r_tau c) g1 -> typing_iri (r_tau c) g2 ->
    (forall ins b, track (r_tau c) (tmode_of c) (r_cap c) g1 = inl ins ->
                   In b (bnode_ids g2) -> dmem ins b = false /\ dmem ins (f2 b) = false) ->
    run_shapes2 fa c thr (rename f1 g1) (rename f2 g2) = run_shapes2 fa c thr g1 g2.
Proof. exact renamings_invisible. Qed.
Print Assumptions C08_renamings_invisible_partial.

(** everywhere: the feature pass attaches features only to the node ids the
    instance pass recorded (it never adds or removes an instance) *)
Theorem C08_feature_pass_same_ids :
  forall c I g P C ID, profile c I g = inl (P, C, ID) -> dkeys ID = dkeys I.
Proof. exact profile_same_ids. Qed.
Print Assumptions C08_feature_pass_same_ids.

(** ** (c) every accepted (format, compression, source kind) combination
    reaches the documented yielder -- on [dispatch_dom]; the excluded family
    (a URL with a format rdflib does not parse) is refuted below; a
    compression mode given with a raw string or an rdflib graph is ignored
    (since the fix of C08-F3).  The proof evaluates the dispatch tables
    [Gen.Consts.c08_chain], [c08_helpers], ... regenerated from
    triple_yielders_factory.py. *)
Theorem C08_dispatch_total :
  forall fmt cm k,
    accepted fmt cm k -> dispatch_dom fmt cm k = true ->
    exists d, dispatch fmt cm k = inl d /\ class_name d = expected_class fmt cm k.
Proof. exact dispatch_total. Qed.
Print Assumptions C08_dispatch_total.

(** ** rdflib channels type a literal as the N-Triples reader does, for every
    lexical form (since the fix of C08-F1: the literal's own language and
    datatype decide, not a text search in the content) *)
Theorem C08_rdflib_literal_typing :
  forall lex k, exists content, turn_literal (rlit_of lex k) = inl (MLit content (dt_of k)).
Proof. exact turn_literal_kinded. Qed.
Print Assumptions C08_rdflib_literal_typing.

(** ** (d) the TSV channel reads N-Triples semantics *)
Theorem C08_tsv_reads_nt_semantics :
  forall pyfloat g,
    tsv_dom g = true ->
    read_tsv pyfloat (map tsv_line_of g) = inl (Res (map m_of g) (List.length g) 0)
    /\ graph_of_m (map m_of g) = Some (kinded g).
Proof. exact tsv_reads_nt_semantics. Qed.
Print Assumptions C08_tsv_reads_nt_semantics.

Theorem C08_tsv_channel_kinded :
  forall pyfloat read_nt read_ttl gunzip unxz unzip rdf_parse o g,
    tsv_dom g = true -> Forall line_ok (map tsv_line_of g) ->
    rd_stream (channel pyfloat read_nt read_ttl gunzip unxz unzip rdf_parse o (Str "tsv_spo") None (SRaw (tsv_doc g)))
    = inl (map m_of g)
    /\ graph_of_m (map m_of g) = Some (kinded g).
Proof. exact tsv_channel_kinded. Qed.
Print Assumptions C08_tsv_channel_kinded.

(** ** non-vacuity *)

Definition ex_graph : agraph :=
  [ AT (AIri (Str "http://ex.org/a")) (Str "http://www.w3.org/1999/02/22-rdf-syntax-ns#type")
       (AN (AIri (Str "http://ex.org/C")));
    AT (AIri (Str "http://ex.org/a")) (Str "http://ex.org/name") (ALit (Str "two words") LPlain);
    AT (AIri (Str "http://ex.org/a")) (Str "http://ex.org/age")
       (ALit (Str "23") (LTyped (Str "http://www.w3.org/2001/XMLSchema#integer")));
    AT (ABn (Str "b0")) (Str "http://ex.org/label") (ALit (Str "chat") (LLang (Str "fr")));
    AT (AIri (Str "http://ex.org/a")) (Str "http://ex.org/knows") (AN (ABn (Str "b0"))) ].

Example C08_tsv_dom_inhabited :
  tsv_dom ex_graph = true /\ Forall line_ok (map tsv_line_of ex_graph).
Proof. split; [vm_compute; reflexivity | apply lines_okb_ok; vm_compute; reflexivity]. Qed.

(** a concrete instance of the model (no codec, no NT/TTL reader, no rdflib) *)
Definition no_float (_ : str) : option bool := None.
Definition no_reader (_ : list str) : rd := inr CESource.
Definition no_codec (_ : str) : option str := None.
Definition no_unzip (_ : str) : option (list (str * str)) := None.
Definition no_parse (_ _ : str) : option (list rtriple) := None.
Definition no_orc : porc := fun _ _ => {| o_perm := fun g => g; o_sigma := fun s => s |}.
Definition ex_chan := channel no_float no_reader no_reader no_codec no_codec no_unzip no_parse no_orc.

(** the five TSV lines split 2 | 0 | 3 over three files: hypotheses hold, and
    both sides evaluate to the five triples of [kinded ex_graph] *)
Definition ex_lss : list (list str) :=
  [ firstn 2 (map tsv_line_of ex_graph); []; skipn 2 (map tsv_line_of ex_graph) ].

Example C08_partition_inhabited :
  Forall (Forall line_ok) ex_lss
  /\ Forall2 (stored_as no_codec no_codec None) (map render_lines ex_lss) (map render_lines ex_lss)
  /\ rd_stream (ex_chan (Str "tsv_spo") None (SFiles (map render_lines ex_lss))) = inl (map m_of ex_graph)
  /\ rd_stream (ex_chan (Str "tsv_spo") None (SRaw (tsv_doc ex_graph))) = inl (map m_of ex_graph).
Proof.
  split; [|split; [|split]].
  - repeat constructor; apply line_okb_ok; vm_compute; reflexivity.
  - repeat constructor.
  - vm_compute. reflexivity.
  - vm_compute. reflexivity.
Qed.

Example C08_dispatch_inhabited :
  accepted (Str "nt") (Some (Str "zip")) (KFiles 3)
  /\ dispatch_dom (Str "nt") (Some (Str "zip")) (KFiles 3) = true
  /\ dispatch (Str "nt") (Some (Str "zip")) (KFiles 3)
     = inl (YZipMany (Str "MultiZipTriplesYielder") (Str "MultiNtTriplesYielder")).
Proof.
  split; [|split]; [unfold accepted; cbn; repeat split; auto; intros _; reflexivity | reflexivity | reflexivity].
Qed.

(** ** the two passes: a concrete configuration and graphs *)

Definition ex_cfg : rcfg :=
  {| r_tau := c_RDF_TYPE; r_targets := None; r_ns := []; r_shapes_ns := c_SHAPES_DEFAULT_NAMESPACE;
     r_cap := (-1)%Z; r_inverse := false; r_remove_empty := true; r_discard_useless := true;
     r_keep_less_specific := true; r_all_compliant := true; r_disable_or := true;
     r_allow_redundant_or := false; r_allow_opt := true; r_disable_exact := false;
     r_disable_comments := false; r_mode := FMixed |}.

Definition ex_thr : F BAlg := b_ratio 0 1.

(** IRI instance with a blank-node value: inside the domain of
    [C08_renamings_invisible_partial], with two different renamings *)
Definition g_iri_inst : graph :=
  [ T (Node KIri (Str "http://e/a")) c_RDF_TYPE (ON (Node KIri (Str "http://e/C")));
    T (Node KIri (Str "http://e/a")) (Str "http://e/p") (ON (Node KBnode (Str "_:x")));
    T (Node KBnode (Str "_:x")) (Str "http://e/q") (OL (Str "v") c_STRING_TYPE) ].

Definition f_one (s : str) : str := s ++ Str "1".
Definition f_two (s : str) : str := s ++ Str "2".

Example C08_renamings_inhabited :
  typing_iri (r_tau ex_cfg) g_iri_inst
  /\ (forall ins b, track (r_tau ex_cfg) (tmode_of ex_cfg) (r_cap ex_cfg) g_iri_inst = inl ins ->
                    In b (bnode_ids g_iri_inst) -> dmem ins b = false /\ dmem ins (f_two b) = false)
  /\ exists text, run_shexc2 BAlg ex_cfg ex_thr (rename f_one g_iri_inst) (rename f_two g_iri_inst) = inl text
                  /\ run_shexc BAlg ex_cfg ex_thr g_iri_inst = inl text.
Proof.
  split; [|split].
  - intros t Hin Htau. cbn [g_iri_inst In] in Hin.
    destruct Hin as [<-|[<-|[<-|[]]]]; try (vm_compute in Htau; discriminate Htau); split; reflexivity.
  - intros ins b Hins Hb. vm_compute in Hins. inversion Hins; subst ins. vm_compute in Hb.
    destruct Hb as [<-|[<-|[]]]; split; vm_compute; reflexivity.
  - eexists. split; vm_compute; reflexivity.
Qed.

(** ** known findings (each with a pinned reproducer in known_findings.json) *)

(** C08-F2: a blank-node INSTANCE delivered through a channel that re-labels
    blank nodes on every pass (rdflib re-parsing the document): the instance
    pass records the instance under one label, the feature pass sees its
    triples under another -- the shape loses its constraints.  Here both the
    profile and the final ShExC text differ from the single-graph run. *)
Definition g_bnode_inst : graph :=
  [ T (Node KBnode (Str "_:a")) c_RDF_TYPE (ON (Node KIri (Str "http://e/C")));
    T (Node KBnode (Str "_:a")) (Str "http://e/p") (OL (Str "v") c_STRING_TYPE) ].

Definition shexc_differ (a b : str + rerr) : bool :=
  match a, b with inl x, inl y => negb (str_eqb x y) | _, _ => false end.

Lemma C08_bnode_relabel_refuted :
  exists fa c thr g f1 f2,
    shexc_differ (run_shexc2 fa c thr (rename f1 g) (rename f2 g)) (run_shexc fa c thr g) = true.
Proof.
  exists BAlg, ex_cfg, ex_thr, g_bnode_inst, f_one, f_two. vm_compute. reflexivity.
Qed.

(** with one renaming for both passes (channels with stable labels) the same graph is fine *)
Example C08_bnode_stable_labels_fine :
  shexc_differ (run_shexc2 BAlg ex_cfg ex_thr (rename f_one g_bnode_inst) (rename f_one g_bnode_inst))
               (run_shexc BAlg ex_cfg ex_thr (rename f_one g_bnode_inst)) = false.
Proof. vm_compute. reflexivity. Qed.

(** C08-F1 (fixed): a plain literal holding an at-sign is xsd:string on the rdflib channels too *)
Example C08_at_sign_plain_literal_regression :
  turn_literal (RL (Str "user@example.org") None None) = inl (MLit (Str "user@example.org") c_STRING_TYPE)
  /\ parse_literal (Q :: Str "user@example.org" ++ [Q]) = inl (MLit (Str "user@example.org") c_STRING_TYPE).
Proof. split; vm_compute; reflexivity. Qed.

(** C08-F5 (fixed): a TSV text with a blank line is the same stream as a file and as a raw string *)
Example C08_tsv_blank_line_regression :
  let doc := render_lines [tsv_line_of (AT (AIri (Str "http://e/a")) (Str "http://e/p") (AN (AIri (Str "http://e/b")))); []] in
  rd_stream (ex_chan (Str "tsv_spo") None (SFile doc)) = rd_stream (ex_chan (Str "tsv_spo") None (SRaw doc))
  /\ exists ms, rd_stream (ex_chan (Str "tsv_spo") None (SFile doc)) = inl ms /\ ms <> [].
Proof. split; [vm_compute; reflexivity|]. eexists. split; [vm_compute; reflexivity | discriminate]. Qed.

(** C08-F3 (fixed): compression_mode zip with a raw string or an rdflib graph has nothing to unzip *)
Example C08_dispatch_zip_nonfile_regression :
  accepted (Str "nt") (Some (Str "zip")) KRaw
  /\ dispatch (Str "nt") (Some (Str "zip")) KRaw = inl (YPlain (Str "NtTriplesYielder"))
  /\ dispatch (Str "nt") (Some (Str "zip")) KGraph = inl (YPlain (Str "RdflibTripleYielder")).
Proof. split; [exact accepted_zip_raw | split; reflexivity]. Qed.

(** C08-F4: a URL source with a format rdflib does not parse is accepted by
    the constructor and fails at the first extraction with ValueError *)
Lemma C08_dispatch_url_format_refuted :
  exists fmt cm k, accepted fmt cm k /\ dispatch fmt cm k = inr CEValue.
Proof. exists (Str "tsv_spo"), None, KUrl. split; [exact accepted_url_tsv | reflexivity]. Qed.

(** ** the property's own form, line-based channels: relative to the raw
    string (the reference channel), every partition / compression yields the
    same extracted shapes -- over the two independently built yielders *)
Theorem C08_channel_independent_lines :
  forall pyfloat read_nt read_ttl gunzip unxz unzip rdf_parse fa c thr fmt read (o o1 o2 : porc) cm lss stored ms G,
    line_family pyfloat read_nt fmt read -> line_compositional read ->
    blanks_harmless read (List.concat lss) -> cm_plain cm ->
    Forall (Forall line_ok) lss ->
    Forall2 (stored_as gunzip unxz cm) (map render_lines lss) stored ->
    rd_stream (channel pyfloat read_nt read_ttl gunzip unxz unzip rdf_parse o fmt None
                       (SRaw (render_lines (List.concat lss)))) = inl ms ->
    graph_of_m ms = Some G ->
    run_over_passes fa c thr (passes pyfloat read_nt read_ttl gunzip unxz unzip rdf_parse o1 o2 fmt cm (SFiles stored))
    = Some (run_shapes fa c thr G).
Proof. exact channel_independent_files. Qed.
Print Assumptions C08_channel_independent_lines.

(** closed form for the TSV channel (reader modelled here): the shapes are those of [kinded g] *)
Theorem C08_tsv_channel_independent :
  forall pyfloat read_nt read_ttl gunzip unxz unzip rdf_parse fa c thr (o1 o2 : porc) cm g lss stored,
    tsv_dom g = true -> Forall line_ok (map tsv_line_of g) ->
    List.concat lss = map tsv_line_of g -> cm_plain cm ->
    Forall2 (stored_as gunzip unxz cm) (map render_lines lss) stored ->
    run_over_passes fa c thr (passes pyfloat read_nt read_ttl gunzip unxz unzip rdf_parse o1 o2 (Str "tsv_spo") cm (SFiles stored))
    = Some (run_shapes fa c thr (kinded g)).
Proof. exact tsv_channel_independent. Qed.
Print Assumptions C08_tsv_channel_independent.

(** ** rdflib channels, composed with C09 (Proofs/EndToEnd.v): the passes see
    [rename f1 G1] and [rename f2 G2], [G1] and [G2] permutations of [G].
    Without instance cap and with IRI instances / classes: the instance pass
    yields a dictionary equivalent to that of [G], the feature pass does not
    see its renaming, and every count [occ] / [class_count] over what the two
    passes saw is the count over [G] (by P1 these are all the numbers the
    class profile holds; which of two tied candidates is then chosen is C09's
    tie findings). *)
Theorem C08_rdflib_counts_invariant :
  forall c (G G1 G2 : graph) (f1 f2 : str -> str) (I : insts),
    (r_cap c <= 0)%Z -> Permutation G G1 -> Permutation G G2 ->
    typing_iri (r_tau c) G ->
    (forall b, In b (bnode_ids G) -> dmem I b = false /\ dmem I (f2 b) = false) ->
    track (r_tau c) (mode_of c) (r_cap c) G = inl I ->
    exists I1,
      track (r_tau c) (mode_of c) (r_cap c) (rename f1 G1) = inl I1 /\
      insts_equiv I I1 /\
      profile (pcfg_of c) I1 (rename f2 G2) = profile (pcfg_of c) I1 G2 /\
      (forall cls, class_count I1 cls = class_count I cls) /\
      (forall dir cls p k card, occ dir (r_tau c) I1 G2 cls p k card = occ dir (r_tau c) I G cls p k card).
Proof. exact rdflib_counts_invariant. Qed.
Print Assumptions C08_rdflib_counts_invariant.

Example C08_rdflib_counts_inhabited :
  (r_cap ex_cfg <= 0)%Z /\ Permutation g_iri_inst (rev g_iri_inst) /\ typing_iri (r_tau ex_cfg) g_iri_inst
  /\ exists I, track (r_tau ex_cfg) (mode_of ex_cfg) (r_cap ex_cfg) g_iri_inst = inl I
               /\ forall b, In b (bnode_ids g_iri_inst) -> dmem I b = false /\ dmem I (f_two b) = false.
Proof.
  split; [intros H; discriminate H|]. split; [apply Permutation_rev|]. split.
  - exact (proj1 C08_renamings_inhabited).
  - eexists. split; [vm_compute; reflexivity|].
    intros b Hb. vm_compute in Hb. destruct Hb as [<-|[<-|[]]]; split; vm_compute; reflexivity.
Qed.
