(** * C03 -- in all-compliant mode every instance conforms to its extracted shape *)
From Coq Require Import List Ascii String ZArith NArith Bool.
From Shexer Require Import Lib.PyStr Lib.Dict Gen.Consts Spec.Rdf Spec.ShexSem Model.Tracker Model.Profiler
     Model.Freq Model.FreqInst Model.Shexing Model.Run Model.SchemaOf Proofs.ConformProofs.
Import ListNotations.

(** ** non-vacuity: a schema-consistent graph (two classes, a reference, a
    literal property with per-instance cardinalities 1 and 2, an instance
    without the optional property) whose extracted schema is satisfied by
    every instance, under the exact and under the binary64 algebra *)
Definition c03_good : graph :=
  [ty "s1" "C"; ty "s2" "C"; ty "s3" "C"; ty "x1" "D"; ty "x2" "D";
   tr "s1" "p" (ON (nI "x1")); tr "s2" "p" (ON (nI "x2")); tr "s3" "p" (ON (nI "x1")); tr "s3" "p" (ON (nI "x2"));
   tr "s1" "q" (lit "a"); tr "s2" "q" (lit "b"); tr "s2" "q" (lit "c");
   tr "x1" "r" (ON (nI "s1"))].

Example C03_nonvacuous :
  conforms_run QAlg (c03_cfg true true true false true) (thr_val QAlg 0 1) c03_good = Some true /\
  conforms_run BAlg (c03_cfg true true true false true) (thr_val BAlg 0 1) c03_good = Some true /\
  conforms_run QAlg (c03_cfg false false false true true) (thr_val QAlg 0 1) c03_good = Some true.
Proof. vm_compute. repeat split. Qed.

(** ** the three root causes outside the strict domain (known findings) *)

(** C03-F1: a shape reference chosen on an instance-count tie.  s1 has the
    values x1 (a D) and u (untyped), s2 has x2 (a D): "@D" and "IRI" both count
    2 instances, the reference wins with cardinality 1 and u matches nothing. *)
Definition c03_tie : graph :=
  [ty "s1" "C"; ty "s2" "C"; ty "x1" "D"; ty "x2" "D";
   tr "s1" "p" (ON (nI "x1")); tr "s1" "p" (ON (nI "u")); tr "s2" "p" (ON (nI "x2"))].

Lemma C03_reference_tie_refuted :
  exists c g, r_keep_less_specific c = true /\ r_all_compliant c = true /\
              conforms_run QAlg c (thr_val QAlg 0 1) g = Some false.
Proof. exists (c03_cfg false true true false true), c03_tie. vm_compute. repeat split. Qed.

(** C03-F2: the IRI+BNode merge adds the two instance counts.  a has one IRI
    and one blank-node value, b has none: "NONLITERAL" with cardinality 1 at
    "100 % (2 instances)". *)
Definition c03_overlap : graph :=
  [ty "a" "C"; ty "b" "C"; tr "a" "p" (ON (nI "u")); tr "a" "p" (ON (nB "x"))].

Lemma C03_nonliteral_overlap_refuted :
  exists c g, r_keep_less_specific c = true /\ r_all_compliant c = true /\
              conforms_run QAlg c (thr_val QAlg 0 1) g = Some false.
Proof. exists (c03_cfg false true true false true), c03_overlap. vm_compute. repeat split. Qed.

(** C03-F3: keep_less_specific = false keeps "{1}" (2 of 3 instances) and the
    all-compliant rule turns it into "?" although c has two values; the same
    graph conforms with keep_less_specific = true. *)
Definition c03_kls : graph :=
  [ty "a" "C"; ty "b" "C"; ty "c" "C";
   tr "a" "p" (lit "x"); tr "b" "p" (lit "y"); tr "c" "p" (lit "z"); tr "c" "p" (lit "w")].

Lemma C03_keep_less_specific_false_refuted :
  exists c g, r_keep_less_specific c = false /\ r_all_compliant c = true /\
              conforms_run QAlg c (thr_val QAlg 0 1) g = Some false /\
              conforms_run QAlg (c03_cfg false true true false true) (thr_val QAlg 0 1) g = Some true.
Proof. exists (c03_cfg false true true false false), c03_kls. vm_compute. repeat split. Qed.
