(** * C03 -- in all-compliant mode every instance conforms to its extracted shape *)
From Coq Require Import List Ascii String ZArith NArith Bool.
From Shexer Require Import Lib.PyStr Lib.Dict Lib.Bin64 Gen.Consts Spec.Rdf Spec.ShexSem Model.Tracker Model.Profiler
     Model.Freq Model.FreqInst Model.Shexing Model.Run Model.SchemaOf Model.C03Dom Proofs.Bin64Round Proofs.FreqLaws Proofs.ConformProofs Proofs.ConformSat Proofs.ConformModes Proofs.ConformBridge.
Import ListNotations.

(** ** T1 -- switching the mode off never changes a cardinality.

    For ALL profiles, thresholds, configurations and both frequency algebras:
    with [x_all_compliant = false] no output statement carries '?' or '*';
    every output statement [s] is a selected statement [v] of its class
    ([class_selected]: the result of the two merges on the candidates
    [base_statements]) with the same direction, property, types, count and
    probability, and its cardinality is [v]'s, or '+' for an exact [{k>1}]
    under [disable_exact_cardinality] ([gen_card]); [v] itself (unless it is a
    disjunction or the NONLITERAL statement) is a candidate up to comments. *)
Theorem C03_mode_off_keeps_cards : forall fa cfg thr P C shapes,
  x_all_compliant cfg = false -> shex fa cfg thr P C = inl shapes ->
  forall sh s, In sh shapes -> In s (sh_stmts sh) ->
    s_card s <> COpt /\ s_card s <> CStar /\
    exists ce sel v, In ce P /\ sh_class sh = fst ce /\
      class_selected fa cfg thr C ce = inl sel /\ In v sel /\
      s_inv s = s_inv v /\ s_prop s = s_prop v /\ s_types s = s_types v /\ s_choice s = s_choice v /\
      s_nocc s = s_nocc v /\ s_prob s = s_prob v /\
      s_card s = gen_card cfg (s_card v) /\ base_card (s_card v) /\
      (s_choice v = false -> s_type v <> c_NONLITERAL_ELEM_TYPE ->
       exists b, In b (class_base fa cfg thr C ce) /\ same_core v b).
Proof. exact mode_off_keeps_cards. Qed.
Print Assumptions C03_mode_off_keeps_cards.

(** T1, as a relation between the two runs: whenever the run with the mode ON
    succeeds, the run with the mode OFF succeeds with the same shapes and the
    same statements in the same order (direction, property, types, counts),
    and a cardinality differs only where the ON run relaxed it
    ([relax_card c] against [gen_card c] of the same selected cardinality). *)
Theorem C03_mode_on_off : forall fa cfg thr P C L1,
  shex fa (with_ac true cfg) thr P C = inl L1 ->
  exists L0, shex fa (with_ac false cfg) thr P C = inl L0 /\ Forall2 (shape_rel cfg) L0 L1.
Proof. exact mode_on_off. Qed.
Print Assumptions C03_mode_on_off.

(** ** T2 -- where a '?' comes from (shexing level, all inputs).

    With [keep_less_specific]: an output statement with cardinality '?' (not a
    disjunction, not NONLITERAL) exists only in all-compliant mode with
    [allow_opt_cardinality]; it is a statement of the instantiation property,
    or its class has the two candidates [{1}] and ['+'] of that (direction,
    property, type) with EQUAL frequencies, the exact one having won by the
    "useless positive closure" rule.  [plus_present]: every exact candidate of
    an ordinary property has a '+' sibling (a fact about profiles,
    [plus_present_class] derives it from [pd_wf]). *)
Theorem C03_relaxed_card_sound : forall fa cfg thr P C shapes,
  x_keep_less_specific cfg = true -> shex fa cfg thr P C = inl shapes ->
  (forall ce inv, In ce P -> plus_present (x_tau cfg) (class_dir fa cfg thr C ce inv)) ->
  forall sh s, In sh shapes -> In s (sh_stmts sh) ->
    s_card s = COpt -> s_choice s = false -> s_type s <> c_NONLITERAL_ELEM_TYPE ->
    x_all_compliant cfg = true /\ x_allow_opt cfg = true /\
    (s_prop s = x_tau cfg \/
     (x_discard_useless cfg = true /\
      exists ce a b, In ce P /\ sh_class sh = fst ce /\ sh_n sh = class_cnt C ce /\
        In a (class_base fa cfg thr C ce) /\ In b (class_base fa cfg thr C ce) /\
        s_inv a = s_inv s /\ s_inv b = s_inv s /\ s_prop a = s_prop s /\ s_prop b = s_prop s /\
        s_types a = s_types s /\ s_type b = s_type s /\ s_card a = CExact 1 /\ s_card b = CPlus /\
        (feqb fa (pv fa (class_cnt C ce) a) (pv fa (class_cnt C ce) b) = true \/
         feqb fa (pv fa (class_cnt C ce) b) (pv fa (class_cnt C ce) a) = true))).
Proof. exact relaxed_card_sound. Qed.
Print Assumptions C03_relaxed_card_sound.

(** the two candidates of T2 have EQUAL counts (binary64 frequencies, class
    sizes below 2^53): with [pd_wf] the [{1}] count is the number of instances
    with exactly one value and the ['+'] count the number with at least one,
    so no instance has more than one matching value (that step is inside T3) *)
Theorem C03_useless_pair_equal_counts : forall cfg (thr : F BAlg) counts ce a b,
  In a (class_base BAlg cfg thr counts ce) -> In b (class_base BAlg cfg thr counts ce) ->
  okN53 (class_cnt counts ce) -> (s_nocc a <= class_cnt counts ce)%N -> (s_nocc b <= class_cnt counts ce)%N ->
  (feqb BAlg (pv BAlg (class_cnt counts ce) a) (pv BAlg (class_cnt counts ce) b) = true \/
   feqb BAlg (pv BAlg (class_cnt counts ce) b) (pv BAlg (class_cnt counts ce) a) = true) ->
  s_nocc a = s_nocc b.
Proof. exact (useless_pair_equal_counts BAlg _ _ BAlg_laws). Qed.
Print Assumptions C03_useless_pair_equal_counts.

(** ** T3 -- part (a) of [sat]: every cardinality holds for every instance.

    [insts_of c] are the instances of class [c]; [cntf c i inv p k] is the
    number of values of instance [i] for property [p] in direction [inv] that
    carry type key [k].  [pd_wf] says the class profile holds, for every entry
    (p, k, cardinality key) the number of instances that count for it
    ([ck_ok], Spec/Counts.v's reading), and that an exact entry has a '+'
    sibling -- the profile characterisation P1 (Proofs/ProfileChar.v) proves
    it of the profiler model.  Then, in all-compliant mode with
    [keep_less_specific], for every output statement (not a disjunction, not
    NONLITERAL) and EVERY instance: an exact [{k}] means exactly k values, '+'
    at least one, '?' at most one. *)
Definition C03_profile_wf (cfg : scfg) (A : Type) (insts_of : str -> list A)
           (cntf : str -> A -> bool -> str -> str -> N) (P : cprofile) (C : ccounts) (okN : N -> Prop) : Prop :=
  forall ce, In ce P ->
     class_cnt C ce = N.of_nat (List.length (insts_of (fst ce))) /\ okN (class_cnt C ce) /\
     pd_wf cfg A (insts_of (fst ce)) (cntf (fst ce)) false (c_direct (snd ce)) /\
     (x_inverse cfg = true -> pd_wf cfg A (insts_of (fst ce)) (cntf (fst ce)) true (c_inverse (snd ce))) /\
     (forall i inv k, In i (insts_of (fst ce)) -> (cntf (fst ce) i inv (x_tau cfg) k <= 1)%N).

Theorem C03_cardinalities : forall cfg (A : Type) insts_of cntf (thr : F QAlg) P C shapes,
  x_keep_less_specific cfg = true -> x_all_compliant cfg = true -> wf_frac thr ->
  C03_profile_wf cfg A insts_of cntf P C (fun d => 0 < d)%N ->
  shex QAlg cfg thr P C = inl shapes ->
  forall sh s, In sh shapes -> In s (sh_stmts sh) -> s_choice s = false -> s_type s <> c_NONLITERAL_ELEM_TYPE ->
  forall i, In i (insts_of (sh_class sh)) ->
    card_holds (s_card s) (cntf (sh_class sh) i (s_inv s) (s_prop s) (s_type s)).
Proof. exact (stage_cardinalities QAlg _ _ QAlg_laws). Qed.
Print Assumptions C03_cardinalities.

(** the same under the binary64 algebra the implementation computes with (class sizes below 2^53) *)
Theorem C03_cardinalities_binary64 : forall cfg (A : Type) insts_of cntf (thr : F BAlg) P C shapes,
  x_keep_less_specific cfg = true -> x_all_compliant cfg = true -> wf_frac thr ->
  C03_profile_wf cfg A insts_of cntf P C okN53 ->
  shex BAlg cfg thr P C = inl shapes ->
  forall sh s, In sh shapes -> In s (sh_stmts sh) -> s_choice s = false -> s_type s <> c_NONLITERAL_ELEM_TYPE ->
  forall i, In i (insts_of (sh_class sh)) ->
    card_holds (s_card s) (cntf (sh_class sh) i (s_inv s) (s_prop s) (s_type s)).
Proof. exact (stage_cardinalities BAlg _ _ BAlg_laws). Qed.
Print Assumptions C03_cardinalities_binary64.

(** side claim of the property: '?' only where no instance has two matching values *)
Theorem C03_opt_at_most_one : forall cfg (A : Type) insts_of cntf (thr : F BAlg) P C shapes,
  x_keep_less_specific cfg = true -> x_all_compliant cfg = true -> wf_frac thr ->
  C03_profile_wf cfg A insts_of cntf P C okN53 ->
  shex BAlg cfg thr P C = inl shapes ->
  forall sh s, In sh shapes -> In s (sh_stmts sh) -> s_choice s = false -> s_type s <> c_NONLITERAL_ELEM_TYPE ->
  s_card s = COpt ->
  forall i, In i (insts_of (sh_class sh)) -> (cntf (sh_class sh) i (s_inv s) (s_prop s) (s_type s) <= 1)%N.
Proof. exact (opt_at_most_one BAlg _ _ BAlg_laws). Qed.
Print Assumptions C03_opt_at_most_one.

(** ** T4 -- CONFORMANCE on the strict domain, no profile premise.

    For every graph of fewer than 2^53 triples in the property's strict domain
    ([strict_domb], Model/C03Dom.v: faithful node identifiers -- blank-node
    identifiers start with "_:" --, distinct shape labels for distinct classes,
    no duplicate triple, proper literal datatypes, classes are IRIs and are not
    instances, and per (class, direction, property) the non-literal neighbours
    have one node kind and are all untyped or all instances of exactly one
    class) and every configuration with keep_less_specific, all-compliant mode,
    no disjunctions, all-classes mode, no instance cap, the default shapes
    namespace, threshold 0 -- and ANY value of inverse_paths,
    allow_opt_cardinality, disable_exact_cardinality,
    discard_useless_constraints_with_positive_closure, remove_empty_shapes,
    disable_comments, report mode, namespaces: if the run succeeds, the instance
    typing is a VALID TYPING of the extracted schema (every cardinality holds
    for every instance, every value over a mentioned path matches a constraint,
    references resolved in the same typing).  Binary64 frequencies.
    The premise [profile_exact] of [C03_conformance_partial] is discharged by
    Proofs/ConformBridge.v from the profile characterisation P1
    ([profile_final_char], [profile_final_complete], [occ_exact_le_plus]) and
    the tracker characterisation ([track_plain_char], [track_insts_ok]). *)
Theorem C03_conformance : forall c g ns shapes,
  (N.of_nat (List.length g) < 2 ^ 53)%N ->
  r_keep_less_specific c = true -> r_all_compliant c = true -> r_disable_or c = true ->
  r_targets c = None -> (r_cap c <= 0)%Z -> r_shapes_ns c = c_SHAPES_DEFAULT_NAMESPACE ->
  strict_domb (r_tau c) (r_shapes_ns c) g = true ->
  run_shapes BAlg c (thr_val BAlg 0 1) g = inl (ns, shapes) ->
  valid_typing (schema_of (r_tau c) shapes) g (instance_typing (r_tau c) (r_shapes_ns c) g).
Proof.
  intros c g ns shapes Hlen.
  apply (run_conformance_full BAlg _ _ BAlg_laws c g ns shapes
           (conj (eq_refl : (0 ?= 1)%N = Lt) (eq_refl : (1 ?= 2 ^ 53)%N = Lt))).
  intros d H0 Hd. split; [exact H0 | eapply N.le_lt_trans; eassumption].
Qed.
Print Assumptions C03_conformance.

(** the same with exact rational frequencies: no bound on the size of the graph *)
Theorem C03_conformance_exact : forall c g ns shapes,
  r_keep_less_specific c = true -> r_all_compliant c = true -> r_disable_or c = true ->
  r_targets c = None -> (r_cap c <= 0)%Z -> r_shapes_ns c = c_SHAPES_DEFAULT_NAMESPACE ->
  strict_domb (r_tau c) (r_shapes_ns c) g = true ->
  run_shapes QAlg c (thr_val QAlg 0 1) g = inl (ns, shapes) ->
  valid_typing (schema_of (r_tau c) shapes) g (instance_typing (r_tau c) (r_shapes_ns c) g).
Proof.
  intros c g ns shapes.
  apply (run_conformance_full QAlg _ _ QAlg_laws c g ns shapes (eq_refl : (0 ?= 1)%N = Lt)).
  intros d H0 _. exact H0.
Qed.
Print Assumptions C03_conformance_exact.

(** ** T4, the intermediate form with the profile characterisation as a premise
    (kept: it also covers target-class mode / instance caps / other shapes
    namespaces whenever the premise holds; PARTIAL: conditional on the
    profile characterisation).

    [strict_domb tau shapes_ns G] is the property's strict domain as a boolean
    (Model/C03Dom.v): no duplicate triple; literal datatypes are not the words
    IRI / BNode / NONLITERAL nor shape names; labels are shape names; classes
    are IRIs and are not themselves instances; and for every class, direction
    and ordinary property the non-literal neighbours of the instances have one
    node kind ([kinds_homog]) and are all untyped or all instances of exactly
    one class, the same for all ([typed_homog]).

    [profile_exact] (Proofs/ConformSat.v) is the premise: the class profile the
    model's profiler computes is the one Spec/Counts.v describes -- for every
    class the count is its number of instances, every entry (direction,
    property, type key, cardinality key) holds the (positive) number of
    instances that count for it, every type key carried by a value of an
    instance has its entry, every class typing a node has a profile entry, and
    shape labels are distinct.  That is the profile characterisation P1
    (Proofs/ProfileChar.v, another builder); it is NOT proved here, which is
    why this theorem is [_partial].  The harness evaluates the boolean mirror
    [profile_exactb] of the premise on the model's own tracker + profiler for
    every generated strict-domain input (entry c03_premises), and
    [C03_conformance_checked] turns a computed [true] into the conclusion.

    Conclusion: the instance typing (every subject of a typing triple paired
    with the shape of that class) is a VALID TYPING of the extracted schema:
    every cardinality holds for every instance, every value over a mentioned
    path matches a constraint of that path, references are resolved in the
    same typing (so cycles are fine) -- [Spec/ShexSem.valid_typing]. *)
Theorem C03_conformance_partial : forall c g ns shapes,
  r_keep_less_specific c = true -> r_all_compliant c = true -> r_disable_or c = true ->
  strict_domb (r_tau c) (r_shapes_ns c) g = true ->
  (forall ins P C ID,
     track (r_tau c) (match r_targets c with Some l => TClasses l | None => TAll end) (r_cap c) g = inl ins ->
     profile (pcfg_of c) ins g = inl (P, C, ID) ->
     profile_exact okN53 (scfg_of c ns) g P C) ->
  run_shapes BAlg c (thr_val BAlg 0 1) g = inl (ns, shapes) ->
  valid_typing (schema_of (r_tau c) shapes) g (instance_typing (r_tau c) (r_shapes_ns c) g).
Proof.
  exact (fun c g ns shapes =>
           run_conformance_thr0 BAlg _ _ BAlg_laws c g ns shapes
                                (conj (eq_refl : (0 ?= 1)%N = Lt) (eq_refl : (1 ?= 2 ^ 53)%N = Lt))).
Qed.
Print Assumptions C03_conformance_partial.

(** the same with exact rational frequencies (no bound on class sizes) *)
Theorem C03_conformance_partial_exact : forall c g ns shapes,
  r_keep_less_specific c = true -> r_all_compliant c = true -> r_disable_or c = true ->
  strict_domb (r_tau c) (r_shapes_ns c) g = true ->
  (forall ins P C ID,
     track (r_tau c) (match r_targets c with Some l => TClasses l | None => TAll end) (r_cap c) g = inl ins ->
     profile (pcfg_of c) ins g = inl (P, C, ID) ->
     profile_exact (fun d => 0 < d)%N (scfg_of c ns) g P C) ->
  run_shapes QAlg c (thr_val QAlg 0 1) g = inl (ns, shapes) ->
  valid_typing (schema_of (r_tau c) shapes) g (instance_typing (r_tau c) (r_shapes_ns c) g).
Proof.
  exact (fun c g ns shapes =>
           run_conformance_thr0 QAlg _ _ QAlg_laws c g ns shapes (eq_refl : (0 ?= 1)%N = Lt)).
Qed.
Print Assumptions C03_conformance_partial_exact.

Lemma okN53b_ok d : okN53b d = true -> okN53 d.
Proof.
  unfold okN53b, okN53. intros H. apply andb_true_iff in H. destruct H as [A B].
  apply N.ltb_lt in A. apply N.ltb_lt in B. split; assumption.
Qed.

(** with both premises COMPUTED ([c03_premises]: [strict_domb] and the boolean
    mirror [profile_exactb] of the profile characterisation, on the model's own
    tracker and profiler) the executable validator accepts the run *)
Theorem C03_conformance_checked : forall c g ns shapes,
  r_keep_less_specific c = true -> r_all_compliant c = true -> r_disable_or c = true ->
  c03_premises okN53b c g = Some (true, true) ->
  run_shapes BAlg c (thr_val BAlg 0 1) g = inl (ns, shapes) ->
  valid_typingb (schema_of (r_tau c) shapes) g (instance_typing (r_tau c) (r_shapes_ns c) g) = true.
Proof.
  exact (fun c g ns shapes =>
           run_conformance_checked_thr0 BAlg _ _ BAlg_laws okN53b c g ns shapes
                                        (conj (eq_refl : (0 ?= 1)%N = Lt) (eq_refl : (1 ?= 2 ^ 53)%N = Lt)) okN53b_ok).
Qed.
Print Assumptions C03_conformance_checked.

(** ** non-vacuity: a schema-consistent graph (two classes, a reference, a
    literal property with per-instance cardinalities 1 and 2, an instance
    without the optional property) whose extracted schema is satisfied by
    every instance, under the exact and under the binary64 algebra *)
Definition c03_good : graph :=
  [ty "s1" "C"; ty "s2" "C"; ty "s3" "C"; ty "x1" "D"; ty "x2" "D";
   tr "s1" "p" (ON (nI "x1")); tr "s2" "p" (ON (nI "x2")); tr "s3" "p" (ON (nI "x1")); tr "s3" "p" (ON (nI "x2"));
   tr "s1" "q" (lit "a"); tr "s2" "q" (lit "b"); tr "s2" "q" (lit "c");
   tr "x1" "r" (ON (nI "s1"))].

Example C03_nonvacuous :
  conforms_run QAlg (c03_cfg true true true false true) (thr_val QAlg 0 1) c03_good = Some true /\
  conforms_run BAlg (c03_cfg true true true false true) (thr_val BAlg 0 1) c03_good = Some true /\
  conforms_run QAlg (c03_cfg false false false true true) (thr_val QAlg 0 1) c03_good = Some true.
Proof. vm_compute. repeat split. Qed.

(** the premises of T4 hold of that run (the theorem is not vacuous), and the
    three witnesses below are outside the strict domain *)
Example C03_premises_inhabited :
  c03_premises okN53b (c03_cfg true true true false true) c03_good = Some (true, true) /\
  (exists ns shapes, run_shapes BAlg (c03_cfg true true true false true) (thr_val BAlg 0 1) c03_good = inl (ns, shapes)).
Proof. split; [vm_compute; reflexivity|]. eexists. eexists. vm_compute. reflexivity. Qed.

(** ** the three root causes outside the strict domain (known findings) *)

(** C03-F1: a shape reference chosen on an instance-count tie.  s1 has the
    values x1 (a D) and u (untyped), s2 has x2 (a D): "@D" and "IRI" both count
    2 instances, the reference wins with cardinality 1 and u matches nothing. *)
Definition c03_tie : graph :=
  [ty "s1" "C"; ty "s2" "C"; ty "x1" "D"; ty "x2" "D";
   tr "s1" "p" (ON (nI "x1")); tr "s1" "p" (ON (nI "u")); tr "s2" "p" (ON (nI "x2"))].

Lemma C03_reference_tie_refuted :
  exists c g, r_keep_less_specific c = true /\ r_all_compliant c = true /\
              conforms_run QAlg c (thr_val QAlg 0 1) g = Some false.
Proof. exists (c03_cfg false true true false true), c03_tie. vm_compute. repeat split. Qed.

(** C03-F2: the IRI+BNode merge adds the two instance counts.  a has one IRI
    and one blank-node value, b has none: "NONLITERAL" with cardinality 1 at
    "100 % (2 instances)". *)
Definition c03_overlap : graph :=
  [ty "a" "C"; ty "b" "C"; tr "a" "p" (ON (nI "u")); tr "a" "p" (ON (nB "x"))].

Lemma C03_nonliteral_overlap_refuted :
  exists c g, r_keep_less_specific c = true /\ r_all_compliant c = true /\
              conforms_run QAlg c (thr_val QAlg 0 1) g = Some false.
Proof. exists (c03_cfg false true true false true), c03_overlap. vm_compute. repeat split. Qed.

(** C03-F3: keep_less_specific = false keeps "{1}" (2 of 3 instances) and the
    all-compliant rule turns it into "?" although c has two values; the same
    graph conforms with keep_less_specific = true. *)
Definition c03_kls : graph :=
  [ty "a" "C"; ty "b" "C"; ty "c" "C";
   tr "a" "p" (lit "x"); tr "b" "p" (lit "y"); tr "c" "p" (lit "z"); tr "c" "p" (lit "w")].

Lemma C03_keep_less_specific_false_refuted :
  exists c g, r_keep_less_specific c = false /\ r_all_compliant c = true /\
              conforms_run QAlg c (thr_val QAlg 0 1) g = Some false /\
              conforms_run QAlg (c03_cfg false true true false true) (thr_val QAlg 0 1) g = Some true.
Proof. exists (c03_cfg false true true false false), c03_kls. vm_compute. repeat split. Qed.
