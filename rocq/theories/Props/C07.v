(** * C07 -- the streaming Turtle reader yields exactly the triples of the document *)
From Coq Require Import List Ascii String ZArith Bool.
From Shexer Require Import Lib.PyStr Gen.Consts Spec.Rdf Spec.TtlSyntax Spec.TtlDomain Model.TtlReader Proofs.TtlProofs.
Import ListNotations.

(** T1 (state machine, unbounded, any line-break placement).  [e] is the
    environment in force, [s0] any reader state; [okS/okP/okO] any token-level
    domain on which a single token is parsed and tuned to its meaning (T4
    provides one).  Then for ANY list of statement groups [gs] whose tokens
    are in that domain and ANY way [ls] of cutting their token sequence into
    lines, running the reader's state machine line after line (state
    persisting across lines) from the waiting-for-subject state yields exactly
    the triples of [gs] (up to lexical forms), in order, without error, and
    ends in the waiting-for-subject state with the same prefixes and base. *)
Theorem C07_T1 :
  forall (e : env) (s0 : st) (okS : subj -> bool) (okP : pred -> bool) (okO : object -> bool),
  (forall x n s, same_env s s0 -> okS x = true -> sem_subj e x = Some n ->
     closure_state (tokS s0 x) = None /\
     exists raw, parse_elem s (tokS s0 x) = Ok (Some raw) /\ tune_subj (Some raw) = Ok n) ->
  (forall x p s, same_env s s0 -> okP x = true -> sem_pred e x = Some p ->
     closure_state (tokP s0 x) = None /\
     exists raw, parse_elem s (tokP s0 x) = Ok (Some raw) /\ tune_prop (Some raw) = Ok p) ->
  (forall x o s, same_env s s0 -> okO x = true -> sem_obj e x = Some o ->
     closure_state (tokO s0 x) = None /\
     exists raw o', parse_elem s (tokO s0 x) = Ok (Some raw) /\
                    tune_token (Some raw) (base s) ttl_dflt_allow_untyped_numbers = Ok o' /\
                    erase_obj o' = erase_obj o) ->
  forall (gs : list group) (ls : list (list atok)) (tss : list (list triple)) (s : st),
  same_env s s0 -> state s = WS ->
  forallb (group_ok okS okP okO) gs = true ->
  seq_opt (map (sem_group e) gs) = Some tss ->
  List.concat ls = flat_map group_tokens gs ->
  exists s' ts', machine_lines (map (map (tok_str s0)) ls) s = (ts', Ok s') /\
                 map erase_lex ts' = map erase_lex (List.concat tss) /\
                 same_env s' s0 /\ state s' = WS.
Proof. exact state_machine_any_split. Qed.
Print Assumptions C07_T1.

(** T2 (tokenizer).  On a line that is the single-blank-separated
    concatenation of tokens of the dialect's shapes (closure character;
    [<...>] without inner [>]; quoted string with backslash escapes followed
    by nothing, [@...] or [^^...] without blanks; any other blank-free run not
    starting with a closure character, [<] or a quote), iterating
    [_next_line_token] from index 0 returns exactly those tokens, [<...>]
    tokens after [_parse_cornered_element]; it never raises and never runs
    out of fuel. *)
Theorem C07_T2 : forall (b : option str) (toks : list str),
  Forall tshape toks ->
  tokenize (S (S (List.length (joined toks)))) b (joined toks) 0 = Ok (map (vtok b) toks).
Proof. exact tokenizer_correct. Qed.
Print Assumptions C07_T2.

(** ... hence the token loop of [_process_line_with_potential_triples] on such
    a line is the state machine of T1 run over those tokens *)
Theorem C07_T2_loop : forall (toks : list str) (s : st),
  Forall tshape toks ->
  process_tokens_line (joined toks) s = machine (map (vtok (base s)) toks) s.
Proof. exact tokens_line_machine. Qed.
Print Assumptions C07_T2_loop.
