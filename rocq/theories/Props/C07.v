(** * C07 -- the streaming Turtle reader yields exactly the triples of the document *)
From Coq Require Import List Ascii String ZArith Bool.
From Shexer Require Import Lib.PyStr Gen.Consts Spec.Rdf Spec.TtlSyntax Spec.TtlDomain Model.TtlReader Proofs.TtlProofs.
Import ListNotations.
