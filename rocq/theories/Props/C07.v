(** * C07 -- the streaming Turtle reader yields exactly the triples of the document *)
From Coq Require Import List Ascii String ZArith Bool.
From Shexer Require Import Lib.PyStr Gen.Consts Spec.Rdf Spec.TtlSyntax Spec.TtlDomain Model.TtlReader Proofs.TtlProofs.
Import ListNotations.

(** T1 (state machine, unbounded, any line-break placement).  [e] is the
    environment in force, [s0] any reader state; [okS/okP/okO] any token-level
    domain on which a single token is parsed and tuned to its meaning (T4
    provides one).  Then for ANY list of statement groups [gs] whose tokens
    are in that domain and ANY way [ls] of cutting their token sequence into
    lines, running the reader's state machine line after line (state
    persisting across lines) from the waiting-for-subject state yields exactly
    the triples of [gs] (up to lexical forms), in order, without error, and
    ends in the waiting-for-subject state with the same prefixes and base. *)
Theorem C07_T1 :
  forall (e : env) (s0 : st) (okS : subj -> bool) (okP : pred -> bool) (okO : object -> bool),
  (forall x n s, same_env s s0 -> okS x = true -> sem_subj e x = Some n ->
     closure_state (tokS s0 x) = None /\
     exists raw, parse_elem s (tokS s0 x) = Ok (Some raw) /\ tune_subj (Some raw) = Ok n) ->
  (forall x p s, same_env s s0 -> okP x = true -> sem_pred e x = Some p ->
     closure_state (tokP s0 x) = None /\
     exists raw, parse_elem s (tokP s0 x) = Ok (Some raw) /\ tune_prop (Some raw) = Ok p) ->
  (forall x o s, same_env s s0 -> okO x = true -> sem_obj e x = Some o ->
     closure_state (tokO s0 x) = None /\
     exists raw o', parse_elem s (tokO s0 x) = Ok (Some raw) /\
                    tune_token (Some raw) (base s) ttl_dflt_allow_untyped_numbers = Ok o' /\
                    erase_obj o' = erase_obj o) ->
  forall (gs : list group) (ls : list (list atok)) (tss : list (list triple)) (s : st),
  same_env s s0 -> state s = WS ->
  forallb (group_ok okS okP okO) gs = true ->
  seq_opt (map (sem_group e) gs) = Some tss ->
  List.concat ls = flat_map group_tokens gs ->
  exists s' ts', machine_lines (map (map (tok_str s0)) ls) s = (ts', Ok s') /\
                 map erase_lex ts' = map erase_lex (List.concat tss) /\
                 same_env s' s0 /\ state s' = WS.
Proof. exact state_machine_any_split. Qed.
Print Assumptions C07_T1.

(** T2 (tokenizer).  On a line that is the single-blank-separated
    concatenation of tokens of the dialect's shapes (closure character;
    [<...>] without inner [>]; quoted string with backslash escapes followed
    by nothing, [@...] or [^^...] without blanks; any other blank-free run not
    starting with a closure character, [<] or a quote), iterating
    [_next_line_token] from index 0 returns exactly those tokens, [<...>]
    tokens after [_parse_cornered_element]; it never raises and never runs
    out of fuel. *)
Theorem C07_T2 : forall (b : option str) (toks : list str),
  Forall tshape toks ->
  tokenize (S (S (List.length (joined toks)))) b (joined toks) 0 = Ok (map (vtok b) toks).
Proof. exact tokenizer_correct. Qed.
Print Assumptions C07_T2.

(** ... hence the token loop of [_process_line_with_potential_triples] on such
    a line is the state machine of T1 run over those tokens *)
Theorem C07_T2_loop : forall (toks : list str) (s : st),
  Forall tshape toks ->
  process_tokens_line (joined toks) s = machine (map (vtok (base s)) toks) s.
Proof. exact tokens_line_machine. Qed.
Print Assumptions C07_T2_loop.

(** T4 (prefix/base expansion).  [env_match e s]: the reader state carries
    the environment of the spec (same base, same prefix bindings).  A
    lexically well-formed IRI reference with none of the root causes of
    [Spec.TtlDomain.rc_ref] -- written <absolute>, <relative> or pfx:local --
    is turned by [_next_line_token] + [_parse_elem] into [<u>] where [u] is the
    IRI the spec assigns to it. *)
From Shexer Require Import Proofs.TtlExpand.

Theorem C07_T4 : forall (e : env) (s : st) (r : iri_ref) (u : str),
  env_match e s -> okR e r = true -> resolve_ref e r = Some u ->
  closure_state (vtok (base s) (render_ref r)) = None /\
  parse_elem s (vtok (base s) (render_ref r)) = Ok (Some (s_lt ++ u ++ s_gt)).
Proof. exact expansion_correct. Qed.
Print Assumptions C07_T4.

(** ... hence subjects (IRIs and blank nodes) and predicates (IRIs and [a])
    satisfy the token hypotheses of T1 on the domain [okS]/[okP] = lexically
    well formed and free of root causes *)
Theorem C07_T4_subject : forall e s0 x n s,
  env_match e s0 -> same_env s s0 -> okS e x = true -> sem_subj e x = Some n ->
  closure_state (tokS s0 x) = None /\
  exists raw, parse_elem s (tokS s0 x) = Ok (Some raw) /\ tune_subj (Some raw) = Ok n.
Proof. exact subj_correct. Qed.
Print Assumptions C07_T4_subject.

Theorem C07_T4_predicate : forall e s0 x p s,
  env_match e s0 -> same_env s s0 -> okP e x = true -> sem_pred e x = Some p ->
  closure_state (tokP s0 x) = None /\
  exists raw, parse_elem s (tokP s0 x) = Ok (Some raw) /\ tune_prop (Some raw) = Ok p.
Proof. exact pred_correct. Qed.
Print Assumptions C07_T4_predicate.

(** untyped integers of at most 300 digits are typed xsd:integer *)
Theorem C07_T4_integer : forall s b d,
  digits_wf d = true -> (List.length d <= 300)%nat ->
  closure_state d = None /\ vtok b d = d /\ parse_elem s d = Ok (Some d) /\
  exists o', tune_token (Some d) b ttl_dflt_allow_untyped_numbers = Ok o' /\ erase_obj o' = OL [] xsd_integer.
Proof. exact int_correct. Qed.
Print Assumptions C07_T4_integer.

(** T4, second half: string literals.  A lexically well-formed literal free of
    the root causes of [rc_lit] -- plain, language-tagged, typed with a wired
    prefix (xsd: rdf: dt: geo: bound as wired) or with an <IRI>, whatever the
    lexical form and the IRI contain -- gets the
    datatype the spec assigns to it; with the IRI, blank-node and integer cases
    this gives the object hypothesis of T1. *)
From Shexer Require Import Proofs.TtlLiteral Proofs.TtlClean Proofs.TtlTokens Proofs.TtlScan Proofs.TtlObjects Proofs.TtlCompose.

Theorem C07_T4_literal : forall e s lex sfx o,
  env_match e s -> okL e lex sfx = true -> sem_obj e (OLit lex sfx) = Some o ->
  exists dt, decide_literal_type (render_obj (OLit lex sfx)) (base s) = Ok dt /\ erase_obj o = OL [] dt.
Proof. exact literal_type. Qed.
Print Assumptions C07_T4_literal.

Theorem C07_T4_object : forall e s0 x o s,
  env_match e s0 -> same_env s s0 -> okO e x = true -> sem_obj e x = Some o ->
  closure_state (tokO s0 x) = None /\
  exists raw o', parse_elem s (tokO s0 x) = Ok (Some raw) /\
                 tune_token (Some raw) (base s) ttl_dflt_allow_untyped_numbers = Ok o' /\
                 erase_obj o' = erase_obj o.
Proof. exact obj_correct. Qed.
Print Assumptions C07_T4_object.

(** T1 + T4: statement groups in a fixed environment, split into lines anywhere *)
Theorem C07_T1_T4 : forall e s0 gs (ls : list (list atok)) tss s,
  env_match e s0 -> same_env s s0 -> state s = WS ->
  forallb (group_dom e) gs = true ->
  seq_opt (map (sem_group e) gs) = Some tss ->
  List.concat ls = flat_map group_tokens gs ->
  exists s' ts', machine_lines (map (map (tok_str s0)) ls) s = (ts', Ok s') /\
                 map erase_lex ts' = map erase_lex (List.concat tss) /\ same_env s' s0 /\ state s' = WS.
Proof. exact groups_any_split. Qed.
Print Assumptions C07_T1_T4.

(** T3 (cleaning).  [norm] = the white-space part of [_clean_line] (CR/LF/TAB
    to blank, runs of blanks to one, strip).  On a line made of a run of
    blanks/tabs, words (no CR/LF/TAB, no two blanks in a row, no white space at
    either end) separated by non-empty runs of blanks/tabs, and optionally '#'
    and a comment after a non-empty run -- where every word is [transparent]
    to the comment scan (proved for every token of the dialect: a run of
    non-blank non-quote characters not starting with '#', or a quoted string
    with backslash escapes followed by a blank-free suffix): *)
(** (a) without comment the result is the words joined by single blanks, even
    when a string contains blank-# *)
Theorem C07_T3_plain : forall lead pairs,
  hspace lead = true -> forallb (fun wg => word_ok (fst wg)) pairs = true -> pair_gaps_ok pairs = true ->
  pairs <> [] -> Forall transparent (map fst pairs) ->
  clean_line (lead ++ render_pairs pairs) = Ok (jwords pairs).
Proof. exact clean_words_plain. Qed.
Print Assumptions C07_T3_plain.

(** (b) with a comment -- whatever it contains -- exactly the comment (and the
    blank before it) is removed *)
Theorem C07_T3_comment : forall lead pairs,
  hspace lead = true -> forallb (fun wg => word_ok (fst wg)) pairs = true -> pair_gaps_ok pairs = true ->
  pairs <> [] -> Forall transparent (map fst pairs) ->
  forall cmt, last_gap_empty pairs = false ->
  clean_line (lead ++ render_pairs pairs ++ Str "#" ++ cmt) = Ok (jwords pairs).
Proof. exact clean_words_comment. Qed.
Print Assumptions C07_T3_comment.

(** (c) the tokens of the dialect are transparent *)
Theorem C07_T3_tokens : forall t, tok_ok_line t = true ->
  word_ok (render_tok t) = true /\ tshape (render_tok t) /\ transparent (render_tok t).
Proof. exact tok_line_facts. Qed.
Print Assumptions C07_T3_tokens.

(** C07: the composition T3 ; T2 ; T1 ; T4 on whole documents.
    [C07_dom ls d] = no root cause of a remaining known finding in [d]
    (it no longer depends on the layout).  For EVERY document [d] of the
    dialect (directives anywhere between statement groups) inside [C07_dom] and
    EVERY layout [ls] of it (line breaks at ANY token boundary, tabs /
    repeated blanks, whole-line and trailing comments with any content,
    strings containing '#' ';' ',' '.' and escapes) the reader run on the TEXT
    of the document yields exactly the triples of the document (up to lexical
    forms), in document order, raises nothing, does not hang, and passes the
    end-of-input check. *)
Theorem C07 : forall ls d ts,
  lays_out ls d -> C07_dom ls d = true -> sem d = Some ts ->
  exists s' ts', read_ttl (render_doc ls) = (ts', Ok s') /\
                 map erase_lex ts' = map erase_lex ts /\ state s' = WS.
Proof. exact reader_correct. Qed.
Print Assumptions C07.

(** Rejection.  The two syntactic escapes the code tests end in ValueError,
    never in different triples: (1) a closing quote followed by a character
    that is neither a blank, [^], [@] nor the end of the line; (2) a further
    token when subject, predicate and object are already read.  (3) An
    exception ends the run: the triples yielded before it are kept, nothing
    is yielded after it. *)
Theorem C07_reject :
  (forall b line i bl lex c rest,
     at_pos line i (bl ++ (s_quote ++ lex ++ s_quote) ++ c :: rest) -> blanks bl -> Lex lex ->
     chr_eqb c ttl_blank = false -> mem_str [c] ttl_literal_suffix_chars = false ->
     next_line_token b line i = Err TEValue) /\
  (forall s tok, state s = NW -> closure_state tok = None -> step s tok = ([], Err TEValue)) /\
  (forall a tok b s ts s' ts2 e,
     machine a s = (ts, Ok s') -> step s' tok = (ts2, Err e) ->
     machine (a ++ tok :: b) s = (ts ++ ts2, Err e)).
Proof. exact (conj nlt_lit_reject (conj step_not_waiting machine_error_stops)). Qed.
Print Assumptions C07_reject.

(** ** non-vacuity and known findings *)

Fixpoint list_eqb {A} (f : A -> A -> bool) (a b : list A) : bool :=
  match a, b with
  | [], [] => true
  | x :: a', y :: b' => f x y && list_eqb f a' b'
  | _, _ => false
  end.

(** the reader yields exactly [ts] (up to lexical forms) without error *)
Definition reads_exactly (text : str) (ts : list triple) : bool :=
  match read_ttl text with
  | (ts', Ok _) => list_eqb triple_eqb (map erase_lex ts') (map erase_lex ts)
  | (_, Err _) => false
  end.

Definition sp : str := Str " ".
Definition toks_line (ts : list atok) : line := LToks [] (map (fun t => (t, sp)) ts) None.
Definition prefix_line (p ns : string) : line := LDir [] (DPrefix (Str p) (IAbs (Str ns))) [sp; sp; sp; []] None.
Definition base_line (b : string) : line := LDir [] (DBase (IAbs (Str b))) [sp; sp; []] None.
Definition ex (l : string) : iri_ref := IPre (Str "ex") (Str l).
Definition P_ex : item := IDir (DPrefix (Str "ex") (IAbs (Str "http://e/"))).
Definition L_ex : line := prefix_line "ex" "http://e/".

(** a document of the dialect with line breaks inside the statement, a
    trailing and a whole-line comment, ';' and ',' abbreviations, a tagged and
    a typed literal, read correctly *)
Definition ex_doc : doc :=
  [P_ex; IDir (DPrefix (Str "xsd") (IAbs xsd_ns));
   IGrp (Group (SIri (ex "s"))
               [(PA, [OIri (ex "C")]);
                (PIri (ex "p"), [OLit (Str "a #b") (LLang (Str "en")); OLit (Str "5") (LTyped (IPre (Str "xsd") (Str "integer"))); OInt (Str "42")])])].
Definition ex_lines : list line :=
  [L_ex; prefix_line "xsd" "http://www.w3.org/2001/XMLSchema#";
   LToks [] [] (Some (Str " a comment"));
   LToks [] [(ASubj (SIri (ex "s")), [])] None;
   LToks (Str "  ") [(APred PA, sp); (AObj (OIri (ex "C")), sp); (ASemi, sp)] (Some (Str " trailing"));
   LToks (Str "  ") [(APred (PIri (ex "p")), sp); (AObj (OLit (Str "a #b") (LLang (Str "en"))), sp); (AComma, [])] None;
   LToks [] [(AObj (OLit (Str "5") (LTyped (IPre (Str "xsd") (Str "integer")))), sp); (AComma, sp); (AObj (OInt (Str "42")), [])] None;
   LToks [] [(ADot, [])] None].

Example C07_dom_inhabited :
  lays_out ex_lines ex_doc /\ C07_dom ex_lines ex_doc = true /\
  exists ts, sem ex_doc = Some ts /\ List.length ts = 4%nat /\ reads_exactly (render_doc ex_lines) ts = true.
Proof.
  split; [repeat split; vm_compute; reflexivity|]. split; [vm_compute; reflexivity|].
  eexists. split; [vm_compute; reflexivity|]. split; vm_compute; reflexivity.
Qed.

(** a second inhabitant of the domain of [C07] *)
Definition ex2_dirs : list directive := [DPrefix (Str "ex") (IAbs (Str "http://e/")); DPrefix (Str "xsd") (IAbs xsd_ns)].
Definition ex2_gs : list group :=
  [Group (SIri (ex "s"))
         [(PA, [OIri (ex "C")]);
          (PIri (ex "p"), [OLit (Str "a#b; c") (LLang (Str "en")); OLit (Str "5") (LTyped (IPre (Str "xsd") (Str "integer"))); OInt (Str "42")])];
   Group (SBn (Str "b1")) [(PIri (IAbs (Str "http://e/q")), [OBn (Str "b2")])]].
Definition ex2_lines : list line :=
  [L_ex; LDir (Str " ") (DPrefix (Str "xsd") (IAbs xsd_ns)) [sp; Str "  "; sp; sp] (Some (Str " the XSD namespace"));
   LToks [] [] (Some (Str " a comment"));
   LToks [] [] None;
   LToks [] [(ASubj (SIri (ex "s")), [])] None;
   LToks (Str "  ") [(APred PA, sp); (AObj (OIri (ex "C")), sp); (ASemi, sp)] (Some (Str " trailing"));
   LToks [ascii_of_nat 9] [(APred (PIri (ex "p")), sp); (AObj (OLit (Str "a#b; c") (LLang (Str "en"))), sp); (AComma, [])] None;
   LToks [] [(AObj (OLit (Str "5") (LTyped (IPre (Str "xsd") (Str "integer")))), sp); (AComma, sp); (AObj (OInt (Str "42")), [])] None;
   LToks [] [(ADot, sp); (ASubj (SBn (Str "b1")), [])] None;
   LToks [] [(APred (PIri (IAbs (Str "http://e/q"))), sp); (AObj (OBn (Str "b2")), sp); (ADot, sp)] (Some [])].

Example C07_dom_inhabited_2 :
  lays_out ex2_lines (map IDir ex2_dirs ++ map IGrp ex2_gs) /\
  C07_dom ex2_lines (map IDir ex2_dirs ++ map IGrp ex2_gs) = true /\
  exists ts, sem (map IDir ex2_dirs ++ map IGrp ex2_gs) = Some ts /\ List.length ts = 5%nat.
Proof.
  split; [repeat split; vm_compute; reflexivity|]. split; [vm_compute; reflexivity|].
  eexists. split; vm_compute; reflexivity.
Qed.

(** the full statement of the property, for one laid-out document *)
Definition full_statement (ls : list line) (d : doc) : Prop :=
  lays_out ls d -> forall ts, sem d = Some ts -> reads_exactly (render_doc ls) ts = true.

Ltac refute ls d :=
  exists ls, d; intros H;
  assert (L : lays_out ls d) by (repeat split; vm_compute; reflexivity);
  let ts := eval vm_compute in (match sem d with Some t => t | None => [] end) in
  specialize (H L ts eq_refl); vm_compute in H; discriminate.

Definition one (s : subj) (p : pred) (o : object) : item := IGrp (Group s [(p, [o])]).
Definition one_line (s : subj) (p : pred) (o : object) : line := toks_line [ASubj s; APred p; AObj o; ADot].
Definition exs := SIri (ex "s").
Definition exp := PIri (ex "p").

(** C07-F1: </x> against @base loses '/' and is appended to the base *)
Lemma C07_ini_base_refuted : exists ls d, ~ full_statement ls d.
Proof.
  refute [base_line "http://b/d/"; L_ex; one_line exs exp (OIri (IRel (Str "/x")))]
         [IDir (DBase (IAbs (Str "http://b/d/"))); P_ex; one exs exp (OIri (IRel (Str "/x")))].
Qed.

(** C07-F2: resolution by concatenation *)
Lemma C07_concat_refuted : exists ls d, ~ full_statement ls d.
Proof.
  refute [base_line "http://b/x"; L_ex; one_line (SIri (IRel (Str "s"))) exp (OIri (ex "o"))]
         [IDir (DBase (IAbs (Str "http://b/x"))); P_ex; one (SIri (IRel (Str "s"))) exp (OIri (ex "o"))].
Qed.

(** C07-F6: custom-prefixed datatype raises *)
Lemma C07_dt_custom_prefix_refuted : exists ls d, ~ full_statement ls d.
Proof.
  refute [L_ex; one_line exs exp (OLit (Str "1") (LTyped (ex "dt")))] [P_ex; one exs exp (OLit (Str "1") (LTyped (ex "dt")))].
Qed.

(** C07-F13: the IRI of @prefix is not resolved against the base *)
Lemma C07_dir_unresolved_refuted : exists ls d, ~ full_statement ls d.
Proof.
  refute [base_line "http://b/"; LDir [] (DPrefix (Str "ex") (IRel (Str "ns/"))) [sp; sp; sp; []] None;
          one_line exs exp (OIri (ex "o"))]
         [IDir (DBase (IAbs (Str "http://b/"))); IDir (DPrefix (Str "ex") (IRel (Str "ns/")));
          one exs exp (OIri (ex "o"))].
Qed.

(** ** regression examples: defects repaired in the reader (known_findings.json, status fixed) *)

Ltac regress ls d :=
  let ts := eval vm_compute in (match sem d with Some t => t | None => [] end) in
  exists ts; split; [vm_compute; reflexivity | split; [repeat split; vm_compute; reflexivity | vm_compute; reflexivity]].

Definition regression (ls : list line) (d : doc) : Prop :=
  exists ts, sem d = Some ts /\ lays_out ls d /\ reads_exactly (render_doc ls) ts = true.

(** 1ba9679: <#frag> keeps its '#' *)
Example C07_fragment_regression :
  regression [base_line "http://b/d/"; L_ex; one_line exs exp (OIri (IRel (Str "#frag")))]
             [IDir (DBase (IAbs (Str "http://b/d/"))); P_ex; one exs exp (OIri (IRel (Str "#frag")))].
Proof. regress [base_line "http://b/d/"; L_ex; one_line exs exp (OIri (IRel (Str "#frag")))]
               [IDir (DBase (IAbs (Str "http://b/d/"))); P_ex; one exs exp (OIri (IRel (Str "#frag")))]. Qed.

(** 8416f2b: an absolute IRI without "http" is left alone when a base is declared *)
Example C07_abs_test_regression :
  regression [base_line "http://b/"; L_ex; one_line exs exp (OIri (IAbs (Str "urn:a:b")))]
             [IDir (DBase (IAbs (Str "http://b/"))); P_ex; one exs exp (OIri (IAbs (Str "urn:a:b")))].
Proof. regress [base_line "http://b/"; L_ex; one_line exs exp (OIri (IAbs (Str "urn:a:b")))]
               [IDir (DBase (IAbs (Str "http://b/"))); P_ex; one exs exp (OIri (IAbs (Str "urn:a:b")))]. Qed.

(** ... and "absolute" means the scheme syntax of RFC 3986 ([Spec.TtlSyntax.has_scheme]: a letter, then letters,
    digits, '+', '-', '.', then ':'): under a declared base an IRI such as <svn+ssh://h/r> in node position and
    <x-types:semver> as a datatype are lexically well formed, inside [C07_dom], and read as written *)
Definition plus_scheme_lines : list line :=
  [base_line "http://b/d/"; L_ex;
   one_line (SIri (IAbs (Str "android-app://a.b/s"))) exp (OIri (IAbs (Str "svn+ssh://h/r")));
   one_line exs exp (OLit (Str "1.2") (LTyped (IAbs (Str "x-types:semver"))))].
Definition plus_scheme_doc : doc :=
  [IDir (DBase (IAbs (Str "http://b/d/"))); P_ex;
   one (SIri (IAbs (Str "android-app://a.b/s"))) exp (OIri (IAbs (Str "svn+ssh://h/r")));
   one exs exp (OLit (Str "1.2") (LTyped (IAbs (Str "x-types:semver"))))].
Example C07_rfc3986_scheme_in_domain :
  regression plus_scheme_lines plus_scheme_doc /\ C07_dom plus_scheme_lines plus_scheme_doc = true /\
  sem plus_scheme_doc =
    Some [T (Node KIri (Str "android-app://a.b/s")) (Str "http://e/p") (ON (Node KIri (Str "svn+ssh://h/r")));
          T (Node KIri (Str "http://e/s")) (Str "http://e/p") (OL (Str "1.2") (Str "x-types:semver"))].
Proof.
  split; [regress plus_scheme_lines plus_scheme_doc|]. split; vm_compute; reflexivity.
Qed.

(** 466698d: a base not starting with "http" is applied once *)
Example C07_double_base_regression :
  regression [base_line "ftp://b/"; L_ex; one_line (SIri (IRel (Str "s"))) exp (OIri (ex "o"))]
             [IDir (DBase (IAbs (Str "ftp://b/"))); P_ex; one (SIri (IRel (Str "s"))) exp (OIri (ex "o"))].
Proof. regress [base_line "ftp://b/"; L_ex; one_line (SIri (IRel (Str "s"))) exp (OIri (ex "o"))]
               [IDir (DBase (IAbs (Str "ftp://b/"))); P_ex; one (SIri (IRel (Str "s"))) exp (OIri (ex "o"))]. Qed.

(** e84df11: only the leading prefix of a prefixed name is expanded *)
Example C07_replace_once_regression :
  regression [L_ex; one_line exs exp (OIri (ex "aex:b"))] [P_ex; one exs exp (OIri (ex "aex:b"))].
Proof. regress [L_ex; one_line exs exp (OIri (ex "aex:b"))] [P_ex; one exs exp (OIri (ex "aex:b"))]. Qed.

(** 74ab28b: a literal at the first column of a line that carries a comment;
    blank-# inside the second literal of a line; a whole-line comment with a quote and blank-# *)
Example C07_comment_scan_regression :
  regression [L_ex; LToks [] [] (Some (Str " a "" #b")); toks_line [ASubj exs; APred exp];
              LToks [] [(AObj (OLit (Str "a") LPlain), sp); (AComma, sp)] (Some (Str " note \"""));
              toks_line [AObj (OLit (Str "") LPlain); AComma; AObj (OLit (Str "b #c") LPlain); ADot]]
             [P_ex; IGrp (Group exs [(exp, [OLit (Str "a") LPlain; OLit (Str "") LPlain; OLit (Str "b #c") LPlain])])].
Proof. regress [L_ex; LToks [] [] (Some (Str " a "" #b")); toks_line [ASubj exs; APred exp];
              LToks [] [(AObj (OLit (Str "a") LPlain), sp); (AComma, sp)] (Some (Str " note \"""));
              toks_line [AObj (OLit (Str "") LPlain); AComma; AObj (OLit (Str "b #c") LPlain); ADot]]
             [P_ex; IGrp (Group exs [(exp, [OLit (Str "a") LPlain; OLit (Str "") LPlain; OLit (Str "b #c") LPlain])])]. Qed.

(** 0a5a576: the literal kind is read from what follows the last quote: "xsd:" in the
    lexical form, '@' in the datatype IRI, quote-^^ in the lexical form no longer matter *)
Example C07_literal_suffix_regression :
  regression [L_ex; toks_line [ASubj exs; APred exp; AObj (OLit (Str "xsd:foo") (LTyped (IAbs (Str "http://e/dt")))); AComma;
                               AObj (OLit (Str "a") (LTyped (IAbs (Str "http://e/a@b")))); AComma;
                               AObj (OLit (Str "a\""^^b") (LTyped (IAbs (Str "http://e/dt")))); AComma;
                               AObj (OLit (Str "^^") LPlain); ADot]]
             [P_ex; IGrp (Group exs [(exp, [OLit (Str "xsd:foo") (LTyped (IAbs (Str "http://e/dt")));
                                            OLit (Str "a") (LTyped (IAbs (Str "http://e/a@b")));
                                            OLit (Str "a\""^^b") (LTyped (IAbs (Str "http://e/dt")));
                                            OLit (Str "^^") LPlain])])].
Proof. regress [L_ex; toks_line [ASubj exs; APred exp; AObj (OLit (Str "xsd:foo") (LTyped (IAbs (Str "http://e/dt")))); AComma;
                               AObj (OLit (Str "a") (LTyped (IAbs (Str "http://e/a@b")))); AComma;
                               AObj (OLit (Str "a\""^^b") (LTyped (IAbs (Str "http://e/dt")))); AComma;
                               AObj (OLit (Str "^^") LPlain); ADot]]
             [P_ex; IGrp (Group exs [(exp, [OLit (Str "xsd:foo") (LTyped (IAbs (Str "http://e/dt")));
                                            OLit (Str "a") (LTyped (IAbs (Str "http://e/a@b")));
                                            OLit (Str "a\""^^b") (LTyped (IAbs (Str "http://e/dt")));
                                            OLit (Str "^^") LPlain])])]. Qed.

(** reject side: texts outside the dialect that are read without any error *)
Definition no_error (text : str) : bool := match snd (read_ttl text) with Ok _ => true | Err _ => false end.
Definition P_text : str := Str "@prefix ex: <http://e/> .".
Definition nl (a b : str) : str := a ++ newline ++ b.

(** 3b3f82c: a document ending inside a statement now raises *)
Example C07_end_of_input_regression :
  read_ttl (nl P_text (Str "ex:s ex:p ex:o.")) = ([], Err TEValue) /\
  read_ttl (nl P_text (Str "ex:s ex:p ex:o")) = ([], Err TEValue).
Proof. split; vm_compute; reflexivity. Qed.

(** C07-R2: a comma glued on both sides is swallowed into one wrong IRI *)
Lemma C07_reject_glued_refuted :
  exists text s, read_ttl text =
    ([T (Node KIri (Str "http://e/s")) (Str "http://e/p") (ON (Node KIri (Str "http://e/o2,ex:o3")))], Ok s).
Proof. eexists (nl P_text (Str "ex:s ex:p ex:o2,ex:o3 .")), _. vm_compute. reflexivity. Qed.

(** C07-R3: a closure token yields the registers whatever the state: a
    subject followed by '.' yields (new subject, previous predicate, previous object) *)
Lemma C07_reject_state_refuted :
  exists text s t1 t2, read_ttl text = ([t1; t2], Ok s) /\
    ts t2 = Node KIri (Str "http://e/t") /\ tp t2 = tp t1 /\ to t2 = to t1.
Proof.
  eexists (nl P_text (nl (Str "ex:s ex:p ex:o .") (Str "<http://e/t> ."))), _, _, _.
  split; [vm_compute; reflexivity|]. repeat split.
Qed.

(** C07-R4: a literal in predicate position is yielded as the predicate *)
Lemma C07_reject_position_refuted :
  exists text s t, read_ttl text = ([t], Ok s) /\ tp t = Str """p""".
Proof.
  eexists (nl P_text (Str "ex:s ""p"" ex:o .")), _, _. split; [vm_compute; reflexivity | reflexivity].
Qed.

(** documented divergence (excluded by the property): untyped decimals with a
    zero fraction are typed xsd:integer, booleans xsd:string *)
Lemma C07_untyped_numbers_divergence :
  exists text s t1 t2, read_ttl text = ([t1; t2], Ok s) /\
    to t1 = OL (Str "5.0") xsd_integer /\ to t2 = OL (Str "true") xsd_string.
Proof.
  eexists (nl P_text (Str "ex:s ex:p 5.0 , true .")), _, _, _. split; [vm_compute; reflexivity|]. split; reflexivity.
Qed.
