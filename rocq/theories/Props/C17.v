(** * C17 -- IRI patterns and examples come from the data *)
From Coq Require Import List Ascii String ZArith Bool Permutation.
From Shexer Require Import Lib.PyStr Lib.Dict Gen.Consts Spec.Rdf Model.Tracker Model.MinIri Model.Examples
     Spec.MinIriSpec Proofs.MinIriProofs Proofs.ExamplesProofs.
Import ListNotations.
Local Open Scope Z_scope.

(** ** stems.

    [stem iris] is the model of what detect_minimal_iri prints for a class
    whose instance ids are [iris] in dictionary order
    ([_update_shape_min_iri] folded over the instances, then
    [_determine_suitable_iri_pattern]; separators, the minimum length, the
    [_BARE_SCHEME] pattern and the sentinel come from [Gen/Consts.v]).

    For every non-empty list of instance ids none of which starts with ['%']
    ([well_formed_ids] = [C17_dom]: every list of IRIs and blank-node labels):
    the printed stem is admissible -- a prefix of every instance id, ends with
    ':', '/' or '#', at least three characters, not a bare scheme -- and no
    admissible stem is longer; nothing printed means no admissible stem
    exists.  The proofs need [c_min_iri_rule_bare = true], i.e. the source
    with the [_BARE_SCHEME.fullmatch] test; on the former length test
    ([startswith("http") and len < 9]) they do not check. *)
Theorem C17_stem_longest : forall iris s,
  C17_dom iris -> stem iris = Some s -> is_longest s iris.
Proof. exact stem_some. Qed.
Print Assumptions C17_stem_longest.

Theorem C17_stem_none : forall iris,
  C17_dom iris -> stem iris = None -> forall s, ~ admissible s iris.
Proof. exact stem_none. Qed.
Print Assumptions C17_stem_none.

(** the computable domain test run by the check implies the domain *)
Theorem C17_domb_sound : forall iris, C17_domb iris = true -> C17_dom iris.
Proof. exact MinIriProofs.C17_domb_sound. Qed.
Print Assumptions C17_domb_sound.

(** Moreover the scheme clause never makes the code fall back to a shorter
    stem: what is printed is the longest separator-terminated common prefix. *)
Theorem C17_stem_prefix_sep_longest : forall iris s,
  well_formed_ids iris -> stem iris = Some s ->
  common_prefix s iris /\ ends_with_sep s /\ 3 <= pylen s /\
  forall s', common_prefix s' iris -> ends_with_sep s' -> (List.length s' <= List.length s)%nat.
Proof. exact stem_some_prefix_sep. Qed.
Print Assumptions C17_stem_prefix_sep_longest.

(** the stem does not depend on the order in which the instances are met *)
Theorem C17_stem_order_independent : forall l l',
  Permutation l l' -> well_formed_ids l -> stem l = stem l'.
Proof. exact stem_perm. Qed.
Print Assumptions C17_stem_order_independent.

(** The per-class dictionary: after [profile_classes] with
    detect_minimal_iri, the value [annotate_shape_iri] stores for a class that
    has an instance is [stem] of that class's instances (no KeyError). *)
Theorem C17_class_stem : forall mode ip ins g d c,
  profile_examples true mode ip ins g = Some d -> (exists i, is_instance ins c i) ->
  shape_stem d c = Some (stem (instances_of ins c)) /\
  forall i, In i (instances_of ins c) <-> is_instance ins c i.
Proof.
  intros mode ip ins g d c E H. split; [eapply shape_stem_is_stem; eassumption | intros i; apply in_instances_of].
Qed.
Print Assumptions C17_class_stem.

(** ** examples: for all instance dictionaries and graphs, every mode *)
Theorem C17_examples_from_data : forall dmi mode ip ins g d,
  profile_examples dmi mode ip ins g = Some d ->
  (forall c x, shape_example d c = Some x -> is_instance ins c x) /\
  (forall c p inverse v, constraint_example d c p inverse = Some v ->
                         constraint_example_ok ins g c p inverse v).
Proof.
  intros dmi mode ip ins g d E. split.
  - intros c x. eapply shape_example_sound; eassumption.
  - intros c p inverse v. eapply constraint_example_sound; eassumption.
Qed.
Print Assumptions C17_examples_from_data.

(** the bookkeeping itself never raises (every subscript it performs hits) *)
Theorem C17_examples_total : forall dmi mode ip ins g, exists d, profile_examples dmi mode ip ins g = Some d.
Proof. intros. apply profile_examples_total. Qed.
Print Assumptions C17_examples_total.

(** ** non-vacuity *)
Definition c17_iris : list str :=
  [Str "http://ex.org/a/i1"; Str "http://ex.org/a/i2"; Str "http://ex.org/b/i3"].

Example C17_dom_inhabited :
  C17_dom c17_iris /\ stem c17_iris = Some (Str "http://ex.org/") /\
  C17_dom [Str "https://a.org/x"; Str "https://b.org/y"] /\
  stem [Str "https://a.org/x"; Str "https://b.org/y"] = None.
Proof.
  split; [apply C17_domb_sound; vm_compute; reflexivity|]. split; [vm_compute; reflexivity|].
  split; [apply C17_domb_sound; vm_compute; reflexivity | vm_compute; reflexivity].
Qed.

Definition c17_T (s p o : string) : triple := T (Node KIri (Str s)) (Str p) (ON (Node KIri (Str o))).
Definition c17_graph_ex : graph :=
  [ c17_T "http://ex.org/a/i1" "http://www.w3.org/1999/02/22-rdf-syntax-ns#type" "http://ex.org/C";
    c17_T "http://ex.org/a/i2" "http://www.w3.org/1999/02/22-rdf-syntax-ns#type" "http://ex.org/C";
    c17_T "http://ex.org/a/i1" "http://ex.org/p" "http://ex.org/a/i2";
    T (Node KIri (Str "http://ex.org/a/i2")) (Str "http://ex.org/q") (OL (Str "5") (Str "http://www.w3.org/2001/XMLSchema#integer")) ].

Example C17_examples_inhabited :
  exists ins d, track c_RDF_TYPE_STR TAll 0 c17_graph_ex = inl ins /\
    profile_examples true (Some c_ALL_EXAMPLES) true ins c17_graph_ex = Some d /\
    shape_stem d (Str "http://ex.org/C") = Some (Some (Str "http://ex.org/a/")) /\
    shape_example d (Str "http://ex.org/C") = Some (Str "http://ex.org/a/i1") /\
    constraint_example d (Str "http://ex.org/C") (Str "http://ex.org/q") false = Some (Str "5") /\
    constraint_example d (Str "http://ex.org/C") (Str "http://ex.org/p") true = Some (Str "http://ex.org/a/i1").
Proof. eexists. eexists. repeat split; vm_compute; reflexivity. Qed.

(** ** regressions of repaired defects (C17-X-a83169a and the bare-scheme /
    short-http repair): bare schemes are never printed, a short authority-less
    http: stem is *)
Example C17_fixed_regressions :
  stem [Str "https://a.org/x"; Str "https://b.org/y"] = None /\
  stem [Str "ftp://x.org/1"; Str "ftp://y.org/1"] = None /\
  stem [Str "urn:isbn:1"; Str "urn:uuid:2"] = None /\
  stem [Str "http:a/x"; Str "http:a/y"] = Some (Str "http:a/").
Proof. repeat split; vm_compute; reflexivity. Qed.

(** ** why the domain excludes ids that start with ['%'] (such a string is no
    IRI and no blank-node label): sentinel aliasing -- a running prefix equal
    to the sentinel is overwritten by the next instance. *)
Lemma C17_sentinel_refuted :
  exists iris s i, iris <> [] /\ stem iris = Some s /\ In i iris /\ ~ prefix s i.
Proof.
  exists [Str "%a"; Str "%b"; Str "x:/y/z"], (Str "x:/y/"), (Str "%a").
  split; [discriminate|]. split; [vm_compute; reflexivity|]. split; [now left|].
  intros P. apply prefixb_prefix in P. vm_compute in P. discriminate.
Qed.
