(** * C17 -- IRI patterns and examples come from the data *)
From Coq Require Import List Ascii String ZArith Bool Permutation.
From Shexer Require Import Lib.PyStr Lib.Dict Gen.Consts Spec.Rdf Model.Tracker Model.MinIri Model.Examples
     Spec.MinIriSpec Proofs.MinIriProofs Proofs.ExamplesProofs Proofs.ExamplesComplete.
Import ListNotations.
Local Open Scope Z_scope.

(** ** stems.

    [stem iris] is the model of what detect_minimal_iri prints for a class
    whose instance ids are [iris] in dictionary order
    ([_update_shape_min_iri] folded over the instances, then
    [_determine_suitable_iri_pattern]; separators, the minimum length, the
    [_BARE_SCHEME] pattern and the sentinel come from [Gen/Consts.v]).

    An instance id is an IRI or the label of a blank node ([_:label],
    [bnode_id]); a blank node has no IRI.  A stem is admissible for a class
    when every instance has an IRI (none is a blank node) and the stem has the
    shape of a stem ([stem_shaped]): a prefix of every instance id, ends with
    ':', '/' or '#', at least three characters, not a bare scheme.

    Domain.  [well_formed_ids]: a non-empty list of ids none of which starts
    with ['%'] (every list of IRIs and blank-node labels).  [C17_dom] depends on
    the source tree ([C17_dom_unfold]):
    - with the first test of [_determine_suitable_iri_pattern] (a common prefix
      that starts with "_:" gives no stem; [c_min_iri_skips_bnode_prefix = true],
      the repair of finding C09-F3) it is [well_formed_ids]: classes with
      blank-node instances, and classes of blank nodes only, included -- nothing
      is printed for them ([C17_stem_bnode_class_none]);
    - without it, the lists in which some instance is not a blank node (for a
      class of blank nodes only the code prints a "stem" cut out of their
      labels: [C17_bnode_label_stem_refuted]).
    On the domain the printed stem is admissible and no admissible stem is
    longer; nothing printed means no admissible stem exists.  The proofs need
    [c_min_iri_rule_bare = true], i.e. the source with the
    [_BARE_SCHEME.fullmatch] test; on the former length test
    ([startswith("http") and len < 9]) they do not check. *)
Theorem C17_stem_longest : forall iris s,
  C17_dom iris -> stem iris = Some s -> is_longest s iris.
Proof. exact stem_some. Qed.
Print Assumptions C17_stem_longest.

Theorem C17_stem_none : forall iris,
  C17_dom iris -> stem iris = None -> forall s, ~ admissible s iris.
Proof. exact stem_none. Qed.
Print Assumptions C17_stem_none.

(** the computable domain test run by the check implies the domain *)
Theorem C17_domb_sound : forall iris, C17_domb iris = true -> C17_dom iris.
Proof. exact MinIriProofs.C17_domb_sound. Qed.
Print Assumptions C17_domb_sound.

(** the domain, read off the source tree the constants were generated from *)
Theorem C17_dom_unfold : forall iris,
  (c_min_iri_skips_bnode_prefix = true -> (C17_dom iris <-> well_formed_ids iris)) /\
  (c_min_iri_skips_bnode_prefix = false ->
   (C17_dom iris <-> well_formed_ids iris /\ exists i, In i iris /\ ~ bnode_id i)).
Proof. intros iris. split; [apply C17_dom_guarded | apply C17_dom_unguarded]. Qed.
Print Assumptions C17_dom_unfold.

(** on the domain a class with a blank-node instance gets no stem; with the
    first test that is every class with a blank-node instance, the classes of
    blank nodes only included *)
Theorem C17_stem_bnode_class_none : forall iris,
  C17_dom iris -> (exists i, In i iris /\ bnode_id i) -> stem iris = None.
Proof. exact stem_bnode_none. Qed.
Print Assumptions C17_stem_bnode_class_none.

Theorem C17_stem_bnode_class_none_repaired : forall iris,
  c_min_iri_skips_bnode_prefix = true -> well_formed_ids iris ->
  (exists i, In i iris /\ bnode_id i) -> stem iris = None.
Proof. intros iris F W. apply stem_bnode_none. now apply C17_dom_guarded. Qed.
Print Assumptions C17_stem_bnode_class_none_repaired.

(** what [_determine_suitable_iri_pattern] guarantees with the first test: no answer for a
    common prefix that starts with "_:", the answer of the rest of the function otherwise *)
Theorem C17_determine_repaired : forall l,
  c_min_iri_skips_bnode_prefix = true ->
  (bnode_id l -> determine l = None) /\ (~ bnode_id l -> determine l = determine_cut l).
Proof. intros l F. exact (determine_guarded l F). Qed.
Print Assumptions C17_determine_repaired.

(** ** the same two statements about the SHAPE of a stem only, for every
    well-formed list and either text of the function (the statements this file
    made before blank nodes were told apart; nothing of them is lost): what is
    printed has the shape of a stem and nothing of that shape is longer;
    nothing printed means nothing has that shape -- or, only with the first
    test, that every instance is a blank node. *)
Theorem C17_stem_shaped_longest : forall iris s,
  well_formed_ids iris -> stem iris = Some s ->
  stem_shaped s iris /\ forall s', stem_shaped s' iris -> (List.length s' <= List.length s)%nat.
Proof. exact stem_some_shaped. Qed.
Print Assumptions C17_stem_shaped_longest.

Theorem C17_stem_shaped_none : forall iris,
  well_formed_ids iris -> stem iris = None ->
  forall s, stem_shaped s iris ->
    c_min_iri_skips_bnode_prefix = true /\ forall i, In i iris -> bnode_id i.
Proof. exact stem_none_shaped. Qed.
Print Assumptions C17_stem_shaped_none.

(** Moreover the scheme clause never makes the code fall back to a shorter
    stem: what is printed is the longest separator-terminated common prefix. *)
Theorem C17_stem_prefix_sep_longest : forall iris s,
  well_formed_ids iris -> stem iris = Some s ->
  common_prefix s iris /\ ends_with_sep s /\ 3 <= pylen s /\
  forall s', common_prefix s' iris -> ends_with_sep s' -> (List.length s' <= List.length s)%nat.
Proof. exact stem_some_prefix_sep. Qed.
Print Assumptions C17_stem_prefix_sep_longest.

(** the stem does not depend on the order in which the instances are met *)
Theorem C17_stem_order_independent : forall l l',
  Permutation l l' -> well_formed_ids l -> stem l = stem l'.
Proof. exact stem_perm. Qed.
Print Assumptions C17_stem_order_independent.

(** The per-class dictionary: after [profile_classes] with
    detect_minimal_iri, the value [annotate_shape_iri] stores for a class that
    has an instance is [stem] of that class's instances (no KeyError). *)
Theorem C17_class_stem : forall mode ip ins g d c,
  profile_examples true mode ip ins g = Some d -> (exists i, is_instance ins c i) ->
  shape_stem d c = Some (stem (instances_of ins c)) /\
  forall i, In i (instances_of ins c) <-> is_instance ins c i.
Proof.
  intros mode ip ins g d c E H. split; [eapply shape_stem_is_stem; eassumption | intros i; apply in_instances_of].
Qed.
Print Assumptions C17_class_stem.

(** ** examples: for all instance dictionaries and graphs, every mode *)
Theorem C17_examples_from_data : forall dmi mode ip ins g d,
  profile_examples dmi mode ip ins g = Some d ->
  (forall c x, shape_example d c = Some x -> is_instance ins c x) /\
  (forall c p inverse v, constraint_example d c p inverse = Some v ->
                         constraint_example_ok ins g c p inverse v).
Proof.
  intros dmi mode ip ins g d E. split.
  - intros c x. eapply shape_example_sound; eassumption.
  - intros c p inverse v. eapply constraint_example_sound; eassumption.
Qed.
Print Assumptions C17_examples_from_data.

(** the bookkeeping itself never raises (every subscript it performs hits) *)
Theorem C17_examples_total : forall dmi mode ip ins g, exists d, profile_examples dmi mode ip ins g = Some d.
Proof. intros. apply profile_examples_total. Qed.
Print Assumptions C17_examples_total.

(** ** non-vacuity *)
Definition c17_iris : list str :=
  [Str "http://ex.org/a/i1"; Str "http://ex.org/a/i2"; Str "http://ex.org/b/i3"].

Example C17_dom_inhabited :
  C17_dom c17_iris /\ stem c17_iris = Some (Str "http://ex.org/") /\
  C17_dom [Str "https://a.org/x"; Str "https://b.org/y"] /\
  stem [Str "https://a.org/x"; Str "https://b.org/y"] = None.
Proof.
  split; [apply C17_domb_sound; vm_compute; reflexivity|]. split; [vm_compute; reflexivity|].
  split; [apply C17_domb_sound; vm_compute; reflexivity | vm_compute; reflexivity].
Qed.

Definition c17_T (s p o : string) : triple := T (Node KIri (Str s)) (Str p) (ON (Node KIri (Str o))).
Definition c17_graph_ex : graph :=
  [ c17_T "http://ex.org/a/i1" "http://www.w3.org/1999/02/22-rdf-syntax-ns#type" "http://ex.org/C";
    c17_T "http://ex.org/a/i2" "http://www.w3.org/1999/02/22-rdf-syntax-ns#type" "http://ex.org/C";
    c17_T "http://ex.org/a/i1" "http://ex.org/p" "http://ex.org/a/i2";
    T (Node KIri (Str "http://ex.org/a/i2")) (Str "http://ex.org/q") (OL (Str "5") (Str "http://www.w3.org/2001/XMLSchema#integer")) ].

Example C17_examples_inhabited :
  exists ins d, track c_RDF_TYPE_STR TAll 0 c17_graph_ex = inl ins /\
    profile_examples true (Some c_ALL_EXAMPLES) true ins c17_graph_ex = Some d /\
    shape_stem d (Str "http://ex.org/C") = Some (Some (Str "http://ex.org/a/")) /\
    shape_example d (Str "http://ex.org/C") = Some (Str "http://ex.org/a/i1") /\
    constraint_example d (Str "http://ex.org/C") (Str "http://ex.org/q") false = Some (Str "5") /\
    constraint_example d (Str "http://ex.org/C") (Str "http://ex.org/p") true = Some (Str "http://ex.org/a/i1").
Proof. eexists. eexists. repeat split; vm_compute; reflexivity. Qed.

(** ** regressions of repaired defects (C17-X-a83169a and the bare-scheme /
    short-http repair): bare schemes are never printed, a short authority-less
    http: stem is *)
Example C17_fixed_regressions :
  stem [Str "https://a.org/x"; Str "https://b.org/y"] = None /\
  stem [Str "ftp://x.org/1"; Str "ftp://y.org/1"] = None /\
  stem [Str "urn:isbn:1"; Str "urn:uuid:2"] = None /\
  stem [Str "http:a/x"; Str "http:a/y"] = Some (Str "http:a/").
Proof. repeat split; vm_compute; reflexivity. Qed.

(** ** classes with blank-node instances.  A mixed class never gets a stem
    (either text: the common prefix of an IRI and a label is empty); a class of
    blank nodes only whose labels share a prefix that reaches a ':' gets none
    with the first test (regression of finding C09-F3) and a piece of the labels
    without it. *)
Definition c17_bn_ids : list str := [Str "_:genid:b0"; Str "_:genid:b1"].

Example C17_mixed_class_no_stem :
  C17_dom [Str "http://ex.org/a/i1"; Str "_:genid:b0"; Str "http://ex.org/a/i2"] /\
  stem [Str "http://ex.org/a/i1"; Str "_:genid:b0"; Str "http://ex.org/a/i2"] = None.
Proof. split; [apply C17_domb_sound; vm_compute; reflexivity | vm_compute; reflexivity]. Qed.

Example C17_bnode_label_stem_fixed : c_min_iri_skips_bnode_prefix = true ->
  C17_dom c17_bn_ids /\ stem c17_bn_ids = None /\
  stem_shaped (Str "_:genid:") c17_bn_ids /\
  determine (Str "_:genid:b") = None /\ determine_cut (Str "_:genid:b") = Some (Str "_:genid:").
Proof.
  intros F. first [ vm_compute in F; discriminate F
                  | split; [apply C17_domb_sound; vm_compute; reflexivity|];
                    split; [vm_compute; reflexivity|];
                    split; [|split; vm_compute; reflexivity];
                    split; [intros i [<- | [<- | []]]; eexists; reflexivity|];
                    split; [exists (Str "_:genid"), ":"%char; split; [reflexivity | now left]|];
                    split; [vm_compute; discriminate|];
                    intros B; apply bare_schemeb_spec in B; vm_compute in B; discriminate B ].
Qed.

(** without the first test (finding C09-F3; Props/C09.v: [C09_rename_stem_refuted]): the
    "stem" of a class of blank nodes is a piece of their labels -- not admissible, and
    outside [C17_dom] *)
Lemma C17_bnode_label_stem_refuted : c_min_iri_skips_bnode_prefix = false ->
  well_formed_ids c17_bn_ids /\ stem c17_bn_ids = Some (Str "_:genid:") /\
  ~ admissible (Str "_:genid:") c17_bn_ids /\ ~ C17_dom c17_bn_ids.
Proof.
  intros F. first [ vm_compute in F; discriminate F
                  | split; [apply well_formed_idsb_sound; vm_compute; reflexivity|];
                    split; [vm_compute; reflexivity|];
                    split; [intros [_ NB]; apply (NB (Str "_:genid:b0")); [now left | eexists; reflexivity]|];
                    intros D; apply (C17_dom_unguarded _ F) in D; destruct D as [_ (i & Hi & NB)];
                    apply NB; destruct Hi as [<- | [<- | []]]; eexists; reflexivity ].
Qed.

(** the flag is one of the two: exactly one of the two statements above speaks about the
    source tree the constants were generated from *)
Example C17_bnode_label_stem_status :
  (c_min_iri_skips_bnode_prefix = false /\ stem c17_bn_ids = Some (Str "_:genid:")) \/
  (c_min_iri_skips_bnode_prefix = true /\ stem c17_bn_ids = None).
Proof. first [ left; split; vm_compute; reflexivity | right; split; vm_compute; reflexivity ]. Qed.

(** ** why the domain excludes ids that start with ['%'] (such a string is no
    IRI and no blank-node label): sentinel aliasing -- a running prefix equal
    to the sentinel is overwritten by the next instance. *)
Lemma C17_sentinel_refuted :
  exists iris s i, iris <> [] /\ stem iris = Some s /\ In i iris /\ ~ prefix s i.
Proof.
  exists [Str "%a"; Str "%b"; Str "x:/y/z"], (Str "x:/y/"), (Str "%a").
  split; [discriminate|]. split; [vm_compute; reflexivity|]. split; [now left|].
  intros P. apply prefixb_prefix in P. vm_compute in P. discriminate.
Qed.

(** * The two options inside the validated text model.

    [Model/RunDecor.v: run_shexc_decor fa c dmi mode thr g] is the ShExC text of
    [Shaper(..., detect_minimal_iri=dmi, examples_mode=mode).shex_graph(string_output=True)]:
    [run_shapes] (the pipeline model) for the shapes, [Examples.profile_examples] for the
    per-class data, and the serialiser's decorations added while a shape is printed
    (compared byte for byte with the real text on every run: harness/vp/pipedecor.py).
    [run_shexc_decor_lines] is the same text as a list of newline-terminated lines. *)
From Shexer Require Import Model.Profiler Model.Tokens Model.Freq Model.FreqInst Model.Shexing Model.SerialShexc
     Model.Run Model.RunDecor Model.DecorDom Spec.DecorSpec Proofs.DecorProofs Proofs.DecorTotal Proofs.RunWitness.

(** with both options off it is the plain run *)
Theorem C17_decor_off : forall fa c thr g,
  run_shexc_decor fa c false None thr g =
  match run_shexc fa c thr g with inl t => inl t | inr e => inr (DE e) end.
Proof. exact run_decor_off. Qed.
Print Assumptions C17_decor_off.

(** ** D1 -- neither option changes any constraint.

    The shapes are computed by [run_shapes], which does not take the two options.  The
    text printed with the options is: the PREFIX block, then for every shape of
    [run_shapes], in order, the lines [SerialShexc.shape_lines] prints for a shape [sh']
    that has the same label, class and instance count and, statement by statement, the
    same direction, property, value types, cardinality, count and probability
    ([stmt_core_eq]); the ordinary comments of every statement are intact, and at most one
    [// rdfs:comment ... ;] comment was inserted before them ([same_structure],
    [printed_as]: Proofs/DecorProofs.v). *)
Theorem C17_structure_unchanged : forall fa c dmi mode thr g ls,
  run_shexc_decor_lines fa c dmi mode thr g = inl ls ->
  exists ns shapes blocks,
    run_shapes fa c thr g = inl (ns, shapes) /\
    ls = prefix_lines ns ++ List.concat blocks /\
    Forall2 (printed_as (zcfg_of c ns)) shapes blocks.
Proof. exact run_structure_unchanged. Qed.
Print Assumptions C17_structure_unchanged.

(** ** D2 -- the text with the options, decorations removed, is the text without them.

    [Spec/DecorSpec.v: strip_decor] works on lines: in a header line the text from
    ["  [<"] after the label to the next [">~]  AND"] goes, a closing line
    ["} // rdfs:comment ..."] becomes ["}"], body lines that start (after the comment
    indentation) with ["// rdfs:comment "] go.  [run_decor_domb] is the computable domain
    in which those lines can be recognised ([Model/DecorDom.v]: printed labels without
    blanks, stems without ['>'], printed properties that do not start with a blank --
    true of IRIs and prefixed names; evaluated on every run of the check).  That no
    other comment line of the model's text starts with ["// rdfs:comment"] is proved
    (every ordinary comment is a statement snapshot: Proofs/ShexKeys.v K3). *)
Theorem C17_text_strip_decor : forall fa c dmi mode thr g ls,
  run_decor_domb fa c dmi mode thr g = true ->
  run_shexc_decor_lines fa c dmi mode thr g = inl ls ->
  run_shexc_lines fa c thr g = inl (strip_decor ls).
Proof. exact run_text_strip_decor. Qed.
Print Assumptions C17_text_strip_decor.

Theorem C17_text_strip_decor_text : forall fa c dmi mode thr g ls,
  run_decor_domb fa c dmi mode thr g = true ->
  run_shexc_decor_lines fa c dmi mode thr g = inl ls ->
  run_shexc_decor fa c dmi mode thr g = inl (List.concat ls) /\
  run_shexc fa c thr g = inl (List.concat (strip_decor ls)).
Proof. exact run_text_strip_decor_text. Qed.
Print Assumptions C17_text_strip_decor_text.

(** the domain holds whenever no shape label and no prefix label contains a blank, no
    namespace is empty, no property starts with a blank (or is empty), and no printed stem
    contains ['>'] -- and the last clause follows from instance ids without ['>']
    ([ns_ok], [nospace], [tok_ok], [stem_ok]: Proofs/DecorProofs.v, Model/DecorDom.v) *)
Theorem C17_strip_domain_sufficient : forall z dc d shapes,
  ns_ok (z_ns z) ->
  Forall (fun sh =>
            nospace (sh_name sh) = true /\
            Forall (fun s => tok_ok (s_prop s) = true) (sh_stmts sh) /\
            (d_dmi dc = true -> forall s, shape_stem d (sh_class sh) = Some (Some s) -> stem_ok s = true)) shapes ->
  decor_domb z dc d shapes = true.
Proof. exact decor_domb_sufficient. Qed.
Print Assumptions C17_strip_domain_sufficient.

Theorem C17_strip_domain_stems : forall c mode g ins d cls s,
  run_decor_data c true mode g = Some (ins, d) ->
  well_formed_ids (instances_of ins cls) ->
  (forall i, In i (instances_of ins cls) -> forallb stem_char_ok i = true) ->
  shape_stem d cls = Some (Some s) -> stem_ok s = true.
Proof. exact stem_ok_of_instances. Qed.
Print Assumptions C17_strip_domain_stems.

(** ** D3 -- what is printed comes from the data.

    [run_decor_data c dmi mode g = Some (ins, d)]: [ins] is the tracker's instance
    dictionary and [d] the example dictionary the serialiser reads.  For a shape whose
    class has an instance, the header carries [MinIri.stem] of that class's instances
    (which [C17_stem_longest] / [C17_stem_none] characterise), or nothing. *)
Theorem C17_printed_stem_is_class_stem : forall c mode g ins d sh,
  run_decor_data c true mode g = Some (ins, d) ->
  (exists i, is_instance ins (sh_class sh) i) ->
  min_iri_text {| d_dmi := true; d_mode := mode; d_inverse := r_inverse c |} d sh =
  inl (match stem (instances_of ins (sh_class sh)) with
       | Some s => c17d_stem_pre ++ s ++ c17d_stem_post
       | None => []
       end).
Proof. exact printed_stem_is_class_stem. Qed.
Print Assumptions C17_printed_stem_is_class_stem.

(** composed with [C17_stem_longest] / [C17_stem_none]: on [C17_dom] the header carries the
    longest admissible stem of the class's instances, and carries none only if none exists
    (with the first test of [_determine_suitable_iri_pattern] the domain holds the classes
    with blank-node instances: their header carries nothing, [C17_printed_stem_bnode_class]) *)
Theorem C17_printed_stem_longest : forall c mode g ins d sh,
  run_decor_data c true mode g = Some (ins, d) ->
  (exists i, is_instance ins (sh_class sh) i) ->
  C17_dom (instances_of ins (sh_class sh)) ->
  (exists s, min_iri_text {| d_dmi := true; d_mode := mode; d_inverse := r_inverse c |} d sh =
             inl (c17d_stem_pre ++ s ++ c17d_stem_post) /\ is_longest s (instances_of ins (sh_class sh))) \/
  (min_iri_text {| d_dmi := true; d_mode := mode; d_inverse := r_inverse c |} d sh = inl [] /\
   forall s, ~ admissible s (instances_of ins (sh_class sh))).
Proof.
  intros c mode g ins d sh H Hi Hd. rewrite (printed_stem_is_class_stem _ _ _ _ _ _ H Hi).
  destruct (stem (instances_of ins (sh_class sh))) as [s|] eqn:E.
  - left. exists s. split; [reflexivity | exact (stem_some _ _ Hd E)].
  - right. split; [reflexivity | exact (stem_none _ Hd E)].
Qed.
Print Assumptions C17_printed_stem_longest.

Theorem C17_printed_stem_bnode_class : forall c mode g ins d sh,
  run_decor_data c true mode g = Some (ins, d) ->
  C17_dom (instances_of ins (sh_class sh)) ->
  (exists i, is_instance ins (sh_class sh) i /\ bnode_id i) ->
  min_iri_text {| d_dmi := true; d_mode := mode; d_inverse := r_inverse c |} d sh = inl [].
Proof.
  intros c mode g ins d sh H Hd (i & Hi & B).
  rewrite (printed_stem_is_class_stem _ _ _ _ _ _ H (ex_intro _ i Hi)).
  rewrite (stem_bnode_none _ Hd); [reflexivity|]. exists i. split; [now apply in_instances_of | exact B].
Qed.
Print Assumptions C17_printed_stem_bnode_class.

(** the example printed after the closing brace is an instance of the shape's class
    (rendered as a prefixed name or between angle brackets).  Second case: only when
    [_serialize_example] carries the [candidate is None] guard ([c_example_none_guard];
    without it the case is the AttributeError of C17-F4) the closing line has no example, and
    then the class has no instance at all -- an example is never withheld from a class that
    has one. *)
Theorem C17_printed_example_from_data : forall c dmi mode g ins d z sh ex,
  run_decor_data c dmi mode g = Some (ins, d) -> z_ns z <> [] ->
  example_text z {| d_dmi := dmi; d_mode := mode; d_inverse := r_inverse c |} d sh = inl ex ->
  (in_modes mode c17d_modes_shape_example = false /\ ex = []) \/
  (c_example_none_guard = true /\ (forall x, ~ is_instance ins (sh_class sh) x) /\ ex = []) \/
  exists x, is_instance ins (sh_class sh) x /\
            ex = c17d_inst_pre ++ iri_or_prefixed (z_ns z) x ++ c17d_inst_post.
Proof. exact printed_example_from_data. Qed.
Print Assumptions C17_printed_example_from_data.

(** the shape-example slot is complete: with examples_mode 'shape' / 'all', every class
    that has an instance gets an example, and it is one of its instances
    (Proofs/ExamplesComplete.v; for all instance dictionaries and graphs) *)
Theorem C17_shape_example_complete : forall dmi mode ip ins g d c i,
  profile_examples dmi mode ip ins g = Some d -> wants_shape_examples mode = true ->
  is_instance ins c i -> exists x, shape_example d c = Some x /\ is_instance ins c x.
Proof.
  intros dmi mode ip ins g d c i E W Hi.
  destruct (shape_example_complete _ _ _ _ _ _ _ _ E W Hi) as [x X].
  exists x. split; [exact X | eapply shape_example_sound; eassumption].
Qed.
Print Assumptions C17_shape_example_complete.

(** with the guard, printing the example of a class the dictionary knows cannot raise *)
Theorem C17_example_text_total : forall z dc d sh,
  c_example_none_guard = true -> dget d (sh_class sh) <> None ->
  exists ex, example_text z dc d sh = inl ex.
Proof. exact example_text_total_guard. Qed.
Print Assumptions C17_example_text_total.

(** the example comment put first on a constraint shows a value [v] of that property, in
    that direction, on an instance of the class ([constraint_example_ok], as in
    [C17_examples_from_data]), rendered by [cons_rendered] = the getter's guess followed
    by [_turn_str_comment_into_proper_rdf] (dead [count] branch included: C17-F3) *)
Theorem C17_printed_constraint_example_from_data : forall c dmi mode g ins d z cls cnt s s',
  run_decor_data c dmi mode g = Some (ins, d) ->
  decorate_stmt z {| d_dmi := dmi; d_mode := mode; d_inverse := r_inverse c |} d cls cnt s = inl s' ->
  s_prop s <> z_tau z -> no_raw s = true ->
  exists v, constraint_example_ok ins g cls (s_prop s) (r_inverse c && s_inv s) v /\
            s' = add_comment_first s
                   (KRaw (cons_rendered {| d_dmi := dmi; d_mode := mode; d_inverse := r_inverse c |} (z_ns z) v)).
Proof. exact printed_cons_example_from_data. Qed.
Print Assumptions C17_printed_constraint_example_from_data.

(** ** non-vacuity: a whole decorated document, and its stripped form *)
Definition c17_decor_cfg : rcfg :=
  {| r_tau := c_RDF_TYPE; r_targets := None; r_ns := [(Str "http://ex.org/", Str "ex")];
     r_shapes_ns := c_SHAPES_DEFAULT_NAMESPACE; r_cap := (-1)%Z;
     r_inverse := true; r_remove_empty := true; r_discard_useless := true; r_keep_less_specific := true;
     r_all_compliant := true; r_disable_or := true; r_allow_redundant_or := false; r_allow_opt := true;
     r_disable_exact := false; r_disable_comments := false; r_mode := FAbs |}.

Definition unlines (l : list string) : str := List.concat (map (fun s => Str s ++ nl) l).

Example C17_decorated_document :
  run_shexc_decor BAlg c17_decor_cfg true (Some c_ALL_EXAMPLES) thr0 c17_graph_ex = inl (unlines [
    "PREFIX ex: <http://ex.org/>";
    "PREFIX : <http://weso.es/shapes/>";
    "";
    ":C  [<http://ex.org/a/>~]  AND   # 2 instances.";
    "{";
    "   <http://www.w3.org/1999/02/22-rdf-syntax-ns#type>  [ex:C]  ;          # 2 instances.";
    "   ex:p  @:C  ?;";
    "            // rdfs:comment <http://ex.org/a/i2> ;";
    "            # 1 instance. obj: @:C. Cardinality: {1}";
    "   ex:q  <http://www.w3.org/2001/XMLSchema#integer>  ?;";
    "            // rdfs:comment ""5"" ;";
    "            # 1 instance. obj: <http://www.w3.org/2001/XMLSchema#integer>. Cardinality: {1}";
    "   ^  ex:p  @:C  ?";
    "            // rdfs:comment <http://ex.org/a/i1> ;";
    "            # 1 instance. obj: @:C. Cardinality: {1}";
    "} // rdfs:comment <http://ex.org/a/i1>";
    "";
    ""]%string)
  /\ run_decor_domb BAlg c17_decor_cfg true (Some c_ALL_EXAMPLES) thr0 c17_graph_ex = true
  /\ run_shexc BAlg c17_decor_cfg thr0 c17_graph_ex = inl (unlines [
    "PREFIX ex: <http://ex.org/>";
    "PREFIX : <http://weso.es/shapes/>";
    "";
    ":C   # 2 instances.";
    "{";
    "   <http://www.w3.org/1999/02/22-rdf-syntax-ns#type>  [ex:C]  ;          # 2 instances.";
    "   ex:p  @:C  ?;";
    "            # 1 instance. obj: @:C. Cardinality: {1}";
    "   ex:q  <http://www.w3.org/2001/XMLSchema#integer>  ?;";
    "            # 1 instance. obj: <http://www.w3.org/2001/XMLSchema#integer>. Cardinality: {1}";
    "   ^  ex:p  @:C  ?";
    "            # 1 instance. obj: @:C. Cardinality: {1}";
    "}";
    "";
    ""]%string).
Proof. repeat split; vm_compute; reflexivity. Qed.

(** a direct-mode run in which an IRI value is prefixed by the getter and then quoted by
    [_turn_str_comment_into_proper_rdf] (C17-F3, reproduced as printed) *)
Example C17_F3_as_printed :
  cons_rendered {| d_dmi := false; d_mode := Some c_CONSTRAINT_EXAMPLES; d_inverse := false |}
                [(Str "http://ex.org/", Str "ex")] (Str "http://ex.org/i2")
  = Str "// rdfs:comment ""ex:i2"" ;"
  /\ cons_rendered {| d_dmi := false; d_mode := Some c_CONSTRAINT_EXAMPLES; d_inverse := true |}
                   [(Str "http://ex.org/", Str "ex")] (Str "http://ex.org/i2")
     = Str "// rdfs:comment ex:i2 ;"
  /\ cons_rendered {| d_dmi := false; d_mode := Some c_CONSTRAINT_EXAMPLES; d_inverse := false |}
                   [(Str "http://ex.org/", Str "ex")] (Str "urn:x:y")
     = Str "// rdfs:comment ""urn:x:y"" ;".
Proof. repeat split; vm_compute; reflexivity. Qed.

(** ** C17-F4: with a shape example requested, a printed shape without any instance makes
    the extraction fail (AttributeError), although the same run without the option
    succeeds -- on the source without the [candidate is None] guard in
    [ShexSerializer._serialize_example] ([c_example_none_guard = false]); with the guard
    the shape is printed without an example line *)
Definition c17_f4_cfg : rcfg :=
  {| r_tau := c_RDF_TYPE; r_targets := Some [Str "http://ex.org/C1"; Str "http://ex.org/Cnone"]; r_ns := [];
     r_shapes_ns := c_SHAPES_DEFAULT_NAMESPACE; r_cap := (-1)%Z;
     r_inverse := false; r_remove_empty := false; r_discard_useless := true; r_keep_less_specific := true;
     r_all_compliant := true; r_disable_or := true; r_allow_redundant_or := false; r_allow_opt := true;
     r_disable_exact := false; r_disable_comments := false; r_mode := FMixed |}.

Definition c17_f4_graph : graph :=
  [ c17_T "http://ex.org/a/i1" "http://www.w3.org/1999/02/22-rdf-syntax-ns#type" "http://ex.org/C1";
    T (Node KIri (Str "http://ex.org/a/i1")) (Str "http://ex.org/p1") (OL (Str "abc") (Str "http://www.w3.org/2001/XMLSchema#string")) ].

(** on the text of [_serialize_example] without the [candidate is None] guard *)
Lemma C17_F4_refuted : c_example_none_guard = false ->
  exists c g, (exists t, run_shexc BAlg c thr0 g = inl t) /\
              run_shexc_decor BAlg c false (Some c_SHAPE_EXAMPLES) thr0 g = inr (DE REAttr).
Proof.
  intros G. first [ vm_compute in G; discriminate G
                  | exists c17_f4_cfg, c17_f4_graph; split; [eexists|]; vm_compute; reflexivity ].
Qed.

(** with the guard (regression of C17-F4): the same input is printed, the shape of the
    class without instances without an example line; the run is inside the domain of
    [C17_text_strip_decor] and its stripped text is the text of the plain run (shown in
    report mode 'abs'; [C17_F4_status] below is about the pinned input itself).
    [C17_structure_unchanged] / [C17_text_strip_decor] are stated for every run that
    prints: they cover such shapes as soon as the run prints them. *)
Definition c17_f4_cfg_abs : rcfg :=     (* [c17_f4_cfg] with instances_report_mode 'abs' (figures as plain counts) *)
  {| r_tau := c_RDF_TYPE; r_targets := Some [Str "http://ex.org/C1"; Str "http://ex.org/Cnone"]; r_ns := [];
     r_shapes_ns := c_SHAPES_DEFAULT_NAMESPACE; r_cap := (-1)%Z;
     r_inverse := false; r_remove_empty := false; r_discard_useless := true; r_keep_less_specific := true;
     r_all_compliant := true; r_disable_or := true; r_allow_redundant_or := false; r_allow_opt := true;
     r_disable_exact := false; r_disable_comments := false; r_mode := FAbs |}.

Example C17_F4_fixed : c_example_none_guard = true ->
  run_shexc_decor BAlg c17_f4_cfg_abs false (Some c_SHAPE_EXAMPLES) thr0 c17_f4_graph = inl (unlines [
    "PREFIX : <http://weso.es/shapes/>";
    "";
    ":C1   # 1 instance.";
    "{";
    "   <http://www.w3.org/1999/02/22-rdf-syntax-ns#type>  [<http://ex.org/C1>]  ;          # 1 instance.";
    "   <http://ex.org/p1>  <http://www.w3.org/2001/XMLSchema#string>            # 1 instance.";
    "} // rdfs:comment <http://ex.org/a/i1>";
    "";
    "";
    ":Cnone   # 0 instances.";
    "{";
    "}";
    "";
    ""]%string)
  /\ run_decor_domb BAlg c17_f4_cfg_abs false (Some c_SHAPE_EXAMPLES) thr0 c17_f4_graph = true
  /\ run_shexc BAlg c17_f4_cfg_abs thr0 c17_f4_graph = inl (unlines [
    "PREFIX : <http://weso.es/shapes/>";
    "";
    ":C1   # 1 instance.";
    "{";
    "   <http://www.w3.org/1999/02/22-rdf-syntax-ns#type>  [<http://ex.org/C1>]  ;          # 1 instance.";
    "   <http://ex.org/p1>  <http://www.w3.org/2001/XMLSchema#string>            # 1 instance.";
    "}";
    "";
    "";
    ":Cnone   # 0 instances.";
    "{";
    "}";
    "";
    ""]%string).
Proof.
  intros G. first [ vm_compute in G; discriminate G | repeat split; vm_compute; reflexivity ].
Qed.

(** with the guard, for every configuration, graph, threshold and frequency algebra:
    [_serialize_example] raises for no shape of the run (every printed shape's class is a
    key of [_class_counts], hence of the example dictionary) ... *)
Theorem C17_example_line_never_raises : forall fa c dmi mode thr g ns shapes ins d,
  c_example_none_guard = true ->
  run_shapes fa c thr g = inl (ns, shapes) ->
  run_decor_data c dmi mode g = Some (ins, d) ->
  forall sh, In sh shapes ->
    exists ex, example_text (zcfg_of c ns) {| d_dmi := dmi; d_mode := mode; d_inverse := r_inverse c |} d sh = inl ex.
Proof. exact run_example_text_total. Qed.
Print Assumptions C17_example_line_never_raises.

(** ... and examples_mode 'shape' never makes an extraction fail that succeeds without it:
    the converse of [C17_F4_refuted], for all inputs *)
Theorem C17_F4_repaired : forall fa c thr g t,
  c_example_none_guard = true ->
  run_shexc fa c thr g = inl t ->
  exists t', run_shexc_decor fa c false (Some c_SHAPE_EXAMPLES) thr g = inl t'.
Proof. intros fa c thr g t G. apply run_shape_examples_total; [exact G | reflexivity]. Qed.
Print Assumptions C17_F4_repaired.

(** the flag is one of the two: exactly one of [C17_F4_refuted] / [C17_F4_fixed] speaks
    about the source tree the constants were generated from *)
Example C17_F4_status :
  (c_example_none_guard = false /\
   run_shexc_decor BAlg c17_f4_cfg false (Some c_SHAPE_EXAMPLES) thr0 c17_f4_graph = inr (DE REAttr)) \/
  (c_example_none_guard = true /\
   exists t, run_shexc_decor BAlg c17_f4_cfg false (Some c_SHAPE_EXAMPLES) thr0 c17_f4_graph = inl t).
Proof.
  first [ left; split; vm_compute; reflexivity | right; split; [|eexists]; vm_compute; reflexivity ].
Qed.
