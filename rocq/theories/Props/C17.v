(** * C17 -- IRI patterns and examples come from the data *)
From Coq Require Import List Ascii String ZArith Bool Permutation.
From Shexer Require Import Lib.PyStr Lib.Dict Gen.Consts Spec.Rdf Model.Tracker Model.MinIri Model.Examples
     Spec.MinIriSpec Proofs.MinIriProofs Proofs.ExamplesProofs.
Import ListNotations.
Local Open Scope Z_scope.

(** ** stems.

    [stem iris] is the model of what detect_minimal_iri prints for a class
    whose instance ids are [iris] in dictionary order
    ([_update_shape_min_iri] folded over the instances, then
    [_determine_suitable_iri_pattern]; separators, lengths and the sentinel
    come from [Gen/Consts.v]).

    Property wording, on [C17_dom] (a non-empty list of ids none of which
    starts with ['%'], on whose separator-terminated common prefixes "bare
    scheme" and the code's test "starts with http and has fewer than nine
    characters" coincide): the printed stem is admissible -- a prefix of every
    instance id, ends with ':', '/' or '#', at least three characters, not a
    bare scheme -- and no admissible stem is longer; nothing printed means no
    admissible stem exists.  [_partial]: the full statement (all id lists) is
    false on the current code, see the [_refuted] lemmas below. *)
Theorem C17_stem_longest_partial : forall iris s,
  C17_dom iris -> stem iris = Some s -> is_longest s iris.
Proof. exact stem_some. Qed.
Print Assumptions C17_stem_longest_partial.

Theorem C17_stem_none_partial : forall iris,
  C17_dom iris -> stem iris = None -> forall s, ~ admissible s iris.
Proof. exact stem_none. Qed.
Print Assumptions C17_stem_none_partial.

(** Every list of instance IRIs that start with [http://x] or [https://x]
    ([x] no separator) is in the domain: the theorems above are not about a
    corner. *)
Theorem C17_http_family_in_dom : forall iris,
  iris <> [] -> (forall i, In i iris -> http_family i) -> C17_dom iris.
Proof. exact http_family_in_dom. Qed.
Print Assumptions C17_http_family_in_dom.

(** the computable domain test run by the check implies the domain *)
Theorem C17_domb_sound : forall iris, C17_domb iris = true -> C17_dom iris.
Proof. exact MinIriProofs.C17_domb_sound. Qed.
Print Assumptions C17_domb_sound.

(** For ALL non-empty id lists without a ['%'] id, exactly what the code does:
    the printed stem is the longest common prefix that ends with a separator,
    has at least three characters and is not "http..." shorter than nine;
    nothing is printed iff there is none. *)
Theorem C17_stem_as_implemented : forall iris, well_formed_ids iris ->
  (forall s, stem iris = Some s -> is_longest_impl s iris) /\
  (stem iris = None -> forall s, ~ admissible_impl s iris).
Proof. intros iris W. split; [intros s; now apply stem_some_impl | now apply stem_none_impl]. Qed.
Print Assumptions C17_stem_as_implemented.

(** For all such lists, independently of the scheme clause: a printed stem is a
    prefix of every instance id, ends with a separator, has at least three
    characters, and no separator-terminated common prefix is longer. *)
Theorem C17_stem_prefix_sep_longest : forall iris s,
  well_formed_ids iris -> stem iris = Some s ->
  common_prefix s iris /\ ends_with_sep s /\ 3 <= pylen s /\
  forall s', common_prefix s' iris -> ends_with_sep s' -> (List.length s' <= List.length s)%nat.
Proof. exact stem_some_prefix_sep. Qed.
Print Assumptions C17_stem_prefix_sep_longest.

(** the stem does not depend on the order in which the instances are met *)
Theorem C17_stem_order_independent : forall l l',
  Permutation l l' -> well_formed_ids l -> stem l = stem l'.
Proof. exact stem_perm. Qed.
Print Assumptions C17_stem_order_independent.

(** The per-class dictionary: after [profile_classes] with
    detect_minimal_iri, the value [annotate_shape_iri] stores for a class that
    has an instance is [stem] of that class's instances (no KeyError). *)
Theorem C17_class_stem : forall mode ip ins g d c,
  profile_examples true mode ip ins g = Some d -> (exists i, is_instance ins c i) ->
  shape_stem d c = Some (stem (instances_of ins c)) /\
  forall i, In i (instances_of ins c) <-> is_instance ins c i.
Proof.
  intros mode ip ins g d c E H. split; [eapply shape_stem_is_stem; eassumption | intros i; apply in_instances_of].
Qed.
Print Assumptions C17_class_stem.

(** ** examples: for all instance dictionaries and graphs, every mode *)
Theorem C17_examples_from_data : forall dmi mode ip ins g d,
  profile_examples dmi mode ip ins g = Some d ->
  (forall c x, shape_example d c = Some x -> is_instance ins c x) /\
  (forall c p inverse v, constraint_example d c p inverse = Some v ->
                         constraint_example_ok ins g c p inverse v).
Proof.
  intros dmi mode ip ins g d E. split.
  - intros c x. eapply shape_example_sound; eassumption.
  - intros c p inverse v. eapply constraint_example_sound; eassumption.
Qed.
Print Assumptions C17_examples_from_data.

(** the bookkeeping itself never raises (every subscript it performs hits) *)
Theorem C17_examples_total : forall dmi mode ip ins g, exists d, profile_examples dmi mode ip ins g = Some d.
Proof. intros. apply profile_examples_total. Qed.
Print Assumptions C17_examples_total.

(** ** non-vacuity *)
Definition c17_iris : list str :=
  [Str "http://ex.org/a/i1"; Str "http://ex.org/a/i2"; Str "http://ex.org/b/i3"].

Example C17_dom_inhabited :
  C17_dom c17_iris /\ stem c17_iris = Some (Str "http://ex.org/") /\
  C17_dom [Str "https://a.org/x"; Str "https://b.org/y"] /\
  stem [Str "https://a.org/x"; Str "https://b.org/y"] = None.
Proof.
  split; [apply C17_domb_sound; vm_compute; reflexivity|]. split; [vm_compute; reflexivity|].
  split; [apply C17_domb_sound; vm_compute; reflexivity | vm_compute; reflexivity].
Qed.

Definition c17_T (s p o : string) : triple := T (Node KIri (Str s)) (Str p) (ON (Node KIri (Str o))).
Definition c17_graph_ex : graph :=
  [ c17_T "http://ex.org/a/i1" "http://www.w3.org/1999/02/22-rdf-syntax-ns#type" "http://ex.org/C";
    c17_T "http://ex.org/a/i2" "http://www.w3.org/1999/02/22-rdf-syntax-ns#type" "http://ex.org/C";
    c17_T "http://ex.org/a/i1" "http://ex.org/p" "http://ex.org/a/i2";
    T (Node KIri (Str "http://ex.org/a/i2")) (Str "http://ex.org/q") (OL (Str "5") (Str "http://www.w3.org/2001/XMLSchema#integer")) ].

Example C17_examples_inhabited :
  exists ins d, track c_RDF_TYPE_STR TAll 0 c17_graph_ex = inl ins /\
    profile_examples true (Some c_ALL_EXAMPLES) true ins c17_graph_ex = Some d /\
    shape_stem d (Str "http://ex.org/C") = Some (Some (Str "http://ex.org/a/")) /\
    shape_example d (Str "http://ex.org/C") = Some (Str "http://ex.org/a/i1") /\
    constraint_example d (Str "http://ex.org/C") (Str "http://ex.org/q") false = Some (Str "5") /\
    constraint_example d (Str "http://ex.org/C") (Str "http://ex.org/p") true = Some (Str "http://ex.org/a/i1").
Proof. eexists. eexists. repeat split; vm_compute; reflexivity. Qed.

(** ** known findings: the full statement (all id lists) is false *)

(** C17-F1: a bare scheme other than http/https is printed as a stem
    (two ftp hosts, two urn namespaces). *)
Lemma C17_bare_scheme_refuted :
  exists iris s, well_formed_ids iris /\ stem iris = Some s /\ bare_scheme s /\ ~ admissible s iris.
Proof.
  exists [Str "ftp://x.org/1"; Str "ftp://y.org/1"], (Str "ftp://").
  assert (B : bare_scheme (Str "ftp://")) by (apply bare_schemeb_spec; vm_compute; reflexivity).
  split; [|split; [vm_compute; reflexivity | split; [exact B | intros (_ & _ & _ & N); exact (N B)]]].
  split; [discriminate|]. intros i Hi P. apply prefixb_prefix in P.
  destruct Hi as [<- | [<- | []]]; vm_compute in P; discriminate.
Qed.

Lemma C17_bare_scheme_refuted_urn :
  exists iris s, well_formed_ids iris /\ stem iris = Some s /\ bare_scheme s.
Proof.
  exists [Str "urn:isbn:1"; Str "urn:uuid:2"], (Str "urn:").
  split; [|split; [vm_compute; reflexivity | apply bare_schemeb_spec; vm_compute; reflexivity]].
  split; [discriminate|]. intros i Hi P. apply prefixb_prefix in P.
  destruct Hi as [<- | [<- | []]]; vm_compute in P; discriminate.
Qed.

(** C17-F2: an admissible stem exists but none is printed (authority-less
    http: IRIs: the "http... shorter than nine" test also hits non-schemes). *)
Lemma C17_short_http_refuted :
  exists iris s, well_formed_ids iris /\ stem iris = None /\ admissible s iris.
Proof.
  exists [Str "http:a/x"; Str "http:a/y"], (Str "http:a/").
  split; [|split; [vm_compute; reflexivity|]].
  - split; [discriminate|]. intros i Hi P. apply prefixb_prefix in P.
    destruct Hi as [<- | [<- | []]]; vm_compute in P; discriminate.
  - split; [|split; [|split]].
    + intros i [<- | [<- | []]]; [exists (Str "x") | exists (Str "y")]; reflexivity.
    + exists (Str "http:a"), "/"%char. split; [reflexivity | right; now left].
    + vm_compute. discriminate.
    + intros B. apply bare_schemeb_spec in B. vm_compute in B. discriminate.
Qed.

(** Sentinel aliasing (why [well_formed_ids] excludes ids that start with
    ['%']; such a string is no IRI and no blank-node label): a running prefix
    equal to the sentinel is overwritten by the next instance. *)
Lemma C17_sentinel_refuted :
  exists iris s i, iris <> [] /\ stem iris = Some s /\ In i iris /\ ~ prefix s i.
Proof.
  exists [Str "%a"; Str "%b"; Str "x:/y/z"], (Str "x:/y/"), (Str "%a").
  split; [discriminate|]. split; [vm_compute; reflexivity|]. split; [now left|].
  intros P. apply prefixb_prefix in P. vm_compute in P. discriminate.
Qed.
