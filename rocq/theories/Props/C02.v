(** * C02 -- a shape holds exactly the features at or above the threshold.

    Statements only.  [skey st = (direction, property, value class)] with
    value class = literal datatype | "nonliteral" | class value (typing
    property).  [key_passes thr N pd p vc]: some entry (p, kind, cardinality,
    n) of the class profile with that value class has [thr <= n/N] -- by
    [C02_key_passes_max] equivalently the LARGEST such count passes.  The
    profile counts are the data's (Props/P1.v), so the largest count of a
    literal datatype / class value is "instances with at least one such
    value"; for the value class "nonliteral" it is the maximum over IRI, BNode
    and references, which equals the union count exactly when the instances
    with an IRI value and those with a BNode value are nested
    ([C02_split_nonliteral_refuted] otherwise: finding C02-F1).

    END TO END (second part; proofs in Proofs/EndToEnd.v): the same about
    [run_shapes fa c thr g], with the profile replaced by the declarative
    counts of Spec/Counts.v over the tracker's own dictionary [I] (no
    hypothesis on [I]; P1's [NoDup (dkeys I)] comes from [track_insts_ok]).
    [key_passes_occ fa c thr I g cls inv p vc]: some type key [k] of value
    class [vc] and some cardinality key [ck] have
    [0 < occ dir tau I g cls p k ck] and [thr <= occ/class_count]
    ([key_passes_occ_max]: the largest such [occ] does).
    - [C02_keys_iff_occ] ([remove_empty = false]): one shape per class key
      (requested targets, then the classes of [I] in first-occurrence
      order), key present iff [key_passes_occ]; no key twice provided no
      literal of the graph has the datatype "NONLITERAL" (the only way a type
      key can collide with the merged kind);
    - [C02_keys_max_e2e] (binary64, class sizes < 2^53), [C02_keys_max_e2e_Q];
    - [C02_keys_remove_e2e] ([remove_empty = true]): soundness only. *)
From Coq Require Import List Ascii String ZArith NArith Bool.
From Shexer Require Import Lib.PyStr Lib.Dict Lib.Bin64 Gen.Consts Spec.Rdf Model.Tracker Model.Profiler Model.Tokens
  Model.Freq Model.FreqInst Model.Shexing Model.Run Spec.Counts Proofs.ProfileChar Proofs.ShexLemmas Proofs.ShexKeys Proofs.ShexQ
  Proofs.Bin64Round Proofs.FreqLaws Proofs.RunWitness Proofs.EndToEnd.
Import ListNotations.

Definition b_okN : N -> Prop := fun d => (0 < d < 2 ^ 53)%N.

(** one shape per class key of the profile, in order, with the class count;
    a key is present iff it passes; no key twice *)
Theorem C02_keys_iff_threshold : forall fa cfg (thr : F fa) P C shapes,
  x_remove_empty cfg = false -> shex fa cfg thr P C = inl shapes ->
  Forall2 (fun ce sh =>
    sh_name sh = shape_name (x_shapes_ns cfg) (fst ce) /\ sh_class sh = fst ce /\
    sh_n sh = cnt_of C (fst ce) /\
    (forall inv p vc, In (inv, p, vc) (map (skey cfg) (sh_stmts sh)) <->
                      key_passes fa cfg thr (cnt_of C (fst ce)) (class_pd cfg ce inv) p vc) /\
    (pd_no_nl cfg (class_pd cfg ce false) -> pd_no_nl cfg (class_pd cfg ce true) ->
     NoDup (map (skey cfg) (sh_stmts sh))))
    P shapes.
Proof. exact K1. Qed.
Print Assumptions C02_keys_iff_threshold.

(** the boundary is kept: with CPython's binary64 comparison, a key passes iff
    the largest count n among its entries has thr <= n/N (float division),
    for class sizes below 2^53 *)
Theorem C02_key_passes_max : forall cfg thr cnt pd p vc, wf_frac thr -> b_okN cnt ->
  (key_passes BAlg cfg thr cnt pd p vc <->
   exists k ck n, pd_entry pd p k ck n /\ value_class (x_tau cfg) p [k] = vc /\
     (forall k' ck' n', pd_entry pd p k' ck' n' -> value_class (x_tau cfg) p [k'] = vc -> (n' <= n)%N) /\
     fle BAlg thr (ratio BAlg n cnt) = true).
Proof.
  exact (fun cfg => key_passes_max BAlg cfg wf_frac b_okN
                      (fun n d H => ratio_wf _ _ _ BAlg_laws n d H)
                      (fle_trans _ _ _ BAlg_laws)
                      (ratio_mono _ _ _ BAlg_laws)).
Qed.
Print Assumptions C02_key_passes_max.

(** with remove_empty_shapes: the surviving shapes are non-empty shapes of
    classes of the profile, present keys pass, no key twice *)
Theorem C02_keys_remove_partial : forall fa cfg (thr : F fa) P C shapes,
  x_remove_empty cfg = true -> shex fa cfg thr P C = inl shapes ->
  forall sh, In sh shapes ->
  exists ce, In ce P /\ sh_name sh = shape_name (x_shapes_ns cfg) (fst ce) /\ sh_class sh = fst ce /\
    sh_n sh = cnt_of C (fst ce) /\ sh_stmts sh <> [] /\
    (forall inv p vc, In (inv, p, vc) (map (skey cfg) (sh_stmts sh)) ->
                      key_passes fa cfg thr (cnt_of C (fst ce)) (class_pd cfg ce inv) p vc) /\
    (pd_no_nl cfg (class_pd cfg ce false) -> pd_no_nl cfg (class_pd cfg ce true) ->
     NoDup (map (skey cfg) (sh_stmts sh))).
Proof. exact K1_remove. Qed.
Print Assumptions C02_keys_remove_partial.

(** ** end to end: statements about [run_shapes] *)

Theorem C02_keys_iff_occ : forall fa c (thr : F fa) g ns shapes,
  r_remove_empty c = false -> run_shapes fa c thr g = inl (ns, shapes) ->
  exists I, track (r_tau c) (mode_of c) (r_cap c) g = inl I /\
    map sh_class shapes = class_keys (targets_of (pcfg_of c)) I /\
    forall sh, In sh shapes ->
      sh_n sh = class_count I (sh_class sh) /\
      (forall inv p vc, In (inv, p, vc) (map (skey (scfg_of c ns)) (sh_stmts sh)) <->
                        key_passes_occ fa c thr I g (sh_class sh) inv p vc) /\
      (no_nonliteral_datatype g -> NoDup (map (skey (scfg_of c ns)) (sh_stmts sh))).
Proof. exact e2e_keys_iff_occ. Qed.
Print Assumptions C02_keys_iff_occ.

(** [key_passes_occ] unfolded, so that the statement can be read here *)
Theorem C02_key_passes_occ_unfold : forall fa c (thr : F fa) I g cls inv p vc,
  key_passes_occ fa c thr I g cls inv p vc <->
  (inv = true -> r_inverse c = true) /\
  exists k ck, value_class (r_tau c) p [k] = vc /\
    (0 < occ (dir_of inv) (r_tau c) I g cls p k ck)%N /\
    fle fa thr (ratio fa (occ (dir_of inv) (r_tau c) I g cls p k ck) (class_count I cls)) = true.
Proof. intros. reflexivity. Qed.

Theorem C02_key_passes_occ_max_unfold : forall fa c (thr : F fa) I g cls inv p vc,
  key_passes_occ_max fa c thr I g cls inv p vc <->
  (inv = true -> r_inverse c = true) /\
  exists k ck, value_class (r_tau c) p [k] = vc /\
    (0 < occ (dir_of inv) (r_tau c) I g cls p k ck)%N /\
    (forall k' ck', value_class (r_tau c) p [k'] = vc ->
       (occ (dir_of inv) (r_tau c) I g cls p k' ck' <= occ (dir_of inv) (r_tau c) I g cls p k ck)%N) /\
    fle fa thr (ratio fa (occ (dir_of inv) (r_tau c) I g cls p k ck) (class_count I cls)) = true.
Proof. intros. reflexivity. Qed.

(** binary64: the key is present iff the LARGEST count of its value class
    reaches the threshold *)
Theorem C02_keys_max_e2e : forall c thr g ns shapes,
  r_remove_empty c = false -> wf_frac thr -> run_shapes BAlg c thr g = inl (ns, shapes) ->
  exists I, track (r_tau c) (mode_of c) (r_cap c) g = inl I /\
    forall sh, In sh shapes -> (class_count I (sh_class sh) < 2 ^ 53)%N ->
      forall inv p vc, In (inv, p, vc) (map (skey (scfg_of c ns)) (sh_stmts sh)) <->
                       key_passes_occ_max BAlg c thr I g (sh_class sh) inv p vc.
Proof. exact e2e_keys_max_B. Qed.
Print Assumptions C02_keys_max_e2e.

Theorem C02_keys_max_e2e_Q : forall c thr g ns shapes,
  r_remove_empty c = false -> wf_frac thr -> run_shapes QAlg c thr g = inl (ns, shapes) ->
  exists I, track (r_tau c) (mode_of c) (r_cap c) g = inl I /\
    forall sh, In sh shapes ->
      forall inv p vc, In (inv, p, vc) (map (skey (scfg_of c ns)) (sh_stmts sh)) <->
                       key_passes_occ_max QAlg c thr I g (sh_class sh) inv p vc.
Proof. exact e2e_keys_max_Q. Qed.
Print Assumptions C02_keys_max_e2e_Q.

(** with [remove_empty_shapes]: surviving shapes are non-empty shapes of class
    keys; a key that is present passes; no key twice *)
Theorem C02_keys_remove_e2e : forall fa c (thr : F fa) g ns shapes,
  r_remove_empty c = true -> run_shapes fa c thr g = inl (ns, shapes) ->
  exists I, track (r_tau c) (mode_of c) (r_cap c) g = inl I /\
    forall sh, In sh shapes ->
      In (sh_class sh) (class_keys (targets_of (pcfg_of c)) I) /\
      sh_n sh = class_count I (sh_class sh) /\ sh_stmts sh <> [] /\
      (forall inv p vc, In (inv, p, vc) (map (skey (scfg_of c ns)) (sh_stmts sh)) ->
                        key_passes_occ fa c thr I g (sh_class sh) inv p vc) /\
      (no_nonliteral_datatype g -> NoDup (map (skey (scfg_of c ns)) (sh_stmts sh))).
Proof. exact e2e_keys_remove. Qed.
Print Assumptions C02_keys_remove_e2e.

(** non-vacuity on [g_split] (a, b : C; a p u; b p _:x), empty shapes kept:
    at 1/2 the key (p, nonliteral) is present -- the largest count of the
    value class is 1 of 2 --, at 3/5 it is not *)
Definition I_split : insts := [(ex "a", [ex "C"]); (ex "b", [ex "C"])].

Example C02_e2e_nonvacuous :
  track tau TAll (-1) g_split = inl I_split /\ class_count I_split (ex "C") = 2%N /\
  keys_of_run BAlg (with_remove_empty false base_rcfg) (b_ratio 1 2) g_split =
    Some [(ex "C", 2%N, [(false, tau, VClass (ex "C")); (false, ex "p", VNonLit)])] /\
  keys_of_run BAlg (with_remove_empty false base_rcfg) (b_ratio 3 5) g_split =
    Some [(ex "C", 2%N, [(false, tau, VClass (ex "C"))])] /\
  value_class tau (ex "p") [c_IRI_ELEM_TYPE] = VNonLit /\
  occ Direct tau I_split g_split (ex "C") (ex "p") c_IRI_ELEM_TYPE (CKn 1) = 1%N /\
  occ Direct tau I_split g_split (ex "C") (ex "p") c_BNODE_ELEM_TYPE (CKn 1) = 1%N /\
  fle BAlg (b_ratio 1 2) (ratio BAlg 1 2) = true /\ fle BAlg (b_ratio 3 5) (ratio BAlg 1 2) = false.
Proof. vm_compute. repeat split; reflexivity. Qed.

(** ** what is false: both instances of C have a non-literal value of p
    (100 %), threshold 3/5, and the shape has no constraint for p *)
Definition has_nonlit (g : graph) (i : node) (p : str) : bool :=
  existsb (fun t => node_eqb (ts t) i && str_eqb (tp t) p && is_node (to t)) g.

Lemma C02_split_nonliteral_refuted :
  has_nonlit g_split (iri "a") (ex "p") = true /\ has_nonlit g_split (iri "b") (ex "p") = true /\
  n_instances base_rcfg (b_ratio 3 5) g_split (ex "C") = Some 2%N /\
  option_map (existsb (fun s => str_eqb (s_prop s) (ex "p"))) (stmts_of base_rcfg (b_ratio 3 5) g_split (ex "C"))
  = Some false.
Proof. vm_compute. repeat split. Qed.

(** non-vacuity: at threshold 1/2 the same run keeps the key *)
Example C02_nonvacuous :
  option_map (existsb (fun s => str_eqb (s_prop s) (ex "p"))) (stmts_of base_rcfg (b_ratio 1 2) g_split (ex "C"))
  = Some true.
Proof. vm_compute. reflexivity. Qed.

(** ** INPUT LEVEL (proofs in Proofs/InputLevel.v)

    B. [remove_empty_shapes = true].  Under the hypotheses with which no
    shape is empty before the shape-level cleaning (binary64, [thr <= 1],
    fewer than 2^53 triples -- hence class sizes < 2^53 --, no class IRI
    starting with '%' or "@": [class_iris_ok]):
    - the shapes are exactly the class keys that have an instance, in order
      (a requested target without instances produces NO shape);
    - key present iff [key_passes_occ_kept ... (live_key c I)]: as
      [key_passes_occ], the witnessing type key not being a class key
      without instance ([C02_remove_dead_key_refuted]: such a key -- a
      requested target class nobody is an instance of, that occurs as a value
      -- is deleted with the class, so the plain IFF is false there);
    - when every requested target has an instance (in particular in
      all-classes mode) the IFF is that of [remove_empty = false]. *)
From Shexer Require Import Model.SerialShexc Proofs.EndToEnd2 Proofs.EndToEnd3 Proofs.InputLevel.

Theorem C02_keys_iff_occ_remove : forall c thr g ns shapes,
  r_remove_empty c = true -> class_iris_ok c g = true ->
  wf_frac thr -> fle BAlg thr (fone BAlg) = true -> (N.of_nat (List.length g) < 2 ^ 53)%N ->
  run_shapes BAlg c thr g = inl (ns, shapes) ->
  exists I, track (r_tau c) (mode_of c) (r_cap c) g = inl I /\
    map sh_class shapes =
      filter (fun cls => (0 <? class_count I cls)%N) (class_keys (targets_of (pcfg_of c)) I) /\
    (forall sh, In sh shapes ->
      sh_n sh = class_count I (sh_class sh) /\ (0 < sh_n sh)%N /\ sh_stmts sh <> [] /\
      (forall inv p vc, In (inv, p, vc) (map (skey (scfg_of c ns)) (sh_stmts sh)) <->
                        key_passes_occ_kept BAlg c thr I g (live_key c I) (sh_class sh) inv p vc) /\
      (no_nonliteral_datatype g -> NoDup (map (skey (scfg_of c ns)) (sh_stmts sh)))) /\
    ((forall t, In t (targets_of (pcfg_of c)) -> (0 < class_count I t)%N) ->
     forall sh, In sh shapes -> forall inv p vc,
       In (inv, p, vc) (map (skey (scfg_of c ns)) (sh_stmts sh)) <->
       key_passes_occ BAlg c thr I g (sh_class sh) inv p vc).
Proof. exact e2e_keys_iff_occ_remove. Qed.
Print Assumptions C02_keys_iff_occ_remove.

Theorem C02_live_key_unfold : forall c I k,
  live_key c I k <-> (In k (class_keys (targets_of (pcfg_of c)) I) -> (0 < class_count I k)%N).
Proof. intros. reflexivity. Qed.

Theorem C02_key_passes_occ_kept_unfold : forall fa c (thr : F fa) I g kept cls inv p vc,
  key_passes_occ_kept fa c thr I g kept cls inv p vc <->
  (inv = true -> r_inverse c = true) /\
  exists k ck, value_class (r_tau c) p [k] = vc /\
    (0 < occ (dir_of inv) (r_tau c) I g cls p k ck)%N /\
    fle fa thr (ratio fa (occ (dir_of inv) (r_tau c) I g cls p k ck) (class_count I cls)) = true /\
    kept k.
Proof. intros. reflexivity. Qed.

(** all-classes mode: exactly the statement of [C02_keys_iff_occ] *)
Theorem C02_keys_iff_occ_remove_all_classes : forall c thr g ns shapes,
  r_remove_empty c = true -> r_targets c = None -> class_iris_ok c g = true ->
  wf_frac thr -> fle BAlg thr (fone BAlg) = true -> (N.of_nat (List.length g) < 2 ^ 53)%N ->
  run_shapes BAlg c thr g = inl (ns, shapes) ->
  exists I, track (r_tau c) (mode_of c) (r_cap c) g = inl I /\
    map sh_class shapes = class_keys [] I /\
    forall sh, In sh shapes ->
      sh_n sh = class_count I (sh_class sh) /\
      forall inv p vc, In (inv, p, vc) (map (skey (scfg_of c ns)) (sh_stmts sh)) <->
                       key_passes_occ BAlg c thr I g (sh_class sh) inv p vc.
Proof. exact e2e_keys_iff_occ_remove_all. Qed.
Print Assumptions C02_keys_iff_occ_remove_all_classes.

(** one shape per class.  Empty shapes kept: one shape per class key; a
    class key without instance is a requested target and its shape has
    [sh_n = 0] and no statement.  Empty shapes removed: one shape per class
    key that has an instance, none for the others. *)
Theorem C02_one_shape_per_class_keep : forall fa c (thr : F fa) g ns shapes,
  r_remove_empty c = false -> run_shapes fa c thr g = inl (ns, shapes) ->
  exists I, track (r_tau c) (mode_of c) (r_cap c) g = inl I /\
    NoDup (map sh_class shapes) /\
    map sh_class shapes = class_keys (targets_of (pcfg_of c)) I /\
    forall sh, In sh shapes -> class_count I (sh_class sh) = 0%N ->
      In (sh_class sh) (targets_of (pcfg_of c)) /\ sh_n sh = 0%N /\ sh_stmts sh = [].
Proof. exact e2e_one_shape_per_class_keep. Qed.
Print Assumptions C02_one_shape_per_class_keep.

Theorem C02_one_shape_per_class_remove : forall c thr g ns shapes,
  r_remove_empty c = true -> class_iris_ok c g = true ->
  wf_frac thr -> fle BAlg thr (fone BAlg) = true -> (N.of_nat (List.length g) < 2 ^ 53)%N ->
  run_shapes BAlg c thr g = inl (ns, shapes) ->
  exists I, track (r_tau c) (mode_of c) (r_cap c) g = inl I /\
    NoDup (map sh_class shapes) /\
    map sh_class shapes =
      filter (fun cls => (0 <? class_count I cls)%N) (class_keys (targets_of (pcfg_of c)) I) /\
    forall sh, In sh shapes -> (0 < sh_n sh)%N /\ sh_stmts sh <> [].
Proof. exact e2e_one_shape_per_class_remove. Qed.
Print Assumptions C02_one_shape_per_class_remove.

(** non-vacuity / sharpness: targets C and S, [i : C], [S : i] (S is a
    requested target nobody is an instance of and the subject of a typing
    triple of the instance i).  Empty shapes kept: shapes C (with the inverse
    key) and S (0 instances, no statement).  Empty shapes removed: only C, and
    the inverse key, whose count passes, is gone with the class key S. *)
Definition dead_cfg (re : bool) : rcfg :=
  {| r_tau := tau; r_targets := Some [ex "C"; ex "S"]; r_ns := []; r_shapes_ns := c_SHAPES_DEFAULT_NAMESPACE;
     r_cap := (-1)%Z; r_inverse := true; r_remove_empty := re; r_discard_useless := true;
     r_keep_less_specific := true; r_all_compliant := true; r_disable_or := true; r_allow_redundant_or := false;
     r_allow_opt := true; r_disable_exact := false; r_disable_comments := false; r_mode := FMixed |}.
Definition g_dead : graph := [ty "i" "C"; ty "S" "i"].
Definition I_dead : insts := [(ex "i", [ex "C"])].

Example C02_remove_nonvacuous :
  class_iris_ok (dead_cfg true) g_dead = true /\
  track tau (TClasses [ex "C"; ex "S"]) (-1) g_dead = inl I_dead /\
  class_keys [ex "C"; ex "S"] I_dead = [ex "C"; ex "S"] /\
  class_count I_dead (ex "C") = 1%N /\ class_count I_dead (ex "S") = 0%N /\
  keys_of_run BAlg (dead_cfg false) (b_ratio 1 2) g_dead =
    Some [(ex "C", 1%N, [(false, tau, VClass (ex "C")); (true, tau, VClass (ex "S"))]); (ex "S", 0%N, [])] /\
  keys_of_run BAlg (dead_cfg true) (b_ratio 1 2) g_dead =
    Some [(ex "C", 1%N, [(false, tau, VClass (ex "C"))])].
Proof. vm_compute. repeat split; reflexivity. Qed.

Lemma C02_remove_dead_key_refuted :
  exists c thr g I ns shapes sh,
    r_remove_empty c = true /\ class_iris_ok c g = true /\ fle BAlg thr (fone BAlg) = true /\
    track (r_tau c) (mode_of c) (r_cap c) g = inl I /\
    run_shapes BAlg c thr g = inl (ns, shapes) /\ In sh shapes /\
    key_passes_occ BAlg c thr I g (sh_class sh) true tau (VClass (ex "S")) /\
    ~ In (true, tau, VClass (ex "S")) (map (skey (scfg_of c ns)) (sh_stmts sh)) /\
    ~ live_key c I (ex "S").
Proof.
  destruct (run_shapes BAlg (dead_cfg true) (b_ratio 1 2) g_dead) as [[ns shapes]|e] eqn:E; vm_compute in E; [|discriminate E].
  injection E as <- <-.
  eexists (dead_cfg true), (b_ratio 1 2), g_dead, I_dead, _, _, _.
  split; [reflexivity|]. split; [vm_compute; reflexivity|]. split; [vm_compute; reflexivity|].
  split; [vm_compute; reflexivity|]. split; [vm_compute; reflexivity|]. split; [left; reflexivity|].
  split; [|split].
  - split; [reflexivity|]. exists (ex "S"), (CKn 1). vm_compute. repeat split; reflexivity.
  - vm_compute. intros [H|[]]. discriminate H.
  - intros H. assert (Hin : In (ex "S") (class_keys (targets_of (pcfg_of (dead_cfg true))) I_dead)) by (vm_compute; auto).
    specialize (H Hin). vm_compute in H. discriminate H.
Qed.

(** C. the value class "non-literal".  [has_node_value dir g i p]: node [i]
    has an IRI or blank-node value of [p] (inverse: is such a value of some
    node); [nonlit_count dir I g cls p]: number of (listings of) instances of
    [cls] with such a value.  [kinds_nested]: among the instances of the
    class, those with an IRI value all have a BNode value or conversely.
    [datatypes_literal g]: no literal's datatype reads as a non-literal kind
    ("IRI", "BNode", "NONLITERAL", a string starting with '%'). *)
Theorem C02_has_node_value_unfold : forall dir g i p,
  has_node_value dir g i p = existsb (fun t => touches dir t i && str_eqb (tp t) p && is_node (to t)) g.
Proof. reflexivity. Qed.

Theorem C02_nonlit_count_unfold : forall dir (I : insts) g cls p,
  nonlit_count dir I g cls p =
  sumN (map (fun ie : str * list str => if has_node_value dir g (fst ie) p then count_in cls (snd ie) else 0%N) I).
Proof. reflexivity. Qed.

Theorem C02_kinds_nested_unfold : forall dir tau (I : insts) g cls p,
  kinds_nested dir tau I g cls p <->
  (forall i cs, In (i, cs) I -> In cls cs ->
     (0 < cnt dir tau I g i p c_IRI_ELEM_TYPE)%N -> (0 < cnt dir tau I g i p c_BNODE_ELEM_TYPE)%N) \/
  (forall i cs, In (i, cs) I -> In cls cs ->
     (0 < cnt dir tau I g i p c_BNODE_ELEM_TYPE)%N -> (0 < cnt dir tau I g i p c_IRI_ELEM_TYPE)%N).
Proof. intros. reflexivity. Qed.

(** the counts of the two kinds are "instances with an IRI / BNode value" *)
Theorem C02_kind_counts_are_node_values : forall dir tau (I : insts) g i p,
  datatypes_literal g -> p <> tau ->
  (has_node_value dir g i p = true <->
   (0 < cnt dir tau I g i p c_IRI_ELEM_TYPE)%N \/ (0 < cnt dir tau I g i p c_BNODE_ELEM_TYPE)%N).
Proof.
  intros dir tau I g i p Hd Hp. split; [apply node_value_kind; exact Hp|].
  intros [H|H]; [apply (kind_node_value dir tau I g i p c_IRI_ELEM_TYPE) | apply (kind_node_value dir tau I g i p c_BNODE_ELEM_TYPE)];
    auto.
Qed.
Print Assumptions C02_kind_counts_are_node_values.

(** the largest count among IRI, BNode and the references is the union count *)
Theorem C02_nonliteral_nested : forall dir tau (I : insts) g cls p,
  datatypes_literal g -> p <> tau -> kinds_nested dir tau I g cls p ->
  (exists k0, (k0 = c_IRI_ELEM_TYPE \/ k0 = c_BNODE_ELEM_TYPE) /\
              occ dir tau I g cls p k0 CKplus = nonlit_count dir I g cls p) /\
  (forall k ck, nonlit_kind k = true -> (occ dir tau I g cls p k ck <= nonlit_count dir I g cls p)%N).
Proof. exact nonliteral_max_is_union. Qed.
Print Assumptions C02_nonliteral_nested.

(** without nestedness only the inequality holds *)
Theorem C02_nonliteral_le_union : forall dir tau (I : insts) g cls p k ck,
  datatypes_literal g -> p <> tau -> nonlit_kind k = true ->
  (occ dir tau I g cls p k ck <= nonlit_count dir I g cls p)%N.
Proof. exact occ_nonlit_le_union. Qed.
Print Assumptions C02_nonliteral_le_union.

Theorem C02_key_passes_max_union : forall fa c (thr : F fa) I g cls inv p,
  datatypes_literal g -> p <> r_tau c -> kinds_nested (dir_of inv) (r_tau c) I g cls p ->
  (key_passes_occ_max fa c thr I g cls inv p VNonLit <->
   (inv = true -> r_inverse c = true) /\
   (0 < nonlit_count (dir_of inv) I g cls p)%N /\
   fle fa thr (ratio fa (nonlit_count (dir_of inv) I g cls p) (class_count I cls)) = true).
Proof. exact key_passes_occ_max_union. Qed.
Print Assumptions C02_key_passes_max_union.

(** key (direction, p, non-literal) present iff thr <= (#instances with a
    non-literal value) / N *)
Theorem C02_keys_iff_union : forall c thr g ns shapes,
  r_remove_empty c = false -> wf_frac thr -> datatypes_literal g ->
  run_shapes BAlg c thr g = inl (ns, shapes) ->
  exists I, track (r_tau c) (mode_of c) (r_cap c) g = inl I /\
    forall sh, In sh shapes -> (class_count I (sh_class sh) < 2 ^ 53)%N ->
    forall inv p, p <> r_tau c -> kinds_nested (dir_of inv) (r_tau c) I g (sh_class sh) p ->
      (In (inv, p, VNonLit) (map (skey (scfg_of c ns)) (sh_stmts sh)) <->
       (inv = true -> r_inverse c = true) /\
       (0 < nonlit_count (dir_of inv) I g (sh_class sh) p)%N /\
       fle BAlg thr (ratio BAlg (nonlit_count (dir_of inv) I g (sh_class sh) p) (class_count I (sh_class sh))) = true).
Proof. exact e2e_keys_iff_union. Qed.
Print Assumptions C02_keys_iff_union.

Theorem C02_keys_iff_union_remove : forall c thr g ns shapes,
  r_remove_empty c = true -> r_targets c = None -> class_iris_ok c g = true ->
  wf_frac thr -> fle BAlg thr (fone BAlg) = true -> (N.of_nat (List.length g) < 2 ^ 53)%N ->
  datatypes_literal g ->
  run_shapes BAlg c thr g = inl (ns, shapes) ->
  exists I, track (r_tau c) (mode_of c) (r_cap c) g = inl I /\
    forall sh, In sh shapes ->
    forall inv p, p <> r_tau c -> kinds_nested (dir_of inv) (r_tau c) I g (sh_class sh) p ->
      (In (inv, p, VNonLit) (map (skey (scfg_of c ns)) (sh_stmts sh)) <->
       (inv = true -> r_inverse c = true) /\
       (0 < nonlit_count (dir_of inv) I g (sh_class sh) p)%N /\
       fle BAlg thr (ratio BAlg (nonlit_count (dir_of inv) I g (sh_class sh) p) (class_count I (sh_class sh))) = true).
Proof. exact e2e_keys_iff_union_remove. Qed.
Print Assumptions C02_keys_iff_union_remove.

(** non-vacuity: [g_overlap] (a : C; a p u; a p _:x) is nested, the union
    count is 1 of 1; [g_split] is NOT nested and its union count 2 differs
    from the largest kind count 1 (finding C02-F1, [C02_split_nonliteral_refuted]) *)
Definition I_overlap : insts := [(ex "a", [ex "C"])].

Example C02_union_nonvacuous :
  track tau TAll (-1) g_overlap = inl I_overlap /\
  kinds_nested Direct tau I_overlap g_overlap (ex "C") (ex "p") /\
  nonlit_count Direct I_overlap g_overlap (ex "C") (ex "p") = 1%N /\
  keys_of_run BAlg (with_remove_empty false base_rcfg) (b_ratio 1 1) g_overlap =
    Some [(ex "C", 1%N, [(false, ex "p", VNonLit); (false, tau, VClass (ex "C"))])].
Proof.
  split; [vm_compute; reflexivity|]. split; [|split; vm_compute; reflexivity].
  left. intros i cs [E|[]] _ _. injection E as <- <-. vm_compute. reflexivity.
Qed.

Example C02_union_split_not_nested :
  ~ kinds_nested Direct tau I_split g_split (ex "C") (ex "p") /\
  nonlit_count Direct I_split g_split (ex "C") (ex "p") = 2%N /\
  occ Direct tau I_split g_split (ex "C") (ex "p") c_IRI_ELEM_TYPE CKplus = 1%N /\
  occ Direct tau I_split g_split (ex "C") (ex "p") c_BNODE_ELEM_TYPE CKplus = 1%N.
Proof.
  split; [|vm_compute; repeat split; reflexivity].
  intros [H|H].
  - specialize (H (ex "a") [ex "C"] (or_introl eq_refl) (or_introl eq_refl)). vm_compute in H.
    specialize (H eq_refl). discriminate H.
  - specialize (H (ex "b") [ex "C"] (or_intror (or_introl eq_refl)) (or_introl eq_refl)). vm_compute in H.
    specialize (H eq_refl). discriminate H.
Qed.

(** ** SHAPE-MAP runs ([Model.RunMap.run_shapes_map]).  [I] is the dictionary
    C10's tracker model returns ([node -> keys], a key being a class IRI or a
    label [<iri>]); no hypothesis on it, on the specification or on the
    oracles.  [key_passes_occ_g]: as [key_passes_occ], the value class read
    with the instantiation property as ClassShexer holds it ([tau_shaper]),
    the counts with the profiler's ([Selectors.tau_of]) -- the two differ only
    when the user wrote the property between '<' '>'.
    - [C02_map_keys_iff_occ] (remove_empty_shapes off): one shape per key of
      the dictionary (requested classes first, then labels / classes in
      first-occurrence order), key present iff it passes;
    - [C02_map_keys_remove] (on): soundness only.  The converse is FALSE:
      [C02_removed_reference_run_refuted] (finding C02-F2, same root cause as
      C12-F2; for the order of ClassShexer's stages before the repair,
      [c_clean_before_merge = false]): a constraint whose chosen alternative refers to a shape that
      ends up empty is deleted outright. *)
From Shexer Require Import Model.RunMap Proofs.RunMapProofs Proofs.RunMapWitness.
From Shexer Require Model.Selectors.

Theorem C02_map_keys_iff_occ : forall fa c orc sp thr g ns shapes,
  r_remove_empty c = false -> run_shapes_map fa c orc sp thr g = inl (ns, shapes) ->
  exists I targets,
    Selectors.run orc sp g = Selectors.OOk I /\ prof_targets orc sp = Selectors.Ok targets /\
    map sh_class shapes = class_keys (targets_of (pcfg_map c orc sp targets)) I /\
    forall sh, In sh shapes ->
      sh_n sh = class_count I (sh_class sh) /\
      (forall inv p vc, In (inv, p, vc) (map (skey (scfg_map c sp ns)) (sh_stmts sh)) <->
                        key_passes_occ_g fa (tau_shaper sp) (Selectors.tau_of sp) (r_inverse c) thr I g
                                         (sh_class sh) inv p vc) /\
      (tau_shaper sp = Selectors.tau_of sp -> no_nonliteral_datatype g ->
       NoDup (map (skey (scfg_map c sp ns)) (sh_stmts sh))).
Proof. exact map_keys_iff_occ. Qed.
Print Assumptions C02_map_keys_iff_occ.

Theorem C02_map_keys_remove : forall fa c orc sp thr g ns shapes,
  r_remove_empty c = true -> run_shapes_map fa c orc sp thr g = inl (ns, shapes) ->
  exists I targets,
    Selectors.run orc sp g = Selectors.OOk I /\ prof_targets orc sp = Selectors.Ok targets /\
    forall sh, In sh shapes ->
      In (sh_class sh) (class_keys (targets_of (pcfg_map c orc sp targets)) I) /\
      sh_n sh = class_count I (sh_class sh) /\ sh_stmts sh <> [] /\
      (forall inv p vc, In (inv, p, vc) (map (skey (scfg_map c sp ns)) (sh_stmts sh)) ->
                        key_passes_occ_g fa (tau_shaper sp) (Selectors.tau_of sp) (r_inverse c) thr I g
                                         (sh_class sh) inv p vc) /\
      (tau_shaper sp = Selectors.tau_of sp -> no_nonliteral_datatype g ->
       NoDup (map (skey (scfg_map c sp ns)) (sh_stmts sh))).
Proof. exact map_keys_remove. Qed.
Print Assumptions C02_map_keys_remove.

(** non-vacuity of the first: remove_empty_shapes off, threshold 1/3: both shapes, both keys of S *)
Example C02_map_nonvacuous :
  map_keys (with_remove false (with_kls false base_rcfg)) (b_ratio 1 3) =
  Some [(lab_S, [(false, ex "name", VLit c_STRING_TYPE); (false, ex "p", VNonLit)]); (lab_T, [])].
Proof. exact m_keys_third_keep. Qed.

(** C02-F2: remove_empty_shapes on, threshold 1/3: two of the three instances
    of S have an IRI value of ex:p (2/3 >= 1/3), yet S has no constraint for
    (ex:p, non-literal): the reference to T (1/3) had won the merge and went
    with T.  The real Shaper prints the same shape on this input (pinned
    reproducer of the finding). *)
Lemma C02_removed_reference_run_refuted :
  c_clean_before_merge = false ->
  exists c orc sp g thr ns shapes I sh p,
    r_remove_empty c = true /\ run_shapes_map BAlg c orc sp thr g = inl (ns, shapes) /\
    Selectors.run orc sp g = Selectors.OOk I /\ In sh shapes /\
    key_passes_occ_g BAlg (tau_shaper sp) (Selectors.tau_of sp) (r_inverse c) thr I g (sh_class sh) false p VNonLit /\
    ~ In (false, p, VNonLit) (map (skey (scfg_map c sp ns)) (sh_stmts sh)).
Proof.
  flag_or ltac:(
    exists (with_kls false base_rcfg), m_orc, m_spec, m_graph, (b_ratio 1 3);
    eexists; eexists; eexists; eexists; exists (ex "p");
    split; [reflexivity|]; split; [vm_compute; reflexivity|]; split; [vm_compute; reflexivity|];
    split; [left; reflexivity|]; split;
    [ split; [discriminate|]; exists c_IRI_ELEM_TYPE, CKplus; vm_compute; repeat split; reflexivity
    | vm_compute; intros [H|[]]; discriminate H ]).
Qed.

(** once ClassShexer removes the empty shapes before the merges (C02-F2 repaired) the key is there *)
Example C02_removed_reference_run_fixed :
  c_clean_before_merge = true ->
  map_keys (with_kls false base_rcfg) (b_ratio 1 3) =
  Some [(lab_S, [(false, ex "name", VLit c_STRING_TYPE); (false, ex "p", VNonLit)])].
Proof. exact m_keys_third_fixed. Qed.
