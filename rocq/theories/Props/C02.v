(** * C02 -- a shape holds exactly the features at or above the threshold.

    Statements only.  [skey st = (direction, property, value class)] with
    value class = literal datatype | "nonliteral" | class value (typing
    property).  [key_passes thr N pd p vc]: some entry (p, kind, cardinality,
    n) of the class profile with that value class has [thr <= n/N] -- by
    [C02_key_passes_max] equivalently the LARGEST such count passes.  The
    profile counts are the data's (Props/P1.v), so the largest count of a
    literal datatype / class value is "instances with at least one such
    value"; for the value class "nonliteral" it is the maximum over IRI, BNode
    and references, which equals the union count exactly when the instances
    with an IRI value and those with a BNode value are nested
    ([C02_split_nonliteral_refuted] otherwise: finding C02-F1). *)
From Coq Require Import List Ascii String ZArith NArith Bool.
From Shexer Require Import Lib.PyStr Lib.Dict Lib.Bin64 Gen.Consts Spec.Rdf Model.Profiler Model.Tokens
  Model.Freq Model.FreqInst Model.Shexing Model.Run Proofs.ShexLemmas Proofs.ShexKeys Proofs.ShexQ
  Proofs.Bin64Round Proofs.FreqLaws Proofs.RunWitness.
Import ListNotations.

Definition b_okN : N -> Prop := fun d => (0 < d < 2 ^ 53)%N.

(** one shape per class key of the profile, in order, with the class count;
    a key is present iff it passes; no key twice *)
Theorem C02_keys_iff_threshold : forall fa cfg (thr : F fa) P C shapes,
  x_remove_empty cfg = false -> shex fa cfg thr P C = inl shapes ->
  Forall2 (fun ce sh =>
    sh_name sh = shape_name (x_shapes_ns cfg) (fst ce) /\ sh_class sh = fst ce /\
    sh_n sh = cnt_of C (fst ce) /\
    (forall inv p vc, In (inv, p, vc) (map (skey cfg) (sh_stmts sh)) <->
                      key_passes fa cfg thr (cnt_of C (fst ce)) (class_pd cfg ce inv) p vc) /\
    (pd_no_nl cfg (class_pd cfg ce false) -> pd_no_nl cfg (class_pd cfg ce true) ->
     NoDup (map (skey cfg) (sh_stmts sh))))
    P shapes.
Proof. exact K1. Qed.
Print Assumptions C02_keys_iff_threshold.

(** the boundary is kept: with CPython's binary64 comparison, a key passes iff
    the largest count n among its entries has thr <= n/N (float division),
    for class sizes below 2^53 *)
Theorem C02_key_passes_max : forall cfg thr cnt pd p vc, wf_frac thr -> b_okN cnt ->
  (key_passes BAlg cfg thr cnt pd p vc <->
   exists k ck n, pd_entry pd p k ck n /\ value_class (x_tau cfg) p [k] = vc /\
     (forall k' ck' n', pd_entry pd p k' ck' n' -> value_class (x_tau cfg) p [k'] = vc -> (n' <= n)%N) /\
     fle BAlg thr (ratio BAlg n cnt) = true).
Proof.
  exact (fun cfg => key_passes_max BAlg cfg wf_frac b_okN
                      (fun n d H => ratio_wf _ _ _ BAlg_laws n d H)
                      (fle_trans _ _ _ BAlg_laws)
                      (ratio_mono _ _ _ BAlg_laws)).
Qed.
Print Assumptions C02_key_passes_max.

(** with remove_empty_shapes: the surviving shapes are non-empty shapes of
    classes of the profile, present keys pass, no key twice *)
Theorem C02_keys_remove_partial : forall fa cfg (thr : F fa) P C shapes,
  x_remove_empty cfg = true -> shex fa cfg thr P C = inl shapes ->
  forall sh, In sh shapes ->
  exists ce, In ce P /\ sh_name sh = shape_name (x_shapes_ns cfg) (fst ce) /\ sh_class sh = fst ce /\
    sh_n sh = cnt_of C (fst ce) /\ sh_stmts sh <> [] /\
    (forall inv p vc, In (inv, p, vc) (map (skey cfg) (sh_stmts sh)) ->
                      key_passes fa cfg thr (cnt_of C (fst ce)) (class_pd cfg ce inv) p vc) /\
    (pd_no_nl cfg (class_pd cfg ce false) -> pd_no_nl cfg (class_pd cfg ce true) ->
     NoDup (map (skey cfg) (sh_stmts sh))).
Proof. exact K1_remove. Qed.
Print Assumptions C02_keys_remove_partial.

(** ** what is false: both instances of C have a non-literal value of p
    (100 %), threshold 3/5, and the shape has no constraint for p *)
Definition has_nonlit (g : graph) (i : node) (p : str) : bool :=
  existsb (fun t => node_eqb (ts t) i && str_eqb (tp t) p && is_node (to t)) g.

Lemma C02_split_nonliteral_refuted :
  has_nonlit g_split (iri "a") (ex "p") = true /\ has_nonlit g_split (iri "b") (ex "p") = true /\
  n_instances base_rcfg (b_ratio 3 5) g_split (ex "C") = Some 2%N /\
  option_map (existsb (fun s => str_eqb (s_prop s) (ex "p"))) (stmts_of base_rcfg (b_ratio 3 5) g_split (ex "C"))
  = Some false.
Proof. vm_compute. repeat split. Qed.

(** non-vacuity: at threshold 1/2 the same run keeps the key *)
Example C02_nonvacuous :
  option_map (existsb (fun s => str_eqb (s_prop s) (ex "p"))) (stmts_of base_rcfg (b_ratio 1 2) g_split (ex "C"))
  = Some true.
Proof. vm_compute. reflexivity. Qed.
