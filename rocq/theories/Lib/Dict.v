(** * Insertion-ordered dictionaries (Python [dict]) as association lists.

    Python dict order feeds stable sorts and "first wins" choices that are
    observable in sheXer's output, so the model keeps it. *)
From Coq Require Import List Ascii String ZArith Bool Lia.
From Shexer Require Import Lib.PyStr.
Import ListNotations.

Section Dict.
  Variable V : Type.

  Definition dict := list (str * V).

  Fixpoint dget (d : dict) (k : str) : option V :=
    match d with
    | [] => None
    | (k', v) :: d' => if str_eqb k k' then Some v else dget d' k
    end.

  Definition dmem (d : dict) (k : str) : bool :=
    match dget d k with Some _ => true | None => false end.

  (** [d[k] = v]: update in place, or append at the end for a new key *)
  Fixpoint dset (d : dict) (k : str) (v : V) : dict :=
    match d with
    | [] => [(k, v)]
    | (k', v') :: d' => if str_eqb k k' then (k', v) :: d' else (k', v') :: dset d' k v
    end.

  (** [d[k] = f(d.get(k, dflt))] *)
  Definition dupd (d : dict) (k : str) (dflt : V) (f : V -> V) : dict :=
    match dget d k with
    | Some v => dset d k (f v)
    | None => dset d k (f dflt)
    end.

  Fixpoint ddel (d : dict) (k : str) : dict :=
    match d with
    | [] => []
    | (k', v) :: d' => if str_eqb k k' then d' else (k', v) :: ddel d' k
    end.

  Definition dkeys (d : dict) : list str := map fst d.
End Dict.

Arguments dget {V}.
Arguments dmem {V}.
Arguments dset {V}.
Arguments dupd {V}.
Arguments ddel {V}.
Arguments dkeys {V}.
