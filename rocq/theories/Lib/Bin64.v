(** * IEEE-754 binary64 division and addition on non-negative rationals,
    computed exactly over [Z] (round to nearest, ties to even).

    A value is a fraction [(num, den)] with [den > 0]; every value produced by
    [round64] is exactly a binary64 number (53-bit significand times a power
    of two), so comparing two of them as rationals is comparing the doubles.
    Range: normal numbers only (no subnormals, no overflow) -- ratios of
    counts and their sums never leave [2^-1000, 2^1000].

    [div64 n d] is CPython's [float(n)/float(d)] for [0 <= n, 0 < d < 2^53];
    [add64 x y] is CPython's [x + y] on doubles. *)
From Coq Require Import ZArith Bool.
Local Open Scope Z_scope.

Definition frac := (Z * Z)%type.          (* numerator >= 0, denominator > 0 *)

Definition round64 (x : frac) : frac :=
  let (n, d) := x in
  if n <=? 0 then (0, 1)
  else
    let e0 := Z.log2 n - Z.log2 d - 52 in
    let scaled (e : Z) := if 0 <=? e then (n, d * 2 ^ e) else (n * 2 ^ (- e), d) in
    let e := let (a, b) := scaled e0 in if a / b <? 2 ^ 52 then e0 - 1 else e0 in
    let (a, b) := scaled e in
    let m0 := a / b in
    let r := a mod b in
    let up := (b <? 2 * r) || ((b =? 2 * r) && Z.odd m0) in
    let m := if up then m0 + 1 else m0 in
    if 0 <=? e then (m * 2 ^ e, 1) else (m, 2 ^ (- e)).

Definition div64 (n d : Z) : frac := round64 (n, d).

Definition add64 (x y : frac) : frac :=
  let (a, b) := x in
  let (c, d) := y in
  round64 (a * d + c * b, b * d).

Definition fle64 (x y : frac) : bool :=
  let (a, b) := x in
  let (c, d) := y in
  a * d <=? c * b.

Definition feq64 (x y : frac) : bool :=
  let (a, b) := x in
  let (c, d) := y in
  a * d =? c * b.
