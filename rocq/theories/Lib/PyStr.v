(** * PyStr: Python [str] operations over byte lists.

    A Python [str] is modelled as the list of its UTF-8 bytes ([list ascii]).
    All delimiters the modelled code searches for are ASCII and UTF-8 is
    self-synchronising, so [find]/[rfind]/[startswith]/slicing at positions
    returned by those searches cut the same substrings as CPython does on code
    points.  Indices follow Python: [find] returns [-1] when absent, slices
    accept negative and out-of-range bounds. *)

From Coq Require Import List Ascii String ZArith Bool Lia.
Import ListNotations.
Local Open Scope Z_scope.

Definition str := list ascii.

Definition Str (s : string) : str := list_ascii_of_string s.

Fixpoint str_eqb (a b : str) : bool :=
  match a, b with
  | [], [] => true
  | x :: a', y :: b' => Ascii.eqb x y && str_eqb a' b'
  | _, _ => false
  end.

Lemma str_eqb_eq a b : str_eqb a b = true <-> a = b.
Proof.
  revert b; induction a as [|x a IH]; destruct b as [|y b]; cbn; try (split; congruence).
  rewrite andb_true_iff, Ascii.eqb_eq, IH. split; [intros [-> ->]; reflexivity | intros H; inversion H; auto].
Qed.

Lemma str_eqb_refl a : str_eqb a a = true.
Proof. apply str_eqb_eq; reflexivity. Qed.

Lemma str_eqb_neq a b : str_eqb a b = false <-> a <> b.
Proof.
  split.
  - intros H E. apply str_eqb_eq in E. congruence.
  - intros H. destruct (str_eqb a b) eqn:E; [apply str_eqb_eq in E; contradiction | reflexivity].
Qed.

Definition str_eq_dec (a b : str) : {a = b} + {a <> b}.
Proof. apply list_eq_dec, ascii_dec. Defined.

Definition len (s : str) : Z := Z.of_nat (List.length s).

(** [startswith] *)
Fixpoint prefixb (p s : str) : bool :=
  match p, s with
  | [], _ => true
  | x :: p', y :: s' => Ascii.eqb x y && prefixb p' s'
  | _ :: _, [] => false
  end.

Lemma prefixb_spec p s : prefixb p s = true <-> exists r, s = p ++ r.
Proof.
  revert s; induction p as [|x p IH]; intros s; cbn.
  - split; [intros _; exists s; reflexivity | reflexivity].
  - destruct s as [|y s]; [split; [discriminate | intros [r H]; discriminate]|].
    rewrite andb_true_iff, Ascii.eqb_eq, IH. split.
    + intros [-> [r ->]]. exists r; reflexivity.
    + intros [r H]. inversion H; subst. split; [reflexivity | exists r; reflexivity].
Qed.

Definition suffixb (p s : str) : bool := prefixb (rev p) (rev s).

(** [s.find(p)] as a natural offset, [None] when absent.  Python returns 0
    for the empty pattern. *)
Fixpoint find_nat (p s : str) : option nat :=
  if prefixb p s then Some O
  else match s with
       | [] => None
       | _ :: s' => match find_nat p s' with Some n => Some (S n) | None => None end
       end.

Definition find (p s : str) : Z :=
  match find_nat p s with Some n => Z.of_nat n | None => -1 end.

Definition contains (p s : str) : bool :=
  match find_nat p s with Some _ => true | None => false end.

(** last occurrence: scan keeping the latest hit *)
Fixpoint rfind_nat_aux (p s : str) (i : nat) (best : option nat) : option nat :=
  let best' := if prefixb p s then Some i else best in
  match s with
  | [] => best'
  | _ :: s' => rfind_nat_aux p s' (S i) best'
  end.

Definition rfind_nat (p s : str) : option nat := rfind_nat_aux p s O None.

Definition rfind (p s : str) : Z :=
  match rfind_nat p s with Some n => Z.of_nat n | None => -1 end.

(** Python slice bounds normalisation *)
Definition norm_idx (n i : Z) : Z :=
  if i <? 0 then Z.max 0 (n + i) else Z.min i n.

Definition slice (s : str) (a b : Z) : str :=
  let n := len s in
  let a' := norm_idx n a in
  let b' := norm_idx n b in
  firstn (Z.to_nat (b' - a')) (skipn (Z.to_nat a') s).

Definition slice_from (s : str) (a : Z) : str :=
  skipn (Z.to_nat (norm_idx (len s) a)) s.

Definition slice_to (s : str) (b : Z) : str :=
  firstn (Z.to_nat (norm_idx (len s) b)) s.

(** [s[i]] with Python's negative indexing; [None] = IndexError *)
Definition at_idx (s : str) (i : Z) : option ascii :=
  let n := len s in
  let j := if i <? 0 then n + i else i in
  if (j <? 0) || (n <=? j) then None else nth_error s (Z.to_nat j).

(** ASCII whitespace as [str.strip()] sees it on ASCII input:
    space, \t \n \v \f \r and \x1c-\x1f *)
Definition is_space (c : ascii) : bool :=
  let n := nat_of_ascii c in
  (Nat.eqb n 32) || (Nat.leb 9 n && Nat.leb n 13) || (Nat.leb 28 n && Nat.leb n 31).

Fixpoint lstrip (s : str) : str :=
  match s with
  | c :: s' => if is_space c then lstrip s' else s
  | [] => []
  end.

Definition rstrip (s : str) : str := rev (lstrip (rev s)).
Definition strip (s : str) : str := rstrip (lstrip s).

(** [s.replace(a, b)]: every non-overlapping occurrence, left to right.
    [a] is never empty in the modelled code. *)
Fixpoint replace_all_fuel (fuel : nat) (a b s : str) : str :=
  match fuel with
  | O => s
  | S f =>
    match s with
    | [] => []
    | c :: s' =>
      if prefixb a s then
        match a with
        | [] => s
        | _ => b ++ replace_all_fuel f a b (skipn (List.length a) s)
        end
      else c :: replace_all_fuel f a b s'
    end
  end.

Definition replace_all (a b s : str) : str := replace_all_fuel (S (List.length s)) a b s.

(** [s.split(sep)] for a non-empty separator *)
Fixpoint split_fuel (fuel : nat) (sep s acc : str) : list str :=
  match fuel with
  | O => [rev acc ++ s]
  | S f =>
    match s with
    | [] => [rev acc]
    | c :: s' =>
      if prefixb sep s then
        match sep with
        | [] => [rev acc ++ s]
        | _ => rev acc :: split_fuel f sep (skipn (List.length sep) s) []
        end
      else split_fuel f sep s' (c :: acc)
    end
  end.

Definition split (sep s : str) : list str := split_fuel (S (List.length s)) sep s [].

Fixpoint join (sep : str) (l : list str) : str :=
  match l with
  | [] => []
  | [x] => x
  | x :: l' => x ++ sep ++ join sep l'
  end.

(** number of code points = bytes that are not UTF-8 continuation bytes *)
Definition is_cont (c : ascii) : bool :=
  let n := nat_of_ascii c in Nat.leb 128 n && Nat.ltb n 192.

Definition pylen (s : str) : Z :=
  Z.of_nat (List.length (filter (fun c => negb (is_cont c)) s)).

(** membership in a list of strings *)
Fixpoint mem_str (x : str) (l : list str) : bool :=
  match l with
  | [] => false
  | y :: l' => str_eqb x y || mem_str x l'
  end.

Lemma mem_str_In x l : mem_str x l = true <-> In x l.
Proof.
  induction l as [|y l IH]; cbn; [split; [discriminate | tauto]|].
  rewrite orb_true_iff, IH, str_eqb_eq. split; intros [H|H]; auto.
Qed.

(** decimal rendering / parsing of naturals (table I/O glue) *)
Definition digit_of (n : nat) : ascii := ascii_of_nat (48 + n).

Fixpoint dec_fuel (fuel : nat) (n : N) (acc : str) : str :=
  match fuel with
  | O => acc
  | S f =>
    let q := N.div n 10 in
    let r := N.modulo n 10 in
    let acc' := digit_of (N.to_nat r) :: acc in
    if N.eqb q 0 then acc' else dec_fuel f q acc'
  end.

Definition dec_of_N (n : N) : str := dec_fuel (S (N.to_nat (N.log2 n))) n [].

Definition N_of_dec (s : str) : N :=
  fold_left (fun acc c => (acc * 10 + N.of_nat (nat_of_ascii c - 48))%N) s 0%N.

Definition dec_of_Z (z : Z) : str :=
  if z <? 0 then Str "-" ++ dec_of_N (Z.to_N (- z)) else dec_of_N (Z.to_N z).

Definition Z_of_dec (s : str) : Z :=
  match s with
  | c :: s' => if Ascii.eqb c "-"%char then - Z.of_N (N_of_dec s') else Z.of_N (N_of_dec s)
  | [] => 0
  end.

(** ---- additions for C10 (shape-map / selector parsing) ---- *)

(** [str.lower()] on ASCII letters (non-ASCII bytes unchanged) *)
Definition lower_ascii (c : ascii) : ascii :=
  let n := nat_of_ascii c in
  if Nat.leb 65 n && Nat.leb n 90 then ascii_of_nat (n + 32) else c.

Definition lower (s : str) : str := map lower_ascii s.

(** [s.count(c)] for a one-character pattern *)
Definition count_char (c : ascii) (s : str) : nat :=
  List.length (filter (fun x => Ascii.eqb x c) s).

(** [re.compile(" +").sub(" ", s)]: every run of blanks becomes one blank *)
Fixpoint collapse_blanks_aux (prev_blank : bool) (s : str) : str :=
  match s with
  | [] => []
  | c :: s' =>
    if Ascii.eqb c " "%char
    then if prev_blank then collapse_blanks_aux true s' else c :: collapse_blanks_aux true s'
    else c :: collapse_blanks_aux false s'
  end.

Definition collapse_blanks (s : str) : str := collapse_blanks_aux false s.

(** ---- addition for C10-F9: [s.replace(a, b, 1)] -- the first occurrence only
    (same function as [Model.TtlReader.replace_first]) ---- *)
Definition replace_once (a b s : str) : str :=
  match find_nat a s with
  | Some k => firstn k s ++ b ++ skipn (k + List.length a) s
  | None => s
  end.
