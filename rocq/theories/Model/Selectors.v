(** * Target selection as the code performs it (C10).

    Anchors (all under /repo/shexer):
    - utils/uri.py                      [remove_corners], [unprefixize_uri_if_possible], [add_corners]
      (both accepted texts of the prefix expansion: [c_unprefix_ifp_once], [c_unprefix_sel_once])
    - utils/dict.py                     [reverse_keys_and_values]
    - utils/namespaces.py               [find_adequate_prefix_for_shapes_namespaces]
    - utils/target_elements.py          [tune_target_classes_if_needed]
    - utils/factories/triple_yielders_factory.py   [read_target_classes_from_file]
    - utils/factories/iri_factory.py    [create_IRIs_from_string_list]
    - io/line_reader/raw_string_line_reader.py
    - io/shape_map/shape_map_parser.py  [FixedShapeMapParser], [JsonShapeMapParser]
    - io/shape_map/node_selector/node_selector_parser.py  [NodeSelectorParser]
    - io/shape_map/label/shape_map_label_parser.py        [ShapeMapLabelParser]
    - model/node_selector.py, model/graph/rdflib_sgraph.py [query_single_variable]
    - core/instances/mappings/shape_map_instance_tracker.py
    - core/instances/mix/mixed_instance_tracker.py
    - core/instances/abstract_instance_tracker.py  [_decide_instantiation_property], [disambiguator_prefix]
    - utils/factories/instance_tracker_factory.py  [get_instance_tracker]
    - shaper.py  [Shaper.__init__] (target checks, instantiation property, shapes namespace, shape-map parse)

    The pure instance tracker ([InstanceTracker] + strategy modes) is
    [Model.Tracker.track_plain].

    External code is an explicit oracle argument (never an axiom): rdflib's
    blank-node identifiers, [sparql.prepareQuery]'s verdict and rdflib's answer
    to a user-written SPARQL selector.  The SPARQL text that the code
    generates for a FOCUS pattern ([SELECT ?f WHERE { s p o . }]) is modelled
    by the triple match it denotes over the rdflib graph (= the triples of the
    document without repetitions); that rdflib evaluates it so is a monitored
    assumption of the check. *)
From Coq Require Import List Ascii String ZArith NArith Bool.
From Shexer Require Import Lib.PyStr Lib.Dict Gen.Consts Spec.Rdf Model.Tracker.
Import ListNotations.
Local Open Scope Z_scope.

Definition nl : str := [ascii_of_nat 10].

(** ** outcomes *)

Inductive exn := ExValue | ExType | ExAttr | ExIndex.

Inductive res (A : Type) := Ok (a : A) | Err (e : exn).
Arguments Ok {A}.
Arguments Err {A}.

Definition bind {A B} (r : res A) (f : A -> res B) : res B :=
  match r with Ok a => f a | Err e => Err e end.

Fixpoint mapM {A B} (f : A -> res B) (l : list A) : res (list B) :=
  match l with
  | [] => Ok []
  | x :: l' => bind (f x) (fun y => bind (mapM f l') (fun r => Ok (y :: r)))
  end.

(** ** utils/uri.py, utils/dict.py, utils/namespaces.py *)

Definition add_corners (u : str) : str := Str "<" ++ u ++ Str ">".

Definition has_corners (u : str) : bool := prefixb (Str "<") u && suffixb (Str ">") u.

(** [remove_corners(a_uri, raise_error_if_no_corners)] *)
Definition remove_corners (raise_err : bool) (u : str) : res str :=
  if has_corners u then Ok (slice u 1 (-1))
  else if raise_err then Err ExValue else Ok u.

Definition remove_corners_noraise (u : str) : str :=
  if has_corners u then slice u 1 (-1) else u.

(** a dictionary prefix -> namespace *)
Definition pdict := dict str.

(** [{y: x for x, y in target_dict.items()}]: a repeated prefix keeps its first
    position and takes its last namespace *)
Definition reverse_keys_and_values (ns : dict str) : pdict :=
  fold_left (fun d e => dset d (snd e) (fst e)) ns [].

(** first prefix of the dictionary (iteration order) with [s.startswith(prefix + ":")] *)
Fixpoint first_prefix (pd : pdict) (s : str) : option (str * str) :=
  match pd with
  | [] => None
  | (p, n) :: pd' => if prefixb (p ++ Str ":") s then Some (p, n) else first_prefix pd' s
  end.

(** [uri.replace(prefix + ":", namespace)] -- every occurrence -- or
    [uri.replace(prefix + ":", namespace, 1)] -- the leading one only (C10-F9).
    Two copies of that line in the code, one flag each from gen_consts. *)
Definition unprefix_with (once : bool) (p n s : str) : str :=
  if once then replace_once (p ++ Str ":") n s else replace_all (p ++ Str ":") n s.

(** the line inside utils/uri.py [unprefixize_uri_if_possible] *)
Definition unprefix (p n s : str) : str := unprefix_with c_unprefix_ifp_once p n s.

(** [NodeSelectorParser._unprefix_uri] *)
Definition unprefix_sel (p n s : str) : str := unprefix_with c_unprefix_sel_once p n s.

Definition unprefixize_uri_if_possible (target : str) (pd : pdict) (corners : bool) : str :=
  match first_prefix pd target with
  | Some (p, n) => let r := unprefix p n target in if corners then add_corners r else r
  | None => target
  end.

(** [find_adequate_prefix_for_shapes_namespaces]; [None] = the random-prefix branch *)
Definition find_adequate_prefix (ns : dict str) : option str :=
  List.find (fun p => negb (mem_str p (map snd ns))) c_PRIORITY_PREFIXES_FOR_SHAPES.

(** ** utils/target_elements.py and friends *)

Definition tune_one_class (pd : pdict) (c : str) : res str :=
  if prefixb (Str "<") c then remove_corners true c
  else Ok (unprefixize_uri_if_possible c pd false).

Definition tune_target_classes (l : list str) (pd : pdict) : res (list str) :=
  mapM (tune_one_class pd) l.

(** [read_target_classes_from_file]: the stripped non-empty lines *)
Definition file_lines_stripped (content : str) : list str :=
  filter (fun l => negb (str_eqb l [])) (map strip (split nl content)).

(** [create_IRIs_from_string_list] *)
Definition model_classes (l : list str) : list str := map remove_corners_noraise l.

(** ** the label parser *)

Definition parse_label (pd : pdict) (raw : str) : res str :=
  if (len raw <? 2) || has_corners raw then Ok raw
  else
    let i := find (Str ":") raw in
    if (i =? -1) then Err ExValue
    else match dget pd (slice_to raw i) with
         | Some n =>
           (* two shapes of the code (C10-F2), told apart by gen_consts *)
           if c_sm_label_bracketed then Ok (add_corners (n ++ slice_from raw (i + 1)))
           else Ok (c_STARTING_CHAR_FOR_SHAPE_NAME ++ n ++ slice_from raw (i + 1))
         | None => Err ExValue
         end.

(** ** the node-selector parser *)

Inductive psel :=
| PSNode (target : str)        (* NodeSelectorNoSparql *)
| PSNone                       (* _parse_prefixed_node_selector fell off its loop: None *)
| PSFocus (s p o : str)        (* NodeSelectorSparql for SELECT ?f WHERE { s p o . } *)
| PSSparql (q : str).          (* NodeSelectorSparql for a user-written query (text between the quotes) *)

(** [_parse_uri_focus_expression] *)
Definition parse_uri_focus (pd : pdict) (tok : str) : res str :=
  if str_eqb tok c_sel_a_token then Ok (add_corners c_uri_RDF_TYPE)
  else if suffixb (Str ">") tok then
    if prefixb (Str "<") tok then Ok tok else Err ExValue
  else match first_prefix pd tok with
       | Some (p, n) => Ok (add_corners (unprefix_sel p n tok))
       | None => Err ExValue
       end.

(** [_parse_subj_obj_focus_expression] *)
Definition parse_subj_obj_focus (pd : pdict) (tok : str) (count : nat) : res (str * nat) :=
  if str_eqb (lower tok) c_sel_FOCUS_LOWER then Ok (c_sel_FOCUS_VARIABLE, S count)
  else if str_eqb tok c_sel_WILDCARD then Ok (c_sel_WILDCARD_VARIABLE, count)
  else bind (parse_uri_focus pd tok) (fun u => Ok (u, count)).

Definition first_char_is (c : ascii) (s : str) : bool :=
  match s with x :: _ => Ascii.eqb x c | [] => false end.

Definition last_char_is (c : ascii) (s : str) : bool :=
  match at_idx s (-1) with Some x => Ascii.eqb x c | None => false end.

(** [_parse_focus_expression] *)
Definition parse_focus (pd : pdict) (raw : str) : res psel :=
  if negb (first_char_is "{"%char raw) || negb (last_char_is "}"%char raw)
  then Err ExType                                     (* "..." * raw_selector *)
  else
    let pieces := split (Str " ") (collapse_blanks (strip (slice raw 1 (-1)))) in
    match pieces with
    | [t1; t2; t3] =>
      bind (parse_subj_obj_focus pd t1 0%nat) (fun '(s, c1) =>
      bind (parse_uri_focus pd t2) (fun p =>
      bind (parse_subj_obj_focus pd t3 c1) (fun '(o, c2) =>
      if Nat.eqb c2 1%nat then Ok (PSFocus s p o) else Err ExValue)))
    | _ => Err ExValue
    end.

Definition is_quote (c : ascii) : bool := mem_str [c] c_sel_QUOTES.

(** [raw_selector.replace("SPARQL", "")] -- every occurrence of the keyword, also
    inside the query text (findings C10-F10, C15-F10) -- or
    [raw_selector.replace("SPARQL", "", 1)] -- the leading keyword only (the
    selector starts with it).  One flag from gen_consts. *)
Definition strip_sparql_kw (raw : str) : str :=
  if c_sel_sparql_strip_once then replace_once c_sel_sparql_kw [] raw else replace_all c_sel_sparql_kw [] raw.

(** [_parse_sparql_expression]; [wf] = does [sparql.prepareQuery] accept the text *)
Definition parse_sparql (wf : str -> bool) (raw : str) : res psel :=
  let s := strip (strip_sparql_kw raw) in
  match s, at_idx s (-1) with
  | c0 :: _, Some cn =>
    if is_quote c0 && is_quote cn then
      let q := slice s 1 (-1) in
      let head := slice_to q (find (Str "{") q) in
      if negb (wf q) then Err ExValue
      else if negb (contains (Str "select") (lower head)) then Err ExValue
      else if negb (Nat.eqb (count_char "?"%char head) 1%nat) then Err ExValue
      else Ok (PSSparql q)
    else Err ExValue
  | _, _ => Err ExIndex                                (* raw_string[0] on "" *)
  end.

(** [parse_node_selector] *)
Definition parse_node_selector (wf : str -> bool) (pd : pdict) (raw0 : str) : res psel :=
  let raw := strip raw0 in
  if prefixb (nth 0%nat c_sel_dispatch []) raw then
    bind (remove_corners true raw) (fun t => Ok (PSNode t))
  else if prefixb (nth 1%nat c_sel_dispatch []) raw then parse_focus pd raw
  else if prefixb (nth 2%nat c_sel_dispatch []) raw then parse_sparql wf raw
  else match first_prefix pd raw with
       | Some (p, n) => Ok (PSNode (unprefix_sel p n raw))
       | None => Ok PSNone
       end.

(** ** shape-map parsers *)

Record pitem := { pi_sel : psel; pi_label : str }.

(** [RawStringLineReader.read_lines] followed by the parser's own [strip] and
    [_is_an_empty_line] *)
Definition fixed_item_lines (text : str) : list str :=
  filter (fun l => negb (first_char_is (nth 0%nat c_sm_comment_char " "%char) l))
         (map strip (filter (fun l => negb (str_eqb (strip l) [])) (split nl text))).

(** [_remove_trailing_comma]; a line is never empty here *)
Definition remove_trailing_comma (line : str) : str :=
  if last_char_is (nth 0%nat c_sm_trailing_char " "%char) line then slice_to line (-1) else line.

(** [_parse_shape_map_item_from_line]: the label is parsed first (keyword
    arguments are evaluated in the order written) *)
(** [line.split("@")] (every '@') or [line.rsplit("@", 1)] (the last '@' only):
    two shapes of the code (C10-F3), told apart by gen_consts *)
Definition split_item (line : str) : list str :=
  if c_sm_item_rsplit then
    let i := rfind c_sm_item_sep line in
    if i =? -1 then [line] else [slice_to line i; slice_from line (i + len c_sm_item_sep)]
  else split c_sm_item_sep line.

Definition parse_fixed_item (wf : str -> bool) (pd : pdict) (line : str) : res pitem :=
  match split_item (remove_trailing_comma line) with
  | [a; b] =>
    bind (parse_label pd (strip b)) (fun l =>
    bind (parse_node_selector wf pd (strip a)) (fun s => Ok {| pi_sel := s; pi_label := l |}))
  | _ => Err ExValue
  end.

Definition parse_fixed (wf : str -> bool) (pd : pdict) (text : str) : res (list pitem) :=
  mapM (parse_fixed_item wf pd) (fixed_item_lines text).

(** [JsonShapeMapParser]: the decoded (nodeSelector, shapeLabel) pairs; the
    selector is parsed first *)
Definition parse_json_item (wf : str -> bool) (pd : pdict) (e : str * str) : res pitem :=
  bind (parse_node_selector wf pd (fst e)) (fun s =>
  bind (parse_label pd (snd e)) (fun l => Ok {| pi_sel := s; pi_label := l |})).

Definition parse_json (wf : str -> bool) (pd : pdict) (l : list (str * str)) : res (list pitem) :=
  mapM (parse_json_item wf pd) l.

(** ** evaluation of selectors over the rdflib-backed graph *)

Record oracles := {
  o_rid : str -> str;          (* rdflib's identifier of the blank node the document calls [_:x] *)
  o_wf : str -> bool;          (* sparql.prepareQuery accepts the query text *)
  o_ans : str -> list obj;     (* first column of rdflib's answer to a SPARQL selector *)
  o_dis0 : N;                  (* abstract_instance_tracker._TRACKERS_DISAM_COUNT before the call *)
  o_rand_prefix : str          (* what get_random_string returns (never reached with < 4 reserved prefixes in use) *)
}.

(** the rdflib graph holds each triple once *)
Fixpoint dedup (g : graph) (seen : graph) : graph :=
  match g with
  | [] => []
  | t :: g' => if existsb (triple_eqb t) seen then dedup g' seen else t :: dedup g' (t :: seen)
  end.

Definition rdflib_graph (g : graph) : graph := dedup g [].

(** [str(a_row[0])] in [query_single_variable] *)
Definition rdflib_str (rid : str -> str) (x : obj) : str :=
  match x with
  | ON (Node KIri i) => i
  | ON (Node KBnode b) => rid b
  | OL c _ => c
  end.

(** does a token of the generated query ([?f], [?x] or [<iri>]) match a term *)
Definition tok_is_var (tok : str) : bool := first_char_is "?"%char tok.

Definition tok_matches (tok : str) (x : obj) : bool :=
  tok_is_var tok ||
  match x with
  | ON (Node KIri i) => str_eqb tok (add_corners i)
  | _ => false
  end.

(** the rows of [SELECT ?f WHERE { s p o . }]: one per matching triple *)
Definition focus_rows (s p o : str) (g : graph) : list obj :=
  flat_map (fun t =>
    if tok_matches s (ON (ts t)) && tok_matches p (ON (Node KIri (tp t))) && tok_matches o (to t)
    then [if str_eqb s c_sel_FOCUS_VARIABLE then ON (ts t) else to t]
    else []) g.

(** [get_target_nodes] *)
Definition sel_targets (orc : oracles) (g : graph) (s : psel) : res (list str) :=
  match s with
  | PSNode t => Ok [t]
  | PSNone => Err ExAttr
  | PSFocus s p o => Ok (map (rdflib_str (o_rid orc)) (focus_rows s p o (rdflib_graph g)))
  | PSSparql q => Ok (map (rdflib_str (o_rid orc)) (o_ans orc q))
  end.

(** ** ShapeMapInstanceTracker *)

(** [_solve_targets_of_an_item]: append, guarded by a membership test in the
    newer shape of the code (C10-F4; flag from gen_consts) *)
Definition add_label (d : insts) (node label : str) : insts :=
  dupd d node [] (fun l => if c_sm_dedup_labels && mem_str label l then l else l ++ [label]).

Definition solve_item (orc : oracles) (g : graph) (d : insts) (it : pitem) : res insts :=
  bind (sel_targets orc g (pi_sel it)) (fun nodes =>
  Ok (fold_left (fun acc n => add_label acc n (pi_label it)) nodes d)).

Fixpoint track_items (orc : oracles) (g : graph) (items : list pitem) (d : insts) : res insts :=
  match items with
  | [] => Ok d
  | it :: items' => bind (solve_item orc g d it) (fun d' => track_items orc g items' d')
  end.

(** ** MixedInstanceTracker._integrate_dicts *)

Definition all_classes_in (d : insts) : list str := flat_map snd d.

(** the classes of one instance of the new dictionary; [n] = global counter *)
Fixpoint integrate_classes (orig cs : list str) (n : N) : list str * N :=
  match cs with
  | [] => ([], n)
  | c :: cs' =>
    if mem_str c orig then
      let n1 := (n + 1)%N in
      let '(r, n2) := integrate_classes orig cs' n1 in
      ((c_disamb_prefix_class ++ dec_of_N n1 ++ c) :: r, n2)
    else
      let '(r, n2) := integrate_classes orig cs' n in
      (c :: r, n2)
  end.

Fixpoint integrate_entries (orig : list str) (new : insts) (ref : insts) (n : N) : insts * N :=
  match new with
  | [] => (ref, n)
  | (i, cs) :: new' =>
    let '(cs', n') := integrate_classes orig cs n in
    integrate_entries orig new' (dupd ref i [] (fun l => l ++ cs')) n'
  end.

Definition integrate_dicts (ref new : insts) (n : N) : insts * N :=
  integrate_entries (all_classes_in ref) new ref n.

(** ** the run: Shaper(...) followed by _launch_instance_tracker() *)

Inductive classes_in := CNone | CList (l : list str) | CFile (content : str).
Inductive smap_in := SMNone | SMFixed (text : str) | SMJson (pairs : list (str * str)).

Record tspec := {
  sp_ns : dict str;            (* namespaces_dict: namespace -> prefix *)
  sp_tau : str;                (* instantiation_property as passed *)
  sp_classes : classes_in;     (* target_classes | content of file_target_classes *)
  sp_all : bool;               (* all_classes_mode *)
  sp_smap : smap_in            (* shape_map_raw / content of shape_map_file, by shape_map_format *)
}.

Inductive outcome :=
| OOk (d : insts)
| OCtorErr (e : exn)           (* raised by Shaper(...) *)
| OTrackErr (e : exn).         (* raised by _launch_instance_tracker() *)

(** [Shaper._check_target_classes] restricted to the three inputs of [tspec] *)
Definition check_targets (sp : tspec) : bool :=
  let has_c := match sp_classes sp with CNone => false | _ => true end in
  let has_m := match sp_smap sp with SMNone => false | _ => true end in
  if sp_all sp then negb has_c else xorb has_c has_m.

(** instantiation property: Shaper.__init__ (user's prefixes only) then
    [_decide_instantiation_property] *)
Definition tau_of (sp : tspec) : str :=
  remove_corners_noraise
    (unprefixize_uri_if_possible (sp_tau sp) (reverse_keys_and_values (sp_ns sp)) false).

(** [_add_shapes_namespaces_to_namespaces_dict] *)
Definition ns_with_shapes (orc : oracles) (sp : tspec) : dict str :=
  dset (sp_ns sp) dflt_shapes_namespace
       (match find_adequate_prefix (sp_ns sp) with Some p => p | None => o_rand_prefix orc end).

Definition parse_smap (orc : oracles) (pd : pdict) (m : smap_in) : res (option (list pitem)) :=
  match m with
  | SMNone => Ok None
  | SMFixed text => bind (parse_fixed (o_wf orc) pd text) (fun l => Ok (Some l))
  | SMJson pairs => bind (parse_json (o_wf orc) pd pairs) (fun l => Ok (Some l))
  end.

(** the pure tracker's mode; [Err ExValue] = "There are not target classes" *)
Definition pure_mode (sp : tspec) (pd : pdict) : res (option tmode) :=
  let of_list (l : list str) :=
    bind (tune_target_classes l pd) (fun tuned =>
    let mc := model_classes tuned in
    if sp_all sp then Ok (Some TAll)      (* unreachable through Shaper: rejected by check_targets *)
    else match mc with [] => Err ExValue | _ => Ok (Some (TClasses mc)) end) in
  match sp_classes sp with
  | CList l => of_list l
  | CFile content => of_list (file_lines_stripped content)
  | CNone => if sp_all sp then Ok (Some TAll) else Ok None
  end.

Definition of_terr {A} (r : A + terr) : res A :=
  match r with inl a => Ok a | inr TEAttr => Err ExAttr end.

Definition run (orc : oracles) (sp : tspec) (g : graph) : outcome :=
  if negb (check_targets sp) then OCtorErr ExValue
  else
    let pd := reverse_keys_and_values (ns_with_shapes orc sp) in
    match parse_smap orc pd (sp_smap sp) with
    | Err e => OCtorErr e
    | Ok items =>
      match pure_mode sp pd with
      | Err e => OTrackErr e
      | Ok mode =>
        let sel := match items with
                   | Some its => Some (track_items orc g its [])
                   | None => None
                   end in
        let pure := match mode with
                    | Some m => Some (of_terr (track_plain (tau_of sp) m g []))
                    | None => None
                    end in
        match sel, pure with
        | Some (Err e), _ => OTrackErr e
        | Some (Ok d), None => OOk d
        | Some (Ok d), Some (Ok d2) => OOk (fst (integrate_dicts d d2 (o_dis0 orc)))
        | Some (Ok _), Some (Err e) => OTrackErr e
        | None, Some (Ok d2) => OOk d2
        | None, Some (Err e) => OTrackErr e
        | None, None => OTrackErr ExAttr     (* unreachable after check_targets: tracker would be None *)
        end
      end
    end.
